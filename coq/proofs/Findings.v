(* Findings.v — the dependency hypothesis of the refinement theorem cannot be dropped:
   witness D2 (a method reads an assigned field through its receiver), run on the IMPL-MODEL.
   The same scenario fails on the real engine (tools/harness/regress.go, known_findings.json).
   D3 (an element read through a computed selector and written through a constant one) was a second
   family of witnesses until the engine was repaired (WorkingMemory.ResetElement, Eval.reset_assigned);
   its scenarios are kept in the harness as passing regressions. *)
From Grule Require Import Base Values Syntax EngineGen EngineAbs Facts Eval Fresh Engine Methods
     EngineProofs StateTrack Refinement RefineTheorems.
Open Scope Z_scope.

Definition nometh := fact_meth.
Definition nopanic := fact_panics_inside.
Definition nomut : string -> bool := fun f => String.eqb f "Inc" || String.eqb f "AddTo".

Definition d2_rules : list rule :=
  [{| rname := "R0"%string; rdesc := "d2"%string; rsal := 0;
      rwhen := EBin OLT (EAtom (AMethod (AVar (VName "F"%string)) "GetI64"%string ENil)) (EAtom (AConst (CInt 3)));
      rthen := [SAssign (VMember (VName "F"%string) "I64"%string) AsSet
                        (EBin OAdd (EAtom (AVar (VMember (VName "F"%string) "I64"%string))) (EAtom (AConst (CInt 1))))] |}].
Definition d2_facts : facts :=
  [("F"%string, FPtr (Some (FStruct [("I64"%string, FV (VInt I64 0))])))].
Definition d2_entries : list entry :=
  [{| e_key := "R0"%string; e_name := "R0"%string; e_sal := 0; e_retracted := false; e_deleted := false |}].
Definition d2_cfg : config := {| c_max := 6; c_reterr := false; c_cancel := None |}.

Definition d2_run :=
  execute estate (rule_cond (vars_rules d2_rules) nometh nopanic d2_rules) (rule_act (vars_rules d2_rules) nometh nopanic d2_rules)
          reset_all 10%nat d2_cfg (fun _ l => l) (init_estate d2_facts) d2_entries.
Definition d2_recs : list cycle_rec := Eval vm_compute in snd (fst d2_run).

Lemma d2_rules_ok : rules_ok d2_rules nomut.
Proof. intros r [<-|[]]. split; [reflexivity|]. repeat constructor. Qed.

Definition d2_pre : list cycle_rec := Eval vm_compute in firstn 3 d2_recs.
Definition d2_post : list cycle_rec := Eval vm_compute in skipn 4 d2_recs.
Definition d2_r : cycle_rec :=
  Eval vm_compute in nth 3 d2_recs {| cr_begin := 0; cr_evals := []; cr_exec := None; cr_started := false; cr_fx := []; cr_act_chk := 0 |}.
Definition d2_facts_then : facts := Eval vm_compute in facts_after d2_rules nometh d2_facts d2_pre.

(* C01 as stated in RefineTheorems.v, but without the dependency hypothesis, is false of the faithful model:
   the fourth cycle fires R0 although its condition, evaluated from scratch on the facts of that moment, is false *)
Theorem C01_without_dependency_hypothesis_refuted :
  rules_ok d2_rules nomut /\ NoDup (map e_key d2_entries) /\
  snd (fst d2_run) = d2_recs /\
  exists pre r post n k, d2_recs = (pre ++ r :: post)%list /\ cr_exec r = Some (n, k) /\ cr_started r = true /\
    when_from_scratch d2_rules nometh (facts_after d2_rules nometh d2_facts pre) k = CFalse.
Proof.
  split; [exact d2_rules_ok|]. split; [repeat constructor; simpl; tauto|].
  split; [vm_compute; reflexivity|].
  exists d2_pre, d2_r, d2_post, 4, "R0"%string.
  split; [reflexivity|]. split; [reflexivity|]. split; [reflexivity|].
  change (facts_after d2_rules nometh d2_facts d2_pre) with d2_facts_then.
  vm_compute. reflexivity.
Qed.

Definition d2_sf := Eval vm_compute in fst (fst d2_run).
Definition d2_o := Eval vm_compute in snd d2_run.
Lemma d2_run_eq : d2_run = (d2_sf, d2_recs, d2_o).
Proof. vm_compute. reflexivity. Qed.

(* Together with C01_proved (RefineTheorems.v) this shows that d2_rules does not satisfy the dependency
   hypothesis: the hypothesis is a genuine restriction on rule sets, and it is exactly the recorded
   finding D2 that falls outside it. *)
