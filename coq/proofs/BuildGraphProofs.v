(* BuildGraphProofs.v — the graph the builder makes from ANY sequence of accepted and rejected resources (walk of the
   listener, roll-back to the checkpoint on rejection) is well formed and CLOSED (no orphan in the working memory), so
   NewKnowledgeBaseInstance succeeds on it (C09_clone); without the roll-back a refused rule leaves an orphan (D10a). *)
From Coq Require Import List String Bool Lia Arith.
From Grule Require Import Base Clone BuildGraph CloneProofs.
Import ListNotations.
Open Scope nat_scope.
Open Scope list_scope.

(* ---- trees ---- *)
Fixpoint tree_ind' (P : tree -> Prop) (H : forall k l ks, Forall P ks -> P (Tr k l ks)) (t : tree) : P t :=
  match t with
  | Tr k l ks => H k l ks ((fix go (ks : list tree) : Forall P ks :=
                              match ks with [] => Forall_nil P | x :: r => Forall_cons x (tree_ind' P H x) (go r) end) ks)
  end.

Lemma tree_eqb_refl : forall t, tree_eqb t t = true.
Proof.
  induction t as [k l ks IH] using tree_ind'. simpl. rewrite !String.eqb_refl. simpl.
  induction IH as [|x r Hx _ IHr]; auto. rewrite Hx. simpl. exact IHr.
Qed.

Lemma tree_eqb_eq : forall a b, tree_eqb a b = true -> a = b.
Proof.
  induction a as [k l ks IH] using tree_ind'. intros [k2 l2 ks2]. simpl. intros H.
  apply andb_true_iff in H. destruct H as (H & Hk). apply andb_true_iff in H. destruct H as (H1 & H2).
  apply String.eqb_eq in H1. apply String.eqb_eq in H2. subst. f_equal.
  revert ks2 Hk. induction IH as [|x r Hx _ IHr]; intros [|y ys] Hk; try discriminate; auto.
  apply andb_true_iff in Hk. destruct Hk as (A & Bk). f_equal; auto.
Qed.

Fixpoint size (t : tree) : nat := match t with Tr _ _ ks => S (fold_right (fun c n => size c + n) 0 ks) end.

Lemma size_kid : forall k l ks c, In c ks -> size c < size (Tr k l ks).
Proof.
  intros k l ks c H. simpl. induction ks as [|x r IH]; simpl in *; [contradiction|]. destruct H as [->|H]; [lia|].
  specialize (IH H). lia.
Qed.

Inductive sub : tree -> tree -> Prop :=
| sub_refl : forall t, sub t t
| sub_kid : forall k l ks c s, In c ks -> sub c s -> sub (Tr k l ks) s.

Lemma sub_size : forall t s, sub t s -> size s <= size t.
Proof. intros t s H. induction H; auto. pose proof (size_kid k l ks c H). lia. Qed.

Definition isub (t s : tree) : Prop := sub t s /\ interned (t_kind s) = true.

Definition wkeys (wm : list (tree * nat)) : list tree := map fst wm.

Lemma wm_find_some : forall t wm i, wm_find t wm = Some i -> In (t, i) wm.
Proof.
  induction wm as [|[s j] wm IH]; simpl; intros i H; [discriminate|].
  destruct (tree_eqb t s) eqn:E.
  - apply tree_eqb_eq in E. inversion H. subst. left. reflexivity.
  - right. auto.
Qed.

Lemma wm_find_none : forall t wm, wm_find t wm = None -> ~ In t (wkeys wm).
Proof.
  induction wm as [|[s j] wm IH]; simpl; intros H; [tauto|].
  destruct (tree_eqb t s) eqn:E; [discriminate|]. intros [A|A].
  - subst. rewrite tree_eqb_refl in E. discriminate.
  - apply IH; auto.
Qed.

(* ---- graph extension ---- *)
Definition gext (g g' : graph) : Prop := forall i nd, glookup i g = Some nd -> glookup i g' = Some nd.

Lemma desc_ext : forall g g' a b, gext g g' -> desc g a b -> desc g' a b.
Proof. intros g g' a b He H. induction H; [apply desc_refl|]. eapply desc_kid; eauto. Qed.

(* ---- the invariant of the builder state ---- *)
Definition SC (wm : list (tree * nat)) : Prop := forall s i, In (s, i) wm -> forall s', isub s s' -> In s' (wkeys wm).

Record J (st : bst) : Prop := mk_J {
  j_lt : forall id nd, glookup id (b_g st) = Some nd -> id < b_next st;
  j_kids : forall id nd, glookup id (b_g st) = Some nd -> forall k, In k (n_kids nd) -> k < id /\ exists ndk, glookup k (b_g st) = Some ndk;
  j_nd : NoDup (gdom (b_g st));
  j_wm : forall s i, In (s, i) (b_wm st) -> exists nd, glookup i (b_g st) = Some nd;
  j_sc : SC (b_wm st)
}.

Record R (t : tree) (st st' : bst) (id : nat) : Prop := mk_R {
  r_j : J st';
  r_new : exists new, b_wm st' = new ++ b_wm st /\ forall s i, In (s, i) new -> sub t s /\ desc (b_g st') id i;
  r_ext : gext (b_g st) (b_g st') /\ b_next st <= b_next st';
  r_id : exists nd, glookup id (b_g st') = Some nd;
  r_same : (forall s, isub t s -> In s (wkeys (b_wm st))) -> b_wm st' = b_wm st;
  r_all : forall s, isub t s -> In s (wkeys (b_wm st'))
}.

Record RL (ks : list tree) (st st' : bst) (ids : list nat) : Prop := mk_RL {
  l_j : J st';
  l_new : exists new, b_wm st' = new ++ b_wm st /\
            forall s i, In (s, i) new -> exists k j, In k ks /\ In j ids /\ sub k s /\ desc (b_g st') j i;
  l_ext : gext (b_g st) (b_g st') /\ b_next st <= b_next st';
  l_ids : forall j, In j ids -> exists nd, glookup j (b_g st') = Some nd;
  l_same : (forall k s, In k ks -> isub k s -> In s (wkeys (b_wm st))) -> b_wm st' = b_wm st;
  l_all : forall k s, In k ks -> isub k s -> In s (wkeys (b_wm st'))
}.

Lemma app_eq_self : forall A (a l : list A), a ++ l = l -> a = [].
Proof.
  intros A a l H. assert (E : List.length (a ++ l) = List.length l) by (rewrite H; reflexivity).
  rewrite app_length in E. destruct a; auto. simpl in E. lia.
Qed.

Lemma wkeys_app : forall a b, wkeys (a ++ b) = wkeys a ++ wkeys b.
Proof. intros. unfold wkeys. apply map_app. Qed.

Lemma build_kids_spec : forall ks,
  Forall (fun k => forall st, J st -> forall st' id, build_tree k st = (st', id) -> R k st st' id) ks ->
  forall st, J st -> forall st' ids, build_kids build_tree ks st = (st', ids) -> RL ks st st' ids.
Proof.
  induction ks as [|k ks IH]; intros HF st Hj st' ids H; simpl in H.
  - inversion H; subst. constructor; auto.
    + exists []. split; auto. intros s i [].
    + split; [intros i nd Hi; exact Hi|lia].
    + intros j [].
    + intros k s [].
  - inversion HF as [|? ? Hk HFr]; subst.
    destruct (build_tree k st) as [sa i] eqn:Ea. destruct (build_kids build_tree ks sa) as [sb r] eqn:Eb. inversion H; subst. clear H.
    pose proof (Hk st Hj sa i Ea) as Ra. pose proof (IH HFr sa (r_j _ _ _ _ Ra) st' r Eb) as Rb.
    destruct (r_new _ _ _ _ Ra) as (na & Ena & Hna). destruct (l_new _ _ _ _ Rb) as (nb & Enb & Hnb).
    destruct (r_ext _ _ _ _ Ra) as (Xa & La). destruct (l_ext _ _ _ _ Rb) as (Xb & Lb).
    constructor.
    + exact (l_j _ _ _ _ Rb).
    + exists (nb ++ na). split; [rewrite Enb, Ena, app_assoc; reflexivity|].
      intros s j Hin. apply in_app_or in Hin. destruct Hin as [Hin|Hin].
      * destruct (Hnb s j Hin) as (k0 & j0 & A1 & A2 & A3 & A4). exists k0, j0. simpl. auto.
      * destruct (Hna s j Hin) as (A3 & A4). exists k, i. simpl. split; auto. split; auto. split; auto.
        eapply desc_ext; eauto.
    + split; [intros j nd Hj0; apply Xb; apply Xa; exact Hj0|lia].
    + intros j [<-|Hj0].
      * destruct (r_id _ _ _ _ Ra) as (nd & Hnd). exists nd. apply Xb. exact Hnd.
      * apply (l_ids _ _ _ _ Rb). exact Hj0.
    + intros Hall. rewrite (l_same _ _ _ _ Rb).
      * apply (r_same _ _ _ _ Ra). intros s Hs. apply (Hall k s); simpl; auto.
      * intros k0 s Hk0 Hs. rewrite Ena, wkeys_app. apply in_or_app. right. apply (Hall k0 s); simpl; auto.
    + intros k0 s [<-|Hk0] Hs.
      * rewrite Enb, wkeys_app. apply in_or_app. right. apply (r_all _ _ _ _ Ra). exact Hs.
      * apply (l_all _ _ _ _ Rb k0 s Hk0 Hs).
Qed.

Lemma J_cons : forall st id nd wm',
  J st -> id = b_next st ->
  (forall k, In k (n_kids nd) -> exists ndk, glookup k (b_g st) = Some ndk) ->
  (forall s i, In (s, i) wm' -> In (s, i) (b_wm st) \/ i = id) -> SC wm' ->
  J {| b_g := (id, nd) :: b_g st; b_wm := wm'; b_next := S id |}.
Proof.
  intros st id nd wm' Hj -> Hk Hw Hsc. destruct Hj as [Jlt Jkids Jnd Jwm Jsc].
  assert (Hfresh : ~ In (b_next st) (gdom (b_g st))).
  { intros Hi. unfold gdom in Hi. apply in_map_iff in Hi. destruct Hi as ((i, n) & E & Hin). simpl in E. subst i.
    apply in_glookup in Hin; auto. apply Jlt in Hin. lia. }
  constructor; simpl.
  - intros i n H. destruct (Nat.eqb i (b_next st)) eqn:E; [apply Nat.eqb_eq in E; lia|]. apply Jlt in H. lia.
  - intros i n H k Hkin. destruct (Nat.eqb i (b_next st)) eqn:E.
    + apply Nat.eqb_eq in E. inversion H; subst. destruct (Hk k Hkin) as (ndk & Hndk). split; [apply Jlt in Hndk; exact Hndk|].
      exists ndk. destruct (Nat.eqb k (b_next st)) eqn:E2; auto. apply Nat.eqb_eq in E2. apply Jlt in Hndk. lia.
    + destruct (Jkids i n H k Hkin) as (A & ndk & Hndk). split; auto. exists ndk.
      destruct (Nat.eqb k (b_next st)) eqn:E2; auto. apply Nat.eqb_eq in E2. apply Jlt in Hndk. lia.
  - constructor; auto.
  - intros s i Hin. destruct (Hw s i Hin) as [H | ->].
    + destruct (Jwm s i H) as (n & Hn). exists n. destruct (Nat.eqb i (b_next st)) eqn:E; auto. apply Nat.eqb_eq in E. apply Jlt in Hn. lia.
    + exists nd. rewrite Nat.eqb_refl. reflexivity.
  - exact Hsc.
Qed.

Lemma gext_cons : forall st id nd, J st -> id = b_next st -> gext (b_g st) ((id, nd) :: b_g st).
Proof.
  intros st id nd Hj -> i n H. simpl. destruct (Nat.eqb i (b_next st)) eqn:E; auto. apply Nat.eqb_eq in E. apply (j_lt _ Hj) in H. lia.
Qed.

Theorem build_tree_spec : forall t st, J st -> forall st' id, build_tree t st = (st', id) -> R t st st' id.
Proof.
  induction t as [kind label kids IH] using tree_ind'. intros st Hj st' id H. simpl in H.
  destruct (build_kids build_tree kids st) as [st1 ids] eqn:Ek.
  pose proof (build_kids_spec kids IH st Hj st1 ids Ek) as RLk.
  destruct (l_new _ _ _ _ RLk) as (nk & Enk & Hnk). destruct (l_ext _ _ _ _ RLk) as (Xk & Lk).
  pose proof (l_j _ _ _ _ RLk) as J1.
  set (t := Tr kind label kids) in *.
  set (nd := {| n_kind := kind; n_label := label; n_kids := ids |}) in *.
  assert (Hkids_ex : forall k, In k (n_kids nd) -> exists ndk, glookup k (b_g st1) = Some ndk) by (intros k Hk; apply (l_ids _ _ _ _ RLk); exact Hk).
  assert (Hsub_kid : forall k s, In k kids -> sub k s -> sub t s) by (intros k s Hk Hs; eapply sub_kid; eauto).
  assert (Hisub_cases : forall s, isub t s -> s = t \/ exists k, In k kids /\ isub k s).
  { intros s (Hs & Hi). inversion Hs; subst; auto. right. exists c. split; auto. split; auto. }
  assert (Hnew_desc : forall id0, glookup id0 ((id0, nd) :: b_g st1) = Some nd -> id0 = b_next st1 ->
             forall s i, In (s, i) nk -> sub t s /\ desc ((id0, nd) :: b_g st1) id0 i).
  { intros id0 Hl -> s i Hin. destruct (Hnk s i Hin) as (k & j & A1 & A2 & A3 & A4). split; [eauto|].
    eapply desc_kid; [exact Hl|exact A2|]. eapply desc_ext; [|exact A4]. apply gext_cons; auto. }
  destruct (interned kind) eqn:Ei.
  - destruct (wm_find t (b_wm st1)) as [old|] eqn:Ef.
    + (* already registered *)
      inversion H; subst st' id. clear H.
      assert (Hin1 : In (t, old) (b_wm st1)) by (apply wm_find_some; exact Ef).
      assert (Hin0 : In (t, old) (b_wm st)).
      { rewrite Enk in Hin1. apply in_app_or in Hin1. destruct Hin1 as [Hin1|]; auto.
        destruct (Hnk t old Hin1) as (k & j & A1 & _ & A3 & _). apply sub_size in A3. pose proof (size_kid kind label kids k A1). fold t in H. lia. }
      assert (Hsame : b_wm st1 = b_wm st).
      { apply (l_same _ _ _ _ RLk). intros k s Hk (Hs & Hi). apply (j_sc _ Hj t old Hin0). split; eauto. }
      constructor; auto.
      * exists []. split; [rewrite Hsame; reflexivity|]. intros s i [].
      * apply (j_wm _ J1 t old Hin1).
      * intros s Hs. rewrite Hsame. apply (j_sc _ Hj t old Hin0). exact Hs.
    + (* registered now *)
      inversion H; subst st' id. clear H.
      assert (Hl : glookup (b_next st1) ((b_next st1, nd) :: b_g st1) = Some nd) by (simpl; rewrite Nat.eqb_refl; reflexivity).
      assert (Hall1 : forall s, isub t s -> In s (wkeys ((t, b_next st1) :: b_wm st1))).
      { intros s Hs. destruct (Hisub_cases s Hs) as [->|(k & Hk & Hks)]; [left; reflexivity|]. right. apply (l_all _ _ _ _ RLk k s Hk Hks). }
      constructor.
      * apply J_cons; auto.
        -- intros s i [E|Hin]; [inversion E; auto|auto].
        -- intros s i [E|Hin] s' Hs'.
           ++ inversion E; subst. apply Hall1. exact Hs'.
           ++ right. apply (j_sc _ J1 s i Hin s' Hs').
      * exists ((t, b_next st1) :: nk). simpl. split; [rewrite Enk; reflexivity|].
        intros s i [E|Hin].
        -- inversion E; subst. split; [apply sub_refl|apply desc_refl].
        -- apply Hnew_desc; auto.
      * split; [|simpl; lia]. intros i n Hi. apply gext_cons; auto.
      * exists nd. exact Hl.
      * intros Hall. exfalso. apply wm_find_none in Ef. apply Ef. rewrite Enk, wkeys_app. apply in_or_app. right.
        apply Hall. split; [apply sub_refl|simpl; exact Ei].
      * simpl. exact Hall1.
  - (* a node kind that is not registered *)
    inversion H; subst st' id. clear H.
    assert (Hl : glookup (b_next st1) ((b_next st1, nd) :: b_g st1) = Some nd) by (simpl; rewrite Nat.eqb_refl; reflexivity).
    assert (Hnot : forall s, isub t s -> exists k, In k kids /\ isub k s).
    { intros s Hs. destruct (Hisub_cases s Hs) as [->|Hk]; auto. destruct Hs as (_ & Hi). simpl in Hi. congruence. }
    constructor.
    + apply J_cons; auto. apply (j_sc _ J1).
    + exists nk. simpl. split; [exact Enk|apply Hnew_desc; auto].
    + split; [|simpl; lia]. intros i n Hi. apply gext_cons; auto.
    + exists nd. exact Hl.
    + simpl. intros Hall. apply (l_same _ _ _ _ RLk). intros k s Hk (Hs & Hi). apply Hall. split; eauto.
    + simpl. intros s Hs. destruct (Hnot s Hs) as (k & Hk & Hks). apply (l_all _ _ _ _ RLk k s Hk Hks).
Qed.

(* ---- knowledge bases ---- *)
Record K (kb : bkb) : Prop := mk_K {
  k_j : J (k_st kb);
  k_roots_ok : forall key r, In (key, r) (k_roots kb) -> exists nd, glookup r (b_g (k_st kb)) = Some nd;
  k_closed : forall s i, In (s, i) (b_wm (k_st kb)) -> exists key r, In (key, r) (k_roots kb) /\ desc (b_g (k_st kb)) r i
}.

Lemma K_empty : K empty_bkb.
Proof.
  constructor; simpl.
  - constructor; simpl; try (intros; discriminate); try (intros; contradiction). constructor. intros s i [].
  - intros key r [].
  - intros s i [].
Qed.

Lemma add_rule_K : forall kb r, K kb -> K (add_rule kb r).
Proof.
  intros kb [key t] [Kj Kr Kc]. unfold add_rule. simpl. destruct (build_tree t (k_st kb)) as [st id] eqn:E.
  pose proof (build_tree_spec t (k_st kb) Kj st id E) as Rt. destruct (r_ext _ _ _ _ Rt) as (X & _).
  constructor; simpl.
  - exact (r_j _ _ _ _ Rt).
  - intros key0 r0 [E0|Hin].
    + inversion E0; subst. exact (r_id _ _ _ _ Rt).
    + destruct (Kr key0 r0 Hin) as (nd & Hnd). exists nd. apply X. exact Hnd.
  - destruct (r_new _ _ _ _ Rt) as (new & En & Hn). intros s i Hin. rewrite En in Hin. apply in_app_or in Hin. destruct Hin as [Hin|Hin].
    + exists key, id. split; [left; reflexivity|]. apply (Hn s i Hin).
    + destruct (Kc s i Hin) as (key0 & r0 & Hr & Hd). exists key0, r0. split; [right; exact Hr|]. eapply desc_ext; eauto.
Qed.

(* the walk keeps the invariant and only extends the heap *)
Lemma add_rule_ext : forall kb r, K kb -> gext (b_g (k_st kb)) (b_g (k_st (add_rule kb r))).
Proof.
  intros kb [key t] [Kj _ _]. unfold add_rule. simpl. destruct (build_tree t (k_st kb)) as [st id] eqn:E.
  pose proof (build_tree_spec t (k_st kb) Kj st id E) as Rt. destruct (r_ext _ _ _ _ Rt) as (X & _). exact X.
Qed.

Lemma walk_K : forall rs kb, K kb -> K (walk kb rs) /\ gext (b_g (k_st kb)) (b_g (k_st (walk kb rs))).
Proof.
  unfold walk. induction rs as [|r rs IH]; simpl; intros kb Hk.
  - split; auto. intros i nd H; exact H.
  - destruct (IH (add_rule kb r) (add_rule_K kb r Hk)) as (K2 & X2). split; auto.
    intros i nd H. apply X2. apply (add_rule_ext kb r Hk). exact H.
Qed.

(* restore(): the remembered rule entries and working-memory maps on the heap the walk has extended *)
Lemma restore_K : forall old new, K old -> K new -> gext (b_g (k_st old)) (b_g (k_st new)) -> K (restore old new).
Proof.
  intros old new [Oj Or Oc] [Nj Nr Nc] X. constructor; simpl.
  - destruct Nj as [Nlt Nkids Nnd Nwm Nsc]. constructor; simpl; auto.
    + intros s i Hin. destruct (j_wm _ Oj s i Hin) as (nd & Hnd). exists nd. apply X. exact Hnd.
    + exact (j_sc _ Oj).
  - intros key r Hin. destruct (Or key r Hin) as (nd & Hnd). exists nd. apply X. exact Hnd.
  - intros s i Hin. destruct (Oc s i Hin) as (key & r & Hr & Hd). exists key, r. split; auto. eapply desc_ext; eauto.
Qed.

Lemma build_resource_K : forall kb res, K kb -> K (build_resource kb res).
Proof.
  intros kb [rs ok] Hk. unfold build_resource. simpl. destruct (walk_K rs kb Hk) as (K2 & X). destruct ok; auto.
  apply restore_K; auto.
Qed.

Lemma build_history_K : forall h kb, K kb -> K (fold_left build_resource h kb).
Proof. induction h as [|r h IH]; simpl; intros kb Hk; auto. apply IH. apply build_resource_K. exact Hk. Qed.

Lemma K_wf_closed : forall kb, K kb -> wf_kb (to_kbg kb) /\ closed (to_kbg kb).
Proof.
  intros kb [Kj Kr Kc]. split.
  - split; simpl.
    + split; [exact (j_nd _ Kj)|]. intros id nd H k Hk. exact (j_kids _ Kj id nd H k Hk).
    + exact Kr.
  - intros i Hi. unfold to_kbg, wm_ids in Hi. simpl in Hi. rewrite app_nil_r in Hi. rewrite map_map in Hi. simpl in Hi.
    apply in_map_iff in Hi. destruct Hi as ((s, j) & E & Hin). simpl in E. subst j.
    destruct (Kc s i Hin) as (key & r & Hr & Hd). exists key, r. simpl. auto.
Qed.

(* every knowledge base built from accepted rules only is well formed and closed, hence clonable (C09_clone) *)
Theorem accepted_build_closed : forall rs, wf_kb (to_kbg (build_rules rs)) /\ closed (to_kbg (build_rules rs)).
Proof. intros rs. apply K_wf_closed. apply (walk_K rs empty_bkb K_empty). Qed.

(* the same after ANY sequence of accepted and rejected resources: a rejected resource is walked by the listener and then
   rolled back to the checkpoint; whatever it registered is forgotten, so no orphan is left in the working memory *)
Theorem any_build_history_closed : forall h, wf_kb (to_kbg (build_history h)) /\ closed (to_kbg (build_history h)).
Proof. intros h. apply K_wf_closed. apply build_history_K. apply K_empty. Qed.

Corollary any_build_history_clonable : forall h start, exists kb' t next,
  clone_kb (S (max_id (g_nodes (to_kbg (build_history h))))) start (to_kbg (build_history h)) = Ok (kb', t, next).
Proof.
  intros h start. destruct (any_build_history_closed h) as (Hwf & Hcl).
  destruct (clone_closed_ok _ start Hwf Hcl) as (kb' & t & next & E & _). eauto.
Qed.

(* what the checkpoint prevents (D10a, the code before engine commit 4ed034e): the walk of a refused rule that is NOT
   rolled back leaves its new expression in the working memory as an orphan, and the clone fails (C09_orphan);
   with the roll-back the same history is clonable *)
Definition d10a_tree (c : string) : tree :=
  Tr "RuleEntry" "R1" [Tr "WhenScope" "" [Tr "Expression" c [Tr "ExpressionAtom" c [Tr "Constant" c []]]]].
Definition d10a_unrestored : bkb := Eval vm_compute in walk_unrestored (build_rules [("R1"%string, d10a_tree "1")]) ("R1"%string, d10a_tree "7").
Definition d10a_restored : bkb := Eval vm_compute in build_history [([("R1"%string, d10a_tree "1")], true); ([("R1"%string, d10a_tree "7")], false)].

Example without_checkpoint_not_clonable :
  clone_kb (S (max_id (g_nodes (to_kbg d10a_unrestored)))) 100 (to_kbg d10a_unrestored) = Err.
Proof. vm_compute. reflexivity. Qed.

Example with_checkpoint_clonable :
  is_ok (clone_kb (S (max_id (g_nodes (to_kbg d10a_restored)))) 100 (to_kbg d10a_restored)) = true.
Proof. vm_compute. reflexivity. Qed.
