(* CodecProofs.v — proofs about the catalog stream model (coq/model/CodecPrim.v, Codec.v):
     round trip            decode (encode c) = Ok c                 for every well-formed catalog
     truncation            decode (firstn k (encode c)) = Err        for every k < length
     failing writer        store (Some k) c = Err                    for every k < number of Write calls
     overwrite = false     an existing library entry is left untouched
     allocation            requested bytes vs. stream length (C20, binary loader)            *)
From Coq Require Import ZifyN ZifyNat.
From Grule Require Import Base CodecPrim Codec.
Local Open Scope N_scope.
Local Open Scope list_scope.

Arguments N.add : simpl never.
Arguments N.mul : simpl never.
Arguments N.div : simpl never.
Arguments N.modulo : simpl never.
Arguments N.of_nat : simpl never.
Arguments N.ltb : simpl never.

(* ------------------------------------------------------------------------- *)
(* 1. fixed-width integers                                                    *)

Lemma le_bytes_length : forall k n, List.length (le_bytes k n) = k.
Proof. induction k; intros; simpl; auto. Qed.

Lemma le_val_bytes : forall k n, n < 256 ^ N.of_nat k -> le_val (le_bytes k n) = n.
Proof.
  induction k; intros n H.
  - simpl in *. change (256 ^ N.of_nat 0) with 1 in H. lia.
  - cbn [le_bytes le_val]. rewrite N_ascii_embedding by lia.
    rewrite IHk. lia.
    rewrite Nat2N.inj_succ, N.pow_succ_r' in H. apply N.div_lt_upper_bound; lia.
Qed.

Lemma two64_pow : two64 = 256 ^ N.of_nat 8.
Proof. reflexivity. Qed.

Lemma enc_u64_length : forall n, List.length (enc_u64 n) = 8%nat.
Proof. intros. apply le_bytes_length. Qed.

Lemma u64_of_int_lt : forall z, u64_of_int z < two64.
Proof. intros. unfold u64_of_int, two64. lia. Qed.

Lemma int_u64_roundtrip : forall z, int_ok z = true -> int_of_u64 (u64_of_int z) = z.
Proof.
  intros z H. unfold int_ok, two63 in H. unfold int_of_u64, u64_of_int, two64, two63.
  apply andb_true_iff in H. destruct H as [H1 H2].
  apply Z.leb_le in H1. apply Z.ltb_lt in H2.
  change (Z.of_N 18446744073709551616) with 18446744073709551616%Z in *.
  change (Z.of_N 9223372036854775808) with 9223372036854775808%Z in *.
  destruct (N.ltb_spec (Z.to_N (z mod 18446744073709551616)) 9223372036854775808); lia.
Qed.

(* ------------------------------------------------------------------------- *)
(* 2. take_N                                                                  *)

Lemma take_N_succ : forall n b t,
  take_N (N.succ n) (b :: t) = match take_N n t with Some (h, r) => Some (b :: h, r) | None => None end.
Proof.
  intros. destruct n as [|p]; cbn [take_N N.succ].
  - reflexivity.
  - change (N.pred (N.pos (Pos.succ p))) with (Pos.pred_N (Pos.succ p)).
    rewrite Pos.pred_N_succ. reflexivity.
Qed.

Lemma take_N_zero : forall bs, take_N 0 bs = Some ([], bs).
Proof. destruct bs; reflexivity. Qed.

Lemma take_N_app : forall a r, take_N (N.of_nat (List.length a)) (a ++ r) = Some (a, r).
Proof.
  induction a; intros.
  - apply take_N_zero.
  - cbn [List.length app]. rewrite Nat2N.inj_succ, take_N_succ, IHa. reflexivity.
Qed.

Lemma take_N_short : forall p n, N.of_nat (List.length p) < n -> take_N n p = None.
Proof.
  induction p; intros n H.
  - destruct n; [cbn in H; lia | reflexivity].
  - cbn [List.length] in H. rewrite Nat2N.inj_succ in H.
    replace n with (N.succ (N.pred n)) by lia.
    rewrite take_N_succ, IHp by lia. reflexivity.
Qed.

Lemma take_N_some : forall bs n h r, take_N n bs = Some (h, r) -> bs = h ++ r /\ N.of_nat (List.length h) = n.
Proof.
  induction bs; intros n h r H.
  - destruct n; cbn in H; inversion H. auto.
  - destruct (N.eq_dec n 0) as [->|Hn].
    + cbn in H. inversion H. auto.
    + replace n with (N.succ (N.pred n)) in H by lia. rewrite take_N_succ in H.
      destruct (take_N (N.pred n) bs) as [[h' r']|] eqn:E; inversion H; subst.
      apply IHbs in E. destruct E as [-> E]. split; auto.
      cbn [List.length]. rewrite Nat2N.inj_succ. lia.
Qed.

(* ------------------------------------------------------------------------- *)
(* 3. readers and writers: round trip (RT), error on every strict prefix (PE) *)

Definition RT {A} (ok : A -> bool) (w : writer A) (r : reader A) : Prop :=
  forall x rest, ok x = true -> r (w x ++ rest) = Ok (x, rest).
Definition PE {A} (ok : A -> bool) (w : writer A) (r : reader A) : Prop :=
  forall x p q, ok x = true -> w x = p ++ q -> q <> [] -> r p = Err.
Definition NE {A} (ok : A -> bool) (w : writer A) : Prop :=
  forall x, ok x = true -> w x <> [].

(* a cut through a ++ b lies strictly inside a, or at/after its end *)
Lemma cut_cases : forall (a b p q : list byte), a ++ b = p ++ q ->
  (exists q1, q1 <> [] /\ a = p ++ q1) \/ (exists p2, p = a ++ p2 /\ b = p2 ++ q).
Proof.
  intros a b p q H. apply app_eq_app in H. destruct H as [l [[H1 H2]|[H1 H2]]].
  - destruct l as [|x l].
    + right. exists []. rewrite app_nil_r in H1. subst. rewrite app_nil_r. auto.
    + left. exists (x :: l). split; [discriminate | auto].
  - right. exists l. auto.
Qed.

Lemma length_lt_of_cut : forall (a p q : list byte), a = p ++ q -> q <> [] -> (List.length p < List.length a)%nat.
Proof. intros. subst. rewrite app_length. destruct q; [congruence | simpl; lia]. Qed.

Definition u64_ok (n : N) : bool := n <? two64.

Lemma RT_raw : forall a rest, read_raw (N.of_nat (List.length a)) (a ++ rest) = Ok (a, rest).
Proof. intros. unfold read_raw. rewrite take_N_app. reflexivity. Qed.

Lemma PE_raw : forall a p q, a = p ++ q -> q <> [] -> read_raw (N.of_nat (List.length a)) p = Err.
Proof.
  intros. unfold read_raw. rewrite take_N_short; auto.
  pose proof (length_lt_of_cut _ _ _ H H0). lia.
Qed.

Lemma RT_u64 : RT u64_ok enc_u64 read_u64.
Proof.
  intros n rest H. unfold read_u64, enc_u64.
  change 8 with (N.of_nat 8) at 1. rewrite <- (le_bytes_length 8 n) at 1. rewrite RT_raw. cbn [rbind].
  rewrite le_val_bytes; auto. rewrite <- two64_pow. apply N.ltb_lt. exact H.
Qed.

Lemma PE_u64' : forall n p q, enc_u64 n = p ++ q -> q <> [] -> read_u64 p = Err.
Proof.
  intros n p q H Hq. unfold read_u64. unfold enc_u64 in H.
  change 8 with (N.of_nat 8). rewrite <- (le_bytes_length 8 n).
  rewrite (PE_raw _ _ _ H Hq). reflexivity.
Qed.

Lemma PE_u64 : PE u64_ok enc_u64 read_u64.
Proof. intros n p q _ H Hq. eapply PE_u64'; eauto. Qed.

Lemma NE_u64' : forall n, enc_u64 n <> [].
Proof. intros n H. pose proof (enc_u64_length n). rewrite H in H0. discriminate. Qed.

Lemma NE_u64 : NE u64_ok enc_u64.
Proof. intros n _. apply NE_u64'. Qed.

Lemma length_list_ascii : forall s, List.length (list_ascii_of_string s) = String.length s.
Proof. induction s; simpl; auto. Qed.

Lemma len_ok_lt : forall n, len_ok n = true -> u64_ok (N.of_nat n) = true.
Proof. auto. Qed.

Lemma RT_str : RT str_ok enc_str read_str.
Proof.
  intros s rest H. unfold read_str, enc_str. rewrite <- app_assoc.
  rewrite RT_u64. 2:{ rewrite length_list_ascii. exact H. }
  cbn [rbind]. rewrite RT_raw. cbn [rbind]. rewrite string_of_list_ascii_of_string. reflexivity.
Qed.

Lemma PE_str : PE str_ok enc_str read_str.
Proof.
  intros s p q H E Hq. unfold read_str. unfold enc_str in E.
  apply cut_cases in E. destruct E as [[q1 [Hq1 E]]|[p2 [-> E]]].
  - rewrite (PE_u64' _ _ _ E Hq1). reflexivity.
  - rewrite RT_u64. 2:{ rewrite length_list_ascii. exact H. }
    cbn [rbind]. rewrite (PE_raw _ _ _ E Hq). reflexivity.
Qed.

Lemma NE_str : NE str_ok enc_str.
Proof.
  intros s _ H. unfold enc_str in H. apply app_eq_nil in H. destruct H as [H _]. eapply NE_u64'; eauto.
Qed.

Definition any_ok {A} (x : A) : bool := true.

Lemma RT_bool : RT any_ok enc_bool read_bool.
Proof. intros b rest _. destruct b; reflexivity. Qed.

Lemma PE_bool : PE any_ok enc_bool read_bool.
Proof.
  intros b p q _ E Hq. unfold enc_bool in E. destruct p; [reflexivity|].
  destruct p; destruct q; cbn in E; try congruence; discriminate.
Qed.

Lemma RT_int : RT int_ok enc_int read_int.
Proof.
  intros z rest H. unfold read_int, enc_int. rewrite RT_u64.
  - cbn [rbind]. rewrite int_u64_roundtrip; auto.
  - apply N.ltb_lt. apply u64_of_int_lt.
Qed.

Lemma PE_int : PE int_ok enc_int read_int.
Proof.
  intros z p q _ E Hq. unfold read_int. rewrite (PE_u64' (u64_of_int z) p q); auto.
Qed.

Definition bytes_ok (l : list byte) : bool := len_ok (List.length l).

Lemma RT_bytes : RT bytes_ok enc_bytes read_bytes.
Proof.
  intros l rest H. unfold read_bytes, enc_bytes. rewrite <- app_assoc.
  rewrite RT_u64 by exact H. cbn [rbind]. apply RT_raw.
Qed.

Lemma PE_bytes : PE bytes_ok enc_bytes read_bytes.
Proof.
  intros l p q H E Hq. unfold read_bytes. unfold enc_bytes in E.
  apply cut_cases in E. destruct E as [[q1 [Hq1 E]]|[p2 [-> E]]].
  - rewrite (PE_u64' _ _ _ E Hq1). reflexivity.
  - rewrite RT_u64 by exact H. cbn [rbind]. apply (PE_raw _ _ _ E Hq).
Qed.

(* ------------------------------------------------------------------------- *)
(* 4. count-prefixed sequences                                                *)

Lemma read_seq_fuel_zero : forall A (rd : reader A) fuel bs, read_seq_fuel rd fuel 0 bs = Ok ([], bs).
Proof. destruct fuel; reflexivity. Qed.

Lemma read_seq_fuel_succ : forall A (rd : reader A) fuel n bs,
  read_seq_fuel rd (S fuel) (N.succ n) bs =
  (do (x, r) <- rd bs; do (xs, r') <- read_seq_fuel rd fuel n r; Ok (x :: xs, r')).
Proof.
  intros. cbn [read_seq_fuel]. destruct (N.succ n) eqn:E; [lia|].
  rewrite <- E, N.pred_succ. reflexivity.
Qed.

Lemma concat_length_ge : forall A (ok : A -> bool) (w : writer A) xs,
  NE ok w -> forallb ok xs = true -> (List.length xs <= List.length (List.concat (map w xs)))%nat.
Proof.
  intros A ok w xs Hne. induction xs; intros H; simpl; auto.
  apply andb_true_iff in H. destruct H as [Ha Hxs]. rewrite app_length.
  specialize (Hne a Ha). specialize (IHxs Hxs). destruct (w a); [congruence | simpl; lia].
Qed.

Lemma RT_seq_fuel : forall A (ok : A -> bool) (w : writer A) (r : reader A),
  RT ok w r -> forall xs fuel rest, forallb ok xs = true -> (List.length xs <= fuel)%nat ->
  read_seq_fuel r fuel (N.of_nat (List.length xs)) (List.concat (map w xs) ++ rest) = Ok (xs, rest).
Proof.
  intros A ok w r Hrt. induction xs; intros fuel rest H Hf.
  - apply read_seq_fuel_zero.
  - cbn [forallb] in H. apply andb_true_iff in H. destruct H as [Ha Hxs].
    cbn [List.length] in *. destruct fuel; [lia|].
    rewrite Nat2N.inj_succ, read_seq_fuel_succ.
    cbn [map List.concat]. rewrite <- app_assoc. rewrite Hrt by auto. cbn [rbind].
    rewrite IHxs by (auto; lia). reflexivity.
Qed.

Lemma PE_seq_fuel : forall A (ok : A -> bool) (w : writer A) (r : reader A),
  RT ok w r -> PE ok w r -> forall xs fuel p q, forallb ok xs = true ->
  List.concat (map w xs) = p ++ q -> q <> [] ->
  read_seq_fuel r fuel (N.of_nat (List.length xs)) p = Err.
Proof.
  intros A ok w r Hrt Hpe. induction xs; intros fuel p q H E Hq.
  - cbn in E. symmetry in E. apply app_eq_nil in E. destruct E; congruence.
  - cbn [forallb] in H. apply andb_true_iff in H. destruct H as [Ha Hxs].
    cbn [List.length]. rewrite Nat2N.inj_succ. destruct fuel.
    + cbn [read_seq_fuel]. destruct (N.succ (N.of_nat (List.length xs))) eqn:E2; [lia | reflexivity].
    + rewrite read_seq_fuel_succ. cbn [map List.concat] in E.
      apply cut_cases in E. destruct E as [[q1 [Hq1 E]]|[p2 [-> E]]].
      * rewrite (Hpe _ _ _ Ha E Hq1). reflexivity.
      * rewrite Hrt by auto. cbn [rbind]. rewrite (IHxs fuel p2 q); auto.
Qed.

Definition seq_ok {A} (ok : A -> bool) (xs : list A) : bool := len_ok (List.length xs) && forallb ok xs.

Lemma RT_counted : forall A (ok : A -> bool) (w : writer A) (r : reader A),
  RT ok w r -> NE ok w -> RT (seq_ok ok) (enc_seq w) (read_counted r).
Proof.
  intros A ok w r Hrt Hne xs rest H. apply andb_true_iff in H. destruct H as [Hl Hx].
  unfold read_counted, enc_seq. rewrite <- app_assoc. rewrite RT_u64 by exact Hl. cbn [rbind].
  unfold read_seq. apply RT_seq_fuel with (ok := ok); auto.
  rewrite app_length. pose proof (concat_length_ge _ ok w xs Hne Hx). lia.
Qed.

Lemma PE_counted : forall A (ok : A -> bool) (w : writer A) (r : reader A),
  RT ok w r -> PE ok w r -> PE (seq_ok ok) (enc_seq w) (read_counted r).
Proof.
  intros A ok w r Hrt Hpe xs p q H E Hq. apply andb_true_iff in H. destruct H as [Hl Hx].
  unfold read_counted. unfold enc_seq in E.
  apply cut_cases in E. destruct E as [[q1 [Hq1 E]]|[p2 [-> E]]].
  - rewrite (PE_u64' _ _ _ E Hq1). reflexivity.
  - rewrite RT_u64 by exact Hl. cbn [rbind]. unfold read_seq.
    apply PE_seq_fuel with (ok := ok) (w := w) (q := q); auto.
Qed.

Lemma NE_counted : forall A (ok : A -> bool) (w : writer A), NE (seq_ok ok) (enc_seq w).
Proof.
  intros A ok w xs _ H. unfold enc_seq in H. apply app_eq_nil in H. destruct H as [H _].
  eapply NE_u64'; eauto.
Qed.

Lemma strs_ok_seq : forall l, strs_ok l = seq_ok str_ok l.
Proof. reflexivity. Qed.

(* ------------------------------------------------------------------------- *)
(* 5. fields of a meta record                                                 *)

Definition RT_strs := RT_counted _ str_ok enc_str read_str RT_str NE_str.
Definition PE_strs := PE_counted _ str_ok enc_str read_str RT_str PE_str.

Lemma RT_field : forall v rest, fieldv_ok v = true -> read_field (kind_of v) (enc_field v ++ rest) = Ok (v, rest).
Proof.
  destruct v; intros rest H; cbn [kind_of read_field enc_field fieldv_ok] in *.
  - rewrite RT_str by exact H. reflexivity.
  - rewrite RT_int by exact H. reflexivity.
  - rewrite RT_bool by reflexivity. reflexivity.
  - rewrite RT_strs by exact H. reflexivity.
  - rewrite RT_bytes by exact H. reflexivity.
Qed.

Lemma PE_field : forall v p q, fieldv_ok v = true -> enc_field v = p ++ q -> q <> [] -> read_field (kind_of v) p = Err.
Proof.
  destruct v; intros p q H E Hq; cbn [kind_of read_field enc_field fieldv_ok] in *.
  - rewrite (PE_str _ _ _ H E Hq). reflexivity.
  - rewrite (PE_int _ _ _ H E Hq). reflexivity.
  - rewrite (PE_bool b p q eq_refl E Hq). reflexivity.
  - rewrite (PE_strs _ _ _ H E Hq). reflexivity.
  - rewrite (PE_bytes _ _ _ H E Hq). reflexivity.
Qed.

Lemma RT_fields : forall vs rest, forallb fieldv_ok vs = true ->
  read_fields (map kind_of vs) (enc_fields vs ++ rest) = Ok (vs, rest).
Proof.
  induction vs; intros rest H.
  - reflexivity.
  - cbn [forallb] in H. apply andb_true_iff in H. destruct H as [Ha Hvs].
    unfold enc_fields. cbn [map List.concat read_fields]. rewrite <- app_assoc.
    rewrite RT_field by exact Ha. cbn [rbind].
    fold (enc_fields vs). rewrite IHvs by exact Hvs. reflexivity.
Qed.

Lemma PE_fields : forall vs p q, forallb fieldv_ok vs = true -> enc_fields vs = p ++ q -> q <> [] ->
  read_fields (map kind_of vs) p = Err.
Proof.
  induction vs; intros p q H E Hq.
  - cbn in E. symmetry in E. apply app_eq_nil in E. destruct E; congruence.
  - cbn [forallb] in H. apply andb_true_iff in H. destruct H as [Ha Hvs].
    unfold enc_fields in E. cbn [map List.concat] in E. fold (enc_fields vs) in E. cbn [map read_fields].
    apply cut_cases in E. destruct E as [[q1 [Hq1 E]]|[p2 [-> E]]].
    + rewrite (PE_field _ _ _ Ha E Hq1). reflexivity.
    + rewrite RT_field by exact Ha. cbn [rbind]. rewrite (IHvs _ _ Hvs E Hq). reflexivity.
Qed.

(* ------------------------------------------------------------------------- *)
(* 6. catalog entries                                                         *)

Lemma meta_desc_kinds : forall m, exists d, meta_desc (meta_tag m) = Some d /\ map snd d = map kind_of (meta_fields m).
Proof. destruct m; eexists; split; reflexivity. Qed.

Lemma meta_of_fields_inv : forall m, meta_of_fields (meta_tag m) (meta_fields m) = Some m.
Proof. destruct m; destruct nm; reflexivity. Qed.

Lemma meta_tag_ok : forall m, u64_ok (meta_tag m) = true.
Proof. destruct m; reflexivity. Qed.

Lemma RT_entry : RT entry_ok enc_entry read_entry.
Proof.
  intros [k m] rest H. unfold entry_ok in H. cbn [fst snd] in H.
  apply andb_true_iff in H. destruct H as [Hk Hm].
  unfold read_entry, enc_entry. cbn [fst snd]. repeat rewrite <- app_assoc.
  rewrite RT_str by exact Hk. cbn [rbind].
  rewrite RT_u64 by apply meta_tag_ok. cbn [rbind].
  destruct (meta_desc_kinds m) as [d [Hd Hk2]]. rewrite Hd, Hk2.
  rewrite RT_fields by exact Hm. cbn [rbind].
  rewrite meta_of_fields_inv. reflexivity.
Qed.

Lemma PE_entry : PE entry_ok enc_entry read_entry.
Proof.
  intros [k m] p q H E Hq. unfold entry_ok in H. cbn [fst snd] in H.
  apply andb_true_iff in H. destruct H as [Hk Hm].
  unfold read_entry. unfold enc_entry in E. cbn [fst snd] in E.
  apply cut_cases in E. destruct E as [[q1 [Hq1 E]]|[p2 [-> E]]].
  { rewrite (PE_str _ _ _ Hk E Hq1). reflexivity. }
  rewrite RT_str by exact Hk. cbn [rbind].
  apply cut_cases in E. destruct E as [[q1 [Hq1 E]]|[p3 [-> E]]].
  { rewrite (PE_u64' _ _ _ E Hq1). reflexivity. }
  rewrite RT_u64 by apply meta_tag_ok. cbn [rbind].
  destruct (meta_desc_kinds m) as [d [Hd Hk2]]. rewrite Hd, Hk2.
  rewrite (PE_fields _ _ _ Hm E Hq). reflexivity.
Qed.

Lemma NE_entry : NE entry_ok enc_entry.
Proof.
  intros [k m] H E. unfold enc_entry in E. apply app_eq_nil in E. destruct E as [E _].
  unfold entry_ok in H. apply andb_true_iff in H. destruct H as [H _]. eapply NE_str; eauto.
Qed.

Lemma RT_pair : RT pair_ok enc_pair read_pair.
Proof.
  intros [k v] rest H. unfold pair_ok in H. cbn [fst snd] in H.
  apply andb_true_iff in H. destruct H as [Hk Hv].
  unfold read_pair, enc_pair. cbn [fst snd]. rewrite <- app_assoc.
  rewrite RT_str by exact Hk. cbn [rbind]. rewrite RT_str by exact Hv. reflexivity.
Qed.

Lemma PE_pair : PE pair_ok enc_pair read_pair.
Proof.
  intros [k v] p q H E Hq. unfold pair_ok in H. cbn [fst snd] in H.
  apply andb_true_iff in H. destruct H as [Hk Hv].
  unfold read_pair. unfold enc_pair in E. cbn [fst snd] in E.
  apply cut_cases in E. destruct E as [[q1 [Hq1 E]]|[p2 [-> E]]].
  { rewrite (PE_str _ _ _ Hk E Hq1). reflexivity. }
  rewrite RT_str by exact Hk. cbn [rbind]. rewrite (PE_str _ _ _ Hv E Hq). reflexivity.
Qed.

Lemma NE_pair : NE pair_ok enc_pair.
Proof.
  intros [k v] H E. unfold enc_pair in E. apply app_eq_nil in E. destruct E as [E _].
  unfold pair_ok in H. apply andb_true_iff in H. destruct H as [H _]. eapply NE_str; eauto.
Qed.

Lemma RT_keyed : RT keyed_ok enc_keyed read_keyed.
Proof.
  intros [k l] rest H. unfold keyed_ok in H. cbn [fst snd] in H.
  apply andb_true_iff in H. destruct H as [Hk Hl].
  unfold read_keyed, enc_keyed. cbn [fst snd]. rewrite <- app_assoc.
  rewrite RT_str by exact Hk. cbn [rbind]. rewrite RT_strs by exact Hl. reflexivity.
Qed.

Lemma PE_keyed : PE keyed_ok enc_keyed read_keyed.
Proof.
  intros [k l] p q H E Hq. unfold keyed_ok in H. cbn [fst snd] in H.
  apply andb_true_iff in H. destruct H as [Hk Hl].
  unfold read_keyed. unfold enc_keyed in E. cbn [fst snd] in E.
  apply cut_cases in E. destruct E as [[q1 [Hq1 E]]|[p2 [-> E]]].
  { rewrite (PE_str _ _ _ Hk E Hq1). reflexivity. }
  rewrite RT_str by exact Hk. cbn [rbind]. rewrite (PE_strs _ _ _ Hl E Hq). reflexivity.
Qed.

Lemma NE_keyed : NE keyed_ok enc_keyed.
Proof.
  intros [k v] H E. unfold enc_keyed in E. apply app_eq_nil in E. destruct E as [E _].
  unfold keyed_ok in H. apply andb_true_iff in H. destruct H as [H _]. eapply NE_str; eauto.
Qed.

(* ------------------------------------------------------------------------- *)
(* 7. the catalog frame                                                       *)

Definition RT_entries := RT_counted _ entry_ok enc_entry read_entry RT_entry NE_entry.
Definition PE_entries := PE_counted _ entry_ok enc_entry read_entry RT_entry PE_entry.
Definition RT_pairs := RT_counted _ pair_ok enc_pair read_pair RT_pair NE_pair.
Definition PE_pairs := PE_counted _ pair_ok enc_pair read_pair RT_pair PE_pair.
Definition RT_keyeds := RT_counted _ keyed_ok enc_keyed read_keyed RT_keyed NE_keyed.
Definition PE_keyeds := PE_counted _ keyed_ok enc_keyed read_keyed RT_keyed PE_keyed.

Record wf_parts (c : catalog) : Prop := {
  wp_name : str_ok (c_name c) = true;
  wp_version : str_ok (c_version c) = true;
  wp_data : seq_ok entry_ok (c_data c) = true;
  wp_memname : str_ok (c_memname c) = true;
  wp_memversion : str_ok (c_memversion c) = true;
  wp_varsnap : seq_ok pair_ok (c_varsnap c) = true;
  wp_exprsnap : seq_ok pair_ok (c_exprsnap c) = true;
  wp_atomsnap : seq_ok pair_ok (c_atomsnap c) = true;
  wp_exprvar : seq_ok keyed_ok (c_exprvar c) = true;
  wp_atomvar : seq_ok keyed_ok (c_atomvar c) = true
}.

Lemma wf_catalog_parts : forall c, wf_catalog c = true -> wf_parts c.
Proof.
  intros c H. unfold wf_catalog in H.
  repeat (apply andb_true_iff in H; let H' := fresh "H" in destruct H as [H H']).
  constructor; unfold seq_ok; try assumption; apply andb_true_iff; split; assumption.
Qed.

Lemma version_ok : str_ok codec_version = true.
Proof. reflexivity. Qed.

Theorem decode_rest_encode : forall c rest, wf_catalog c = true -> decode_rest (encode c ++ rest) = Ok (c, rest).
Proof.
  intros c rest H. apply wf_catalog_parts in H. destruct H.
  unfold decode_rest, encode. repeat rewrite <- app_assoc.
  rewrite RT_str by exact version_ok. cbn [rbind]. rewrite String.eqb_refl. cbn [negb].
  rewrite RT_str by assumption. cbn [rbind].
  rewrite RT_str by assumption. cbn [rbind].
  rewrite RT_entries by assumption. cbn [rbind].
  rewrite RT_str by assumption. cbn [rbind].
  rewrite RT_str by assumption. cbn [rbind].
  rewrite RT_pairs by assumption. cbn [rbind].
  rewrite RT_pairs by assumption. cbn [rbind].
  rewrite RT_pairs by assumption. cbn [rbind].
  rewrite RT_keyeds by assumption. cbn [rbind].
  rewrite RT_keyeds by assumption. cbn [rbind].
  destruct c; reflexivity.
Qed.

(* (a) round trip *)
Theorem codec_roundtrip : forall c, wf_catalog c = true -> decode (encode c) = Ok c.
Proof.
  intros c H. unfold decode. rewrite <- (app_nil_r (encode c)).
  rewrite decode_rest_encode by exact H. reflexivity.
Qed.

(* trailing bytes are not read *)
Theorem codec_roundtrip_trailing : forall c rest, wf_catalog c = true -> decode (encode c ++ rest) = Ok c.
Proof. intros. unfold decode. rewrite decode_rest_encode by assumption. reflexivity. Qed.

Ltac pe_step RTl PEl :=
  match goal with
  | E : _ ++ _ = _ ++ ?q, Hq : ?q <> [] |- _ =>
      let q1 := fresh "q1" in let Hq1 := fresh "Hq1" in let p2 := fresh "p2" in
      apply cut_cases in E; destruct E as [[q1 [Hq1 E]]|[p2 [-> E]]];
      [ rewrite (fun ok => PEl _ _ _ ok E Hq1) by assumption; reflexivity
      | rewrite RTl by assumption; cbn [rbind] ]
  end.

Theorem decode_rest_prefix : forall c p q, wf_catalog c = true -> encode c = p ++ q -> q <> [] -> decode_rest p = Err.
Proof.
  intros c p q H E Hq. apply wf_catalog_parts in H. destruct H.
  pose proof version_ok as Hv.
  unfold decode_rest. unfold encode in E.
  pe_step RT_str PE_str. rewrite String.eqb_refl. cbn [negb].
  pe_step RT_str PE_str.
  pe_step RT_str PE_str.
  pe_step RT_entries PE_entries.
  pe_step RT_str PE_str.
  pe_step RT_str PE_str.
  pe_step RT_pairs PE_pairs.
  pe_step RT_pairs PE_pairs.
  pe_step RT_pairs PE_pairs.
  pe_step RT_keyeds PE_keyeds.
  rewrite (fun ok => PE_keyeds _ _ _ ok E Hq) by assumption. reflexivity.
Qed.

(* (b) a stream cut off at any byte is a decode error *)
Theorem codec_prefix : forall c k, wf_catalog c = true -> (k < List.length (encode c))%nat ->
  decode (firstn k (encode c)) = Err.
Proof.
  intros c k H Hk. unfold decode.
  rewrite (decode_rest_prefix c (firstn k (encode c)) (skipn k (encode c))); auto.
  - symmetry. apply firstn_skipn.
  - intro E. apply (f_equal (@List.length _)) in E. rewrite skipn_length in E. cbn [List.length] in E. lia.
Qed.

(* ------------------------------------------------------------------------- *)
(* 8. store through a writer that fails at its k-th Write call                *)

Lemma concat_chunks_str : forall s, List.concat (chunks_str s) = enc_str s.
Proof.
  intros. unfold chunks_str, enc_str. cbn [List.concat].
  destruct (list_ascii_of_string s); cbn [chunk_nonempty List.concat]; rewrite ?app_nil_r; reflexivity.
Qed.

Lemma concat_chunks_seq : forall A (ch : A -> list (list byte)) (w : writer A) xs,
  (forall x, List.concat (ch x) = w x) -> List.concat (chunks_seq ch xs) = enc_seq w xs.
Proof.
  intros A ch w xs H. unfold chunks_seq, enc_seq, chunks_u64. rewrite concat_app.
  cbn [List.concat]. rewrite app_nil_r. f_equal.
  induction xs; cbn [map List.concat]; auto. rewrite concat_app, H, IHxs. reflexivity.
Qed.

Lemma concat_chunks_field : forall v, List.concat (chunks_field v) = enc_field v.
Proof.
  destruct v; cbn [chunks_field enc_field].
  - apply concat_chunks_str.
  - unfold chunks_u64, enc_int. cbn [List.concat]. rewrite app_nil_r. reflexivity.
  - cbn [List.concat]. rewrite app_nil_r. reflexivity.
  - apply (concat_chunks_seq _ chunks_str enc_str l concat_chunks_str).
  - cbn [List.concat]. rewrite app_nil_r. reflexivity.
Qed.

Lemma concat_chunks_fields : forall vs, List.concat (List.concat (map chunks_field vs)) = enc_fields vs.
Proof.
  induction vs; cbn [map List.concat]; auto.
  rewrite concat_app, concat_chunks_field, IHvs. reflexivity.
Qed.

Lemma concat_chunks_entry : forall e, List.concat (chunks_entry e) = enc_entry e.
Proof.
  intros. unfold chunks_entry, enc_entry, chunks_u64. rewrite !concat_app.
  rewrite concat_chunks_str, concat_chunks_fields. cbn [List.concat]. rewrite app_nil_r. reflexivity.
Qed.

Lemma concat_chunks_pair : forall e, List.concat (chunks_pair e) = enc_pair e.
Proof. intros. unfold chunks_pair, enc_pair. rewrite concat_app, !concat_chunks_str. reflexivity. Qed.

Lemma concat_chunks_keyed : forall e, List.concat (chunks_keyed e) = enc_keyed e.
Proof.
  intros. unfold chunks_keyed, enc_keyed. rewrite concat_app, concat_chunks_str.
  rewrite (concat_chunks_seq _ chunks_str enc_str _ concat_chunks_str). reflexivity.
Qed.

(* the Write calls of a store, concatenated, are the encoded catalog *)
Theorem catalog_chunks_concat : forall c, List.concat (catalog_chunks c) = encode c.
Proof.
  intros. unfold catalog_chunks, encode. rewrite !concat_app, !concat_chunks_str.
  rewrite (concat_chunks_seq _ chunks_entry enc_entry _ concat_chunks_entry).
  rewrite !(concat_chunks_seq _ chunks_pair enc_pair _ concat_chunks_pair).
  rewrite !(concat_chunks_seq _ chunks_keyed enc_keyed _ concat_chunks_keyed).
  reflexivity.
Qed.

Lemma run_writes_none : forall chunks w, run_writes None chunks w = (Ok tt, w ++ List.concat chunks).
Proof.
  induction chunks; intros; cbn [run_writes List.concat].
  - rewrite app_nil_r. reflexivity.
  - rewrite IHchunks, app_assoc. reflexivity.
Qed.

Lemma run_writes_fail : forall chunks k w, (k < List.length chunks)%nat ->
  run_writes (Some k) chunks w = (Err, w ++ List.concat (firstn k chunks)).
Proof.
  induction chunks; intros k w H; cbn [List.length] in H.
  - lia.
  - destruct k; cbn [run_writes firstn List.concat].
    + rewrite app_nil_r. reflexivity.
    + rewrite IHchunks by lia. rewrite app_assoc. reflexivity.
Qed.

Lemma run_writes_late : forall chunks k w, (List.length chunks <= k)%nat ->
  run_writes (Some k) chunks w = (Ok tt, w ++ List.concat chunks).
Proof.
  induction chunks; intros k w H; cbn [List.length] in H; cbn [run_writes List.concat].
  - rewrite app_nil_r. reflexivity.
  - destruct k; [lia|]. rewrite IHchunks by lia. rewrite app_assoc. reflexivity.
Qed.

Definition n_writes (c : catalog) : nat := List.length (catalog_chunks c).

Theorem store_ok : forall c, store None c = (Ok tt, encode c).
Proof. intros. unfold store. rewrite run_writes_none. cbn [app]. rewrite catalog_chunks_concat. reflexivity. Qed.

(* (c) a writer failing at any of the Write calls makes the store fail; what reached the
   writer is a prefix of the full stream, and unless it is the full stream it does not load *)
Theorem store_fault : forall c k, (k < n_writes c)%nat ->
  fst (store (Some k) c) = Err /\
  exists rest, encode c = snd (store (Some k) c) ++ rest.
Proof.
  intros c k H. unfold store. rewrite run_writes_fail by exact H. cbn [fst snd app]. split; auto.
  exists (List.concat (skipn k (catalog_chunks c))).
  rewrite <- concat_app, firstn_skipn. symmetry. apply catalog_chunks_concat.
Qed.

Theorem store_fault_unloadable : forall c k, wf_catalog c = true -> (k < n_writes c)%nat ->
  snd (store (Some k) c) = encode c \/ decode (snd (store (Some k) c)) = Err.
Proof.
  intros c k Hwf H. destruct (store_fault c k H) as [_ [rest E]].
  destruct rest as [|b rest].
  - left. rewrite app_nil_r in E. auto.
  - right. unfold decode. rewrite (decode_rest_prefix c _ (b :: rest) Hwf E); [reflexivity | discriminate].
Qed.

Theorem store_late_fault : forall c k, (n_writes c <= k)%nat -> store (Some k) c = (Ok tt, encode c).
Proof. intros. unfold store. rewrite run_writes_late by exact H. cbn [app]. rewrite catalog_chunks_concat. reflexivity. Qed.

(* ------------------------------------------------------------------------- *)
(* 9. the library map: overwrite = false leaves an existing entry untouched   *)

Lemma alookup_aupdate_neq : forall A k j (v : A) m, k <> j -> alookup j (aupdate k v m) = alookup j m.
Proof.
  intros A k j v. induction m as [|[k' v'] m]; cbn [aupdate alookup].
  - intros. destruct (String.eqb_spec j k); congruence.
  - intros Hn. destruct (String.eqb_spec k k').
    + subst. cbn [alookup]. destruct (String.eqb_spec j k'); congruence.
    + cbn [alookup]. destruct (String.eqb_spec j k'); auto.
Qed.

Section LibraryProofs.
  Variable KB : Type.
  Variable build : catalog -> res KB.

  (* a load that returns an error never changes the library *)
  Theorem load_error_keeps_library : forall lib bs ow lib',
    load KB build lib bs ow = (Err, lib') -> lib' = lib.
  Proof.
    intros lib bs ow lib' H. unfold load in H.
    destruct (decode bs); try (inversion H; reflexivity).
    destruct (build a); try (inversion H; reflexivity).
    destruct ow; [inversion H|].
    destruct (amem _ lib); inversion H; reflexivity.
  Qed.

  (* (d) overwrite = false: whatever the stream, every entry present before the call is still there, unchanged *)
  Theorem load_no_overwrite_untouched : forall lib bs r lib',
    load KB build lib bs false = (r, lib') ->
    forall k kb0, alookup k lib = Some kb0 -> alookup k lib' = Some kb0.
  Proof.
    intros lib bs r lib' H k kb0 Hk. unfold load in H.
    destruct (decode bs); try (inversion H; subst; exact Hk).
    destruct (build a); try (inversion H; subst; exact Hk).
    destruct (amem (kb_key (c_name a) (c_version a)) lib) eqn:E; inversion H; subst; auto.
    rewrite alookup_aupdate_neq; auto.
    intro; subst. unfold amem in E. rewrite Hk in E. discriminate.
  Qed.

  (* … and when the key exists the call is an error *)
  Theorem load_no_overwrite_existing : forall lib bs c kb,
    decode bs = Ok c -> build c = Ok kb -> amem (kb_key (c_name c) (c_version c)) lib = true ->
    load KB build lib bs false = (Err, lib).
  Proof. intros lib bs c kb Hd Hb Hm. unfold load. rewrite Hd, Hb, Hm. reflexivity. Qed.

  (* a successful load registers exactly what the stream describes *)
  Theorem load_ok_registers : forall lib bs ow kb lib',
    load KB build lib bs ow = (Ok kb, lib') ->
    exists c, decode bs = Ok c /\ build c = Ok kb /\ lib' = aupdate (kb_key (c_name c) (c_version c)) kb lib.
  Proof.
    intros lib bs ow kb lib' H. unfold load in H.
    destruct (decode bs) as [c| |]; try discriminate.
    destruct (build c) as [kb1| |] eqn:Hb; try discriminate.
    exists c. destruct ow.
    - inversion H; subst. auto.
    - destruct (amem _ lib); inversion H; subst; auto.
  Qed.
End LibraryProofs.

(* ------------------------------------------------------------------------- *)
(* 10. load and store put together                                            *)

Section LoadStore.
  Variable KB : Type.
  Variable build : catalog -> res KB.

  (* loading what a store wrote hands exactly the stored catalog to BuildKnowledgeBase *)
  Theorem load_stored : forall lib c kb, wf_catalog c = true -> build c = Ok kb ->
    load KB build lib (encode c) true = (Ok kb, aupdate (kb_key (c_name c) (c_version c)) kb lib).
  Proof. intros. unfold load. rewrite codec_roundtrip by assumption. rewrite H0. reflexivity. Qed.

  (* a stream cut off at any byte: the load is an error and the library is as before *)
  Theorem load_truncated : forall lib c k ow, wf_catalog c = true -> (k < List.length (encode c))%nat ->
    load KB build lib (firstn k (encode c)) ow = (Err, lib).
  Proof. intros. unfold load. rewrite codec_prefix by assumption. reflexivity. Qed.

  (* what a failed store left behind is not a loadable stream either (unless all of it got through) *)
  Theorem load_after_failed_store : forall lib c k ow, wf_catalog c = true -> (k < n_writes c)%nat ->
    snd (store (Some k) c) = encode c \/ load KB build lib (snd (store (Some k) c)) ow = (Err, lib).
  Proof.
    intros lib c k ow Hwf Hk. destruct (store_fault_unloadable c k Hwf Hk) as [E|E]; [left; exact E|right].
    unfold load. rewrite E. reflexivity.
  Qed.
End LoadStore.

(* storing and loading again: the second generation is the first *)
Corollary codec_roundtrip_twice : forall c c', wf_catalog c = true -> decode (encode c) = Ok c' ->
  c' = c /\ decode (encode c') = Ok c'.
Proof.
  intros c c' H E. rewrite codec_roundtrip in E by exact H. inversion E; subst. split; auto.
  apply codec_roundtrip. exact H.
Qed.

(* ------------------------------------------------------------------------- *)
(* 11. a non-trivial well-formed catalog                                      *)

Definition ex_nm (i g s : string) := {| nm_id := i; nm_grl := g; nm_snap := s |}.

Definition example_catalog : catalog := {|
  c_name := "Pricing"; c_version := "0.1.1";
  c_data := [
    ("r1", MRuleEntry (ex_nm "r1" "ruleR1""d""salience-7{whenF.X<3thenF.X=F.X+1;}" "R(...)") "R1" "d" (-7) "w1" "t1");
    ("w1", MWhenScope (ex_nm "w1" "F.X<3" "WS(...)") "e1");
    ("e1", MExpression (ex_nm "e1" "F.X<3" "E(...)") "e2" "e3" "" "" 8 false);
    ("e2", MExpression (ex_nm "e2" "F.X" "E(EA(...))") "" "" "" "a1" 0 false);
    ("a1", MExpressionAtom (ex_nm "a1" "F.X" "A(V(...))") "" "" "" "v1" false "" "");
    ("v1", MVariable (ex_nm "v1" "F.X" "V(O:V(N:F)->X)") "X" "v0" "");
    ("v0", MVariable (ex_nm "v0" "F" "V(N:F)") "F" "" "");
    ("e3", MExpression (ex_nm "e3" "3" "E(EA(A(C(int64->3))))") "" "" "" "a2" 0 false);
    ("a2", MExpressionAtom (ex_nm "a2" "3" "A(C(int64->3))") "" "k1" "" "" false "" "");
    ("k1", MConstant (ex_nm "k1" "3" "C(int64->3)") 14 (enc_u64 3%N) false);
    ("t1", MThenScope (ex_nm "t1" "F.X=F.X+1;" "TS(...)") "l1");
    ("l1", MThenExpressionList (ex_nm "l1" "F.X=F.X+1;" "TEL(...)") ["s1"]);
    ("s1", MThenExpression (ex_nm "s1" "F.X=F.X+1" "TE(...)") "g1" "");
    ("g1", MAssignment (ex_nm "g1" "F.X=F.X+1" "AS(...)") "v1" "e4" true false false false false);
    ("e4", MExpression (ex_nm "e4" "F.X+1" "E(...)") "e2" "e5" "" "" 3 false);
    ("e5", MExpression (ex_nm "e5" "1" "E(EA(A(F(n:Max,AL(...)))))") "" "" "" "a3" 0 false);
    ("a3", MExpressionAtom (ex_nm "a3" "Max(1)" "A(F(...))") "" "" "f1" "" false "" "");
    ("f1", MFunctionCall (ex_nm "f1" "Max(1)" "F(n:Max,AL(...))") "Max" "al1");
    ("al1", MArgumentList (ex_nm "al1" "1" "AL(...)") ["e3"]);
    ("m1", MArrayMapSelector (ex_nm "m1" "[3]" "MAS(...)") "e3")];
  c_memname := "Pricing"; c_memversion := "0.1.1";
  c_varsnap := [("V(O:V(N:F)->X)", "v1"); ("V(N:F)", "v0")];
  c_exprsnap := [("E(...)", "e1")];
  c_atomsnap := [("A(V(...))", "a1")];
  c_exprvar := [("v1", ["e1"; "e2"; "e4"]); ("v0", [])];
  c_atomvar := [("v1", ["a1"]); ("v0", ["a1"])]
|}%string%Z.

Example example_catalog_wf : wf_catalog example_catalog = true.
Proof. vm_compute. reflexivity. Qed.

Example example_catalog_roundtrip : decode (encode example_catalog) = Ok example_catalog.
Proof. apply codec_roundtrip. exact example_catalog_wf. Qed.

Example example_catalog_size : List.length (encode example_catalog) = 2185%nat /\ n_writes example_catalog = 345%nat.
Proof. vm_compute. split; reflexivity. Qed.

Example example_catalog_every_cut_fails :
  forallb (fun k => negb (is_ok (decode (firstn k (encode example_catalog))))) (seq 0 2185) = true.
Proof. vm_compute. reflexivity. Qed.

(* ------------------------------------------------------------------------- *)
(* 12. the statements handed to coq/props/C12.v                               *)

Definition C12_roundtrip_statement : Prop :=
  forall c, wf_catalog c = true ->
    decode (encode c) = Ok c /\ (forall c', decode (encode c) = Ok c' -> decode (encode c') = Ok c').
Theorem C12_roundtrip_proved : C12_roundtrip_statement.
Proof.
  intros c H. split. apply codec_roundtrip; auto.
  intros c' E. destruct (codec_roundtrip_twice c c' H E). auto.
Qed.

Definition C12_truncation_statement : Prop :=
  forall c k, wf_catalog c = true -> (k < List.length (encode c))%nat ->
    decode (firstn k (encode c)) = Err /\
    forall KB (build : catalog -> res KB) lib ow, load KB build lib (firstn k (encode c)) ow = (Err, lib).
Theorem C12_truncation_proved : C12_truncation_statement.
Proof. intros c k H Hk. split. apply codec_prefix; auto. intros. apply load_truncated; auto. Qed.

Definition C12_no_overwrite_statement : Prop :=
  forall KB (build : catalog -> res KB) lib bs,
    (forall r lib', load KB build lib bs false = (r, lib') ->
       forall k kb0, alookup k lib = Some kb0 -> alookup k lib' = Some kb0) /\
    (forall c kb, decode bs = Ok c -> build c = Ok kb -> amem (kb_key (c_name c) (c_version c)) lib = true ->
       load KB build lib bs false = (Err, lib)) /\
    (forall ow lib', load KB build lib bs ow = (Err, lib') -> lib' = lib).
Theorem C12_no_overwrite_proved : C12_no_overwrite_statement.
Proof.
  intros KB build lib bs. split; [|split].
  - intros. eapply load_no_overwrite_untouched; eauto.
  - intros. eapply load_no_overwrite_existing; eauto.
  - intros. eapply load_error_keeps_library; eauto.
Qed.

(* ------------------------------------------------------------------------- *)
(* 13. allocation driven by the stream is linear in the stream (C20, binary)  *)

Definition L (bs : list byte) : N := N.of_nat (List.length bs).

(* reader rd with allocation account al: whenever rd succeeds, what it requested is paid
   for (three-fold) by the bytes it consumed *)
Definition Lin {A} (rd : reader A) (al : list byte -> N) : Prop :=
  forall bs x r, rd bs = Ok (x, r) -> L r <= L bs /\ al bs + 3 * L r <= 3 * L bs.
(* ... and whatever happens, the request is bounded by the stream that is left *)
Definition Tot (al : list byte -> N) : Prop := forall bs, al bs <= 3 * L bs + 8.

Lemma read_raw_len : forall n bs h r, read_raw n bs = Ok (h, r) -> L bs = n + L r /\ L h = n.
Proof.
  intros n bs h r H. unfold read_raw in H. destruct (take_N n bs) as [[h' r']|] eqn:E; inversion H; subst.
  apply take_N_some in E. destruct E as [-> E]. unfold L. rewrite app_length. lia.
Qed.

Lemma read_u64_len : forall bs n r, read_u64 bs = Ok (n, r) -> L bs = 8 + L r.
Proof.
  intros bs n r H. unfold read_u64 in H. destruct (read_raw 8 bs) as [[h r']| |] eqn:E; inversion H; subst.
  apply read_raw_len in E. lia.
Qed.

Lemma read_str_exact : forall bs s r, read_str bs = Ok (s, r) -> alloc_str bs + L r <= L bs /\ 8 + L r <= L bs.
Proof.
  intros bs s r H. unfold read_str in H. unfold alloc_str.
  destruct (read_u64 bs) as [[n r1]| |] eqn:E1; try discriminate. cbn [rbind] in H.
  destruct (read_raw n r1) as [[h r2]| |] eqn:E2; inversion H; subst.
  apply read_u64_len in E1. apply read_raw_len in E2. fold (L r1).
  destruct (two63 <=? n); lia.
Qed.

Lemma Lin_str : Lin read_str alloc_str.
Proof. intros bs s r H. apply read_str_exact in H. lia. Qed.

Lemma Tot_str : Tot alloc_str.
Proof.
  intros bs. unfold alloc_str. destruct (read_u64 bs) as [[n r]| |] eqn:E; try lia.
  apply read_u64_len in E. fold (L r). destruct (two63 <=? n); lia.
Qed.

(* one element of a []string: the 16 bytes of the append are covered because the element consumed at least 8 *)
Lemma Lin_str_elem : Lin read_str alloc_str_elem.
Proof.
  intros bs s r H. unfold alloc_str_elem. rewrite H. cbn [after]. unfold string_header_size.
  apply read_str_exact in H. lia.
Qed.

Lemma Tot_str_elem : Tot alloc_str_elem.
Proof.
  intros bs. destruct (read_str bs) as [[s r]| |] eqn:E.
  - pose proof (Lin_str_elem _ _ _ E). lia.
  - unfold alloc_str_elem. rewrite E. cbn [after]. pose proof (Tot_str bs). lia.
  - unfold alloc_str_elem. rewrite E. cbn [after]. pose proof (Tot_str bs). lia.
Qed.

(* sequencing *)
Lemma Tot_after : forall A (rd : reader A) al k, Lin rd al -> Tot al -> Tot k ->
  Tot (fun bs => al bs + after (rd bs) k).
Proof.
  intros A rd al k Hl Ha Hk bs. cbv beta. destruct (rd bs) as [[x r]| |] eqn:E; cbn [after].
  - apply Hl in E. pose proof (Hk r). lia.
  - pose proof (Ha bs). lia.
  - pose proof (Ha bs). lia.
Qed.

Lemma Lin_seq_fuel : forall A (rd : reader A) al, Lin rd al ->
  forall fuel count, Lin (read_seq_fuel rd fuel count) (alloc_seq_fuel rd al fuel count).
Proof.
  intros A rd al Hl. induction fuel; intros count bs xs r H.
  - destruct count; cbn in H; inversion H; subst. cbn. lia.
  - destruct count as [|p]; [cbn in H; inversion H; subst; cbn; lia|].
    cbn [read_seq_fuel alloc_seq_fuel] in *.
    destruct (rd bs) as [[x r1]| |] eqn:E1; try discriminate. cbn [rbind after] in *.
    destruct (read_seq_fuel rd fuel (N.pred (N.pos p)) r1) as [[xs' r2]| |] eqn:E2; inversion H; subst.
    apply Hl in E1. apply IHfuel in E2. lia.
Qed.

Lemma Tot_seq_fuel : forall A (rd : reader A) al, Lin rd al -> Tot al ->
  forall fuel count, Tot (alloc_seq_fuel rd al fuel count).
Proof.
  intros A rd al Hl Ha. induction fuel; intros count bs.
  - destruct count; cbn [alloc_seq_fuel]; [lia | apply Ha].
  - destruct count as [|p]; cbn [alloc_seq_fuel]; [lia|].
    apply (Tot_after _ rd al _ Hl Ha (IHfuel (N.pred (N.pos p)))).
Qed.

Lemma Lin_counted : forall A (rd : reader A) al, Lin rd al -> Lin (read_counted rd) (alloc_counted rd al).
Proof.
  intros A rd al Hl bs xs r H. unfold read_counted in H. unfold alloc_counted.
  destruct (read_u64 bs) as [[n r1]| |] eqn:E1; try discriminate. cbn [rbind] in H.
  unfold read_seq in H. unfold alloc_seq. apply (Lin_seq_fuel _ rd al Hl) in H. apply read_u64_len in E1. lia.
Qed.

Lemma Tot_counted : forall A (rd : reader A) al, Lin rd al -> Tot al -> Tot (alloc_counted rd al).
Proof.
  intros A rd al Hl Ha bs. unfold alloc_counted.
  destruct (read_u64 bs) as [[n r]| |] eqn:E; try lia.
  apply read_u64_len in E. unfold alloc_seq. pose proof (Tot_seq_fuel _ rd al Hl Ha (List.length r) n r). lia.
Qed.

Definition Lin_strs := Lin_counted _ read_str alloc_str_elem Lin_str_elem.
Definition Tot_strs := Tot_counted _ read_str alloc_str_elem Lin_str_elem Tot_str_elem.

Lemma Lin_field : forall k, Lin (read_field k) (alloc_field k).
Proof.
  intros k bs v r H. destruct k; cbn [read_field alloc_field] in *.
  - destruct (read_str bs) as [[s r1]| |] eqn:E; inversion H; subst. apply Lin_str in E. exact E.
  - unfold read_int in H. destruct (read_u64 bs) as [[n r1]| |] eqn:E; inversion H; subst. apply read_u64_len in E. lia.
  - unfold read_bool in H. destruct bs; inversion H; subst. unfold L. cbn [List.length]. lia.
  - destruct (read_counted read_str bs) as [[l r1]| |] eqn:E; inversion H; subst. apply Lin_strs in E. exact E.
  - unfold read_bytes in H.
    destruct (read_u64 bs) as [[n r1]| |] eqn:E1; try discriminate. cbn [rbind] in H.
    destruct (read_raw n r1) as [[h r2]| |] eqn:E2; inversion H; subst.
    assert (Hs : read_str bs = Ok (string_of_list_ascii h, r)).
    { unfold read_str. rewrite E1. cbn [rbind]. rewrite E2. reflexivity. }
    apply Lin_str in Hs. exact Hs.
Qed.

Lemma Tot_field : forall k, Tot (alloc_field k).
Proof.
  intros k bs. destruct k; cbn [alloc_field]; try apply Tot_str; try apply Tot_strs; lia.
Qed.

Lemma Lin_fields : forall ks, Lin (read_fields ks) (alloc_fields ks).
Proof.
  induction ks; intros bs vs r H; cbn [read_fields alloc_fields] in *.
  - inversion H; subst. lia.
  - destruct (read_field a bs) as [[v r1]| |] eqn:E1; try discriminate. cbn [rbind after] in *.
    destruct (read_fields ks r1) as [[vs' r2]| |] eqn:E2; inversion H; subst.
    apply Lin_field in E1. apply IHks in E2. lia.
Qed.

Lemma Tot_fields : forall ks, Tot (alloc_fields ks).
Proof.
  induction ks; cbn [alloc_fields].
  - intros bs. lia.
  - apply (Tot_after _ (read_field a) (alloc_field a) _ (Lin_field a) (Tot_field a) IHks).
Qed.

Lemma Lin_entry : Lin read_entry alloc_entry.
Proof.
  intros bs e r H. unfold read_entry in H. unfold alloc_entry.
  destruct (read_str bs) as [[k r1]| |] eqn:E1; try discriminate. cbn [rbind after] in *.
  destruct (read_u64 r1) as [[t r2]| |] eqn:E2; try discriminate. cbn [rbind] in *.
  destruct (meta_desc t) as [d|]; try discriminate.
  destruct (read_fields (map snd d) r2) as [[vs r3]| |] eqn:E3; try discriminate. cbn [rbind] in *.
  destruct (meta_of_fields t vs); inversion H; subst.
  apply Lin_str in E1. apply read_u64_len in E2. apply Lin_fields in E3. lia.
Qed.

Lemma Tot_entry : Tot alloc_entry.
Proof.
  unfold alloc_entry. apply (Tot_after _ read_str alloc_str _ Lin_str Tot_str).
  intros r1. destruct (read_u64 r1) as [[t r2]| |] eqn:E; try lia.
  apply read_u64_len in E. destruct (meta_desc t) as [d|]; [|lia].
  pose proof (Tot_fields (map snd d) r2). lia.
Qed.

Lemma Lin_pair : Lin read_pair alloc_pair.
Proof.
  intros bs e r H. unfold read_pair in H. unfold alloc_pair.
  destruct (read_str bs) as [[k r1]| |] eqn:E1; try discriminate. cbn [rbind after] in *.
  destruct (read_str r1) as [[v r2]| |] eqn:E2; inversion H; subst.
  apply Lin_str in E1. apply Lin_str in E2. lia.
Qed.

Lemma Tot_pair : Tot alloc_pair.
Proof. unfold alloc_pair. apply (Tot_after _ read_str alloc_str _ Lin_str Tot_str Tot_str). Qed.

Lemma Lin_keyed : Lin read_keyed alloc_keyed.
Proof.
  intros bs e r H. unfold read_keyed in H. unfold alloc_keyed.
  destruct (read_str bs) as [[k r1]| |] eqn:E1; try discriminate. cbn [rbind after] in *.
  destruct (read_counted read_str r1) as [[v r2]| |] eqn:E2; inversion H; subst.
  apply Lin_str in E1. apply Lin_strs in E2. lia.
Qed.

Lemma Tot_keyed : Tot alloc_keyed.
Proof. unfold alloc_keyed. apply (Tot_after _ read_str alloc_str _ Lin_str Tot_str Tot_strs). Qed.

Definition Lin_entries := Lin_counted _ read_entry alloc_entry Lin_entry.
Definition Tot_entries := Tot_counted _ read_entry alloc_entry Lin_entry Tot_entry.
Definition Lin_pairs := Lin_counted _ read_pair alloc_pair Lin_pair.
Definition Tot_pairs := Tot_counted _ read_pair alloc_pair Lin_pair Tot_pair.
Definition Lin_keyeds := Lin_counted _ read_keyed alloc_keyed Lin_keyed.
Definition Tot_keyeds := Tot_counted _ read_keyed alloc_keyed Lin_keyed Tot_keyed.

(* the whole decoder, on every stream: decodable, truncated, hostile *)
Theorem alloc_decode_linear : Tot alloc_decode.
Proof.
  unfold alloc_decode. intros bs.
  destruct (read_str bs) as [[v r0]| |] eqn:E0; cbn [afterv]; try (pose proof (Tot_str bs); lia).
  apply Lin_str in E0.
  destruct (negb (String.eqb v codec_version)); [lia|].
  assert (T : Tot (fun r0 =>
    alloc_str r0 + after (read_str r0) (fun r1 =>
    alloc_str r1 + after (read_str r1) (fun r2 =>
    alloc_counted read_entry alloc_entry r2 + after (read_counted read_entry r2) (fun r3 =>
    alloc_str r3 + after (read_str r3) (fun r4 =>
    alloc_str r4 + after (read_str r4) (fun r5 =>
    alloc_counted read_pair alloc_pair r5 + after (read_counted read_pair r5) (fun r6 =>
    alloc_counted read_pair alloc_pair r6 + after (read_counted read_pair r6) (fun r7 =>
    alloc_counted read_pair alloc_pair r7 + after (read_counted read_pair r7) (fun r8 =>
    alloc_counted read_keyed alloc_keyed r8 + after (read_counted read_keyed r8) (fun r9 =>
    alloc_counted read_keyed alloc_keyed r9))))))))))).
  { apply (Tot_after _ _ _ _ Lin_str Tot_str).
    apply (Tot_after _ _ _ _ Lin_str Tot_str).
    apply (Tot_after _ _ _ _ Lin_entries Tot_entries).
    apply (Tot_after _ _ _ _ Lin_str Tot_str).
    apply (Tot_after _ _ _ _ Lin_str Tot_str).
    apply (Tot_after _ _ _ _ Lin_pairs Tot_pairs).
    apply (Tot_after _ _ _ _ Lin_pairs Tot_pairs).
    apply (Tot_after _ _ _ _ Lin_pairs Tot_pairs).
    apply (Tot_after _ _ _ _ Lin_keyeds Tot_keyeds).
    exact Tot_keyeds. }
  pose proof (T r0). cbv beta in H. lia.
Qed.

(* the statement C20 makes about the binary loader, for the modelled allocation: requested
   bytes bounded by a linear function of the input length, K = 3 and K' = 8 *)
Definition C20_binary_statement : Prop :=
  forall bs, alloc_decode bs <= 3 * N.of_nat (List.length bs) + 8.
Theorem C20_binary_proved : C20_binary_statement.
Proof. exact alloc_decode_linear. Qed.

(* the former witnesses of the over-allocation (engine before commit 2f18ef4): version string, then a
   length prefix with nothing after it.  The repaired reader asks for 19 bytes, whatever the prefix. *)
Definition hostile_stream (n : N) : list byte := enc_str codec_version ++ enc_u64 n.

Example hostile_streams_are_cheap :
  map (fun n => (alloc_decode (hostile_stream n), decode (hostile_stream n)))
      [1099511627776; 8589934592; 9223372036854775807; 9223372036854775808; 18446744073709551615] =
  [(19, Err); (19, Err); (19, Err); (19, Err); (19, Err)].
Proof. vm_compute. reflexivity. Qed.

(* ------------------------------------------------------------------------- *)
(* 15. what a failed store leaves behind is never a loadable stream           *)

Definition last_nonempty (l : list (list byte)) : Prop := exists init x, l = init ++ [x] /\ x <> [].

Lemma last_nonempty_app_r : forall l1 l2, last_nonempty l2 -> last_nonempty (l1 ++ l2).
Proof. intros l1 l2 [init [x [-> Hx]]]. exists (l1 ++ init), x. rewrite app_assoc. auto. Qed.

Lemma last_nonempty_str : forall s, last_nonempty (chunks_str s).
Proof.
  intros. unfold chunks_str. destruct (list_ascii_of_string s) as [|a l]; cbn [chunk_nonempty].
  - exists [], (enc_u64 (N.of_nat (@List.length byte []))). split; [reflexivity | apply NE_u64'].
  - exists [enc_u64 (N.of_nat (List.length (a :: l)))], (a :: l). split; [reflexivity | discriminate].
Qed.

Lemma last_nonempty_seq : forall A (ch : A -> list (list byte)) xs,
  (forall x, last_nonempty (ch x)) -> last_nonempty (chunks_seq ch xs).
Proof.
  intros A ch xs H. unfold chunks_seq, chunks_u64.
  induction xs as [|x xs _] using rev_ind.
  - exists [], (enc_u64 (N.of_nat (@List.length A []))). split; [reflexivity | apply NE_u64'].
  - rewrite map_app, concat_app. cbn [map List.concat]. rewrite app_nil_r, app_assoc.
    apply last_nonempty_app_r. apply H.
Qed.

Lemma last_nonempty_keyed : forall p, last_nonempty (chunks_keyed p).
Proof.
  intros. unfold chunks_keyed. apply last_nonempty_app_r. apply last_nonempty_seq. apply last_nonempty_str.
Qed.

Lemma catalog_chunks_last : forall c, last_nonempty (catalog_chunks c).
Proof.
  intros. unfold catalog_chunks. do 10 apply last_nonempty_app_r.
  apply last_nonempty_seq. apply last_nonempty_keyed.
Qed.

Lemma concat_skipn_nonempty : forall (l : list (list byte)) k, last_nonempty l -> (k < List.length l)%nat ->
  List.concat (skipn k l) <> [].
Proof.
  intros l k [init [x [-> Hx]]] Hk. rewrite app_length in Hk. cbn [List.length] in Hk.
  rewrite skipn_app. replace (k - List.length init)%nat with 0%nat by lia. cbn [skipn].
  rewrite concat_app. cbn [List.concat]. rewrite app_nil_r.
  intro E. apply app_eq_nil in E. destruct E. congruence.
Qed.

Theorem store_fault_strict : forall c k, wf_catalog c = true -> (k < n_writes c)%nat ->
  decode (snd (store (Some k) c)) = Err /\ snd (store (Some k) c) <> encode c.
Proof.
  intros c k Hwf Hk. unfold store. rewrite run_writes_fail by exact Hk. cbn [snd app].
  assert (E : encode c = List.concat (firstn k (catalog_chunks c)) ++ List.concat (skipn k (catalog_chunks c))).
  { rewrite <- concat_app, firstn_skipn. symmetry. apply catalog_chunks_concat. }
  pose proof (concat_skipn_nonempty _ k (catalog_chunks_last c) Hk) as Hne.
  split.
  - unfold decode. rewrite (decode_rest_prefix c _ _ Hwf E Hne). reflexivity.
  - intro E2. rewrite E2 in E at 1. rewrite <- (app_nil_r (encode c)) in E at 1.
    apply app_inv_head in E. congruence.
Qed.

Definition C12_writer_fault_statement : Prop :=
  forall c k, wf_catalog c = true ->
    store None c = (Ok tt, encode c) /\
    ((k < n_writes c)%nat ->
       fst (store (Some k) c) = Err /\
       (exists rest, rest <> [] /\ encode c = snd (store (Some k) c) ++ rest) /\
       decode (snd (store (Some k) c)) = Err) /\
    ((n_writes c <= k)%nat -> store (Some k) c = (Ok tt, encode c)).
Theorem C12_writer_fault_proved : C12_writer_fault_statement.
Proof.
  intros c k H. split; [apply store_ok|]. split.
  - intros Hk. destruct (store_fault c k Hk) as [E1 [rest E2]].
    destruct (store_fault_strict c k H Hk) as [E3 E4].
    split; [exact E1|]. split; [|exact E3].
    exists rest. split; [|exact E2]. intro; subst rest. rewrite app_nil_r in E2. congruence.
  - apply store_late_fault.
Qed.

(* ------------------------------------------------------------------------- *)
(* 16. the fuel of the sequence readers is not observable                     *)

(* an element reader that fails on the empty stream and consumes at least one byte *)
Definition consuming {A} (rd : reader A) : Prop :=
  rd [] = Err /\ forall bs x r, rd bs = Ok (x, r) -> (List.length r < List.length bs)%nat.

Lemma read_seq_fuel_irrelevant : forall A (rd : reader A), consuming rd ->
  forall f1 f2 count bs, (List.length bs <= f1)%nat -> (List.length bs <= f2)%nat ->
  read_seq_fuel rd f1 count bs = read_seq_fuel rd f2 count bs.
Proof.
  intros A rd [Hnil Hc]. induction f1 as [|f1 IH]; intros f2 count bs H1 H2.
  - destruct bs; [|cbn in H1; lia]. destruct count; [destruct f2; reflexivity|].
    destruct f2; [reflexivity|]. cbn [read_seq_fuel]. rewrite Hnil. reflexivity.
  - destruct count; [destruct f2; reflexivity|].
    destruct f2 as [|f2].
    + destruct bs; [|cbn in H2; lia]. cbn [read_seq_fuel]. rewrite Hnil. reflexivity.
    + cbn [read_seq_fuel]. destruct (rd bs) as [[x r]| |] eqn:E; try reflexivity. cbn [rbind].
      apply Hc in E. rewrite (IH f2) by lia. reflexivity.
Qed.

Lemma consuming_str : consuming read_str.
Proof.
  split; [reflexivity|]. intros bs x r H. apply read_str_exact in H. unfold L in H. lia.
Qed.

Lemma consuming_first_str : forall A (rd : reader A),
  (forall bs x r, rd bs = Ok (x, r) -> exists s r1, read_str bs = Ok (s, r1) /\ (List.length r <= List.length r1)%nat) ->
  rd [] = Err -> consuming rd.
Proof.
  intros A rd H Hnil. split; [exact Hnil|]. intros bs x r E.
  destruct (H _ _ _ E) as [s [r1 [E1 Hl]]]. apply read_str_exact in E1. unfold L in E1. lia.
Qed.

(* every count-prefixed section of the catalog is read by a consuming reader, so [decode] does not
   depend on the fuel it gives itself: running out of fuel only happens on an exhausted stream *)
Lemma consuming_entry : consuming read_entry.
Proof.
  apply consuming_first_str; [|reflexivity]. intros bs e r H.
  pose proof (Lin_entry _ _ _ H) as [Hl _]. unfold read_entry in H.
  destruct (read_str bs) as [[k r1]| |] eqn:E1; try discriminate. exists k, r1. split; [reflexivity|].
  cbn [rbind] in H. destruct (read_u64 r1) as [[t r2]| |] eqn:E2; try discriminate. cbn [rbind] in H.
  destruct (meta_desc t) as [d|]; try discriminate.
  destruct (read_fields (map snd d) r2) as [[vs r3]| |] eqn:E3; try discriminate. cbn [rbind] in H.
  destruct (meta_of_fields t vs); inversion H; subst.
  apply read_u64_len in E2. apply Lin_fields in E3. unfold L in *. lia.
Qed.

Lemma consuming_pair : consuming read_pair.
Proof.
  apply consuming_first_str; [|reflexivity]. intros bs e r H. unfold read_pair in H.
  destruct (read_str bs) as [[k r1]| |] eqn:E1; try discriminate. exists k, r1. split; [reflexivity|].
  cbn [rbind] in H. destruct (read_str r1) as [[v r2]| |] eqn:E2; inversion H; subst.
  apply Lin_str in E2. unfold L in *. lia.
Qed.

Lemma consuming_keyed : consuming read_keyed.
Proof.
  apply consuming_first_str; [|reflexivity]. intros bs e r H. unfold read_keyed in H.
  destruct (read_str bs) as [[k r1]| |] eqn:E1; try discriminate. exists k, r1. split; [reflexivity|].
  cbn [rbind] in H. destruct (read_counted read_str r1) as [[v r2]| |] eqn:E2; inversion H; subst.
  apply Lin_strs in E2. unfold L in *. lia.
Qed.
