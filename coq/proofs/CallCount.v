(* CallCount.v — C13 over a whole run.  A counted fact method M that occurs in the rule set with one text only
   (the atom a0 = recv0.M(args0), in any number of rules and surrounding expressions) runs, during one Execute call, at
   most once plus once per executed statement that is an invalidation event for a0: an assignment whose reset set
   contains a variable occurring in a0's snapshot, or a Forget / Changed call.

   Potential:  Phi s = (number of times M ran) - (1 if a0 is remembered, else 0).
   Evaluating any side-effect free node never raises Phi (a miss on a0 runs M once and remembers the result; a hit runs
   nothing); a statement raises it by at most its cost (it can only drop a0 from the memory); Potential.v sums that over
   the cycles of a run of the abstract engine. *)
From Coq Require Import Lia.
From Grule Require Import Base Values Syntax CmpGen ArithGen OpsGen Snapshot Printer EngineGen EngineAbs Facts Eval Fresh
     FactsProofs ActionTheorems MemoProofs MemoKeep Refinement Potential.
Open Scope Z_scope.

(* a chain that can be read can be written *)
Lemma steps_get_set_exists : forall ss v y x, steps_get v ss = Ok y -> exists v', steps_set v ss x = Some v'.
Proof.
  induction ss as [|st ss IH]; intros v y x H; [eexists; reflexivity|].
  cbn [steps_get] in H. destruct (step_get v st) as [c| |] eqn:G; try discriminate.
  destruct (IH c y x H) as [c' E].
  destruct st as [n|i|k]; destruct v; cbn [step_get] in G; try discriminate;
    repeat match type of G with
           | match ?t with _ => _ end = _ => destruct t eqn:?; try discriminate
           end;
    inversion G; subst; cbn [steps_set];
    repeat match goal with
           | Hq : ?t = _ |- context [match ?t with _ => _ end] => rewrite Hq
           end; rewrite ?E; eexists; reflexivity.
Qed.

Lemma path_get_set_exists : forall fx p y x, path_get fx p = Ok y -> exists fx', path_set fx p x = Some fx'.
Proof.
  intros fx p y x H. unfold path_get in H. unfold path_set.
  destruct (alookup (p_root p) fx) as [v|]; [|discriminate].
  destruct (steps_get_set_exists _ _ _ x H) as [v' ->]. eexists; reflexivity.
Qed.

Lemma lookup_atom_filter_none : forall (f : atom * rval -> bool) m a, lookup_atom m a = None -> lookup_atom (filter f m) a = None.
Proof.
  intros f m a. induction m as [|[k v] m IH]; simpl; intros H; [reflexivity|].
  destruct (atom_eqb k a) eqn:E; [discriminate|]. destruct (f (k, v)); simpl; [rewrite E|]; auto.
Qed.

Section CallCount.
Variable allvars : list var.
Variable meth : list (string * fval) -> string -> list val -> res (option val * list (string * fval)).
Variable panics_inside : string -> list val -> bool.
Variable mutating : string -> bool.

(* the counted method and the one text it is called with *)
Variable M : string.
Variable recv0 : atom.
Variable args0 : elist.
Definition a0 : atom := AMethod recv0 M args0.
(* M does not panic inside its body (a reflect.Call panic on arguments of the wrong number or type happens before the
   method runs: it is neither counted nor remembered) *)
Hypothesis M_no_panic : forall fs args, meth fs M args = Panic -> panics_inside M args = false.

Notation eval_expr := (eval_expr allvars meth panics_inside).
Notation eval_atom := (eval_atom allvars meth panics_inside).
Notation eval_var := (eval_var allvars meth panics_inside).
Notation eval_args := (eval_args allvars meth panics_inside).
Notation pure_expr := (pure_expr mutating).
Notation pure_atom := (pure_atom mutating).
Notation pure_var := (pure_var mutating).
Notation pure_elist := (pure_elist mutating).
Notation has_atom := MemoKeep.has_atom.

Definition cnt (s : estate) : Z := match alookup M (es_calls s) with Some n => n | None => 0 end.
Definition hmem (s : estate) : Z := match lookup_atom (es_matom s) a0 with Some _ => 1 | None => 0 end.
Definition Phi (s : estate) : Z := cnt s - hmem s.
Definition nohas (s : estate) : Prop := lookup_atom (es_matom s) a0 = None.

(* ---- sizes: a node does not occur inside its own receiver or arguments ---- *)
Fixpoint sz_expr (e : expr) : nat :=
  match e with EAtom a => S (sz_atom a) | EParen _ e' => S (sz_expr e') | EBin _ l r => S (sz_expr l + sz_expr r) end
with sz_atom (a : atom) : nat :=
  match a with
  | AConst _ => 1%nat | AVar v => S (sz_var v) | AFunc _ l => S (sz_elist l)
  | AMethod r _ l => S (sz_atom r + sz_elist l) | AMember r _ => S (sz_atom r)
  | ASel r e => S (sz_atom r + sz_expr e) | ANeg r => S (sz_atom r)
  end
with sz_var (v : var) : nat :=
  match v with VName _ => 1%nat | VMember v' _ => S (sz_var v') | VSel v' e => S (sz_var v' + sz_expr e) end
with sz_elist (l : elist) : nat :=
  match l with ENil => 1%nat | ECons e l' => S (sz_expr e + sz_elist l') end.

(* does a0 occur as a node of ... *)
Fixpoint occ_expr (e : expr) : bool :=
  match e with EAtom a => occ_atom a | EParen _ e' => occ_expr e' | EBin _ l r => occ_expr l || occ_expr r end
with occ_atom (a : atom) : bool :=
  atom_eqb a a0 ||
  match a with
  | AConst _ => false | AVar v => occ_var v | AFunc _ l => occ_elist l
  | AMethod r _ l => occ_atom r || occ_elist l | AMember r _ => occ_atom r
  | ASel r e => occ_atom r || occ_expr e | ANeg r => occ_atom r
  end
with occ_var (v : var) : bool :=
  match v with VName _ => false | VMember v' _ => occ_var v' | VSel v' e => occ_var v' || occ_expr e end
with occ_elist (l : elist) : bool :=
  match l with ENil => false | ECons e l' => occ_expr e || occ_elist l' end.

Lemma occ_size :
  (forall e, occ_expr e = true -> (sz_atom a0 <= sz_expr e)%nat) /\
  (forall a, occ_atom a = true -> (sz_atom a0 <= sz_atom a)%nat) /\
  (forall v, occ_var v = true -> (sz_atom a0 <= sz_var v)%nat) /\
  (forall l, occ_elist l = true -> (sz_atom a0 <= sz_elist l)%nat).
Proof.
  apply syntax_mutind; intros;
    repeat match goal with
           | H : occ_atom ?a = true |- _ =>
               lazymatch a with
               | _ _ => cbn [occ_atom] in H; apply Bool.orb_true_iff in H; destruct H as [H|H];
                        [apply atom_eqb_eq in H; rewrite <- H; cbn [sz_atom]; lia|]
               end
           | H : occ_expr (_ _) = true |- _ => cbn [occ_expr] in H
           | H : occ_var (_ _) = true |- _ => cbn [occ_var] in H
           | H : occ_elist (_ _) = true |- _ => cbn [occ_elist] in H
           | H : occ_elist ENil = true |- _ => discriminate H
           | H : false = true |- _ => discriminate H
           | H : (_ || _)%bool = true |- _ => apply Bool.orb_true_iff in H; destruct H as [H|H]
           end;
    cbn [sz_expr sz_atom sz_var sz_elist];
    repeat match goal with
           | IH : ?P -> (_ <= _)%nat, H : ?P |- _ => specialize (IH H)
           end; try lia.
Qed.

Lemma a0_not_inside : occ_atom recv0 = false /\ occ_elist args0 = false.
Proof.
  destruct occ_size as (_ & A & _ & L). split.
  - destruct (occ_atom recv0) eqn:E; [|reflexivity]. specialize (A _ E). unfold a0 in A. cbn [sz_atom] in A. lia.
  - destruct (occ_elist args0) eqn:E; [|reflexivity]. specialize (L _ E). unfold a0 in L. cbn [sz_atom] in L. lia.
Qed.

(* ---- elementary facts about the state operations ---- *)
Lemma nohas_memo_atom : forall s x v, nohas s -> atom_eqb x a0 = false -> nohas (memo_atom s x v).
Proof. intros s x v H E. unfold nohas in *. simpl. rewrite E. exact H. Qed.
Lemma nohas_same : forall s s', es_matom s' = es_matom s -> nohas s -> nohas s'.
Proof. intros s s' E H. unfold nohas in *. rewrite E. exact H. Qed.

Lemma occ_atom_false_eqb : forall a, occ_atom a = false -> atom_eqb a a0 = false.
Proof. intros a H. destruct a; cbn [occ_atom] in H; apply Bool.orb_false_iff in H; apply H. Qed.

Definition A_expr (e : expr) : Prop := pure_expr e = true -> occ_expr e = false -> forall s r s', eval_expr e s = (r, s') -> nohas s -> nohas s'.
Definition A_atom (a : atom) : Prop := pure_atom a = true -> occ_atom a = false -> forall s r s', eval_atom a s = (r, s') -> nohas s -> nohas s'.
Definition A_var (x : var) : Prop := pure_var x = true -> occ_var x = false -> forall s r s', eval_var x s = (r, s') -> nohas s -> nohas s'.
Definition A_elist (l : elist) : Prop := pure_elist l = true -> occ_elist l = false -> forall s r s', eval_args l s = (r, s') -> nohas s -> nohas s'.

Ltac fin H := inversion H; subst; eauto using nohas_memo_atom, nohas_same.
Lemma orb2 : forall a b, (a || b)%bool = false -> a = false /\ b = false. Proof. intros [] []; auto. Qed.
Lemma orb3 : forall a b c, (a || (b || c))%bool = false -> a = false /\ b = false /\ c = false. Proof. intros [] [] []; auto. Qed.
Ltac occ2 Ho A B := cbn [occ_expr occ_atom occ_var occ_elist] in Ho; apply orb2 in Ho; destruct Ho as [A B].
Ltac occ3 Ho A B C := cbn [occ_expr occ_atom occ_var occ_elist] in Ho; apply orb3 in Ho; destruct Ho as (A & B & C).

(* evaluating a node in which a0 does not occur never makes a0 remembered *)
Theorem eval_no_new : (forall e, A_expr e) /\ (forall a, A_atom a) /\ (forall x, A_var x) /\ (forall l, A_elist l).
Proof.
  apply syntax_mutind; unfold A_expr, A_atom, A_var, A_elist.
  - (* EAtom *)
    intros a IHa Hp Ho s r s' H N. rewrite eval_expr_unfold in H; unfold eval_expr_miss in H.
    destruct (lookup_expr (es_mexpr s) (EAtom a)); [fin H|].
    destruct (eval_atom a s) as [ra s1] eqn:Ea. pose proof (IHa Hp Ho _ _ _ Ea N) as N1.
    destruct ra; fin H.
  - (* EParen *)
    intros neg e IHe Hp Ho s r s' H N. rewrite eval_expr_unfold in H; unfold eval_expr_miss in H.
    destruct (lookup_expr (es_mexpr s) (EParen neg e)); [fin H|].
    destruct (eval_expr e s) as [re s1] eqn:Ee. simpl in Hp. pose proof (IHe Hp Ho _ _ _ Ee N) as N1.
    destruct re; fin H.
  - (* EBin *)
    intros o l IHl r0 IHr Hp Ho s r s' H N. rewrite eval_expr_unfold in H; unfold eval_expr_miss in H.
    simpl in Hp. apply andb_prop in Hp. destruct Hp as [Hpl Hpr]. occ2 Ho Ho Ho0.
    destruct (lookup_expr (es_mexpr s) (EBin o l r0)); [fin H|].
    destruct (eval_expr l s) as [lres s1] eqn:El. pose proof (IHl Hpl Ho _ _ _ El N) as N1.
    destruct (bin_left_fail o lres); [fin H|].
    destruct (bin_shortcut o (es_facts s1) lres); [fin H|].
    destruct (eval_expr r0 s1) as [rres s2] eqn:Er. pose proof (IHr Hpr Ho0 _ _ _ Er N1) as N2.
    destruct (bin_combine o (es_facts s2) lres rres); fin H.
  - (* AConst *)
    intros c Hp Ho s r s' H N. rewrite eval_atom_unfold in H; unfold eval_atom_miss in H.
    pose proof (occ_atom_false_eqb _ Ho) as E0.
    destruct (lookup_atom (es_matom s) (AConst c)); fin H.
  - (* AVar *)
    intros x IHx Hp Ho s r s' H N. rewrite eval_atom_unfold in H; unfold eval_atom_miss in H.
    pose proof (occ_atom_false_eqb _ Ho) as E0. occ2 Ho Hx Ho0.
    destruct (lookup_atom (es_matom s) (AVar x)); [fin H|].
    destruct (eval_var x s) as [rx s1] eqn:Ex. simpl in Hp. pose proof (IHx Hp Ho0 _ _ _ Ex N) as N1.
    destruct rx; fin H.
  - (* AFunc *)
    intros f args IHargs Hp Ho s r s' H N. rewrite eval_atom_unfold in H; unfold eval_atom_miss in H.
    simpl in Hp. apply andb_prop in Hp. destruct Hp as [Hnc Hpa]. occ2 Ho Hx Ho0.
    destruct (lookup_atom (es_matom s) (AFunc f args)); [fin H|].
    destruct (eval_args args s) as [ra s1] eqn:Ea. pose proof (IHargs Hpa Ho0 _ _ _ Ea N) as N1.
    destruct ra as [vs| |]; try (fin H; fail).
    apply negb_true_iff in Hnc.
    assert (Hk: defunc_kind f = DOther) by (unfold control_builtin in Hnc; destruct (defunc_kind f); auto; discriminate).
    rewrite Hk in H.
    assert (Hgen: (defunc_value (es_facts s1) f vs, s1) = (r, s')) by exact H.
    inversion Hgen; subst. exact N1.
  - (* AMethod *)
    intros a IHa f args IHargs Hp Ho s r s' H N. rewrite eval_atom_unfold in H; unfold eval_atom_miss in H.
    pose proof (occ_atom_false_eqb _ Ho) as E0. occ3 Ho Hx Ho0 Ho1.
    simpl in Hp. apply andb_prop in Hp. destruct Hp as [Hp Hpargs]. apply andb_prop in Hp. destruct Hp as [Hnm Hpa].
    destruct (lookup_atom (es_matom s) (AMethod a f args)); [fin H|].
    destruct (eval_atom a s) as [ra s1] eqn:Ea. pose proof (IHa Hpa Ho0 _ _ _ Ea N) as N1.
    destruct ra as [recv| |]; try (fin H; fail).
    destruct (eval_args args s1) as [rargs s2] eqn:Eargs. pose proof (IHargs Hpargs Ho1 _ _ _ Eargs N1) as N2.
    destruct rargs as [vs| |]; try (fin H; fail).
    destruct (call_receiver meth panics_inside s2 recv f (map (arg_val s2) vs)) as [rc s3] eqn:Ec.
    destruct (call_receiver_memo _ _ _ _ _ _ _ _ Ec) as [M1 M2].
    pose proof (nohas_same _ _ M1 N2) as N3.
    destruct rc; fin H.
  - (* AMember *)
    intros a IHa n Hp Ho s r s' H N. rewrite eval_atom_unfold in H; unfold eval_atom_miss in H. simpl in Hp.
    pose proof (occ_atom_false_eqb _ Ho) as E0. occ2 Ho Hx Ho0.
    destruct (lookup_atom (es_matom s) (AMember a n)); [fin H|].
    destruct (eval_atom a s) as [ra s1] eqn:Ea. pose proof (IHa Hp Ho0 _ _ _ Ea N) as N1.
    destruct ra as [recv| |]; try (fin H; fail).
    destruct (child_field s1 recv n); fin H.
  - (* ASel *)
    intros a IHa sel IHsel Hp Ho s r s' H N. rewrite eval_atom_unfold in H; unfold eval_atom_miss in H.
    pose proof (occ_atom_false_eqb _ Ho) as E0. occ3 Ho Hx Ho0 Ho1.
    simpl in Hp. apply andb_prop in Hp. destruct Hp as [Hpa Hps].
    destruct (lookup_atom (es_matom s) (ASel a sel)); [fin H|].
    destruct (eval_atom a s) as [ra s1] eqn:Ea. pose proof (IHa Hpa Ho0 _ _ _ Ea N) as N1.
    destruct ra as [recv| |]; try (fin H; fail).
    destruct (eval_expr sel s1) as [rk s2] eqn:Es. pose proof (IHsel Hps Ho1 _ _ _ Es N1) as N2.
    destruct rk; fin H.
  - (* ANeg *)
    intros a IHa Hp Ho s r s' H N. rewrite eval_atom_unfold in H; unfold eval_atom_miss in H. simpl in Hp.
    pose proof (occ_atom_false_eqb _ Ho) as E0. occ2 Ho Hx Ho0.
    destruct (lookup_atom (es_matom s) (ANeg a)); [fin H|].
    destruct (eval_atom a s) as [ra s1] eqn:Ea. pose proof (IHa Hp Ho0 _ _ _ Ea N) as N1.
    destruct ra; fin H.
  - (* VName *)
    intros n Hp Ho s r s' H N. rewrite eval_var_unfold in H.
    destruct (alookup n (es_facts s)); fin H.
  - (* VMember *)
    intros x IHx n Hp Ho s r s' H N. rewrite eval_var_unfold in H. simpl in Hp. cbn [occ_var] in Ho.
    destruct (eval_var x s) as [rx s1] eqn:Ex. pose proof (IHx Hp Ho _ _ _ Ex N) as N1.
    destruct rx; fin H.
  - (* VSel *)
    intros x IHx sel IHsel Hp Ho s r s' H N. rewrite eval_var_unfold in H.
    simpl in Hp. apply andb_prop in Hp. destruct Hp as [Hpx Hps]. occ2 Ho Ho Ho0.
    destruct (eval_var x s) as [rx s1] eqn:Ex. pose proof (IHx Hpx Ho _ _ _ Ex N) as N1.
    destruct rx as [rv| |]; try (fin H; fail).
    destruct (eval_expr sel s1) as [rk s2] eqn:Es. pose proof (IHsel Hps Ho0 _ _ _ Es N1) as N2.
    destruct rk; fin H.
  - (* ENil *)
    intros Hp Ho s r s' H N. rewrite eval_args_unfold in H. fin H.
  - (* ECons *)
    intros e IHe l IHl Hp Ho s r s' H N. rewrite eval_args_unfold in H.
    simpl in Hp. apply andb_prop in Hp. destruct Hp as [Hpe Hpl]. occ2 Ho Ho Ho0.
    destruct (eval_expr e s) as [re s1] eqn:Ee. pose proof (IHe Hpe Ho _ _ _ Ee N) as N1.
    destruct re as [v| |]; try (fin H; fail).
    destruct (eval_args l s1) as [rl s2] eqn:El. pose proof (IHl Hpl Ho0 _ _ _ El N1) as N2.
    destruct rl; fin H.
Qed.

(* ---- M is called through a0 only ---- *)
Fixpoint only_expr (e : expr) : bool :=
  match e with EAtom a => only_atom a | EParen _ e' => only_expr e' | EBin _ l r => only_expr l && only_expr r end
with only_atom (a : atom) : bool :=
  match a with
  | AConst _ => true | AVar v => only_var v | AFunc _ l => only_elist l
  | AMethod r f l => (negb (String.eqb f M) || atom_eqb (AMethod r f l) a0) && only_atom r && only_elist l
  | AMember r _ => only_atom r
  | ASel r e => only_atom r && only_expr e | ANeg r => only_atom r
  end
with only_var (v : var) : bool :=
  match v with VName _ => true | VMember v' _ => only_var v' | VSel v' e => only_var v' && only_expr e end
with only_elist (l : elist) : bool :=
  match l with ENil => true | ECons e l' => only_expr e && only_elist l' end.

Lemma hmem_range : forall s, 0 <= hmem s <= 1.
Proof. intros s. unfold hmem. destruct (lookup_atom (es_matom s) a0); lia. Qed.
Lemma hmem_nohas : forall s, nohas s -> hmem s = 0.
Proof. intros s H. unfold hmem. rewrite H. reflexivity. Qed.

Lemma Phi_memo_atom : forall s x v, Phi (memo_atom s x v) <= Phi s.
Proof.
  intros s x v. unfold Phi, cnt, hmem. simpl. destruct (atom_eqb x a0); [|lia].
  destruct (lookup_atom (es_matom s) a0); lia.
Qed.
Lemma Phi_memo_a0 : forall s v, Phi (memo_atom s a0 v) = cnt s - 1.
Proof. intros s v. unfold Phi, cnt, hmem. cbn [memo_atom es_matom es_calls lookup_atom]. rewrite atom_eqb_refl. reflexivity. Qed.
Lemma Phi_memo_expr : forall s e v, Phi (memo_expr s e v) = Phi s.
Proof. reflexivity. Qed.
Lemma Phi_same : forall s s', es_matom s' = es_matom s -> es_calls s' = es_calls s -> Phi s' = Phi s.
Proof. intros s s' A B. unfold Phi, cnt, hmem. rewrite A, B. reflexivity. Qed.

(* a call through the receiver leaves M's counter alone, or it is a successful call of M that counts once *)
Lemma call_cnt : forall s recv f args rc s3,
  call_receiver meth panics_inside s recv f args = (rc, s3) ->
  es_matom s3 = es_matom s /\
  (cnt s3 = cnt s \/ (f = M /\ cnt s3 = cnt s + 1 /\ exists v, rc = Ok v)).
Proof.
  intros s recv f args rc s3 H. split; [eapply call_receiver_memo; exact H|].
  unfold call_receiver in H.
  destruct (receiver_kind (es_facts s) recv f args) as [res|p fs] eqn:Ek.
  - inversion H; subst; auto.
  - assert (Hget: path_get (es_facts s) p = Ok (FPtr (Some (FStruct fs)))).
    { unfold receiver_kind in Ek. destruct recv as [v|q]; [destruct v; discriminate|].
      destruct (path_get (es_facts s) q) as [[sv|fs0|[[sv|fs0|pp|xs|kvs]|]|xs|kvs]| |] eqn:G; try discriminate.
      inversion Ek; subst. exact G. }
    assert (Hc: forall g, g <> M -> cnt (count_call s g) = cnt s).
    { intros g Hg. unfold cnt, count_call. simpl. rewrite alookup_aupdate_other; auto. }
    destruct (meth fs f args) as [[ret fs']| |] eqn:Em.
    + destruct (path_get_set_exists _ _ _ (FPtr (Some (FStruct fs'))) Hget) as [fx' Es].
      simpl in H. rewrite Es in H. inversion H; subst.
      destruct (String.eqb f M) eqn:Ef.
      * apply String.eqb_eq in Ef. subst f. right. split; [reflexivity|]. split; [|eexists; reflexivity].
        unfold cnt, count_call. simpl. rewrite alookup_aupdate_eq. reflexivity.
      * apply String.eqb_neq in Ef. left. unfold with_facts, cnt. simpl. rewrite alookup_aupdate_other; auto.
    + inversion H; subst. auto.
    + destruct (String.eqb f M) eqn:Ef.
      * apply String.eqb_eq in Ef. subst f. rewrite (M_no_panic _ _ Em) in H. inversion H; subst; auto.
      * apply String.eqb_neq in Ef. destruct (panics_inside f args); inversion H; subst; auto.
Qed.

Definition B_expr (e : expr) : Prop := pure_expr e = true -> only_expr e = true -> forall s r s', eval_expr e s = (r, s') -> Phi s' <= Phi s.
Definition B_atom (a : atom) : Prop := pure_atom a = true -> only_atom a = true -> forall s r s', eval_atom a s = (r, s') -> Phi s' <= Phi s.
Definition B_var (x : var) : Prop := pure_var x = true -> only_var x = true -> forall s r s', eval_var x s = (r, s') -> Phi s' <= Phi s.
Definition B_elist (l : elist) : Prop := pure_elist l = true -> only_elist l = true -> forall s r s', eval_args l s = (r, s') -> Phi s' <= Phi s.

Ltac pfin H := inversion H; subst;
  repeat match goal with
         | |- context [Phi (memo_atom ?s ?x ?v)] => pose proof (Phi_memo_atom s x v); generalize dependent (Phi (memo_atom s x v)); intros
         end; rewrite ?Phi_memo_expr; try lia.
Ltac and2 H A B := cbn [only_expr only_atom only_var only_elist] in H; apply andb_prop in H; destruct H as [A B].

(* evaluating a side-effect free node never raises the potential *)
Theorem eval_potential : (forall e, B_expr e) /\ (forall a, B_atom a) /\ (forall x, B_var x) /\ (forall l, B_elist l).
Proof.
  apply syntax_mutind; unfold B_expr, B_atom, B_var, B_elist.
  - (* EAtom *)
    intros a IHa Hp Ho s r s' H. rewrite eval_expr_unfold in H; unfold eval_expr_miss in H.
    destruct (lookup_expr (es_mexpr s) (EAtom a)); [pfin H|].
    destruct (eval_atom a s) as [ra s1] eqn:Ea. pose proof (IHa Hp Ho _ _ _ Ea) as N1.
    destruct ra; pfin H.
  - (* EParen *)
    intros neg e IHe Hp Ho s r s' H. rewrite eval_expr_unfold in H; unfold eval_expr_miss in H.
    destruct (lookup_expr (es_mexpr s) (EParen neg e)); [pfin H|].
    destruct (eval_expr e s) as [re s1] eqn:Ee. simpl in Hp. pose proof (IHe Hp Ho _ _ _ Ee) as N1.
    destruct re; pfin H.
  - (* EBin *)
    intros o l IHl r0 IHr Hp Ho s r s' H. rewrite eval_expr_unfold in H; unfold eval_expr_miss in H.
    simpl in Hp. apply andb_prop in Hp. destruct Hp as [Hpl Hpr]. and2 Ho Ho Ho0.
    destruct (lookup_expr (es_mexpr s) (EBin o l r0)); [pfin H|].
    destruct (eval_expr l s) as [lres s1] eqn:El. pose proof (IHl Hpl Ho _ _ _ El) as N1.
    destruct (bin_left_fail o lres); [pfin H|].
    destruct (bin_shortcut o (es_facts s1) lres); [pfin H|].
    destruct (eval_expr r0 s1) as [rres s2] eqn:Er. pose proof (IHr Hpr Ho0 _ _ _ Er) as N2.
    destruct (bin_combine o (es_facts s2) lres rres); pfin H.
  - (* AConst *)
    intros c Hp Ho s r s' H. rewrite eval_atom_unfold in H; unfold eval_atom_miss in H.
    destruct (lookup_atom (es_matom s) (AConst c)); pfin H.
  - (* AVar *)
    intros x IHx Hp Ho s r s' H. rewrite eval_atom_unfold in H; unfold eval_atom_miss in H.
    destruct (lookup_atom (es_matom s) (AVar x)); [pfin H|].
    destruct (eval_var x s) as [rx s1] eqn:Ex. simpl in Hp. pose proof (IHx Hp Ho _ _ _ Ex) as N1.
    destruct rx; pfin H.
  - (* AFunc *)
    intros f args IHargs Hp Ho s r s' H. rewrite eval_atom_unfold in H; unfold eval_atom_miss in H.
    simpl in Hp. apply andb_prop in Hp. destruct Hp as [Hnc Hpa].
    destruct (lookup_atom (es_matom s) (AFunc f args)); [pfin H|].
    destruct (eval_args args s) as [ra s1] eqn:Ea. pose proof (IHargs Hpa Ho _ _ _ Ea) as N1.
    destruct ra as [vs| |]; try (pfin H; fail).
    apply negb_true_iff in Hnc.
    assert (Hk: defunc_kind f = DOther) by (unfold control_builtin in Hnc; destruct (defunc_kind f); auto; discriminate).
    rewrite Hk in H.
    assert (Hgen: (defunc_value (es_facts s1) f vs, s1) = (r, s')) by exact H.
    inversion Hgen; subst. exact N1.
  - (* AMethod *)
    intros a IHa f args IHargs Hp Ho s r s' H. rewrite eval_atom_unfold in H; unfold eval_atom_miss in H.
    simpl in Hp. apply andb_prop in Hp. destruct Hp as [Hp Hpargs]. apply andb_prop in Hp. destruct Hp as [Hnm Hpa].
    cbn [only_atom] in Ho. apply andb_prop in Ho. destruct Ho as [Ho Hoargs]. apply andb_prop in Ho. destruct Ho as [HM Hoa].
    destruct (lookup_atom (es_matom s) (AMethod a f args)) eqn:Hmiss; [pfin H|].
    destruct (eval_atom a s) as [ra s1] eqn:Ea. pose proof (IHa Hpa Hoa _ _ _ Ea) as N1.
    destruct ra as [recv| |]; try (pfin H; fail).
    destruct (eval_args args s1) as [rargs s2] eqn:Eargs. pose proof (IHargs Hpargs Hoargs _ _ _ Eargs) as N2.
    destruct rargs as [vs| |]; try (pfin H; fail).
    destruct (call_receiver meth panics_inside s2 recv f (map (arg_val s2) vs)) as [rc s3] eqn:Ec.
    destruct (call_cnt _ _ _ _ _ _ Ec) as [M1 [Hsame|(Ef & Hplus & v & Erc)]].
    + (* M's counter did not move *)
      assert (N3: Phi s3 <= Phi s2) by (unfold Phi, hmem; rewrite M1, Hsame; lia).
      destruct rc; pfin H.
    + (* M ran: this node is a0, which was not remembered, and now is *)
      subst f rc. rewrite String.eqb_refl in HM. cbn [negb orb] in HM. apply atom_eqb_eq in HM.
      assert (Ha: a = recv0 /\ args = args0) by (unfold a0 in HM; inversion HM; auto). destruct Ha; subst a args.
      change (AMethod recv0 M args0) with a0 in *.
      destruct a0_not_inside as [Or Oa].
      destruct eval_no_new as (_ & NA & _ & NL).
      pose proof (NA recv0 Hpa Or _ _ _ Ea Hmiss) as Q1.
      pose proof (NL args0 Hpargs Oa _ _ _ Eargs Q1) as Q2.
      inversion H; subst. rewrite Phi_memo_a0. rewrite Hplus.
      unfold Phi in N1, N2. rewrite (hmem_nohas _ Q2) in N2. unfold Phi.
      assert (hmem s = 0) by (apply hmem_nohas; exact Hmiss). lia.
  - (* AMember *)
    intros a IHa n Hp Ho s r s' H. rewrite eval_atom_unfold in H; unfold eval_atom_miss in H. simpl in Hp.
    destruct (lookup_atom (es_matom s) (AMember a n)); [pfin H|].
    destruct (eval_atom a s) as [ra s1] eqn:Ea. pose proof (IHa Hp Ho _ _ _ Ea) as N1.
    destruct ra as [recv| |]; try (pfin H; fail).
    destruct (child_field s1 recv n); pfin H.
  - (* ASel *)
    intros a IHa sel IHsel Hp Ho s r s' H. rewrite eval_atom_unfold in H; unfold eval_atom_miss in H.
    simpl in Hp. apply andb_prop in Hp. destruct Hp as [Hpa Hps]. and2 Ho Ho Ho0.
    destruct (lookup_atom (es_matom s) (ASel a sel)); [pfin H|].
    destruct (eval_atom a s) as [ra s1] eqn:Ea. pose proof (IHa Hpa Ho _ _ _ Ea) as N1.
    destruct ra as [recv| |]; try (pfin H; fail).
    destruct (eval_expr sel s1) as [rk s2] eqn:Es. pose proof (IHsel Hps Ho0 _ _ _ Es) as N2.
    destruct rk; pfin H.
  - (* ANeg *)
    intros a IHa Hp Ho s r s' H. rewrite eval_atom_unfold in H; unfold eval_atom_miss in H. simpl in Hp.
    destruct (lookup_atom (es_matom s) (ANeg a)); [pfin H|].
    destruct (eval_atom a s) as [ra s1] eqn:Ea. pose proof (IHa Hp Ho _ _ _ Ea) as N1.
    destruct ra; pfin H.
  - (* VName *)
    intros n Hp Ho s r s' H. rewrite eval_var_unfold in H.
    destruct (alookup n (es_facts s)); pfin H.
  - (* VMember *)
    intros x IHx n Hp Ho s r s' H. rewrite eval_var_unfold in H. simpl in Hp. cbn [only_var] in Ho.
    destruct (eval_var x s) as [rx s1] eqn:Ex. pose proof (IHx Hp Ho _ _ _ Ex) as N1.
    destruct rx; pfin H.
  - (* VSel *)
    intros x IHx sel IHsel Hp Ho s r s' H. rewrite eval_var_unfold in H.
    simpl in Hp. apply andb_prop in Hp. destruct Hp as [Hpx Hps]. and2 Ho Ho Ho0.
    destruct (eval_var x s) as [rx s1] eqn:Ex. pose proof (IHx Hpx Ho _ _ _ Ex) as N1.
    destruct rx as [rv| |]; try (pfin H; fail).
    destruct (eval_expr sel s1) as [rk s2] eqn:Es. pose proof (IHsel Hps Ho0 _ _ _ Es) as N2.
    destruct rk; pfin H.
  - (* ENil *)
    intros Hp Ho s r s' H. rewrite eval_args_unfold in H. pfin H.
  - (* ECons *)
    intros e IHe l IHl Hp Ho s r s' H. rewrite eval_args_unfold in H.
    simpl in Hp. apply andb_prop in Hp. destruct Hp as [Hpe Hpl]. and2 Ho Ho Ho0.
    destruct (eval_expr e s) as [re s1] eqn:Ee. pose proof (IHe Hpe Ho _ _ _ Ee) as N1.
    destruct re as [v| |]; try (pfin H; fail).
    destruct (eval_args l s1) as [rl s2] eqn:El. pose proof (IHl Hpl Ho0 _ _ _ El) as N2.
    destruct rl; pfin H.
Qed.

(* ---- statements ---- *)
(* an assignment is an invalidation event for a0 when its reset set holds a variable whose snapshot occurs in a0's *)
Definition concerns (x : var) : bool :=
  existsb (fun v => containsb (atom_snapshot a0) (var_snapshot v)) (reset_set allvars x).
Definition stmt_cost (st : stmt) : Z :=
  match st with
  | SAssign x _ _ => if concerns x then 1 else 0
  | SAtom (AFunc f _) => match defunc_kind f with DForget => 1 | _ => 0 end
  | SAtom _ => 0
  end.
Definition stmts_cost (l : list stmt) : Z := fold_right (fun st acc => stmt_cost st + acc) 0 l.
Definition only_stmt (st : stmt) : bool :=
  match st with SAssign x _ e => only_var x && only_expr e | SAtom a => only_atom a end.

Lemma stmt_cost_nonneg : forall st, 0 <= stmt_cost st.
Proof. intros [x o e|a]; simpl; [destruct (concerns x); lia|]. destruct a; try lia. destruct (defunc_kind f); lia. Qed.
Lemma stmts_cost_nonneg : forall l, 0 <= stmts_cost l.
Proof. induction l as [|st l IH]; simpl; [lia|]. pose proof (stmt_cost_nonneg st). lia. Qed.

Lemma Phi_le1 : forall s s', es_calls s' = es_calls s -> Phi s' <= Phi s + 1.
Proof. intros s s' E. unfold Phi, cnt. rewrite E. pose proof (hmem_range s). pose proof (hmem_range s'). lia. Qed.
Lemma Phi_keep : forall s s', es_calls s' = es_calls s -> (has_atom s a0 -> has_atom s' a0) -> Phi s' <= Phi s.
Proof.
  intros s s' E K. unfold Phi, cnt. rewrite E. unfold hmem, MemoKeep.has_atom in *.
  destruct (lookup_atom (es_matom s) a0) eqn:A.
  - destruct (lookup_atom (es_matom s') a0); [lia|]. exfalso. apply K; [discriminate|reflexivity].
  - destruct (lookup_atom (es_matom s') a0); lia.
Qed.

Lemma calls_reset_variables : forall xs s, es_calls (reset_variables s xs) = es_calls s.
Proof. unfold reset_variables. induction xs as [|x xs IH]; intros s; cbn [fold_left]; [reflexivity|]. rewrite IH. reflexivity. Qed.
Lemma calls_reset_name : forall s n, es_calls (reset_name allvars s n) = es_calls s.
Proof. intros s n. unfold reset_name. destruct (find _ allvars); reflexivity. Qed.

Lemma assign_target_pot : forall x s r s1, pure_var x = true -> only_var x = true ->
  assign_target allvars meth panics_inside x s = (r, s1) -> Phi s1 <= Phi s.
Proof.
  destruct eval_potential as (BE & _ & BV & _).
  intros x s r s1 Hp Ho H. destruct x as [n|x' n|x' sel]; simpl in H.
  - inversion H; subst. lia.
  - simpl in Hp. cbn [only_var] in Ho.
    destruct (eval_var x' s) as [rx s2] eqn:Ex. pose proof (BV x' Hp Ho _ _ _ Ex).
    destruct rx as [[v|p]| |]; inversion H; subst; lia.
  - simpl in Hp. apply andb_prop in Hp. destruct Hp as [Hpx Hps]. and2 Ho Ho Ho0.
    destruct (eval_var x' s) as [rx s2] eqn:Ex. pose proof (BV x' Hpx Ho _ _ _ Ex).
    destruct rx as [rv| |]; try (inversion H; subst; lia).
    destruct (eval_expr sel s2) as [rk s3] eqn:Es. pose proof (BE sel Hps Ho0 _ _ _ Es).
    destruct rk as [k| |]; try (inversion H; subst; lia).
    destruct rv; inversion H; subst; lia.
Qed.

Lemma assign_var_pot : forall x v s r s', pure_var x = true -> only_var x = true ->
  assign_var allvars meth panics_inside x v s = (r, s') -> Phi s' <= Phi s + (if concerns x then 1 else 0).
Proof.
  intros x v s r s' Hp Ho H. unfold assign_var in H.
  destruct (assign_target allvars meth panics_inside x s) as [rt s1] eqn:Et.
  pose proof (assign_target_pot x s rt s1 Hp Ho Et) as P1.
  assert (Hc: 0 <= (if concerns x then 1 else 0)) by (destruct (concerns x); lia).
  destruct rt as [t| |]; try (inversion H; subst; lia).
  destruct (write_target (es_facts s1) t v) as [fx'| |]; try (inversion H; subst; lia).
  inversion H; subst.
  assert (Ecalls: es_calls (reset_assigned allvars (with_facts s1 fx') x) = es_calls s1)
    by (unfold reset_assigned; rewrite calls_reset_variables; reflexivity).
  destruct (concerns x) eqn:Ec.
  - pose proof (Phi_le1 s1 _ Ecalls). lia.
  - assert (Phi (reset_assigned allvars (with_facts s1 fx') x) <= Phi s1); [|lia].
    apply Phi_keep; [exact Ecalls|]. intros Hh.
    apply MemoKeep.reset_assigned_keeps_atom; [exact Hh|].
    intros w Hw. unfold concerns in Ec.
    destruct (containsb (atom_snapshot a0) (var_snapshot w)) eqn:Ew; [|reflexivity].
    assert (existsb (fun v0 => containsb (atom_snapshot a0) (var_snapshot v0)) (reset_set allvars x) = true)
      by (apply existsb_exists; exists w; auto).
    congruence.
Qed.

Lemma exec_stmt_pot : forall st s r s', stmt_pure mutating st -> only_stmt st = true ->
  exec_stmt allvars meth panics_inside st s = (r, s') -> Phi s' <= Phi s + stmt_cost st.
Proof.
  destruct eval_potential as (BE & BA & BV & BL).
  intros st s r s' Hp Ho H. destruct st as [x o e|a]; simpl in Hp, H.
  - destruct Hp as [Hpx Hpe]. cbn [only_stmt] in Ho. apply andb_prop in Ho. destruct Ho as [Hox Hoe].
    cbn [stmt_cost]. assert (Hc: 0 <= (if concerns x then 1 else 0)) by (destruct (concerns x); lia).
    destruct (eval_expr e s) as [re s1] eqn:Ee. pose proof (BE e Hpe Hoe _ _ _ Ee) as P1.
    destruct re as [rv| |]; try (inversion H; subst; lia).
    destruct (asg_op o) as [f|].
    + destruct (eval_var x s1) as [rc s2] eqn:Ex. pose proof (BV x Hpx Hox _ _ _ Ex) as P2.
      destruct rc as [cur| |]; try (inversion H; subst; lia).
      destruct (f (arg_val s2 cur) (arg_val s1 rv)) as [nv| |]; try (inversion H; subst; lia).
      pose proof (assign_var_pot x nv s2 r s' Hpx Hox H). lia.
    + pose proof (assign_var_pot x (arg_val s1 rv) s1 r s' Hpx Hox H). lia.
  - cbn [only_stmt] in Ho.
    destruct a as [c|x|f args|a' f args|a' n|a' sel|a'];
      try (cbn [stmt_cost];
           match type of H with context [eval_atom ?a s] => destruct (eval_atom a s) as [ra s1] eqn:Ea; pose proof (BA a Hp Ho _ _ _ Ea) end;
           destruct ra; inversion H; subst; lia).
    (* DEFUNC statement *)
    cbn [stmt_cost]. cbn [only_atom] in Ho.
    rewrite eval_atom_unfold in H; unfold eval_atom_miss in H.
    destruct (lookup_atom (es_matom s) (AFunc f args)); [inversion H; subst; destruct (defunc_kind f); lia|].
    destruct (eval_args args s) as [ra s1] eqn:Ea. pose proof (BL args Hp Ho _ _ _ Ea) as P1.
    destruct ra as [vs| |]; try (inversion H; subst; destruct (defunc_kind f); lia).
    destruct (defunc_kind f) eqn:Ek.
    + destruct (map (arg_val s1) vs) as [|[ | | |n| | | | | | ] [|]]; inversion H; subst; try lia.
      assert (Phi (add_fx s1 (FxRetract n)) = Phi s1) by reflexivity. lia.
    + destruct (map (arg_val s1) vs); inversion H; subst; try lia.
      assert (Phi (add_fx s1 FxComplete) = Phi s1) by reflexivity. lia.
    + destruct (map (arg_val s1) vs) as [|[ | | |n| | | | | | ] [|]]; inversion H; subst; try lia.
      pose proof (Phi_le1 s1 _ (calls_reset_name s1 n)). lia.
    + destruct (defunc_value (es_facts s1) f vs); inversion H; subst; lia.
Qed.

Lemma exec_stmts_pot : forall l s failed s', Forall (stmt_pure mutating) l -> forallb only_stmt l = true ->
  exec_stmts allvars meth panics_inside l s = (failed, s') -> Phi s' <= Phi s + stmts_cost l.
Proof.
  induction l as [|st l IH]; intros s failed s' Hp Ho H; simpl in H.
  - inversion H; subst. simpl. lia.
  - inversion Hp as [|? ? Hp1 Hp2]; subst. simpl in Ho. apply andb_prop in Ho. destruct Ho as [Ho1 Ho2].
    destruct (exec_stmt allvars meth panics_inside st s) as [r s1] eqn:E1.
    pose proof (exec_stmt_pot st s r s1 Hp1 Ho1 E1) as P1.
    pose proof (stmts_cost_nonneg l) as Hn.
    cbn [stmts_cost fold_right]. fold (stmts_cost l).
    destruct r as [u| |]; try (inversion H; subst; lia).
    pose proof (IH s1 failed s' Hp2 Ho2 H). lia.
Qed.

(* ---- rules and runs ---- *)
Variable rules : list rule.
Hypothesis Hrules : rules_ok rules mutating.
Hypothesis Honly : forall r, In r rules -> only_expr (rwhen r) = true /\ forallb only_stmt (rthen r) = true.

Notation icond := (rule_cond allvars meth panics_inside rules).
Notation iact := (rule_act allvars meth panics_inside rules).

(* the number of invalidation events for a0 in the action list of rule k *)
Definition rule_cost (k : string) : Z :=
  match find_rule rules k with Some r => stmts_cost (rthen r) | None => 0 end.

Lemma find_rule_in' : forall k r, find_rule rules k = Some r -> In r rules.
Proof. intros k r H. unfold find_rule in H. apply find_some in H. apply H. Qed.

Lemma rule_cond_pot : forall u e, Phi (fst (icond u e)) <= Phi u.
Proof.
  destruct eval_potential as (BE & _).
  intros u e. unfold rule_cond. destruct (find_rule rules (e_key e)) as [r|] eqn:F; [|simpl; lia].
  pose proof (find_rule_in' _ _ F) as Hin. destruct (Hrules r Hin) as [Hp _]. destruct (Honly r Hin) as [Ho _].
  destruct (eval_expr (rwhen r) u) as [rr s1] eqn:E. pose proof (BE _ Hp Ho _ _ _ E).
  destruct rr as [[[ | | | |[|]| | | | | ]|]| |]; simpl; lia.
Qed.

Lemma rule_act_pot : forall u e, Phi (fst (fst (iact u e))) <= Phi u + rule_cost (e_key e).
Proof.
  intros u e. unfold rule_act, rule_cost. destruct (find_rule rules (e_key e)) as [r|] eqn:F; [|simpl; lia].
  pose proof (find_rule_in' _ _ F) as Hin. destruct (Hrules r Hin) as [_ Hp]. destruct (Honly r Hin) as [_ Ho].
  destruct (exec_stmts allvars meth panics_inside (rthen r) (clear_fx u)) as [failed s1] eqn:E.
  pose proof (exec_stmts_pot _ _ _ _ Hp Ho E) as P. simpl.
  assert (Phi (clear_fx s1) = Phi s1) by reflexivity. assert (Phi (clear_fx u) = Phi u) by reflexivity. lia.
Qed.

(* C13 over a whole Execute call: M runs at most once, plus once per invalidation event for a0 among the statements of the
   rules that were executed (cycle by cycle, as the cycle records name them) *)
Theorem call_count_run : forall fuel c order u es sf recs o,
  execute estate icond iact reset_all fuel c order u es = (sf, recs, o) ->
  cnt (s_user sf) <= cnt u + 1 + recs_cost rule_cost recs.
Proof.
  intros fuel c order u es sf recs o H.
  pose proof (execute_pot estate icond iact Phi rule_cost rule_cond_pot rule_act_pot reset_all _ _ _ _ _ _ _ _ H) as P.
  assert (Phi (reset_all u) = cnt u) by (unfold Phi, hmem, cnt; simpl; lia).
  unfold Phi at 1 in P. pose proof (hmem_range (s_user sf)). lia.
Qed.

(* no invalidation event anywhere in the rule set: once per Execute call, however many rules, cycles and occurrences *)
Corollary call_count_once : (forall r, In r rules -> stmts_cost (rthen r) = 0) ->
  forall fuel c order u es sf recs o,
  execute estate icond iact reset_all fuel c order u es = (sf, recs, o) -> cnt (s_user sf) <= cnt u + 1.
Proof.
  intros Hz fuel c order u es sf recs o H. pose proof (call_count_run _ _ _ _ _ _ _ _ H) as P.
  assert (Hc: forall k, rule_cost k = 0).
  { intros k. unfold rule_cost. destruct (find_rule rules k) as [r|] eqn:F; [|reflexivity]. apply Hz. eapply find_rule_in'; eauto. }
  assert (recs_cost rule_cost recs = 0).
  { clear -Hc. induction recs as [|r l IH]; simpl; [reflexivity|]. rewrite IH. unfold rec_cost.
    destruct (cr_exec r) as [[n k]|]; [|reflexivity]. destruct (cr_started r); [rewrite Hc|]; reflexivity. }
  lia.
Qed.

End CallCount.

(* the statement referred to by props/C13.v *)
Definition C13_run_statement : Prop :=
  forall allvars meth panics_inside mutating M recv0 args0 rules,
    (forall fs args, meth fs M args = Panic -> panics_inside M args = false) ->
    rules_ok rules mutating ->
    (forall r, In r rules -> only_expr M recv0 args0 (rwhen r) = true /\ forallb (only_stmt M recv0 args0) (rthen r) = true) ->
    forall fuel c order u es sf recs o,
      execute estate (rule_cond allvars meth panics_inside rules) (rule_act allvars meth panics_inside rules) reset_all fuel c order u es = (sf, recs, o) ->
      cnt M (s_user sf) <= cnt M u + 1 + recs_cost (rule_cost allvars M recv0 args0 rules) recs.
Theorem C13_run_proved : C13_run_statement.
Proof. intros allvars meth panics_inside mutating M recv0 args0 rules H1 H2 H3. exact (call_count_run allvars meth panics_inside mutating M recv0 args0 H1 rules H2 H3). Qed.
