(* Site inventory anchor (recover): RuleEntry.Evaluate and RuleEntry.Execute turn panics into errors; the builder has no panic barrier.
   The expected list below is what the hand-written model was written against;
   tools/go2coq regenerates SitesGen.sites_recover from /repo on every run. *)
From Grule Require Import Base SitesGen.
Open Scope string_scope.

Lemma sites_recover_ok : sites_recover = [
  ("ast/KnowledgeLibrary.LoadKnowledgeBaseFromReader", "recover", 1%nat);
  ("ast/RuleEntry.Evaluate", "recover", 1%nat);
  ("ast/RuleEntry.Execute", "recover", 1%nat)].
Proof. reflexivity. Qed.
