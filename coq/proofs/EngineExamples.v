(* EngineExamples.v — non-vacuity: a concrete rule set, budget and iteration
   order satisfy the hypotheses of the engine theorems, and its run exercises
   several cycles, a salience conflict, Retract and Complete. *)
From Coq Require Import Permutation.
From Grule Require Import Base EngineGen EngineAbs MiniEngine EngineProofs EngineTheorems.
Open Scope Z_scope.
Open Scope string_scope.

Definition ex_rules : list mrule :=
  [ {| mr_key := "Low";  mr_cond := MLt 0 3; mr_acts := [MInc 0] |};
    {| mr_key := "High"; mr_cond := MLt 0 3; mr_acts := [MInc 1; MRetract "High"] |};
    {| mr_key := "Done"; mr_cond := MGe 0 3; mr_acts := [MComplete; MInc 2] |} ].
Definition ex_entries : list entry :=
  [ {| e_key := "Low";  e_name := "Low";  e_sal := 0;  e_retracted := false; e_deleted := false |};
    {| e_key := "High"; e_name := "High"; e_sal := 10; e_retracted := false; e_deleted := false |};
    {| e_key := "Done"; e_name := "Done"; e_sal := -5; e_retracted := true;  e_deleted := false |} ].
Definition ex_config : config := {| c_max := 10; c_reterr := false; c_cancel := None |}.
Definition ex_order (i : nat) (l : list entry) : list entry := if Nat.even i then l else rev l.

Example ex_keys_nodup : NoDup (map e_key ex_entries).
Proof. simpl. repeat constructor; simpl; intuition discriminate. Qed.

Example ex_order_perm : forall i l, Permutation (ex_order i l) l.
Proof. intros i l. unfold ex_order. destruct (Nat.even i); [apply Permutation_refl | apply Permutation_sym, Permutation_rev]. Qed.

(* High (salience 10) wins the first conflict and retracts itself; Low then fires three times; Done completes *)
Example ex_run :
  let '(sf, recs, o) := mini_execute ex_rules 20 ex_config ex_order [0; 0; 0] ex_entries in
  o = OCompleted /\ List.length recs = 5%nat /\ s_user sf = [3; 1; 1] /\
  map cr_exec recs = [Some (1, "High"); Some (2, "Low"); Some (3, "Low"); Some (4, "Low"); Some (5, "Done")].
Proof. vm_compute. repeat split; reflexivity. Qed.

(* a budget of 2 is exhausted exactly when a third firing is needed *)
Example ex_budget :
  let '(sf, recs, o) := mini_execute ex_rules 20 {| c_max := 2; c_reterr := false; c_cancel := None |} ex_order [0; 0; 0] ex_entries in
  o = OCycleLimit /\ List.length (filter cr_started recs) = 2%nat.
Proof. vm_compute. repeat split; reflexivity. Qed.

(* cancellation seen by the 7th check: the run stops with the context error and nothing fires afterwards *)
Example ex_cancel :
  let '(sf, recs, o) := mini_execute ex_rules 20 {| c_max := 10; c_reterr := false; c_cancel := Some 7%nat |} ex_order [0; 0; 0] ex_entries in
  ctx_outcome o = true /\ List.length (filter cr_started recs) = 0%nat.
Proof. vm_compute. repeat split; reflexivity. Qed.

(* seen only by the check on the exit path (index 36): all five rules fired, yet the context error is returned *)
Example ex_cancel_last :
  let '(sf, recs, o) := mini_execute ex_rules 20 {| c_max := 10; c_reterr := false; c_cancel := Some 36%nat |} ex_order [0; 0; 0] ex_entries in
  o = OCtxErr /\ List.length (filter cr_started recs) = 5%nat.
Proof. vm_compute. repeat split; reflexivity. Qed.

Example ex_fetch :
  snd (mini_fetch ex_rules false (fun l => l) [0; 0; 0] ex_entries) =
  Ok [ {| e_key := "High"; e_name := "High"; e_sal := 10; e_retracted := false; e_deleted := false |};
       {| e_key := "Low";  e_name := "Low";  e_sal := 0;  e_retracted := false; e_deleted := false |} ].
Proof. vm_compute. reflexivity. Qed.
