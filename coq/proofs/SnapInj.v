(* SnapInj.v — the snapshot language is uniquely decodable: two different
   well-formed trees never have the same snapshot (C07). *)
From Coq Require Import DecimalString Decimal DecimalZ.
From Grule Require Import Base Syntax OpsGen Snapshot.
Open Scope string_scope.
Open Scope Z_scope.

(* ---- delimiters that never occur inside names or printed integers ---- *)
Definition is_delim (c : ascii) : bool :=
  Ascii.eqb c "(" || Ascii.eqb c ")" || Ascii.eqb c "," || Ascii.eqb c """".

Fixpoint dfree (s : string) : bool :=
  match s with
  | EmptyString => true
  | String c s' => negb (is_delim c) && dfree s'
  end.

Lemma dfree_split : forall n n' c c' k k',
  dfree n = true -> dfree n' = true -> is_delim c = true -> is_delim c' = true ->
  n ++ String c k = n' ++ String c' k' -> n = n' /\ c = c' /\ k = k'.
Proof.
  induction n as [|a n IH]; intros n' c c' k k' Hn Hn' Hc Hc' H.
  - destruct n' as [|a' n']; simpl in *.
    + inversion H; auto.
    + inversion H; subst. apply andb_prop in Hn'. destruct Hn' as [Ha _].
      rewrite Hc in Ha. discriminate.
  - destruct n' as [|a' n']; simpl in *.
    + inversion H; subst. apply andb_prop in Hn. destruct Hn as [Ha _].
      rewrite Hc' in Ha. discriminate.
    + inversion H; subst. apply andb_prop in Hn. apply andb_prop in Hn'.
      destruct Hn as [_ Hn]. destruct Hn' as [_ Hn'].
      destruct (IH n' c c' k k' Hn Hn' Hc Hc' H2) as (-> & -> & ->). auto.
Qed.

Lemma len_split : forall s s' r r',
  String.length s = String.length s' -> s ++ r = s' ++ r' -> s = s' /\ r = r'.
Proof.
  induction s as [|a s IH]; intros [|a' s'] r r' Hl H; simpl in *; try discriminate; auto.
  inversion H; subst. destruct (IH s' r r') as [-> ->]; auto.
Qed.

Lemma append_cancel_l : forall p x y, p ++ x = p ++ y -> x = y.
Proof. induction p as [|a p IH]; simpl; intros x y H; [assumption|]. inversion H. auto. Qed.

(* ---- integers ---- *)
Lemma uint_dfree : forall d, dfree (NilEmpty.string_of_uint d) = true.
Proof. induction d; simpl; auto. Qed.

Lemma show_int_dfree : forall z, dfree (show_int z) = true.
Proof.
  intros z. unfold show_int, NilZero.string_of_int, NilZero.string_of_uint.
  destruct (Z.to_int z) as [d|d]; destruct d; simpl; auto using uint_dfree.
Qed.

Lemma nilzero_uint_inj : forall d d', d <> Nil -> d' <> Nil ->
  NilZero.string_of_uint d = NilZero.string_of_uint d' -> d = d'.
Proof.
  intros d d' Hd Hd' H.
  assert (E: NilZero.uint_of_string (NilZero.string_of_uint d) = NilZero.uint_of_string (NilZero.string_of_uint d')) by (rewrite H; reflexivity).
  rewrite !NilZero.usu in E by assumption. congruence.
Qed.

Lemma to_int_no_nil : forall z, Z.to_int z <> Pos Nil /\ Z.to_int z <> Neg Nil.
Proof.
  intros z. destruct z as [|p|p]; simpl; split; try discriminate.
  all: intro E; inversion E as [E'];
       pose proof (DecimalPos.Unsigned.to_uint_nonnil p) as Hn; congruence.
Qed.

Lemma show_int_inj : forall z z', show_int z = show_int z' -> z = z'.
Proof.
  intros z z' H. apply DecimalZ.to_int_inj.
  unfold show_int in H.
  destruct (to_int_no_nil z) as [A1 A2]. destruct (to_int_no_nil z') as [B1 B2].
  assert (E: NilZero.int_of_string (NilZero.string_of_int (Z.to_int z)) = NilZero.int_of_string (NilZero.string_of_int (Z.to_int z'))) by (rewrite H; reflexivity).
  rewrite !NilZero.isi in E by assumption. congruence.
Qed.

(* ---- hexadecimal ---- *)
Lemma hex_digit_inj : forall a b, 0 <= a < 16 -> 0 <= b < 16 -> hex_digit a = hex_digit b -> a = b.
Proof.
  intros a b Ha Hb H.
  assert (forall x, 0 <= x < 16 -> x = 0 \/ x = 1 \/ x = 2 \/ x = 3 \/ x = 4 \/ x = 5 \/ x = 6 \/ x = 7 \/ x = 8 \/ x = 9 \/
                                  x = 10 \/ x = 11 \/ x = 12 \/ x = 13 \/ x = 14 \/ x = 15) as E by (intros; lia).
  destruct (E a Ha) as [->|[->|[->|[->|[->|[->|[->|[->|[->|[->|[->|[->|[->|[->|[->| ->]]]]]]]]]]]]]]];
  destruct (E b Hb) as [->|[->|[->|[->|[->|[->|[->|[->|[->|[->|[->|[->|[->|[->|[->| ->]]]]]]]]]]]]]]];
  vm_compute in H; congruence.
Qed.

Lemma hexn_inj : forall n b b' k k',
  0 <= b < 16 ^ Z.of_nat n -> 0 <= b' < 16 ^ Z.of_nat n ->
  hexn n b k = hexn n b' k' -> b = b' /\ k = k'.
Proof.
  induction n as [|n IH]; intros b b' k k' Hb Hb' H.
  - simpl in *. split; [lia | assumption].
  - rewrite Nat2Z.inj_succ, Z.pow_succ_r in Hb, Hb' by lia.
    simpl in H.
    assert (R: 0 <= b / 16 < 16 ^ Z.of_nat n) by (split; [apply Z.div_pos; lia | apply Z.div_lt_upper_bound; lia]).
    assert (R': 0 <= b' / 16 < 16 ^ Z.of_nat n) by (split; [apply Z.div_pos; lia | apply Z.div_lt_upper_bound; lia]).
    destruct (IH _ _ _ _ R R' H) as [Hq Hk].
    injection Hk as Hd Hkk.
    apply hex_digit_inj in Hd; try (apply Z.mod_pos_bound; lia).
    split; [|assumption].
    rewrite (Z.div_mod b 16), (Z.div_mod b' 16) by lia. congruence.
Qed.

Arguments hexn : simpl never.
Arguments show_int : simpl never.

(* ---- operators (the table is generated from ast/Expression.go) ---- *)
Lemma op_snapshot_inj : forall o o' x x',
  op_snapshot o ++ String "E" x = op_snapshot o' ++ String "E" x' -> o = o' /\ x = x'.
Proof.
  intros o o' x x' H.
  destruct o, o'; simpl in H; inversion H; auto.
Qed.

(* ---- well-formed trees: names without delimiters, floats are 64 bits ---- *)
Definition wf_const (c : const) : Prop :=
  match c with CFloat b => 0 <= b < 16 ^ 16 | _ => True end.

Fixpoint wf_expr (e : expr) : Prop :=
  match e with
  | EAtom a => wf_atom a
  | EParen _ e' => wf_expr e'
  | EBin _ l r => wf_expr l /\ wf_expr r
  end
with wf_atom (a : atom) : Prop :=
  match a with
  | AConst c => wf_const c
  | AVar v => wf_var v
  | AFunc f args => dfree f = true /\ wf_elist args
  | AMethod a' f args => wf_atom a' /\ dfree f = true /\ wf_elist args
  | AMember a' n => wf_atom a' /\ dfree n = true
  | ASel a' sel => wf_atom a' /\ wf_expr sel
  | ANeg a' => wf_atom a'
  end
with wf_var (v : var) : Prop :=
  match v with
  | VName n => dfree n = true
  | VMember v' n => wf_var v' /\ dfree n = true
  | VSel v' sel => wf_var v' /\ wf_expr sel
  end
with wf_elist (l : elist) : Prop :=
  match l with
  | ENil => True
  | ECons e l' => wf_expr e /\ wf_elist l'
  end.

Lemma snap_const_inj : forall c c' k k', wf_const c -> wf_const c' ->
  snap_const c k = snap_const c' k' -> c = c' /\ k = k'.
Proof.
  intros c c' k k' Hc Hc' H.
  destruct c as [s|z|b|[|]|]; destruct c' as [s'|z'|b'|[|]|];
    try (simpl in H; inversion H; fail); try (simpl in H; inversion H; auto; fail).
  - (* strings *)
    unfold snap_const in H. apply append_cancel_l in H.
    apply dfree_split in H; auto using show_int_dfree.
    destruct H as (Hlen & _ & Hrest).
    apply show_int_inj in Hlen. apply Nat2Z.inj in Hlen.
    apply len_split in Hrest; auto. destruct Hrest as [-> Hr]. inversion Hr; auto.
  - (* integers *)
    unfold snap_const in H. apply append_cancel_l in H.
    apply dfree_split in H; auto using show_int_dfree.
    destruct H as (Hz & _ & Hk). apply show_int_inj in Hz. subst; auto.
  - (* floats *)
    unfold snap_const in H. apply append_cancel_l in H.
    apply hexn_inj in H; try (simpl in Hc, Hc'; assumption). destruct H as [-> Hk]. inversion Hk; auto.
Qed.

Lemma snap_expr_head : forall e k, exists r, snap_expr e k = String "E" (String "(" r).
Proof. intros [a|[|] e|o l r] k; simpl; eauto. Qed.
Lemma snap_atom_head : forall a k, exists r, snap_atom a k = String "A" (String "(" r).
Proof. intros [c|v|f l|a f l|a n|a s|a] k; simpl; eauto. Qed.
Lemma snap_var_head : forall v k, exists r, snap_var v k = String "V" (String "(" r).
Proof. intros [n|v n|v s] k; simpl; eauto. Qed.

Ltac head_clash :=
  match goal with
  | H : snap_expr ?e ?k = String ?c _ |- _ =>
      let r := fresh in let E := fresh in destruct (snap_expr_head e k) as [r E]; rewrite E in H; inversion H
  | H : String ?c _ = snap_expr ?e ?k |- _ =>
      let r := fresh in let E := fresh in destruct (snap_expr_head e k) as [r E]; rewrite E in H; inversion H
  | H : snap_atom ?e ?k = String ?c _ |- _ =>
      let r := fresh in let E := fresh in destruct (snap_atom_head e k) as [r E]; rewrite E in H; inversion H
  | H : String ?c _ = snap_atom ?e ?k |- _ =>
      let r := fresh in let E := fresh in destruct (snap_atom_head e k) as [r E]; rewrite E in H; inversion H
  | H : snap_var ?e ?k = String ?c _ |- _ =>
      let r := fresh in let E := fresh in destruct (snap_var_head e k) as [r E]; rewrite E in H; inversion H
  | H : String ?c _ = snap_var ?e ?k |- _ =>
      let r := fresh in let E := fresh in destruct (snap_var_head e k) as [r E]; rewrite E in H; inversion H
  end.

Lemma snap_const_head : forall c k, exists r, snap_const c k = String "C" (String "(" r).
Proof. intros [s|z|b|[|]|] k; simpl; eauto. Qed.

(* strip the common literal prefix of an equation between two snapshots *)
Ltac strip H :=
  simpl in H;
  repeat first [ discriminate H
               | match type of H with String _ _ = String _ _ => injection H as H end ].

(* expose the first two characters of every snapshot in H, to refute it *)
Ltac expose H :=
  repeat match type of H with
  | context [snap_expr ?e ?k] =>
      let r := fresh "r" in let E := fresh "E" in destruct (snap_expr_head e k) as [r E]; rewrite E in H; clear E
  | context [snap_atom ?e ?k] =>
      let r := fresh "r" in let E := fresh "E" in destruct (snap_atom_head e k) as [r E]; rewrite E in H; clear E
  | context [snap_var ?e ?k] =>
      let r := fresh "r" in let E := fresh "E" in destruct (snap_var_head e k) as [r E]; rewrite E in H; clear E
  | context [snap_const ?e ?k] =>
      let r := fresh "r" in let E := fresh "E" in destruct (snap_const_head e k) as [r E]; rewrite E in H; clear E
  end.
Ltac clash H := solve [ strip H; expose H; discriminate H ].

Definition P_expr (e : expr) : Prop :=
  wf_expr e -> forall e' k k', wf_expr e' -> snap_expr e k = snap_expr e' k' -> e = e' /\ k = k'.
Definition P_atom (a : atom) : Prop :=
  wf_atom a -> forall a' k k', wf_atom a' -> snap_atom a k = snap_atom a' k' -> a = a' /\ k = k'.
Definition P_var (v : var) : Prop :=
  wf_var v -> forall v' k k', wf_var v' -> snap_var v k = snap_var v' k' -> v = v' /\ k = k'.
Definition P_elist (l : elist) : Prop :=
  wf_elist l ->
  (forall l' k k', wf_elist l' -> snap_tail l (String ")" k) = snap_tail l' (String ")" k') -> l = l' /\ k = k') /\
  (forall l' k k', wf_elist l' -> snap_args l (String ")" k) = snap_args l' (String ")" k') -> l = l' /\ k = k').

Lemma snap_func_eq : forall f args k,
  snap_atom (AFunc f args) k = "A(F(n:" ++ f ++ String "," ("AL(" ++ snap_args args (")))" ++ k)).
Proof. reflexivity. Qed.
Lemma snap_method_eq : forall a f args k,
  snap_atom (AMethod a f args) k = "A(" ++ snap_atom a ("->F(n:" ++ f ++ String "," ("AL(" ++ snap_args args (")))" ++ k))).
Proof. reflexivity. Qed.

Theorem snap_inj_mut :
  (forall e, P_expr e) /\ (forall a, P_atom a) /\ (forall v, P_var v) /\ (forall l, P_elist l).
Proof.
  apply syntax_mutind; unfold P_expr, P_atom, P_var, P_elist.
  - (* EAtom *)
    intros a IHa Hw e' k k' Hw' H. destruct e' as [a'|[|] e''|o' l' r']; try clash H.
    strip H. apply IHa in H; auto. destruct H as [-> H]. strip H. subst; auto.
  - (* EParen *)
    intros neg e IHe Hw e' k k' Hw' H.
    destruct neg; destruct e' as [a'|[|] e''|o' l' r']; try clash H.
    + strip H. apply IHe in H; auto. destruct H as [-> H]. strip H. subst; auto.
    + strip H. apply IHe in H; auto. destruct H as [-> H]. strip H. subst; auto.
  - (* EBin *)
    intros o l IHl r IHr [Hwl Hwr] e' k k' Hw' H.
    destruct e' as [a'|[|] e''|o' l' r']; try clash H.
    destruct Hw' as [Hwl' Hwr'].
    strip H. apply IHl in H; auto. destruct H as [-> H].
    injection H as H. apply op_snapshot_inj in H. destruct H as [-> H].
    strip H. apply IHr in H; auto. destruct H as [-> H]. strip H. subst; auto.
  - (* AConst *)
    intros c Hw a' k k' Hw' H. destruct a' as [c'|v'|f' l'|a'' f' l'|a'' n'|a'' s'|a'']; try clash H.
    strip H. apply snap_const_inj in H; auto. destruct H as [-> H]. strip H. subst; auto.
  - (* AVar *)
    intros v IHv Hw a' k k' Hw' H. destruct a' as [c'|v'|f' l'|a'' f' l'|a'' n'|a'' s'|a'']; try clash H.
    strip H. apply IHv in H; auto. destruct H as [-> H]. strip H. subst; auto.
  - (* AFunc *)
    intros f args IHargs [Hf Hwa] a' k k' Hw' H.
    destruct a' as [c'|v'|f' l'|a'' f' l'|a'' n'|a'' s'|a'']; try (rewrite snap_func_eq in H; clash H).
    destruct Hw' as [Hf' Hwa'].
    rewrite !snap_func_eq in H. apply append_cancel_l in H.
    apply dfree_split in H; auto. destruct H as (-> & _ & H).
    apply append_cancel_l in H.
    destruct (IHargs Hwa) as [_ IHA].
    change (")))" ++ k) with (String ")" ("))" ++ k)) in H.
    change (")))" ++ k') with (String ")" ("))" ++ k')) in H.
    apply IHA in H; auto. destruct H as [-> H]. strip H. subst; auto.
  - (* AMethod *)
    intros a IHa f args IHargs (Hwa & Hf & Hwl) a' k k' Hw' H.
    destruct a' as [c'|v'|f' l'|a'' f' l'|a'' n'|a'' s'|a'']; try (rewrite snap_method_eq in H; clash H).
    + destruct Hw' as (Hwa' & Hf' & Hwl').
      rewrite !snap_method_eq in H. apply append_cancel_l in H.
      apply IHa in H; auto. destruct H as [-> H].
      apply (append_cancel_l "->F(n:") in H.
      apply dfree_split in H; auto. destruct H as (-> & _ & H).
      apply append_cancel_l in H.
      destruct (IHargs Hwl) as [_ IHA].
      change (")))" ++ k) with (String ")" ("))" ++ k)) in H.
      change (")))" ++ k') with (String ")" ("))" ++ k')) in H.
      apply IHA in H; auto. destruct H as [-> H]. strip H. subst; auto.
    + destruct Hw' as [Hwa' Hn'].
      rewrite snap_method_eq in H. strip H. apply IHa in H; auto. destruct H as [-> H]. clash H.
    + destruct Hw' as [Hwa' Hs'].
      rewrite snap_method_eq in H. strip H. apply IHa in H; auto. destruct H as [-> H]. clash H.
  - (* AMember *)
    intros a IHa n [Hwa Hn] a' k k' Hw' H.
    destruct a' as [c'|v'|f' l'|a'' f' l'|a'' n'|a'' s'|a'']; try clash H.
    + destruct Hw' as (Hwa' & Hf' & Hwl').
      rewrite snap_method_eq in H. strip H. apply IHa in H; auto. destruct H as [-> H]. clash H.
    + destruct Hw' as [Hwa' Hn'].
      strip H. apply IHa in H; auto. destruct H as [-> H].
      strip H. apply dfree_split in H; auto. destruct H as (-> & _ & ->). auto.
    + destruct Hw' as [Hwa' Hs'].
      strip H. apply IHa in H; auto. destruct H as [-> H]. clash H.
  - (* ASel *)
    intros a IHa sel IHsel [Hwa Hws] a' k k' Hw' H.
    destruct a' as [c'|v'|f' l'|a'' f' l'|a'' n'|a'' s'|a'']; try clash H.
    + destruct Hw' as (Hwa' & Hf' & Hwl').
      rewrite snap_method_eq in H. strip H. apply IHa in H; auto. destruct H as [-> H]. clash H.
    + destruct Hw' as [Hwa' Hn'].
      strip H. apply IHa in H; auto. destruct H as [-> H]. clash H.
    + destruct Hw' as [Hwa' Hs'].
      strip H. apply IHa in H; auto. destruct H as [-> H].
      apply IHa in H; auto. destruct H as [_ H].
      strip H. apply IHsel in H; auto. destruct H as [-> H]. strip H. subst; auto.
  - (* ANeg *)
    intros a IHa Hwa a' k k' Hw' H.
    destruct a' as [c'|v'|f' l'|a'' f' l'|a'' n'|a'' s'|a'']; try clash H.
    + strip H. apply IHa in H; auto. destruct H as [-> H]. strip H. subst; auto.
  - (* VName *)
    intros n Hn v' k k' Hw' H. destruct v' as [n'|v'' n'|v'' s']; try clash H.
    strip H. apply dfree_split in H; auto. destruct H as (-> & _ & ->). auto.
  - (* VMember *)
    intros v IHv n [Hwv Hn] v' k k' Hw' H. destruct v' as [n'|v'' n'|v'' s']; try clash H.
    + destruct Hw' as [Hwv' Hn'].
      strip H. apply IHv in H; auto. destruct H as [-> H].
      strip H. apply dfree_split in H; auto. destruct H as (-> & _ & ->). auto.
    + destruct Hw' as [Hwv' Hs'].
      strip H. apply IHv in H; auto. destruct H as [-> H].
      strip H.
      match type of H with _ = String "M" (String "A" (String "S" (String "(" ?X))) =>
        change (String "M" (String "A" (String "S" (String "(" X)))) with ("MAS" ++ String "(" X) in H end.
      apply dfree_split in H; auto. destruct H as (_ & Hc & _). discriminate Hc.
  - (* VSel *)
    intros v IHv sel IHsel [Hwv Hws] v' k k' Hw' H. destruct v' as [n'|v'' n'|v'' s']; try clash H.
    + destruct Hw' as [Hwv' Hn'].
      strip H. apply IHv in H; auto. destruct H as [-> H].
      strip H.
      match type of H with String "M" (String "A" (String "S" (String "(" ?X))) = _ =>
        change (String "M" (String "A" (String "S" (String "(" X)))) with ("MAS" ++ String "(" X) in H end.
      apply dfree_split in H; auto. destruct H as (_ & Hc & _). discriminate Hc.
    + destruct Hw' as [Hwv' Hs'].
      strip H. apply IHv in H; auto. destruct H as [-> H].
      strip H. apply IHsel in H; auto. destruct H as [-> H]. strip H. subst; auto.
  - (* ENil *)
    intros _. split; intros l' k k' Hw' H; destruct l' as [|e' l'']; simpl in H.
    + injection H as ->. auto.
    + discriminate H.
    + injection H as ->. auto.
    + clash H.
  - (* ECons *)
    intros e IHe l IHl [Hwe Hwl]. destruct (IHl Hwl) as [IHT _].
    split; intros l' k k' Hw' H; destruct l' as [|e' l'']; simpl in H.
    + discriminate H.
    + destruct Hw' as [Hwe' Hwl'].
      injection H as H. apply IHe in H; auto. destruct H as [-> H].
      apply IHT in H; auto. destruct H as [-> ->]. auto.
    + clash H.
    + destruct Hw' as [Hwe' Hwl'].
      apply IHe in H; auto. destruct H as [-> H].
      apply IHT in H; auto. destruct H as [-> ->]. auto.
Qed.

Theorem snapshot_inj_expr : forall e1 e2, wf_expr e1 -> wf_expr e2 -> expr_snapshot e1 = expr_snapshot e2 -> e1 = e2.
Proof. intros e1 e2 H1 H2 H. destruct snap_inj_mut as (He & _). destruct (He e1 H1 e2 _ _ H2 H). assumption. Qed.
Theorem snapshot_inj_atom : forall a1 a2, wf_atom a1 -> wf_atom a2 -> atom_snapshot a1 = atom_snapshot a2 -> a1 = a2.
Proof. intros a1 a2 H1 H2 H. destruct snap_inj_mut as (_ & Ha & _). destruct (Ha a1 H1 a2 _ _ H2 H). assumption. Qed.
Theorem snapshot_inj_var : forall v1 v2, wf_var v1 -> wf_var v2 -> var_snapshot v1 = var_snapshot v2 -> v1 = v2.
Proof. intros v1 v2 H1 H2 H. destruct snap_inj_mut as (_ & _ & Hv & _). destruct (Hv v1 H1 v2 _ _ H2 H). assumption. Qed.
