(* FloatLit.v — a hexadecimal float literal that spells a binary64 value exactly
   (mantissa below 2^53, exponent in range) decodes to exactly those bits. *)
From Grule Require Import Base Lexer.
Open Scope Z_scope.

Lemma p52_eq : p52 = 2 ^ 52. Proof. reflexivity. Qed.
Lemma p53_eq : p53 = 2 ^ 53. Proof. reflexivity. Qed.

(* n/d = M * 2^E exactly, with M normalised (or E the subnormal exponent) *)
Lemma fbr_exp_exact : forall n d M E, 0 < M < 2 ^ 53 -> -1074 <= E -> 0 < d -> n * 1 = M * (if 0 <=? E then 2 ^ E * d else 1) ->
  (E < 0 -> d = 2 ^ (- E)) -> (0 <= E -> d = 1) -> (2 ^ 52 <= M \/ E = -1074) ->
  fbr_exp n d = E.
Proof.
  intros n d M E HM HE Hd Hn Hdneg Hdpos Hnorm. unfold fbr_exp.
  destruct (Z.leb_spec 0 E) as [HE0|HE0].
  - (* integer value, M normal *)
    rewrite (Hdpos HE0) in *. assert (Hn' : n = M * 2 ^ E) by lia. subst n.
    assert (Hnm : 2 ^ 52 <= M) by (destruct Hnorm; [assumption|lia]).
    assert (Hk : Z.log2 M = 52) by (apply Z.log2_unique; lia).
    rewrite Z.log2_mul_pow2 by lia. change (Z.log2 1) with 0. rewrite Hk.
    replace (E + 52 - 0 - 52) with E by lia. cbv zeta.
    unfold fbr_quot. destruct (Z.leb_spec 0 E); [|lia].
    rewrite Z.mul_1_l, Z.div_mul by (apply Z.pow_nonzero; lia).
    rewrite p53_eq, p52_eq.
    destruct (Z.leb_spec (2 ^ 53) M); [lia|]. destruct (Z.ltb_spec M (2 ^ 52)); [lia|]. lia.
  - rewrite (Hdneg HE0) in *. assert (Hn' : n = M) by lia. subst n.
    assert (Hp : 0 < 2 ^ (- E)) by (apply Z.pow_pos_nonneg; lia).
    rewrite Z.log2_pow2 by lia.
    destruct (Z.lt_ge_cases M (2 ^ 52)) as [Hlt|Hge].
    + (* subnormal *)
      assert (E = -1074) by (destruct Hnorm; [lia|assumption]). subst E.
      set (k := Z.log2 M). assert (Hk : 0 <= k < 52).
      { unfold k. split; [apply Z.log2_nonneg|]. apply Z.log2_lt_pow2; lia. }
      pose proof (Z.log2_spec M ltac:(lia)) as [Hk1 Hk2]. fold k in Hk1, Hk2.
      change (- -1074) with 1074 in *.
      replace (k - 1074 - 52) with (k - 1126) by lia. cbv zeta.
      unfold fbr_quot. destruct (Z.leb_spec 0 (k - 1126)); [lia|].
      replace (- (k - 1126)) with ((52 - k) + 1074) by lia.
      rewrite Z.pow_add_r by lia. rewrite Z.mul_assoc, Z.div_mul by lia.
      assert (Hq1 : 2 ^ 52 <= M * 2 ^ (52 - k)).
      { replace (2 ^ 52) with (2 ^ k * 2 ^ (52 - k)) by (rewrite <- Z.pow_add_r by lia; f_equal; lia).
        apply Z.mul_le_mono_nonneg_r; [apply Z.pow_nonneg; lia|assumption]. }
      assert (Hq2 : M * 2 ^ (52 - k) < 2 ^ 53).
      { replace (2 ^ 53) with (2 ^ (Z.succ k) * 2 ^ (52 - k)) by (rewrite <- Z.pow_add_r by lia; f_equal; lia).
        apply Z.mul_lt_mono_pos_r; [apply Z.pow_pos_nonneg; lia|assumption]. }
      rewrite p53_eq, p52_eq.
      destruct (Z.leb_spec (2 ^ 53) (M * 2 ^ (52 - k))); [lia|].
      destruct (Z.ltb_spec (M * 2 ^ (52 - k)) (2 ^ 52)); [lia|]. lia.
    + assert (Hk : Z.log2 M = 52) by (apply Z.log2_unique; lia). rewrite Hk.
      replace (52 - - E - 52) with E by lia. cbv zeta.
      unfold fbr_quot. destruct (Z.leb_spec 0 E); [lia|].
      rewrite Z.div_mul by lia. rewrite p53_eq, p52_eq.
      destruct (Z.leb_spec (2 ^ 53) M); [lia|]. destruct (Z.ltb_spec M (2 ^ 52)); [lia|]. lia.
Qed.

Lemma fbr_round_exact : forall M E d, -1074 <= E -> (E < 0 -> d = 2 ^ (- E)) -> (0 <= E -> d = 1) ->
  fbr_round (if 0 <=? E then M * 2 ^ E else M) d E = M.
Proof.
  intros M E d HE Hdneg Hdpos. unfold fbr_round.
  destruct (Z.leb_spec 0 E) as [HE0|HE0].
  - rewrite (Hdpos HE0). assert (Hp : 0 < 2 ^ E) by (apply Z.pow_pos_nonneg; lia). cbv zeta.
    rewrite Z.mul_1_l, Z.div_mul, Z.mod_mul by lia. cbn [Z.mul].
    destruct (Z.ltb_spec 0 (2 ^ E)); [reflexivity|lia].
  - rewrite (Hdneg HE0). assert (Hp : 0 < 2 ^ (- E)) by (apply Z.pow_pos_nonneg; lia). cbv zeta.
    rewrite Z.div_mul, Z.mod_mul by lia. cbn [Z.mul].
    destruct (Z.ltb_spec 0 (2 ^ (- E))); [reflexivity|lia].
Qed.

Theorem ratio_exact : forall M E, 0 < M < 2 ^ 53 -> -1074 <= E <= 971 -> (2 ^ 52 <= M \/ E = -1074) ->
  (if 0 <=? E then float_bits_of_ratio (M * 2 ^ E) 1 else float_bits_of_ratio M (2 ^ (- E)))
  = Some ((E + 1074) * p52 + M).
Proof.
  intros M E HM HE Hn.
  assert (Hbits : (2047 * p52 <=? (E + 1074) * p52 + M) = false).
  { apply Z.leb_gt. rewrite p52_eq. assert (2 ^ 53 = 2 * 2 ^ 52) by reflexivity. nia. }
  pose proof (fbr_round_exact M E (if 0 <=? E then 1 else 2 ^ (- E)) ltac:(lia)) as Hr.
  destruct (Z.leb_spec 0 E) as [HE0|HE0]; unfold float_bits_of_ratio.
  - assert (Hp : 0 < 2 ^ E) by (apply Z.pow_pos_nonneg; lia).
    destruct (Z.leb_spec (M * 2 ^ E) 0); [nia|].
    rewrite (fbr_exp_exact (M * 2 ^ E) 1 M E); try lia.
    + cbv zeta. rewrite Hr by lia. rewrite Hbits. reflexivity.
    + destruct (Z.leb_spec 0 E); lia.
  - assert (Hp : 0 < 2 ^ (- E)) by (apply Z.pow_pos_nonneg; lia).
    destruct (Z.leb_spec M 0); [lia|].
    rewrite (fbr_exp_exact M (2 ^ (- E)) M E); try lia.
    + cbv zeta. rewrite Hr by lia. rewrite Hbits. reflexivity.
    + destruct (Z.leb_spec 0 E); lia.
Qed.
