(* Site inventory anchor (ctx): the four ctx.Err() check points of the model (top of cycle, before each rule, RuleEntry.Evaluate, RuleEntry.Execute) plus the exit-path check are the ones in the source; each test is followed by one call that fetches the error.
   The expected list below is what the hand-written model was written against;
   tools/go2coq regenerates SitesGen.sites_ctx from /repo on every run. *)
From Grule Require Import Base SitesGen.
Open Scope string_scope.

Lemma sites_ctx_ok : sites_ctx = [
  ("ast/RuleEntry.Evaluate", "ctx.Err()", 2%nat);
  ("ast/RuleEntry.Execute", "ctx.Err()", 2%nat);
  ("engine/GruleEngine.ExecuteWithContext", "ctx.Err()", 6%nat)].
Proof. reflexivity. Qed.
