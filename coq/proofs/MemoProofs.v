(* MemoProofs.v — the memoising evaluator agrees with the from-scratch SPEC
   (Fresh.v) whenever its remembered values are sound, and keeps them sound. *)
From Grule Require Import Base Values Syntax CmpGen ArithGen OpsGen Snapshot Printer EngineAbs Facts Eval Fresh.
Open Scope Z_scope.

(* ---- boolean equality of AST nodes is equality ---- *)
Lemma const_eqb_eq : forall a b, const_eqb a b = true -> a = b.
Proof.
  intros [s|z|f|b|] [s'|z'|f'|b'|] H; simpl in H; try discriminate; auto.
  - apply String.eqb_eq in H; subst; auto.
  - apply Z.eqb_eq in H; subst; auto.
  - apply Z.eqb_eq in H; subst; auto.
  - apply Bool.eqb_prop in H; subst; auto.
Qed.

Lemma op_eqb_eq : forall a b, op_eqb a b = true -> a = b.
Proof. intros [] []; simpl; intros; try discriminate; auto. Qed.

Lemma syntax_eqb_eq :
  (forall a b, expr_eqb a b = true -> a = b) /\
  (forall a b, atom_eqb a b = true -> a = b) /\
  (forall a b, var_eqb a b = true -> a = b) /\
  (forall a b, elist_eqb a b = true -> a = b).
Proof.
  apply syntax_mutind.
  - intros a IH [b| |] H; simpl in H; try discriminate. f_equal; auto.
  - intros n e IH [|n' e'|] H; simpl in H; try discriminate.
    apply andb_prop in H. destruct H as [H1 H2]. apply Bool.eqb_prop in H1. subst. f_equal; auto.
  - intros o l IHl r IHr [| |o' l' r'] H; simpl in H; try discriminate.
    apply andb_prop in H. destruct H as [H H3]. apply andb_prop in H. destruct H as [H1 H2].
    apply op_eqb_eq in H1. subst. f_equal; auto.
  - intros c [c'| | | | | |] H; simpl in H; try discriminate. apply const_eqb_eq in H. subst; auto.
  - intros v IH [|v'| | | | |] H; simpl in H; try discriminate. f_equal; auto.
  - intros f l IH [| |f' l'| | | |] H; simpl in H; try discriminate.
    apply andb_prop in H. destruct H as [H1 H2]. apply String.eqb_eq in H1. subst. f_equal; auto.
  - intros a IHa f l IHl [| | |a' f' l'| | |] H; simpl in H; try discriminate.
    apply andb_prop in H. destruct H as [H H3]. apply andb_prop in H. destruct H as [H1 H2].
    apply String.eqb_eq in H2. subst. f_equal; auto.
  - intros a IHa n [| | | |a' n'| |] H; simpl in H; try discriminate.
    apply andb_prop in H. destruct H as [H1 H2]. apply String.eqb_eq in H2. subst. f_equal; auto.
  - intros a IHa e IHe [| | | | |a' e'|] H; simpl in H; try discriminate.
    apply andb_prop in H. destruct H as [H1 H2]. f_equal; auto.
  - intros a IHa [| | | | | |a'] H; simpl in H; try discriminate. f_equal; auto.
  - intros n [n'| |] H; simpl in H; try discriminate. apply String.eqb_eq in H. subst; auto.
  - intros v IHv n [|v' n'|] H; simpl in H; try discriminate.
    apply andb_prop in H. destruct H as [H1 H2]. apply String.eqb_eq in H2. subst. f_equal; auto.
  - intros v IHv e IHe [| |v' e'] H; simpl in H; try discriminate.
    apply andb_prop in H. destruct H as [H1 H2]. f_equal; auto.
  - intros [|] H; simpl in H; try discriminate; auto.
  - intros e IHe l IHl [|e' l'] H; simpl in H; try discriminate.
    apply andb_prop in H. destruct H as [H1 H2]. f_equal; auto.
Qed.

Lemma expr_eqb_eq : forall a b, expr_eqb a b = true -> a = b.
Proof. apply syntax_eqb_eq. Qed.
Lemma atom_eqb_eq : forall a b, atom_eqb a b = true -> a = b.
Proof. apply syntax_eqb_eq. Qed.

Lemma lookup_expr_in : forall m e v, lookup_expr m e = Some v -> In (e, v) m.
Proof.
  induction m as [|[k w] m IH]; intros e v H; simpl in H; [discriminate|].
  destruct (expr_eqb k e) eqn:E.
  - apply expr_eqb_eq in E. inversion H; subst. left; reflexivity.
  - right. auto.
Qed.
Lemma lookup_atom_in : forall m a v, lookup_atom m a = Some v -> In (a, v) m.
Proof.
  induction m as [|[k w] m IH]; intros a v H; simpl in H; [discriminate|].
  destruct (atom_eqb k a) eqn:E.
  - apply atom_eqb_eq in E. inversion H; subst. left; reflexivity.
  - right. auto.
Qed.

Section Memo.
Variable allvars : list var.
Variable meth : list (string * fval) -> string -> list val -> res (option val * list (string * fval)).
Variable panics_inside : string -> list val -> bool.
(* which fact methods change their receiver *)
Variable mutating : string -> bool.
Hypothesis meth_pure : forall fs f args ret fs', mutating f = false -> meth fs f args = Ok (ret, fs') -> fs' = fs.

Notation eval_expr := (eval_expr allvars meth panics_inside).
Notation eval_atom := (eval_atom allvars meth panics_inside).
Notation eval_var := (eval_var allvars meth panics_inside).
Notation eval_args := (eval_args allvars meth panics_inside).
Notation fresh_expr := (fresh_expr meth).
Notation fresh_atom := (fresh_atom meth).
Notation fresh_var := (fresh_var meth).
Notation fresh_args := (fresh_args meth).

(* the nodes of the knowledge base: any predicates closed under taking sub-nodes *)
Variable NE : expr -> Prop.
Variable NA : atom -> Prop.
Variable NV : var -> Prop.
Variable NL : elist -> Prop.
Hypothesis NE_atom : forall a, NE (EAtom a) -> NA a.
Hypothesis NE_paren : forall n e, NE (EParen n e) -> NE e.
Hypothesis NE_bin : forall o l r, NE (EBin o l r) -> NE l /\ NE r.
Hypothesis NA_var : forall x, NA (AVar x) -> NV x.
Hypothesis NA_func : forall f l, NA (AFunc f l) -> NL l.
Hypothesis NA_method : forall a f l, NA (AMethod a f l) -> NA a /\ NL l.
Hypothesis NA_member : forall a n, NA (AMember a n) -> NA a.
Hypothesis NA_sel : forall a e, NA (ASel a e) -> NA a /\ NE e.
Hypothesis NA_neg : forall a, NA (ANeg a) -> NA a.
Hypothesis NV_member : forall x n, NV (VMember x n) -> NV x.
Hypothesis NV_sel : forall x e, NV (VSel x e) -> NV x /\ NE e.
Hypothesis NL_cons : forall e l, NL (ECons e l) -> NE e /\ NL l.

(* side-effect free expressions: no control built-in, no mutating method *)
Fixpoint pure_expr (e : expr) : bool :=
  match e with
  | EAtom a => pure_atom a
  | EParen _ e' => pure_expr e'
  | EBin _ l r => pure_expr l && pure_expr r
  end
with pure_atom (a : atom) : bool :=
  match a with
  | AConst _ => true
  | AVar v => pure_var v
  | AFunc f args => negb (control_builtin f) && pure_elist args
  | AMethod a' f args => negb (mutating f) && pure_atom a' && pure_elist args
  | AMember a' _ => pure_atom a'
  | ASel a' sel => pure_atom a' && pure_expr sel
  | ANeg a' => pure_atom a'
  end
with pure_var (v : var) : bool :=
  match v with
  | VName _ => true
  | VMember v' _ => pure_var v'
  | VSel v' sel => pure_var v' && pure_expr sel
  end
with pure_elist (l : elist) : bool :=
  match l with ENil => true | ECons e l' => pure_expr e && pure_elist l' end.

(* every remembered value of a side-effect free node is its from-scratch value on the current facts *)
Definition not_func (a : atom) : Prop := match a with AFunc _ _ => False | _ => True end.

Definition memo_sound (s : estate) : Prop :=
  (forall e v, In (e, v) (es_mexpr s) -> pure_expr e = true -> NE e /\ fresh_expr (es_facts s) e = Ok v) /\
  (forall a v, In (a, v) (es_matom s) -> pure_atom a = true -> NA a /\ fresh_atom (es_facts s) a = Ok v) /\
  (* DEFUNC calls are never remembered *)
  (forall a v, In (a, v) (es_matom s) -> not_func a).

(* evaluation of a pure node changes nothing but the memo and the call counters *)
Definition frame (s s' : estate) : Prop := es_facts s' = es_facts s /\ es_fx s' = es_fx s.

Lemma frame_refl : forall s, frame s s. Proof. split; reflexivity. Qed.
Lemma frame_trans : forall a b c, frame a b -> frame b c -> frame a c.
Proof. intros a b c [A1 A2] [B1 B2]. split; congruence. Qed.

Lemma memo_sound_expr : forall s e v, memo_sound s -> NE e -> (pure_expr e = true -> fresh_expr (es_facts s) e = Ok v) -> memo_sound (memo_expr s e v).
Proof.
  intros s e v (He & Ha & Hk) Hn H. split; [|split]; simpl.
  - intros e' v' [E|Hin] Hp; [inversion E; subst; auto | auto].
  - exact Ha.
  - exact Hk.
Qed.
Lemma memo_sound_atom : forall s a v, memo_sound s -> not_func a -> NA a -> (pure_atom a = true -> fresh_atom (es_facts s) a = Ok v) -> memo_sound (memo_atom s a v).
Proof.
  intros s a v (He & Ha & Hk) Hnf Hn H. split; [|split]; simpl.
  - exact He.
  - intros a' v' [E|Hin] Hp; [inversion E; subst; auto | auto].
  - intros a' v' [E|Hin]; [inversion E; subst; auto | eauto].
Qed.

Lemma memo_sound_count : forall s m, memo_sound s -> memo_sound (count_call s m).
Proof. intros s m (He & Ha & Hk). split; [|split]; simpl; auto. Qed.

(* writing back the value that is already there changes nothing *)
Lemma field_set_same : forall fs n x, field_get fs n = Some x -> field_set fs n x = fs.
Proof.
  induction fs as [|[k v] fs IH]; intros n x H; simpl in *; [discriminate|].
  destruct (String.eqb k n) eqn:E.
  - apply String.eqb_eq in E. inversion H; subst. reflexivity.
  - rewrite IH; auto.
Qed.
Lemma set_nth_same : forall (A : Type) (l : list A) i x, nth_z l i = Some x -> set_nth_z l i x = l.
Proof.
  induction l as [|y l IH]; intros i x H; simpl in *; [discriminate|].
  destruct (i =? 0); [inversion H; subst; reflexivity|].
  destruct (i <? 0); [discriminate|]. rewrite IH; auto.
Qed.
Lemma steps_set_same : forall ss v x, steps_get v ss = Ok x -> steps_set v ss x = Some v.
Proof.
  induction ss as [|s ss IH]; intros v x H; simpl in *.
  - inversion H; reflexivity.
  - destruct (step_get v s) as [c| |] eqn:E; try discriminate.
    destruct s as [n|i|k]; destruct v as [sv|fs|[t|]|xs|kvs]; simpl in E; try discriminate.
    + destruct (field_get fs n) as [c'|] eqn:F; try discriminate. inversion E; subst.
      rewrite (IH c x H). rewrite field_set_same; auto.
    + destruct t as [sv|fs| | |]; try discriminate.
      destruct (field_get fs n) as [c'|] eqn:F; try discriminate. inversion E; subst.
      rewrite (IH c x H). rewrite field_set_same; auto.
    + destruct (nth_z xs i) as [c'|] eqn:F; try discriminate. inversion E; subst.
      rewrite (IH c x H). rewrite set_nth_same; auto.
    + destruct (field_get kvs k) as [c'|] eqn:F; try discriminate. inversion E; subst.
      rewrite (IH c x H). rewrite field_set_same; auto.
Qed.
Lemma aupdate_same : forall (A : Type) k (v : A) m, alookup k m = Some v -> aupdate k v m = m.
Proof.
  induction m as [|[k' v'] m IH]; intros H; simpl in *; [discriminate|].
  destruct (String.eqb k k') eqn:E.
  - apply String.eqb_eq in E. inversion H; subst. reflexivity.
  - rewrite IH; auto.
Qed.
Lemma path_set_same : forall fx p x, path_get fx p = Ok x -> path_set fx p x = Some fx.
Proof.
  intros fx p x H. unfold path_get, path_set in *.
  destruct (alookup (p_root p) fx) as [v|] eqn:E; try discriminate.
  rewrite (steps_set_same _ _ _ H). rewrite aupdate_same; auto.
Qed.

(* a non-mutating method call leaves the state alone (apart from its counter) *)
Lemma call_receiver_pure : forall s recv f args r s',
  mutating f = false -> memo_sound s ->
  call_receiver meth panics_inside s recv f args = (r, s') ->
  r = fresh_call meth (es_facts s) recv f args /\ frame s s' /\ memo_sound s'.
Proof.
  intros s recv f args r s' Hm Hs H. unfold call_receiver, fresh_call in *.
  destruct (receiver_kind (es_facts s) recv f args) as [res|p fs] eqn:Ek.
  - inversion H; subst. split; [reflexivity|]. split; [apply frame_refl|assumption].
  - destruct (meth fs f args) as [[ret fs']| |] eqn:Em.
    + assert (fs' = fs) by (eapply meth_pure; eauto). subst fs'.
      assert (Hg: path_get (es_facts s) p = Ok (FPtr (Some (FStruct fs)))).
      { unfold receiver_kind in Ek. destruct recv as [v|q]; [destruct v; discriminate|].
        destruct (path_get (es_facts s) q) as [[sv|fs0|[t|]|xs|kvs]| |] eqn:G; try discriminate.
        destruct t as [sv|fs1| | |]; try discriminate. inversion Ek; subst. assumption. }
      simpl in H. rewrite (path_set_same _ _ _ Hg) in H. inversion H; subst.
      split; [reflexivity|]. split; [split; reflexivity|]. destruct Hs as (He & Ha & Hk). split; [|split]; simpl; auto.
    + inversion H; subst. split; [reflexivity|]. split; [apply frame_refl|assumption].
    + inversion H; subst. split; [reflexivity|].
      destruct (panics_inside f args); (split; [split; reflexivity|]); auto using memo_sound_count.
Qed.

Definition P_expr (e : expr) : Prop :=
  pure_expr e = true -> NE e -> forall s r s', memo_sound s -> eval_expr e s = (r, s') ->
  r = fresh_expr (es_facts s) e /\ frame s s' /\ memo_sound s'.
Definition P_atom (a : atom) : Prop :=
  pure_atom a = true -> NA a -> forall s r s', memo_sound s -> eval_atom a s = (r, s') ->
  r = fresh_atom (es_facts s) a /\ frame s s' /\ memo_sound s'.
Definition P_var (x : var) : Prop :=
  pure_var x = true -> NV x -> forall s r s', memo_sound s -> eval_var x s = (r, s') ->
  r = fresh_var (es_facts s) x /\ frame s s' /\ memo_sound s'.
Definition P_elist (l : elist) : Prop :=
  pure_elist l = true -> NL l -> forall s r s', memo_sound s -> eval_args l s = (r, s') ->
  r = fresh_args (es_facts s) l /\ frame s s' /\ memo_sound s'.

(* constructor-wise equations of the SPEC evaluator *)
Lemma fr_EAtom : forall fx a, fresh_expr fx (EAtom a) = fresh_atom fx a. Proof. reflexivity. Qed.
Lemma fr_EParen : forall fx n e, fresh_expr fx (EParen n e) =
  match fresh_expr fx e with Ok v => Ok (if n then negate v else v) | r => r end. Proof. reflexivity. Qed.
Lemma fr_EBin : forall fx o l r, fresh_expr fx (EBin o l r) =
  match bin_left_fail o (fresh_expr fx l) with
  | Some r0 => r0
  | None => match bin_shortcut o fx (fresh_expr fx l) with
            | Some v => Ok v
            | None => bin_combine o fx (fresh_expr fx l) (fresh_expr fx r)
            end
  end. Proof. reflexivity. Qed.
Lemma fr_AConst : forall fx c, fresh_atom fx (AConst c) = Ok (RV (const_val c)). Proof. reflexivity. Qed.
Lemma fr_AVar : forall fx x, fresh_atom fx (AVar x) = fresh_var fx x. Proof. reflexivity. Qed.
Lemma fr_AFunc : forall fx f args, fresh_atom fx (AFunc f args) =
  match fresh_args fx args with
  | Ok vs => if control_builtin f then Err else defunc_value fx f vs
  | Err => Err | Panic => Panic end. Proof. reflexivity. Qed.
Lemma fr_ANeg : forall fx a, fresh_atom fx (ANeg a) = match fresh_atom fx a with Ok v => Ok (negate v) | r => r end.
Proof. reflexivity. Qed.
Lemma fr_AMethod : forall fx a f args, fresh_atom fx (AMethod a f args) =
  match fresh_atom fx a with
  | Ok recv => match fresh_args fx args with
               | Ok vs => fresh_call meth fx recv f (map (scalar_of fx) vs)
               | Err => Err | Panic => Panic end
  | r => r end. Proof. reflexivity. Qed.
Lemma fr_AMember : forall fx a n, fresh_atom fx (AMember a n) =
  match fresh_atom fx a with Ok recv => child_field_f fx recv n | r => r end. Proof. reflexivity. Qed.
Lemma fr_ASel : forall fx a sel, fresh_atom fx (ASel a sel) =
  match fresh_atom fx a with
  | Ok recv => match fresh_expr fx sel with Ok k => child_sel_f fx recv (scalar_of fx k) | r => r end
  | r => r end. Proof. reflexivity. Qed.
Lemma fr_VName : forall fx n, fresh_var fx (VName n) =
  match alookup n fx with Some v => Ok (rval_of {| p_root := n; p_steps := [] |} v) | None => Err end. Proof. reflexivity. Qed.
Lemma fr_VMember : forall fx x n, fresh_var fx (VMember x n) =
  match fresh_var fx x with Ok r => child_field_f fx r n | r => r end. Proof. reflexivity. Qed.
Lemma fr_VSel : forall fx x sel, fresh_var fx (VSel x sel) =
  match fresh_var fx x with
  | Ok r => match fresh_expr fx sel with Ok k => child_sel_f fx r (scalar_of fx k) | r' => r' end
  | r => r end. Proof. reflexivity. Qed.
Lemma fr_ENil : forall fx, fresh_args fx ENil = Ok []. Proof. reflexivity. Qed.
Lemma fr_ECons : forall fx e l, fresh_args fx (ECons e l) =
  match fresh_expr fx e with
  | Ok v => match fresh_args fx l with Ok vs => Ok (v :: vs) | Err => Err | Panic => Panic end
  | Err => Err | Panic => Panic end. Proof. reflexivity. Qed.

Lemma memo_hit_expr : forall s e v, memo_sound s -> pure_expr e = true -> lookup_expr (es_mexpr s) e = Some v ->
  Ok v = fresh_expr (es_facts s) e.
Proof. intros s e v (He & _) Hp H. symmetry. apply He; auto. apply lookup_expr_in; auto. Qed.
Lemma memo_hit_atom : forall s a v, memo_sound s -> pure_atom a = true -> lookup_atom (es_matom s) a = Some v ->
  Ok v = fresh_atom (es_facts s) a.
Proof. intros s a v (_ & Ha & _) Hp H. symmetry. apply Ha; auto. apply lookup_atom_in; auto. Qed.

Ltac fr :=
  first [ apply frame_refl
        | assumption
        | match goal with Hf : frame ?s ?s1 |- frame ?s _ => split; simpl; apply Hf end
        | (split; reflexivity) ].
Ltac fin := split; [first [reflexivity | assumption | idtac] | split; [try fr | try assumption]].

Theorem eval_agrees :
  (forall e, P_expr e) /\ (forall a, P_atom a) /\ (forall x, P_var x) /\ (forall l, P_elist l).
Proof.
  apply syntax_mutind; unfold P_expr, P_atom, P_var, P_elist.
  - (* EAtom *)
    intros a IHa Hp Hn s r s' Hs H. rewrite eval_expr_unfold in H; unfold eval_expr_miss in H.
    pose proof (NE_atom _ Hn) as Hna.
    destruct (lookup_expr (es_mexpr s) (EAtom a)) as [v|] eqn:L.
    { inversion H; subst r s'. fin. eapply memo_hit_expr; eauto. }
    destruct (eval_atom a s) as [ra s1] eqn:Ea.
    destruct (IHa Hp Hna s ra s1 Hs Ea) as (Hr & Hf & Hs1). rewrite fr_EAtom.
    destruct ra as [v| |]; inversion H; subst r s'; fin.
    apply memo_sound_expr; auto. intros _. destruct Hf as [Hf _]. rewrite Hf, fr_EAtom. auto.
  - (* EParen *)
    intros neg e IHe Hp Hn s r s' Hs H. rewrite eval_expr_unfold in H; unfold eval_expr_miss in H.
    pose proof (NE_paren _ _ Hn) as Hne.
    destruct (lookup_expr (es_mexpr s) (EParen neg e)) as [v|] eqn:L.
    { inversion H; subst r s'. fin. eapply memo_hit_expr; eauto. }
    destruct (eval_expr e s) as [re s1] eqn:Ee. simpl in Hp.
    destruct (IHe Hp Hne s re s1 Hs Ee) as (Hr & Hf & Hs1). rewrite fr_EParen, <- Hr.
    destruct re as [v| |]; inversion H; subst r s'; fin.
    apply memo_sound_expr; auto. intros _. destruct Hf as [Hf _]. rewrite Hf, fr_EParen, <- Hr. reflexivity.
  - (* EBin *)
    intros o l IHl r0 IHr Hp Hn s r s' Hs H. rewrite eval_expr_unfold in H; unfold eval_expr_miss in H.
    destruct (NE_bin _ _ _ Hn) as [Hnl Hnr].
    simpl in Hp. apply andb_prop in Hp. destruct Hp as [Hpl Hpr].
    destruct (lookup_expr (es_mexpr s) (EBin o l r0)) as [v|] eqn:L.
    { inversion H; subst r s'. fin. eapply memo_hit_expr; eauto. simpl. rewrite Hpl, Hpr. reflexivity. }
    destruct (eval_expr l s) as [lres s1] eqn:El.
    destruct (IHl Hpl Hnl s lres s1 Hs El) as (Hrl & Hfl & Hs1).
    assert (Efx1: es_facts s1 = es_facts s) by apply Hfl.
    rewrite fr_EBin, <- Hrl.
    destruct (bin_left_fail o lres) as [rf|] eqn:Bf.
    { inversion H; subst r s'. fin. }
    rewrite Efx1 in H.
    destruct (bin_shortcut o (es_facts s) lres) as [v|] eqn:Bs.
    { inversion H; subst r s'. fin.
      apply memo_sound_expr; auto. intros _. rewrite Efx1, fr_EBin, <- Hrl, Bf, Bs. reflexivity. }
    destruct (eval_expr r0 s1) as [rres s2] eqn:Er.
    destruct (IHr Hpr Hnr s1 rres s2 Hs1 Er) as (Hrr & Hfr & Hs2).
    assert (Efx2: es_facts s2 = es_facts s) by (destruct Hfr as [A _]; congruence).
    rewrite Efx1 in Hrr. rewrite <- Hrr. rewrite Efx2 in H.
    assert (Hf2: frame s s2) by (eapply frame_trans; eauto).
    destruct (bin_combine o (es_facts s) lres rres) as [v| |] eqn:Bc; inversion H; subst r s'; fin.
    apply memo_sound_expr; auto. intros _. rewrite Efx2, fr_EBin, <- Hrl, Bf, Bs, <- Hrr. exact Bc.
  - (* AConst *)
    intros c Hp Hn s r s' Hs H. rewrite eval_atom_unfold in H; unfold eval_atom_miss in H.
    destruct (lookup_atom (es_matom s) (AConst c)) as [v|] eqn:L.
    { inversion H; subst r s'. fin. eapply memo_hit_atom; eauto. }
    inversion H; subst r s'. rewrite fr_AConst. fin. apply memo_sound_atom; simpl; auto.
  - (* AVar *)
    intros x IHx Hp Hn s r s' Hs H. rewrite eval_atom_unfold in H; unfold eval_atom_miss in H.
    pose proof (NA_var _ Hn) as Hnx.
    destruct (lookup_atom (es_matom s) (AVar x)) as [v|] eqn:L.
    { inversion H; subst r s'. fin. eapply memo_hit_atom; eauto. }
    destruct (eval_var x s) as [rx s1] eqn:Ex. simpl in Hp.
    destruct (IHx Hp Hnx s rx s1 Hs Ex) as (Hr & Hf & Hs1). rewrite fr_AVar.
    destruct rx as [v| |]; inversion H; subst r s'; fin.
    apply memo_sound_atom; simpl; auto. intros _. destruct Hf as [Hf _]. rewrite Hf, fr_AVar. auto.
  - (* AFunc *)
    intros f args IHargs Hp Hn s r s' Hs H. rewrite eval_atom_unfold in H; unfold eval_atom_miss in H.
    pose proof (NA_func _ _ Hn) as Hnl.
    simpl in Hp. apply andb_prop in Hp. destruct Hp as [Hnc Hpa].
    destruct (lookup_atom (es_matom s) (AFunc f args)) as [v|] eqn:L.
    { inversion H; subst r s'. fin. eapply memo_hit_atom; eauto. simpl. rewrite Hnc, Hpa. reflexivity. }
    destruct (eval_args args s) as [ra s1] eqn:Ea.
    destruct (IHargs Hpa Hnl s ra s1 Hs Ea) as (Hr & Hf & Hs1).
    assert (Efx1: es_facts s1 = es_facts s) by apply Hf.
    rewrite fr_AFunc, <- Hr. apply negb_true_iff in Hnc. rewrite Hnc.
    destruct ra as [vs| |]; try (inversion H; subst r s'; fin; fail).
    (* f is not a control built-in: only the value branch remains *)
    assert (Hk: defunc_kind f = DOther) by (unfold control_builtin in Hnc; destruct (defunc_kind f); auto; discriminate).
    rewrite Hk in H.
    assert (Hgen: (defunc_value (es_facts s1) f vs, s1) = (r, s')) by exact H.
    rewrite Efx1 in Hgen. inversion Hgen; subst r s'. fin.
  - (* AMethod *)
    intros a IHa f args IHargs Hp Hn s r s' Hs H. rewrite eval_atom_unfold in H; unfold eval_atom_miss in H.
    destruct (NA_method _ _ _ Hn) as [Hna Hnl].
    simpl in Hp. apply andb_prop in Hp. destruct Hp as [Hp Hpargs]. apply andb_prop in Hp. destruct Hp as [Hnm Hpa].
    destruct (lookup_atom (es_matom s) (AMethod a f args)) as [v|] eqn:L.
    { inversion H; subst r s'. fin. eapply memo_hit_atom; eauto. simpl. rewrite Hnm, Hpa, Hpargs. reflexivity. }
    apply negb_true_iff in Hnm.
    destruct (eval_atom a s) as [ra s1] eqn:Ea.
    destruct (IHa Hpa Hna s ra s1 Hs Ea) as (Hr & Hf & Hs1).
    assert (Efx1: es_facts s1 = es_facts s) by apply Hf.
    rewrite fr_AMethod, <- Hr.
    destruct ra as [recv| |]; try (inversion H; subst r s'; fin; fail).
    destruct (eval_args args s1) as [rargs s2] eqn:Eargs.
    destruct (IHargs Hpargs Hnl s1 rargs s2 Hs1 Eargs) as (Hr2 & Hf2 & Hs2).
    assert (Efx2: es_facts s2 = es_facts s) by (destruct Hf2 as [A _]; congruence).
    rewrite Efx1 in Hr2. rewrite <- Hr2.
    assert (Hf02: frame s s2) by (eapply frame_trans; eauto).
    destruct rargs as [vs| |]; try (inversion H; subst r s'; fin; fail).
    assert (Emap: map (arg_val s2) vs = map (scalar_of (es_facts s)) vs)
      by (apply map_ext; intros; unfold arg_val; rewrite Efx2; reflexivity).
    rewrite Emap in H.
    destruct (call_receiver meth panics_inside s2 recv f (map (scalar_of (es_facts s)) vs)) as [rc s3] eqn:Ec.
    destruct (call_receiver_pure _ _ _ _ _ _ Hnm Hs2 Ec) as (Hrc & Hf3 & Hs3).
    rewrite Efx2 in Hrc. rewrite <- Hrc.
    assert (Hf03: frame s s3) by (eapply frame_trans; eauto).
    assert (Efx3: es_facts s3 = es_facts s) by apply Hf03.
    destruct rc as [v| |]; inversion H; subst r s'; fin.
    apply memo_sound_atom; simpl; auto. intros _.
    rewrite Efx3, fr_AMethod, <- Hr, <- Hr2. auto.
  - (* AMember *)
    intros a IHa n Hp Hn s r s' Hs H. rewrite eval_atom_unfold in H; unfold eval_atom_miss in H. simpl in Hp.
    pose proof (NA_member _ _ Hn) as Hna.
    destruct (lookup_atom (es_matom s) (AMember a n)) as [v|] eqn:L.
    { inversion H; subst r s'. fin. eapply memo_hit_atom; eauto. }
    destruct (eval_atom a s) as [ra s1] eqn:Ea.
    destruct (IHa Hp Hna s ra s1 Hs Ea) as (Hr & Hf & Hs1).
    assert (Efx1: es_facts s1 = es_facts s) by apply Hf.
    rewrite fr_AMember, <- Hr.
    destruct ra as [recv| |]; try (inversion H; subst r s'; fin; fail).
    unfold child_field in H. rewrite Efx1 in H.
    destruct (child_field_f (es_facts s) recv n) as [v| |] eqn:Ec; inversion H; subst r s'; fin.
    apply memo_sound_atom; simpl; auto. intros _. rewrite Efx1, fr_AMember, <- Hr. exact Ec.
  - (* ASel *)
    intros a IHa sel IHsel Hp Hn s r s' Hs H. rewrite eval_atom_unfold in H; unfold eval_atom_miss in H.
    destruct (NA_sel _ _ Hn) as [Hna Hne].
    simpl in Hp. apply andb_prop in Hp. destruct Hp as [Hpa Hps].
    destruct (lookup_atom (es_matom s) (ASel a sel)) as [v|] eqn:L.
    { inversion H; subst r s'. fin. eapply memo_hit_atom; eauto. simpl. rewrite Hpa, Hps. reflexivity. }
    destruct (eval_atom a s) as [ra s1] eqn:Ea.
    destruct (IHa Hpa Hna s ra s1 Hs Ea) as (Hr & Hf & Hs1).
    assert (Efx1: es_facts s1 = es_facts s) by apply Hf.
    rewrite fr_ASel, <- Hr.
    destruct ra as [recv| |]; try (inversion H; subst r s'; fin; fail).
    destruct (eval_expr sel s1) as [rk s2] eqn:Ek.
    destruct (IHsel Hps Hne s1 rk s2 Hs1 Ek) as (Hr2 & Hf2 & Hs2).
    assert (Efx2: es_facts s2 = es_facts s) by (destruct Hf2 as [A _]; congruence).
    rewrite Efx1 in Hr2. rewrite <- Hr2.
    assert (Hf02: frame s s2) by (eapply frame_trans; eauto).
    destruct rk as [k| |]; inversion H; subst r s'; fin.
    unfold child_sel, arg_val. rewrite Efx2. reflexivity.
  - (* ANeg *)
    intros a IHa Hp Hn s r s' Hs H. rewrite eval_atom_unfold in H; unfold eval_atom_miss in H. simpl in Hp.
    pose proof (NA_neg _ Hn) as Hna.
    destruct (lookup_atom (es_matom s) (ANeg a)) as [v|] eqn:L.
    { inversion H; subst r s'. fin. eapply memo_hit_atom; eauto. }
    destruct (eval_atom a s) as [ra s1] eqn:Ea.
    destruct (IHa Hp Hna s ra s1 Hs Ea) as (Hr & Hf & Hs1). rewrite fr_ANeg, <- Hr.
    destruct ra as [v| |]; inversion H; subst r s'; fin.
    apply memo_sound_atom; simpl; auto. intros _. destruct Hf as [Hf _]. rewrite Hf, fr_ANeg, <- Hr. reflexivity.
  - (* VName *)
    intros n Hp Hn s r s' Hs H. rewrite eval_var_unfold in H. rewrite fr_VName.
    destruct (alookup n (es_facts s)); inversion H; subst r s'; fin.
  - (* VMember *)
    intros x IHx n Hp Hn s r s' Hs H. rewrite eval_var_unfold in H. simpl in Hp.
    pose proof (NV_member _ _ Hn) as Hnx.
    destruct (eval_var x s) as [rx s1] eqn:Ex.
    destruct (IHx Hp Hnx s rx s1 Hs Ex) as (Hr & Hf & Hs1).
    assert (Efx1: es_facts s1 = es_facts s) by apply Hf.
    rewrite fr_VMember, <- Hr.
    destruct rx as [v| |]; inversion H; subst r s'; fin.
    unfold child_field. rewrite Efx1. reflexivity.
  - (* VSel *)
    intros x IHx sel IHsel Hp Hn s r s' Hs H. rewrite eval_var_unfold in H.
    destruct (NV_sel _ _ Hn) as [Hnx Hne].
    simpl in Hp. apply andb_prop in Hp. destruct Hp as [Hpx Hps].
    destruct (eval_var x s) as [rx s1] eqn:Ex.
    destruct (IHx Hpx Hnx s rx s1 Hs Ex) as (Hr & Hf & Hs1).
    assert (Efx1: es_facts s1 = es_facts s) by apply Hf.
    rewrite fr_VSel, <- Hr.
    destruct rx as [v| |]; try (inversion H; subst r s'; fin; fail).
    destruct (eval_expr sel s1) as [rk s2] eqn:Ek.
    destruct (IHsel Hps Hne s1 rk s2 Hs1 Ek) as (Hr2 & Hf2 & Hs2).
    assert (Efx2: es_facts s2 = es_facts s) by (destruct Hf2 as [A _]; congruence).
    rewrite Efx1 in Hr2. rewrite <- Hr2.
    assert (Hf02: frame s s2) by (eapply frame_trans; eauto).
    destruct rk as [k| |]; inversion H; subst r s'; fin.
    unfold child_sel, arg_val. rewrite Efx2. reflexivity.
  - (* ENil *)
    intros _ _ s r s' Hs H. rewrite eval_args_unfold in H. inversion H; subst r s'. fin.
  - (* ECons *)
    intros e IHe l IHl Hp Hn s r s' Hs H. rewrite eval_args_unfold in H.
    destruct (NL_cons _ _ Hn) as [Hne Hnl].
    simpl in Hp. apply andb_prop in Hp. destruct Hp as [Hpe Hpl].
    destruct (eval_expr e s) as [re s1] eqn:Ee.
    destruct (IHe Hpe Hne s re s1 Hs Ee) as (Hr & Hf & Hs1).
    assert (Efx1: es_facts s1 = es_facts s) by apply Hf.
    rewrite fr_ECons, <- Hr.
    destruct re as [v| |]; try (inversion H; subst r s'; fin; fail).
    destruct (eval_args l s1) as [rl s2] eqn:El.
    destruct (IHl Hpl Hnl s1 rl s2 Hs1 El) as (Hr2 & Hf2 & Hs2).
    rewrite Efx1 in Hr2. rewrite <- Hr2.
    assert (Hf02: frame s s2) by (eapply frame_trans; eauto).
    destruct rl as [vs| |]; inversion H; subst r s'; fin.
Qed.


(* ------------------------------------------------------------------ *)
(* actions                                                             *)
Notation fresh_target := (fresh_target meth).
Notation spec_stmt := (spec_stmt meth).
Notation spec_stmts := (spec_stmts meth).
Notation exec_stmt := (exec_stmt allvars meth panics_inside).
Notation exec_stmts := (exec_stmts allvars meth panics_inside).
Notation assign_target := (assign_target allvars meth panics_inside).
Notation assign_var := (assign_var allvars meth panics_inside).

(* forgetting remembered values never hurts *)
Lemma memo_sound_filter : forall s (fe : expr * rval -> bool) (fa : atom * rval -> bool),
  memo_sound s ->
  memo_sound {| es_facts := es_facts s; es_mexpr := filter fe (es_mexpr s); es_matom := filter fa (es_matom s);
                es_calls := es_calls s; es_fx := es_fx s |}.
Proof.
  intros s fe fa (He & Ha & Hk). split; [|split]; simpl.
  - intros e v Hin. apply filter_In in Hin. destruct Hin. auto.
  - intros a v Hin. apply filter_In in Hin. destruct Hin. auto.
  - intros a v Hin. apply filter_In in Hin. destruct Hin. eauto.
Qed.

Lemma reset_name_sound : forall s n, memo_sound s -> memo_sound (reset_name allvars s n).
Proof.
  intros s n H. unfold reset_name. destruct (find _ allvars).
  - unfold reset_variable. apply memo_sound_filter; auto.
  - apply memo_sound_filter; auto.
Qed.

(* the dependency hypothesis for one write: every node of the knowledge base that survives the reset - its snapshot
   contains the snapshot of none of the reset variables - keeps its from-scratch value *)
Definition survives_e (xs : list var) (e : expr) : Prop := forall v, In v xs -> containsb (expr_snapshot e) (var_snapshot v) = false.
Definition survives_a (xs : list var) (a : atom) : Prop := forall v, In v xs -> containsb (atom_snapshot a) (var_snapshot v) = false.
Definition write_ok (xs : list var) (fx fx' : facts) : Prop :=
  (forall e, NE e -> pure_expr e = true -> survives_e xs e -> fresh_expr fx' e = fresh_expr fx e) /\
  (forall a, NA a -> pure_atom a = true -> survives_a xs a -> fresh_atom fx' a = fresh_atom fx a).

Lemma reset_variables_facts : forall xs s, es_facts (reset_variables s xs) = es_facts s.
Proof. induction xs as [|x xs IH]; intros s; simpl; auto. unfold reset_variables in *. simpl. rewrite IH. reflexivity. Qed.
Lemma reset_variables_fx : forall xs s, es_fx (reset_variables s xs) = es_fx s.
Proof. induction xs as [|x xs IH]; intros s; simpl; auto. unfold reset_variables in *. simpl. rewrite IH. reflexivity. Qed.
Lemma reset_variables_mexpr : forall xs s e v, In (e, v) (es_mexpr (reset_variables s xs)) ->
  In (e, v) (es_mexpr s) /\ survives_e xs e.
Proof.
  induction xs as [|x xs IH]; intros s e v H; unfold reset_variables in *; simpl in *.
  - split; [exact H|]. intros w [].
  - apply IH in H. destruct H as [H1 H2]. simpl in H1. apply filter_In in H1. destruct H1 as [H1 Hx]. simpl in Hx.
    split; [exact H1|]. intros w [<-|Hw]; [apply negb_true_iff in Hx; exact Hx|apply H2; exact Hw].
Qed.
Lemma reset_variables_matom : forall xs s a v, In (a, v) (es_matom (reset_variables s xs)) ->
  In (a, v) (es_matom s) /\ survives_a xs a.
Proof.
  induction xs as [|x xs IH]; intros s a v H; unfold reset_variables in *; simpl in *.
  - split; [exact H|]. intros w [].
  - apply IH in H. destruct H as [H1 H2]. simpl in H1. apply filter_In in H1. destruct H1 as [H1 Hx]. simpl in Hx.
    split; [exact H1|]. intros w [<-|Hw]; [apply negb_true_iff in Hx; exact Hx|apply H2; exact Hw].
Qed.

Lemma reset_variables_sound : forall s xs fx',
  memo_sound s -> write_ok xs (es_facts s) fx' -> memo_sound (reset_variables (with_facts s fx') xs).
Proof.
  intros s xs fx' (He & Ha & Hk) [We Wa]. split; [|split]; rewrite ?reset_variables_facts; simpl.
  - intros e v Hin Hp. apply reset_variables_mexpr in Hin. destruct Hin as [Hin Hs]. simpl in Hin.
    destruct (He e v Hin Hp) as [Hn Hf]. split; auto. rewrite We; auto.
  - intros a v Hin Hp. apply reset_variables_matom in Hin. destruct Hin as [Hin Hs]. simpl in Hin.
    destruct (Ha a v Hin Hp) as [Hn Hf]. split; auto. rewrite Wa; auto.
  - intros a v Hin. apply reset_variables_matom in Hin. destruct Hin as [Hin _]. simpl in Hin. eauto.
Qed.

Lemma assign_target_agrees : forall x s r s',
  pure_var x = true -> NV x -> memo_sound s -> assign_target x s = (r, s') ->
  r = fresh_target (es_facts s) x /\ frame s s' /\ memo_sound s'.
Proof.
  destruct eval_agrees as (Aexpr & _ & Avar & _).
  intros x s r s' Hp Hn Hs H. destruct x as [n|x' n|x' sel]; simpl in H; simpl.
  - inversion H; subst. fin.
  - simpl in Hp. pose proof (NV_member _ _ Hn) as Hnx.
    destruct (eval_var x' s) as [rx s1] eqn:Ex.
    destruct (Avar x' Hp Hnx s rx s1 Hs Ex) as (Hr & Hf & Hs1). rewrite <- Hr.
    destruct rx as [[v|p]| |]; inversion H; subst r s'; fin.
  - simpl in Hp. apply andb_prop in Hp. destruct Hp as [Hpx Hps]. destruct (NV_sel _ _ Hn) as [Hnx Hne].
    destruct (eval_var x' s) as [rx s1] eqn:Ex.
    destruct (Avar x' Hpx Hnx s rx s1 Hs Ex) as (Hr & Hf & Hs1). rewrite <- Hr.
    assert (Efx1: es_facts s1 = es_facts s) by apply Hf.
    destruct rx as [rv| |]; try (inversion H; subst r s'; fin; fail).
    destruct (eval_expr sel s1) as [rk s2] eqn:Ek.
    destruct (Aexpr sel Hps Hne s1 rk s2 Hs1 Ek) as (Hr2 & Hf2 & Hs2).
    assert (Efx2: es_facts s2 = es_facts s) by (destruct Hf2 as [A _]; congruence).
    rewrite Efx1 in Hr2. rewrite <- Hr2.
    assert (Hf02: frame s s2) by (eapply frame_trans; eauto).
    destruct rk as [k| |]; try (inversion H; subst r s'; fin; fail).
    destruct rv as [v|p]; inversion H; subst r s'; fin.
    unfold arg_val. rewrite Efx2. reflexivity.
Qed.

(* dependency hypothesis of the knowledge base: every successful assignment respects the reads of the surviving nodes *)
Hypothesis writes_respect_reads : forall x fx t nv fx',
  NV x -> pure_var x = true -> fresh_target fx x = Ok t -> write_target fx t nv = Ok fx' -> write_ok (reset_set allvars x) fx fx'.

Lemma assign_var_sim : forall x nv s r s',
  pure_var x = true -> NV x -> memo_sound s -> assign_var x nv s = (r, s') ->
  memo_sound s' /\ es_fx s' = es_fx s /\
  match fresh_target (es_facts s) x with
  | Ok t => match write_target (es_facts s) t nv with
            | Ok fx' => r = Ok tt /\ es_facts s' = fx'
            | _ => r <> Ok tt /\ es_facts s' = es_facts s
            end
  | _ => r <> Ok tt /\ es_facts s' = es_facts s
  end.
Proof.
  intros x nv s r s' Hp Hn Hs H. unfold Eval.assign_var in H.
  destruct (assign_target x s) as [rt s1] eqn:Et.
  destruct (assign_target_agrees x s rt s1 Hp Hn Hs Et) as (Hr & [Hf1 Hf2] & Hs1).
  rewrite <- Hr.
  destruct rt as [t| |].
  - rewrite Hf1 in H.
    destruct (write_target (es_facts s) t nv) as [fx'| |] eqn:Ew; inversion H; subst r s'.
    + unfold reset_assigned. split; [|split; [rewrite reset_variables_fx; simpl; auto|split; [reflexivity|rewrite reset_variables_facts; reflexivity]]].
      apply reset_variables_sound; auto. rewrite Hf1. eapply writes_respect_reads; eauto.
    + split; [assumption|split; [assumption|split; [discriminate|assumption]]].
    + split; [assumption|split; [assumption|split; [discriminate|assumption]]].
  - inversion H; subst r s'. split; [assumption|split; [assumption|split; [discriminate|assumption]]].
  - inversion H; subst r s'. split; [assumption|split; [assumption|split; [discriminate|assumption]]].
Qed.

(* the statements covered: assignments over pure expressions, control built-ins, pure calls *)
Definition stmt_ok (st : stmt) : Prop :=
  match st with
  | SAssign x o e => pure_var x = true /\ NV x /\ pure_expr e = true /\ NE e
  | SAtom (AFunc f args) => pure_elist args = true /\ NL args
  | SAtom a => pure_atom a = true /\ NA a
  end.

Ltac dfail := split; [assumption | split; [discriminate | split; congruence]].

Lemma exec_assign_sim : forall x o e s r s',
  pure_var x = true -> NV x -> pure_expr e = true -> NE e -> memo_sound s ->
  exec_stmt (SAssign x o e) s = (r, s') ->
  memo_sound s' /\
  match spec_stmt (es_facts s) (SAssign x o e) with
  | SOk fx' fxs => r = Ok tt /\ es_facts s' = fx' /\ es_fx s' = (es_fx s ++ fxs)%list
  | SFail => r <> Ok tt /\ es_facts s' = es_facts s /\ es_fx s' = es_fx s
  end.
Proof.
  destruct eval_agrees as (Aexpr & Aatom & Avar & Aargs).
  intros x o e s r s' Hpx Hnx Hpe Hne Hs H.
  unfold Eval.exec_stmt in H. unfold Fresh.spec_stmt.
  destruct (eval_expr e s) as [re s1] eqn:Ee.
  destruct (Aexpr e Hpe Hne s re s1 Hs Ee) as (Hr & [Hf1 Hf1'] & Hs1). rewrite <- Hr.
  destruct re as [rv| |]; [| inversion H; subst r s'; dfail | inversion H; subst r s'; dfail].
  unfold arg_val in H. rewrite Hf1 in H.
  destruct (asg_op o) as [f|] eqn:Eo.
  - destruct (eval_var x s1) as [rc s2] eqn:Ev.
    destruct (Avar x Hpx Hnx s1 rc s2 Hs1 Ev) as (Hr2 & [Hf2 Hf2'] & Hs2).
    rewrite Hf1 in Hr2. rewrite <- Hr2.
    destruct rc as [cur| |]; [| inversion H; subst r s'; dfail | inversion H; subst r s'; dfail].
    unfold arg_val in H. rewrite Hf2, Hf1 in H.
    destruct (f (scalar_of (es_facts s) cur) (scalar_of (es_facts s) rv)) as [nv| |];
      [| inversion H; subst r s'; dfail | inversion H; subst r s'; dfail].
    destruct (assign_var_sim x nv s2 r s' Hpx Hnx Hs2 H) as (Hs' & Hfx & Hres).
    rewrite Hf2, Hf1 in Hres. split; [assumption|].
    destruct (fresh_target (es_facts s) x) as [t| |].
    + destruct (write_target (es_facts s) t nv); destruct Hres as [A B].
      * split; [assumption|split; [assumption|rewrite app_nil_r; congruence]].
      * split; [assumption|split; congruence].
      * split; [assumption|split; congruence].
    + destruct Hres as [A B]. split; [assumption|split; congruence].
    + destruct Hres as [A B]. split; [assumption|split; congruence].
  - destruct (assign_var_sim x (scalar_of (es_facts s) rv) s1 r s' Hpx Hnx Hs1 H) as (Hs' & Hfx & Hres).
    rewrite Hf1 in Hres. split; [assumption|].
    destruct (fresh_target (es_facts s) x) as [t| |].
    + destruct (write_target (es_facts s) t (scalar_of (es_facts s) rv)); destruct Hres as [A B].
      * split; [assumption|split; [assumption|rewrite app_nil_r; congruence]].
      * split; [assumption|split; congruence].
      * split; [assumption|split; congruence].
    + destruct Hres as [A B]. split; [assumption|split; congruence].
    + destruct Hres as [A B]. split; [assumption|split; congruence].
Qed.

Lemma exec_pure_atom_sim : forall a s r s',
  not_func a -> pure_atom a = true -> NA a -> memo_sound s ->
  exec_stmt (SAtom a) s = (r, s') ->
  memo_sound s' /\
  match (match fresh_atom (es_facts s) a with Ok _ => SOk (es_facts s) [] | _ => SFail end) with
  | SOk fx' fxs => r = Ok tt /\ es_facts s' = fx' /\ es_fx s' = (es_fx s ++ fxs)%list
  | SFail => r <> Ok tt /\ es_facts s' = es_facts s /\ es_fx s' = es_fx s
  end.
Proof.
  destruct eval_agrees as (_ & Aatom & _ & _).
  intros a s r s' Hnf Hpa Hna Hs H. unfold Eval.exec_stmt in H.
  destruct (eval_atom a s) as [ra s1] eqn:Ea.
  destruct (Aatom a Hpa Hna s ra s1 Hs Ea) as (Hr & [Hf1 Hf1'] & Hs1). rewrite <- Hr.
  destruct ra as [v| |]; inversion H; subst r s'.
  - split; [assumption|split; [reflexivity|split; [assumption|rewrite app_nil_r; assumption]]].
  - dfail.
  - dfail.
Qed.

Lemma eval_func_sim : forall f args s ra sa,
  pure_elist args = true -> NL args -> memo_sound s ->
  eval_atom (AFunc f args) s = (ra, sa) ->
  memo_sound sa /\
  match spec_stmt (es_facts s) (SAtom (AFunc f args)) with
  | SOk fx' fxs => (exists v, ra = Ok v) /\ es_facts sa = fx' /\ es_fx sa = (es_fx s ++ fxs)%list
  | SFail => (forall v, ra <> Ok v) /\ es_facts sa = es_facts s /\ es_fx sa = es_fx s
  end.
Proof.
  destruct eval_agrees as (_ & _ & _ & Aargs).
  intros f args s r s' Hpa Hnl Hs H. unfold Fresh.spec_stmt.
  rewrite eval_atom_unfold in H.
  destruct (lookup_atom (es_matom s) (AFunc f args)) as [v|] eqn:L.
  { exfalso. destruct Hs as (_ & _ & Hk). apply lookup_atom_in in L. apply (Hk _ _ L). }
  unfold eval_atom_miss in H.
  destruct (eval_args args s) as [ra s1] eqn:Ea.
  destruct (Aargs args Hpa Hnl s ra s1 Hs Ea) as (Hr & [Hf1 Hf1'] & Hs1). rewrite <- Hr.
  assert (FAIL: forall (rr : res rval) sx, memo_sound sx -> es_facts sx = es_facts s -> es_fx sx = es_fx s -> (forall v, rr <> Ok v) ->
                memo_sound sx /\ ((forall v, rr <> Ok v) /\ es_facts sx = es_facts s /\ es_fx sx = es_fx s)) by (intros; auto).
  destruct ra as [vs| |];
    [| inversion H; subst r s'; apply FAIL; auto; intros; discriminate
     | inversion H; subst r s'; apply FAIL; auto; intros; discriminate].
  replace (map (arg_val s1) vs) with (map (scalar_of (es_facts s)) vs) in H
    by (apply map_ext; intros; unfold arg_val; rewrite Hf1; reflexivity).
  rewrite Hf1 in H.
  generalize dependent (map (scalar_of (es_facts s)) vs). intros vals H.
  destruct (defunc_kind f) eqn:Ek.
  - (* Retract *)
    destruct vals as [|v0 vt]; [inversion H; subst r s'; apply FAIL; auto; intros; discriminate|].
    destruct v0; try (inversion H; subst r s'; apply FAIL; auto; intros; discriminate).
    destruct vt; inversion H; subst r s'; [|apply FAIL; auto; intros; discriminate].
    split; [destruct Hs1 as (A & B & C); split; [|split]; simpl; auto|].
    split; [eauto|split; [assumption|simpl; congruence]].
  - (* Complete *)
    destruct vals as [|v0 vt]; inversion H; subst r s'; [|apply FAIL; auto; intros; discriminate].
    split; [destruct Hs1 as (A & B & C); split; [|split]; simpl; auto|].
    split; [eauto|split; [assumption|simpl; congruence]].
  - (* Forget / Changed *)
    destruct vals as [|v0 vt]; [inversion H; subst r s'; apply FAIL; auto; intros; discriminate|].
    destruct v0; try (inversion H; subst r s'; apply FAIL; auto; intros; discriminate).
    destruct vt; inversion H; subst r s'; [|apply FAIL; auto; intros; discriminate].
    split; [apply reset_name_sound; assumption|].
    split; [eauto|]. unfold reset_name. destruct (find _ allvars); simpl; rewrite app_nil_r; auto.
  - (* a value-only built-in *)
    inversion H; subst r s'.
    destruct (defunc_value (es_facts s) f vs).
    + split; [assumption|split; [eauto|split; [assumption|rewrite app_nil_r; assumption]]].
    + apply FAIL; auto; intros; discriminate.
    + apply FAIL; auto; intros; discriminate.
Qed.

Lemma exec_func_sim : forall f args s r s',
  pure_elist args = true -> NL args -> memo_sound s ->
  exec_stmt (SAtom (AFunc f args)) s = (r, s') ->
  memo_sound s' /\
  match spec_stmt (es_facts s) (SAtom (AFunc f args)) with
  | SOk fx' fxs => r = Ok tt /\ es_facts s' = fx' /\ es_fx s' = (es_fx s ++ fxs)%list
  | SFail => r <> Ok tt /\ es_facts s' = es_facts s /\ es_fx s' = es_fx s
  end.
Proof.
  intros f args s r s' Hpa Hnl Hs H. unfold Eval.exec_stmt in H.
  destruct (eval_atom (AFunc f args) s) as [ra sa] eqn:Ea.
  destruct (eval_func_sim f args s ra sa Hpa Hnl Hs Ea) as (Hsa & Hm). split.
  - destruct ra; inversion H; subst; assumption.
  - destruct (spec_stmt (es_facts s) (SAtom (AFunc f args))) as [fx' fxs|].
    + destruct Hm as ((v & ->) & A & B). inversion H; subst. auto.
    + destruct Hm as (Hn & A & B). destruct ra as [v| |]; [exfalso; eapply Hn; eauto| |]; inversion H; subst; repeat split; auto; discriminate.
Qed.

Lemma exec_stmt_sim : forall st s r s',
  stmt_ok st -> memo_sound s -> exec_stmt st s = (r, s') ->
  memo_sound s' /\
  match spec_stmt (es_facts s) st with
  | SOk fx' fxs => r = Ok tt /\ es_facts s' = fx' /\ es_fx s' = (es_fx s ++ fxs)%list
  | SFail => r <> Ok tt /\ es_facts s' = es_facts s /\ es_fx s' = es_fx s
  end.
Proof.
  intros st s r s' Hok Hs H. destruct st as [x o e|a].
  - destruct Hok as (A & B & C & D). eapply exec_assign_sim; eauto.
  - destruct a as [c|x|f args|a' f args|a' n|a' sel|a'];
      try (destruct Hok as [A B]; unfold Fresh.spec_stmt;
           match type of H with Eval.exec_stmt _ _ _ (SAtom ?aa) _ = _ => exact (exec_pure_atom_sim aa s r s' I A B Hs H) end).
    destruct Hok as [A B]. eapply exec_func_sim; eauto.
Qed.

(* ThenExpressionList.Execute against its SPEC *)
Lemma exec_stmts_sim : forall l s failed s',
  Forall stmt_ok l -> memo_sound s -> exec_stmts l s = (failed, s') ->
  memo_sound s' /\
  (let '(fx', fxs, failed') := spec_stmts (es_facts s) l (es_fx s) in
   failed = failed' /\ es_facts s' = fx' /\ es_fx s' = fxs).
Proof.
  induction l as [|st l IH]; intros s failed s' Hok Hs H; simpl in *.
  - inversion H; subst. auto.
  - inversion Hok as [|? ? Hst Hl]; subst.
    destruct (exec_stmt st s) as [r s1] eqn:Es.
    destruct (exec_stmt_sim st s r s1 Hst Hs Es) as (Hs1 & Hm).
    destruct (spec_stmt (es_facts s) st) as [fx1 fxs1|].
    + destruct Hm as (-> & Hf & Hx). specialize (IH s1 failed s' Hl Hs1 H).
      rewrite Hf, Hx in IH. exact IH.
    + destruct Hm as (Hn & Hf & Hx). destruct r as [[]| |]; [congruence| |]; inversion H; subst; auto.
Qed.

End Memo.
