(* Site inventory anchor (flags): Retracted is set by RetractRule and cleared by KnowledgeBase.Reset only; Deleted is set by the two RemoveRuleEntry functions only.
   The expected list below is what the hand-written model was written against;
   tools/go2coq regenerates SitesGen.sites_flags from /repo on every run. *)
From Grule Require Import Base SitesGen.
Open Scope string_scope.

Lemma sites_flags_ok : sites_flags = [
  ("ast/KnowledgeLibrary.RemoveRuleEntry", "Deleted=true", 1%nat);
  ("ast/KnowledgeBase.RemoveRuleEntry", "Deleted=true", 1%nat);
  ("ast/KnowledgeBase.RetractRule", "Retracted=true", 1%nat);
  ("ast/KnowledgeBase.Reset", "Retracted=false", 1%nat)].
Proof. reflexivity. Qed.
