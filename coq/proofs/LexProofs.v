(* LexProofs.v — literal round trips and the lexer inverts the token renderer. *)
From Grule Require Import Base Syntax Lexer Parser GrlPrint FloatLit.
Open Scope Z_scope.

(* ------------------------------------------------------------------------ *)
(* 1. string constants: unquote (quote s) = s for every byte string          *)

Lemma unquote_step : forall c rest f,
  unquote_body (S f) (chr 34) (quote_char c rest) =
  match unquote_body f (chr 34) rest with Some r => Some (String c r) | None => None end.
Proof. intros [[] [] [] [] [] [] [] []] rest f; reflexivity. Qed.

Lemma unquote_quote_body_fuel : forall s f, (String.length s < f)%nat ->
  unquote_body f (chr 34) (quote_body s) = Some s.
Proof.
  induction s as [|c s IH]; intros f Hf.
  - destruct f; [inversion Hf|reflexivity].
  - destruct f; [inversion Hf|]. cbn [quote_body]. rewrite unquote_step.
    rewrite IH; [reflexivity|]. cbn [String.length] in Hf. lia.
Qed.

Lemma quote_char_length : forall c k, (String.length k < String.length (quote_char c k))%nat.
Proof.
  intros c k. unfold quote_char.
  repeat match goal with |- context [if ?b then _ else _] => destruct b end; cbn [String.length]; lia.
Qed.

Lemma quote_body_length : forall s, (String.length s <= String.length (quote_body s))%nat.
Proof.
  induction s as [|c s IH]; [reflexivity|]. cbn [quote_body String.length].
  pose proof (quote_char_length c (quote_body s)). lia.
Qed.

Theorem unquote_quote_body : forall s, unquote true (quote_body s) = Some s.
Proof.
  intros. unfold unquote. apply unquote_quote_body_fuel. pose proof (quote_body_length s). lia.
Qed.

(* ------------------------------------------------------------------------ *)
(* 2. generic string facts                                                    *)

Lemma str_app_assoc : forall a b c : string, ((a ++ b) ++ c = a ++ (b ++ c))%string.
Proof. induction a; intros; cbn; [reflexivity|rewrite IHa; reflexivity]. Qed.

Lemma str_app_length : forall a b : string, String.length (a ++ b) = (String.length a + String.length b)%nat.
Proof. induction a; intros; cbn; [reflexivity|rewrite IHa; reflexivity]. Qed.

Lemma span_all : forall p r x rest, str_forall p r = true -> p x = false ->
  span p (r ++ String x rest) = (r, String x rest).
Proof.
  induction r as [|c r IH]; intros x rest Hr Hx; cbn [append span].
  - rewrite Hx. reflexivity.
  - cbn [str_forall] in Hr. apply andb_true_iff in Hr as [Hc Hr]. rewrite Hc, IH by assumption. reflexivity.
Qed.

Lemma str_forall_app : forall p a b, str_forall p (a ++ b) = str_forall p a && str_forall p b.
Proof. induction a; intros; cbn; [reflexivity|rewrite IHa, andb_assoc; reflexivity]. Qed.

(* ------------------------------------------------------------------------ *)
(* 3. decimal integers                                                        *)

Lemma digit_chr : forall d, 0 <= d < 10 ->
  is_digit (chr (48 + d)) = true /\ digit_val (chr (48 + d)) = d /\ is_letter (chr (48 + d)) = false /\
  (code (chr (48 + d)) =? 48) = (d =? 0).
Proof.
  intros d H.
  assert (E : d = 0 \/ d = 1 \/ d = 2 \/ d = 3 \/ d = 4 \/ d = 5 \/ d = 6 \/ d = 7 \/ d = 8 \/ d = 9) by lia.
  repeat destruct E as [E|E]; subst; repeat split; reflexivity.
Qed.

Lemma digits_val_app : forall b dv a x acc, digits_val b dv (a ++ x) acc = digits_val b dv x (digits_val b dv a acc).
Proof. induction a; intros; cbn; [reflexivity|apply IHa]. Qed.

Lemma show_digits_spec : forall fuel z, 0 <= z < 2 ^ Z.of_nat fuel -> (0 < fuel)%nat ->
  exists c ds, show_digits fuel z = String c ds /\ is_digit c = true /\ is_letter c = false /\
    str_forall is_digit ds = true /\
    digits_val 10 digit_val (String c ds) 0 = z /\
    ((code c =? 48) = true -> ds = EmptyString /\ z = 0).
Proof.
  induction fuel as [|f IH]; intros z Hz Hf.
  - lia.
  - cbn [show_digits]. destruct (Z.ltb_spec z 10) as [Hlt|Hge].
    + destruct (digit_chr z ltac:(lia)) as (D1 & D2 & D3 & D4).
      exists (chr (48 + z)), EmptyString. unfold str1.
      split; [reflexivity|]. split; [exact D1|]. split; [exact D3|]. split; [reflexivity|]. split.
      * cbn [digits_val]. rewrite D2. lia.
      * intros H. rewrite D4 in H. apply Z.eqb_eq in H. split; [reflexivity|assumption].
    + assert (Hq : 0 <= z / 10 < 2 ^ Z.of_nat f).
      { split; [apply Z.div_pos; lia|].
        rewrite Nat2Z.inj_succ, Z.pow_succ_r in Hz by lia.
        apply Z.div_lt_upper_bound; lia. }
      assert (Hf' : (0 < f)%nat).
      { destruct f; [|lia]. cbn in Hq. assert (z / 10 >= 1) by (apply Z.le_ge, Z.div_le_lower_bound; lia). lia. }
      destruct (IH (z / 10) Hq Hf') as (c & ds & E & C1 & C2 & C3 & C4 & C5).
      destruct (digit_chr (z mod 10) ltac:(apply Z.mod_pos_bound; lia)) as (D1 & D2 & D3 & D4).
      rewrite E. exists c, (ds ++ str1 (48 + z mod 10))%string. cbn [append].
      split; [reflexivity|]. split; [exact C1|]. split; [exact C2|]. split; [|split].
      * rewrite str_forall_app, C3. unfold str1. cbn [str_forall]. rewrite D1. reflexivity.
      * change (String c (ds ++ str1 (48 + z mod 10)))%string with (String c ds ++ str1 (48 + z mod 10))%string.
        rewrite digits_val_app, C4. unfold str1. cbn [digits_val]. rewrite D2.
        pose proof (Z.div_mod z 10 ltac:(lia)). lia.
      * intros H0. destruct (C5 H0) as [_ Hz0].
        assert (z / 10 >= 1) by (apply Z.le_ge, Z.div_le_lower_bound; lia). lia.
Qed.

Lemma show_dec_spec : forall z, 0 <= z ->
  exists c ds, show_dec z = String c ds /\ is_digit c = true /\ is_letter c = false /\
    str_forall is_digit ds = true /\ dec_val (String c ds) = z /\
    ((code c =? 48) = true -> ds = EmptyString /\ z = 0).
Proof.
  intros z Hz. unfold show_dec, dec_val. apply show_digits_spec; [|lia]. split; [assumption|].
  destruct (Z.eq_dec z 0) as [->|Hnz]; [cbn; lia|].
  rewrite Nat2Z.inj_succ, Z2Nat.id by (apply Z.log2_nonneg).
  apply Z.log2_spec. lia.
Qed.

(* ------------------------------------------------------------------------ *)
(* 4. string bodies                                                           *)

Lemma desc_ok_quote_char : forall c k, desc_ok (quote_char c k) = desc_ok k.
Proof. intros [[] [] [] [] [] [] [] []] k; reflexivity. Qed.

Lemma desc_ok_quote_body : forall s, desc_ok (quote_body s) = true.
Proof. induction s; cbn [quote_body]; [reflexivity|rewrite desc_ok_quote_char; assumption]. Qed.

(* the body scanner of the lexer stops at the closing quote of a well-scanned body *)
Lemma lex_string_body_ok : forall n d x rest, (String.length d <= n)%nat -> desc_ok d = true ->
  code x <> 34 ->
  lex_string_body (chr 34) (d ++ String (chr 34) (String x rest)) = Some (d, String x rest).
Proof.
  induction n as [|n IH]; intros d x rest Hn Hd Hx.
  - destruct d; [|cbn in Hn; lia]. cbn [append lex_string_body].
    change (code (chr 34) =? 92) with false. change (Ascii.eqb (chr 34) (chr 34)) with true. cbn iota.
    destruct (Ascii.eqb_spec x (chr 34)) as [->|_]; [exfalso; apply Hx; reflexivity|reflexivity].
  - destruct d as [|c d].
    + apply (IH EmptyString); [cbn; lia|reflexivity|assumption].
    + cbn [append lex_string_body]. cbn [desc_ok] in Hd. cbn [String.length] in Hn.
      destruct (code c =? 92) eqn:E92.
      * destruct d as [|c2 d2]; [discriminate|]. cbn [append].
        rewrite (IH d2 x rest) by (auto; cbn [String.length] in Hn; lia). reflexivity.
      * destruct (code c =? 34) eqn:E34.
        -- assert (c = chr 34).
           { apply Z.eqb_eq in E34. unfold code in E34. rewrite <- (ascii_N_embedding c).
             replace (N_of_ascii c) with 34%N by lia. reflexivity. }
           subst c. change (Ascii.eqb (chr 34) (chr 34)) with true. cbn iota.
           destruct d as [|c2 d2]; [discriminate|]. cbn [append].
           destruct (code c2 =? 34) eqn:E2; [|discriminate].
           assert (c2 = chr 34).
           { apply Z.eqb_eq in E2. unfold code in E2. rewrite <- (ascii_N_embedding c2).
             replace (N_of_ascii c2) with 34%N by lia. reflexivity. }
           subst c2. change (Ascii.eqb (chr 34) (chr 34)) with true. cbn iota.
           rewrite (IH d2 x rest) by (auto; cbn [String.length] in Hn; lia). reflexivity.
        -- destruct (Ascii.eqb_spec c (chr 34)) as [->|_]; [discriminate|].
           rewrite (IH d x rest) by (auto; lia). reflexivity.
Qed.

(* ------------------------------------------------------------------------ *)
(* 4b. float constants: printed as exact hexadecimal float literals           *)

Lemma hexd_spec : forall d, 0 <= d < 16 -> is_hexdigit (hexd d) = true /\ hex_val (hexd d) = d.
Proof.
  intros d H.
  assert (E : d = 0 \/ d = 1 \/ d = 2 \/ d = 3 \/ d = 4 \/ d = 5 \/ d = 6 \/ d = 7 \/ d = 8 \/ d = 9 \/
              d = 10 \/ d = 11 \/ d = 12 \/ d = 13 \/ d = 14 \/ d = 15) by lia.
  repeat destruct E as [E|E]; subst; split; reflexivity.
Qed.

Lemma show_hex_digits_spec : forall fuel z, 0 <= z < 2 ^ Z.of_nat fuel -> (0 < fuel)%nat ->
  exists c ds, show_hex_digits fuel z = String c ds /\ str_forall is_hexdigit (String c ds) = true /\
    digits_val 16 hex_val (String c ds) 0 = z.
Proof.
  induction fuel as [|f IH]; intros z Hz Hf; [lia|].
  cbn [show_hex_digits]. destruct (Z.ltb_spec z 16) as [Hlt|Hge].
  - destruct (hexd_spec z ltac:(lia)) as [D1 D2]. exists (hexd z), EmptyString.
    split; [reflexivity|]. split; [cbn [str_forall]; rewrite D1; reflexivity|]. cbn [digits_val]. lia.
  - assert (Hq : 0 <= z / 16 < 2 ^ Z.of_nat f).
    { split; [apply Z.div_pos; lia|]. rewrite Nat2Z.inj_succ, Z.pow_succ_r in Hz by lia.
      apply Z.div_lt_upper_bound; lia. }
    assert (Hf' : (0 < f)%nat).
    { destruct f; [|lia]. cbn in Hq. assert (z / 16 >= 1) by (apply Z.le_ge, Z.div_le_lower_bound; lia). lia. }
    destruct (IH (z / 16) Hq Hf') as (c & ds & E & C1 & C2).
    destruct (hexd_spec (z mod 16) ltac:(apply Z.mod_pos_bound; lia)) as [D1 D2].
    rewrite E. exists c, (ds ++ String (hexd (z mod 16)) EmptyString)%string. cbn [append].
    split; [reflexivity|]. split.
    + change (String c (ds ++ String (hexd (z mod 16)) EmptyString))%string
        with (String c ds ++ String (hexd (z mod 16)) EmptyString)%string.
      rewrite str_forall_app, C1. cbn [str_forall]. rewrite D1. reflexivity.
    + change (String c (ds ++ String (hexd (z mod 16)) EmptyString))%string
        with (String c ds ++ String (hexd (z mod 16)) EmptyString)%string.
      rewrite digits_val_app, C2. cbn [digits_val]. rewrite D2.
      pose proof (Z.div_mod z 16 ltac:(lia)). lia.
Qed.

Lemma show_hex_spec : forall z, 0 <= z ->
  exists c ds, show_hex z = String c ds /\ str_forall is_hexdigit (String c ds) = true /\
    hex_str_val (String c ds) = z.
Proof.
  intros z Hz. unfold show_hex, hex_str_val. apply show_hex_digits_spec; [|lia]. split; [assumption|].
  destruct (Z.eq_dec z 0) as [->|Hnz]; [cbn; lia|].
  rewrite Nat2Z.inj_succ, Z2Nat.id by (apply Z.log2_nonneg). apply Z.log2_spec. lia.
Qed.

Lemma digit_not_sign : forall c, is_digit c = true -> is_sign c = false.
Proof.
  intros c H. unfold is_digit, is_sign in *. apply andb_true_iff in H as [A B]. apply Z.leb_le in A, B.
  destruct (Z.eqb_spec (code c) 43); [lia|]. destruct (Z.eqb_spec (code c) 45); [lia|]. reflexivity.
Qed.

Lemma lex_exponent_signed : forall ex x rest, is_digit x = false ->
  lex_exponent (show_signed ex ++ String x rest) = Some (ex, String x rest).
Proof.
  intros ex x rest Hx. unfold show_signed. destruct (Z.ltb_spec ex 0).
  - destruct (show_dec_spec (- ex) ltac:(lia)) as (c & ds & E & C1 & C2 & C3 & C4 & _).
    cbn [append lex_exponent]. change (is_sign (chr 45)) with true. cbn iota. rewrite E.
    change (String c ds ++ String x rest)%string with (String c (ds ++ String x rest))%string.
    cbn [span]. rewrite C1, (span_all is_digit ds x rest C3 Hx).
    change (code (chr 45) =? 45) with true. cbn iota. rewrite C4. f_equal. f_equal. lia.
  - destruct (show_dec_spec ex ltac:(lia)) as (c & ds & E & C1 & C2 & C3 & C4 & _).
    rewrite E. cbn [append lex_exponent]. rewrite (digit_not_sign c C1).
    cbn [span]. rewrite C1, (span_all is_digit ds x rest C3 Hx). rewrite C4. reflexivity.
Qed.

Definition float_ok (b : Z) : bool := (0 <=? b) && (b <? 2047 * p52).

Lemma float_fields : forall b, float_ok b = true ->
  let e := b / p52 in let f := b mod p52 in
  0 <= e <= 2046 /\ 0 <= f < p52 /\ b = e * p52 + f.
Proof.
  intros b H. unfold float_ok in H. apply andb_true_iff in H as [A B]. apply Z.leb_le in A. apply Z.ltb_lt in B.
  cbv zeta. assert (Hp : 0 < p52) by reflexivity.
  pose proof (Z.div_mod b p52 ltac:(lia)) as Hdm. pose proof (Z.mod_pos_bound b p52 Hp) as Hmb.
  assert (H1 : 0 <= b / p52) by (apply Z.div_pos; lia).
  assert (H2 : b / p52 < 2047) by (apply Z.div_lt_upper_bound; lia).
  split; [lia|]. split; [lia|]. rewrite Z.mul_comm. exact Hdm.
Qed.

Lemma hex_float_exact : forall b, float_ok b = true ->
  let e := b / p52 in let f := b mod p52 in
  let m := if e =? 0 then f else p52 + f in
  let ex := if e =? 0 then -1074 else e - 1075 in
  forall mant, hex_str_val mant = m -> (0 < String.length mant)%nat -> hex_float_bits mant 0 ex = Some b.
Proof.
  intros b H. destruct (float_fields b H) as (He & Hf & Hb). cbv zeta in *.
  intros mant Hm Hlen. unfold hex_float_bits. rewrite Hm. rewrite Z.mul_0_r, Z.sub_0_r.
  set (e := b / p52) in *. set (f := b mod p52) in *.
  assert (Hp : p52 = 2 ^ 52) by reflexivity.
  destruct (Z.eqb_spec e 0) as [E0|E0].
  - (* subnormal or zero *)
    destruct (Z.eqb_spec f 0) as [F0|F0]; [f_equal; lia|].
    change (1100 <? -1074) with false. cbn iota.
    assert (Hl : (-1074 + 4 * strlenZ mant <? -1100) = false).
    { apply Z.ltb_ge. unfold strlenZ. lia. }
    rewrite Hl. change (0 <=? -1074) with false. cbn iota.
    assert (H53 : 2 ^ 52 < 2 ^ 53) by reflexivity.
    assert (A1 : 0 < f < 2 ^ 53) by (rewrite Hp in *; lia).
    pose proof (ratio_exact f (-1074) A1 ltac:(lia) (or_intror eq_refl)) as R.
    change (0 <=? -1074) with false in R. cbn iota in R. rewrite R. f_equal. lia.
  - destruct (Z.eqb_spec (p52 + f) 0); [lia|].
    destruct (Z.ltb_spec 1100 (e - 1075)); [lia|].
    assert (Hl : (e - 1075 + 4 * strlenZ mant <? -1100) = false).
    { apply Z.ltb_ge. unfold strlenZ. lia. }
    rewrite Hl.
    assert (H53 : 2 ^ 53 = 2 * 2 ^ 52) by reflexivity.
    assert (A1 : 0 < p52 + f < 2 ^ 53) by (rewrite Hp in *; lia).
    assert (A2 : 2 ^ 52 <= p52 + f) by (rewrite Hp in *; lia).
    pose proof (ratio_exact (p52 + f) (e - 1075) A1 ltac:(lia) (or_introl A2)) as R.
    rewrite R. f_equal. lia.
Qed.

(* the lexer on the text of a float token followed by a non-digit *)
Lemma lex_one_float : forall b x, float_ok b = true -> is_digit x = false ->
  exists s, float_text b = String (chr 48) s /\
    forall rest, lex_one (chr 48) (s ++ String x rest) = Some (Some (TFloat (Some b)), String x rest).
Proof.
  intros b x Hb Hx. unfold float_text. cbv zeta.
  set (e := b / p52). set (f := b mod p52).
  set (m := if e =? 0 then f else p52 + f). set (ex := if e =? 0 then -1074 else e - 1075).
  destruct (float_fields b Hb) as (He & Hf & _). cbv zeta in He, Hf. fold e in He. fold f in Hf.
  assert (Hm : 0 <= m) by (unfold m; destruct (e =? 0); unfold p52 in *; lia).
  destruct (show_hex_spec m Hm) as (c & ds & E & C1 & C2).
  eexists. split; [reflexivity|]. intros rest.
  cbn [append]. unfold lex_one.
  change (is_letter (chr 48)) with false. change (is_digit (chr 48)) with true. cbn iota.
  change (code (chr 48) =? 48) with true. change (is_x (chr 120)) with true. cbn iota.
  rewrite E, str_app_assoc. cbn [append].
  unfold lex_hex.
  change (String c (ds ++ String (chr 112) (show_signed ex ++ String x rest)))%string
    with (String c ds ++ String (chr 112) (show_signed ex ++ String x rest))%string.
  rewrite (span_all is_hexdigit (String c ds) (chr 112) _ C1 eq_refl).
  change (code (chr 112) =? 46) with false. cbn iota. change (is_p (chr 112)) with true. cbn iota.
  rewrite (lex_exponent_signed ex x rest Hx).
  pose proof (hex_float_exact b Hb) as HF. cbv zeta in HF. fold e f in HF. fold m ex in HF.
  rewrite (HF (String c ds) C2 ltac:(cbn; lia)). reflexivity.
Qed.

(* ------------------------------------------------------------------------ *)
(* 5. one token followed by a space                                           *)

Definition tok_ok (t : token) : bool :=
  match t with
  | TName s => wf_ident s
  | TStr true raw => desc_ok raw
  | TStr false _ => false
  | TInt z => 0 <=? z
  | TFloat (Some b) => float_ok b
  | TFloat None | TExpo => false
  | _ => true
  end.

Definition sp : ascii := chr 32.

Lemma lex_one_tok : forall t, tok_ok t = true ->
  exists c s, token_text t = String c s /\ is_space c = false /\
    forall rest, lex_one c (s ++ String sp rest) = Some (Some t, String sp rest).
Proof.
  intros t Ht. destruct t; try discriminate;
    try (cbn [token_text]; do 2 eexists; split; [reflexivity|]; split; [reflexivity|]; intros rest; reflexivity).
  - (* identifier *)
    cbn [tok_ok token_text] in *. destruct s as [|c r]; [discriminate|].
    cbn [wf_ident] in Ht. apply andb_true_iff in Ht as [Ht Hk]. apply andb_true_iff in Ht as [Hc Hr].
    exists c, r. split; [reflexivity|]. split.
    { unfold is_letter, is_upper, is_lower, is_space in *. destruct (code c =? 32) eqn:E1; [apply Z.eqb_eq in E1; rewrite E1 in Hc; discriminate|].
      destruct (code c =? 9) eqn:E2; [apply Z.eqb_eq in E2; rewrite E2 in Hc; discriminate|].
      destruct (code c =? 10) eqn:E3; [apply Z.eqb_eq in E3; rewrite E3 in Hc; discriminate|].
      destruct (code c =? 13) eqn:E4; [apply Z.eqb_eq in E4; rewrite E4 in Hc; discriminate|]. reflexivity. }
    intros rest. unfold lex_one. rewrite Hc.
    rewrite (span_all is_ic r sp rest Hr eq_refl).
    assert (Hid : ident_token (String c r) = TName (String c r)).
    { unfold ident_token. destruct (keyword_of (String c r)); [discriminate|reflexivity]. }
    destruct r; [|rewrite Hid; reflexivity].
    change (is_sign sp) with false. rewrite andb_false_r. rewrite Hid. reflexivity.
  - (* string *)
    destruct dq; [|discriminate]. cbn [tok_ok token_text] in *.
    exists (chr 34), (raw ++ str1 34)%string. split; [reflexivity|]. split; [reflexivity|].
    intros rest. unfold str1. rewrite str_app_assoc. cbn [append].
    unfold lex_one. change (is_letter (chr 34)) with false. change (is_digit (chr 34)) with false.
    change (code (chr 34) =? 46) with false. change ((code (chr 34) =? 34) || (code (chr 34) =? 39)) with true.
    cbn iota. rewrite (lex_string_body_ok (String.length raw) raw sp rest (le_n _) Ht) by (cbn; lia).
    reflexivity.
  - (* integer *)
    cbn [tok_ok token_text] in *. apply Z.leb_le in Ht.
    destruct (show_dec_spec z Ht) as (c & ds & E & C1 & C2 & C3 & C4 & C5).
    rewrite E. exists c, ds. split; [reflexivity|]. split.
    { unfold is_digit, is_space in *. apply andb_true_iff in C1 as [A B]. apply Z.leb_le in A, B.
      repeat (match goal with |- context [?a =? ?b] => destruct (Z.eqb_spec a b); [lia|] end). reflexivity. }
    intros rest. unfold lex_one. rewrite C2, C1.
    assert (Hx : (if code c =? 48 then match (ds ++ String sp rest)%string with
                   | String x s1 => if is_x x then lex_hex s1 else None | EmptyString => None end else None) = None).
    { destruct (code c =? 48) eqn:E48; [|reflexivity]. destruct (C5 eq_refl) as [-> _]. reflexivity. }
    rewrite Hx. rewrite (span_all is_digit ds sp rest C3 eq_refl).
    unfold lex_decimal.
    assert (Hplain : (match String c ds with
        | String c0 ds' => if code c0 =? 48 then
            match span is_octdigit ds' with
            | (EmptyString, _) => (TInt 0, (ds' ++ String sp rest)%string)
            | (os, more) => (TInt (oct_val os), (more ++ String sp rest)%string) end
          else (TInt (dec_val (String c ds)), String sp rest)
        | EmptyString => (TInt 0, String sp rest) end) = (TInt z, String sp rest)).
    { destruct (code c =? 48) eqn:E48.
      - destruct (C5 eq_refl) as [-> ->]. reflexivity.
      - rewrite C4. reflexivity. }
    rewrite Hplain.
    assert (Hok : negb (match String c ds with String _ EmptyString => true | String c0 _ => negb (code c0 =? 48) | EmptyString => false end) = false).
    { destruct ds; [reflexivity|]. destruct (code c =? 48) eqn:E48; [|reflexivity].
      destruct (C5 eq_refl) as [? _]; discriminate. }
    rewrite Hok. reflexivity.
  - (* float *)
    destruct bits as [b|]; [|discriminate]. cbn [tok_ok token_text] in *.
    destruct (lex_one_float b sp Ht eq_refl) as (s & E & Hl).
    exists (chr 48), s. split; [exact E|]. split; [reflexivity|]. exact Hl.
Qed.

(* ------------------------------------------------------------------------ *)
(* 6. the lexer inverts the renderer                                          *)

Lemma lex_fuel_render : forall ts f, forallb tok_ok ts = true -> (2 * List.length ts < f)%nat ->
  lex_fuel f (render ts) = Some ts.
Proof.
  induction ts as [|t ts IH]; intros f Hok Hf.
  - destruct f; [lia|reflexivity].
  - cbn [forallb] in Hok. apply andb_true_iff in Hok as [Ht Hts]. cbn [List.length] in Hf.
    destruct f as [|[|f]]; try lia.
    destruct (lex_one_tok t Ht) as (c & s & E & Hsp & Hlex).
    cbn [render]. rewrite E. cbn [append]. cbn [lex_fuel]. rewrite Hsp.
    fold sp. rewrite Hlex. cbn [lex_fuel]. change (is_space sp) with true. cbn iota.
    rewrite IH by (auto; lia). reflexivity.
Qed.

Lemma render_length : forall ts, forallb tok_ok ts = true -> (2 * List.length ts <= String.length (render ts))%nat.
Proof.
  induction ts as [|t ts IH]; intros Hok; [cbn; lia|].
  cbn [forallb] in Hok. apply andb_true_iff in Hok as [Ht Hts].
  destruct (lex_one_tok t Ht) as (c & s & E & _). cbn [render List.length]. rewrite E.
  cbn [append String.length]. rewrite str_app_length. cbn [String.length]. specialize (IH Hts). lia.
Qed.

Theorem lex_render : forall ts, forallb tok_ok ts = true -> lex (render ts) = Some ts.
Proof.
  intros ts Hok. unfold lex. apply lex_fuel_render; [assumption|].
  pose proof (render_length ts Hok). lia.
Qed.

(* ------------------------------------------------------------------------ *)
(* 7. the tokens of well-formed trees are renderable                          *)

Lemma tok_ok_op : forall o, tok_ok (op_token o) = true.
Proof. destruct o; reflexivity. Qed.

Ltac tk :=
  repeat first
    [ assumption
    | reflexivity
    | rewrite tok_ok_op
    | progress cbn [forallb tok_ok andb]
    | match goal with H : ?x = true |- context [?x] => rewrite H end
    | match goal with
      | H : forall k, _ = true -> forallb tok_ok k = true -> forallb tok_ok (?f ?x k) = true
        |- forallb tok_ok (?f ?x _) = true => apply H
      end ].

Lemma toks_ok :
  (forall e k, wf_expr e = true -> forallb tok_ok k = true -> forallb tok_ok (etoks e k) = true) /\
  (forall a k, wf_atom a = true -> forallb tok_ok k = true -> forallb tok_ok (atoks a k) = true) /\
  (forall v k, wf_var v = true -> forallb tok_ok k = true -> forallb tok_ok (vtoks v k) = true) /\
  (forall l k, wf_args l = true -> forallb tok_ok k = true -> forallb tok_ok (ltoks l k) = true).
Proof.
  apply syntax_mutind; intros; cbn [etoks atoks vtoks ltoks] in *;
    cbn [wf_expr wf_atom wf_var wf_args] in *;
    repeat match goal with H : _ && _ = true |- _ => apply andb_true_iff in H as [? ?] end.
  - tk.
  - destruct neg; tk.
  - tk.
  - destruct c; cbn [const_toks wf_const] in *; try discriminate.
    + cbn [forallb tok_ok]. rewrite desc_ok_quote_body. assumption.
    + match goal with H : in_i64 _ = true |- _ => unfold in_i64 in H; apply andb_true_iff in H as [A B] end.
      apply Z.leb_le in A. unfold min_i64 in A.
      destruct (Z.ltb_spec z 0); cbn [forallb tok_ok andb].
      * destruct (Z.leb_spec 0 (- z)); [assumption|lia].
      * destruct (Z.leb_spec 0 z); [assumption|lia].
    + repeat match goal with H : _ && _ = true |- _ => apply andb_true_iff in H as [? ?] end.
      match goal with H : (0 <=? bits) = true |- _ => apply Z.leb_le in H end.
      destruct (Z.ltb_spec bits sign_bit); cbn [forallb tok_ok andb]; unfold float_ok.
      * match goal with H : (bits <? 2047 * p52) = true |- _ => rewrite H end.
        destruct (Z.leb_spec 0 bits); [assumption|lia].
      * match goal with H : (bits - sign_bit <? 2047 * p52) = true |- _ => rewrite H end.
        destruct (Z.leb_spec 0 (bits - sign_bit)); [assumption|lia].
    + destruct b; assumption.
    + assumption.
  - tk.
  - tk.
  - tk.
  - tk.
  - tk.
  - tk.
  - tk.
  - tk.
  - tk.
  - tk.
  - destruct l; tk.
Qed.

Lemma stoks_ok : forall s k, wf_stmt s = true -> forallb tok_ok k = true -> forallb tok_ok (stoks s k) = true.
Proof.
  destruct toks_ok as (He & Ha & Hv & _).
  intros [x o e|a] k Hwf Hk; cbn [stoks wf_stmt] in *.
  - apply andb_true_iff in Hwf as [Wx We]. apply Hv; auto. cbn [forallb].
    rewrite He by auto. destruct o; reflexivity.
  - apply Ha; auto.
Qed.

Lemma sstoks_ok : forall l k, forallb wf_stmt l = true -> forallb tok_ok k = true ->
  forallb tok_ok (sstoks l k) = true.
Proof.
  induction l as [|s l IH]; intros k Hwf Hk; [assumption|]. cbn [sstoks forallb] in *.
  apply andb_true_iff in Hwf as [Ws Wl]. apply stoks_ok; auto.
Qed.

Lemma rtoks_ok : forall r k, wf_rule r = true -> forallb tok_ok k = true -> forallb tok_ok (rtoks r k) = true.
Proof.
  destruct toks_ok as (He & _).
  intros r k Hwf Hk. unfold wf_rule in Hwf. repeat (apply andb_true_iff in Hwf as [Hwf ?]).
  unfold rtoks. cbn [forallb tok_ok]. rewrite desc_ok_quote_body.
  repeat match goal with H : ?x = true |- context [?x] => rewrite H end. cbn [andb].
  match goal with H : in_i32 _ = true |- _ => unfold in_i32 in H; apply andb_true_iff in H as [A B] end.
  apply Z.leb_le in A, B. unfold min_i32, max_i32 in *.
  assert (Hin : forallb tok_ok (TLBrace :: TWhen :: etoks (rwhen r) (TThen :: sstoks (rthen r) (TRBrace :: k))) = true).
  { cbn [forallb tok_ok andb]. apply He; auto. cbn [forallb tok_ok andb]. apply sstoks_ok; auto. }
  unfold sal_toks. destruct (Z.ltb_spec (rsal r) 0); cbn [forallb tok_ok andb].
  - destruct (Z.leb_spec 0 (- rsal r)); [assumption|lia].
  - destruct (Z.leb_spec 0 (rsal r)); [assumption|lia].
Qed.

Lemma rstoks_ok : forall rs, forallb wf_rule rs = true -> forallb tok_ok (rstoks rs) = true.
Proof.
  induction rs as [|r rs IH]; intros Hwf; [reflexivity|]. cbn [rstoks forallb] in *.
  apply andb_true_iff in Hwf as [Wr Wrs]. apply rtoks_ok; auto.
Qed.

(* ------------------------------------------------------------------------ *)
(* 8. arbitrary layout: a token followed by any character that cannot extend it *)

Definition sep_ok (t : token) (x : ascii) : bool :=
  match t with
  | TName _ | TRule | TWhen | TThen | TTrue | TFalse | TNil | TSalience => negb (is_ic x) && negb (is_sign x)
  | TInt _ => negb (is_ic x) && negb (code x =? 46)
  | TStr _ _ => negb (code x =? 34)
  | TFloat _ => negb (is_digit x)
  | TPlus | TMinus | TMul | TAssign | TNot | TGT | TLT => negb (code x =? 61)
  | TDiv => negb (code x =? 61) && negb (code x =? 47) && negb (code x =? 42)
  | TBitAnd => negb (code x =? 38)
  | TBitOr => negb (code x =? 124)
  | TDot => negb (is_digit x)
  | _ => true
  end.

Lemma not_ic : forall x, is_ic x = false -> is_letter x = false /\ is_digit x = false.
Proof.
  intros x H. unfold is_ic in H. apply orb_false_iff in H as [H _]. apply orb_false_iff in H. exact H.
Qed.

Lemma is_e_letter : forall x, is_e x = true -> is_letter x = true.
Proof.
  intros x H. unfold is_e, is_letter, is_upper, is_lower in *.
  apply orb_true_iff in H as [H|H]; apply Z.eqb_eq in H; rewrite H; reflexivity.
Qed.

Lemma is_x_letter : forall x, is_x x = true -> is_letter x = true.
Proof.
  intros x H. unfold is_x, is_letter, is_upper, is_lower in *.
  apply orb_true_iff in H as [H|H]; apply Z.eqb_eq in H; rewrite H; reflexivity.
Qed.

Lemma letter_not_space : forall c, is_letter c = true -> is_space c = false.
Proof.
  intros c Hc. unfold is_letter, is_upper, is_lower, is_space in *.
  destruct (code c =? 32) eqn:E1; [apply Z.eqb_eq in E1; rewrite E1 in Hc; discriminate|].
  destruct (code c =? 9) eqn:E2; [apply Z.eqb_eq in E2; rewrite E2 in Hc; discriminate|].
  destruct (code c =? 10) eqn:E3; [apply Z.eqb_eq in E3; rewrite E3 in Hc; discriminate|].
  destruct (code c =? 13) eqn:E4; [apply Z.eqb_eq in E4; rewrite E4 in Hc; discriminate|]. reflexivity.
Qed.

(* identifiers and keywords *)
Lemma lex_one_ident : forall c r x rest, is_letter c = true -> str_forall is_ic r = true ->
  is_ic x = false -> is_sign x = false ->
  lex_one c (r ++ String x rest) = Some (Some (ident_token (String c r)), String x rest).
Proof.
  intros c r x rest Hc Hr Hx Hs. unfold lex_one. rewrite Hc.
  rewrite (span_all is_ic r x rest Hr Hx).
  destruct r; [|reflexivity]. rewrite Hs, andb_false_r. reflexivity.
Qed.

Lemma lex_one_tok_gen : forall t x, tok_ok t = true -> sep_ok t x = true ->
  exists c s, token_text t = String c s /\ is_space c = false /\
    forall rest, lex_one c (s ++ String x rest) = Some (Some t, String x rest).
Proof.
  intros t x Ht Hx.
  assert (Kw : forall c r, token_text t = String c r -> is_letter c = true -> str_forall is_ic r = true ->
               ident_token (String c r) = t -> sep_ok t x = (negb (is_ic x) && negb (is_sign x)) ->
               exists c s, token_text t = String c s /\ is_space c = false /\
                 forall rest, lex_one c (s ++ String x rest) = Some (Some t, String x rest)).
  { intros c r E Hc Hr Hid Hsep. rewrite Hsep in Hx. apply andb_true_iff in Hx as [H1 H2].
    apply negb_true_iff in H1, H2.
    exists c, r. split; [exact E|]. split; [apply letter_not_space; exact Hc|].
    intros rest. rewrite lex_one_ident by assumption. rewrite Hid. reflexivity. }
  destruct t; try discriminate;
    try (eapply Kw; [reflexivity|reflexivity|reflexivity|reflexivity|reflexivity]);
    try (do 2 eexists; split; [reflexivity|]; split; [reflexivity|]; intros rest; reflexivity);
    try (cbn [sep_ok] in Hx; apply negb_true_iff in Hx; do 2 eexists; split; [reflexivity|];
         split; [reflexivity|]; intros rest; cbn [append]; unfold lex_one; cbn; rewrite Hx; reflexivity).
  - (* identifier *)
    cbn [tok_ok token_text] in *. destruct s as [|c r]; [discriminate|].
    cbn [wf_ident] in Ht. apply andb_true_iff in Ht as [Ht Hk]. apply andb_true_iff in Ht as [Hc Hr].
    apply (Kw c r); auto.
    unfold ident_token. destruct (keyword_of (String c r)); [discriminate|reflexivity].
  - (* string *)
    destruct dq; [|discriminate]. cbn [tok_ok token_text sep_ok] in *. apply negb_true_iff in Hx. apply Z.eqb_neq in Hx.
    exists (chr 34), (raw ++ str1 34)%string. split; [reflexivity|]. split; [reflexivity|].
    intros rest. unfold str1. rewrite str_app_assoc. cbn [append].
    unfold lex_one. change (is_letter (chr 34)) with false. change (is_digit (chr 34)) with false.
    change (code (chr 34) =? 46) with false. change ((code (chr 34) =? 34) || (code (chr 34) =? 39)) with true.
    cbn iota. rewrite (lex_string_body_ok (String.length raw) raw x rest (le_n _) Ht Hx).
    reflexivity.
  - (* integer *)
    cbn [tok_ok token_text sep_ok] in *. apply Z.leb_le in Ht.
    apply andb_true_iff in Hx as [Hic Hdot]. apply negb_true_iff in Hic, Hdot.
    destruct (not_ic x Hic) as [Hxl Hxd].
    assert (Hxe : is_e x = false) by (destruct (is_e x) eqn:E; [rewrite (is_e_letter x E) in Hxl; discriminate|reflexivity]).
    assert (Hxx : is_x x = false) by (destruct (is_x x) eqn:E; [rewrite (is_x_letter x E) in Hxl; discriminate|reflexivity]).
    destruct (show_dec_spec z Ht) as (c & ds & E & C1 & C2 & C3 & C4 & C5).
    rewrite E. exists c, ds. split; [reflexivity|]. split.
    { unfold is_digit, is_space in *. apply andb_true_iff in C1 as [A B]. apply Z.leb_le in A, B.
      repeat (match goal with |- context [?a =? ?b] => destruct (Z.eqb_spec a b); [lia|] end). reflexivity. }
    intros rest. unfold lex_one. rewrite C2, C1.
    assert (Hh : (if code c =? 48 then match (ds ++ String x rest)%string with
                   | String x0 s1 => if is_x x0 then lex_hex s1 else None | EmptyString => None end else None) = None).
    { destruct (code c =? 48) eqn:E48; [|reflexivity]. destruct (C5 eq_refl) as [-> _]. cbn [append]. rewrite Hxx. reflexivity. }
    rewrite Hh. rewrite (span_all is_digit ds x rest C3 Hxd).
    unfold lex_decimal.
    assert (Hplain : (match String c ds with
        | String c0 ds' => if code c0 =? 48 then
            match span is_octdigit ds' with
            | (EmptyString, _) => (TInt 0, (ds' ++ String x rest)%string)
            | (os, more) => (TInt (oct_val os), (more ++ String x rest)%string) end
          else (TInt (dec_val (String c ds)), String x rest)
        | EmptyString => (TInt 0, String x rest) end) = (TInt z, String x rest)).
    { destruct (code c =? 48) eqn:E48.
      - destruct (C5 eq_refl) as [-> ->]. reflexivity.
      - rewrite C4. reflexivity. }
    rewrite Hplain.
    assert (Hok : negb (match String c ds with String _ EmptyString => true | String c0 _ => negb (code c0 =? 48) | EmptyString => false end) = false).
    { destruct ds; [reflexivity|]. destruct (code c =? 48) eqn:E48; [|reflexivity].
      destruct (C5 eq_refl) as [? _]; discriminate. }
    rewrite Hok. cbn iota. rewrite Hdot, Hxe. reflexivity.
  - (* float *)
    destruct bits as [b|]; [|discriminate]. cbn [tok_ok token_text sep_ok] in *. apply negb_true_iff in Hx.
    destruct (lex_one_float b x Ht Hx) as (s & E & Hl).
    exists (chr 48), s. split; [exact E|]. split; [reflexivity|]. exact Hl.
  - (* "/" *)
    cbn [sep_ok] in Hx. apply andb_true_iff in Hx as [Hx H3]. apply andb_true_iff in Hx as [H1 H2].
    apply negb_true_iff in H1, H2, H3. do 2 eexists. split; [reflexivity|]. split; [reflexivity|].
    intros rest. cbn [append]. unfold lex_one. cbn. rewrite H1, H2, H3. reflexivity.
Qed.

(* ------------------------------------------------------------------------ *)
(* 9. composing lexer runs over arbitrary layouts                             *)

(* s lexes to ts, in at most (length s) steps *)
Definition Lx (s : string) (ts : list token) : Prop :=
  exists n, (n <= String.length s)%nat /\ forall f, (n < f)%nat -> lex_fuel f s = Some ts.

Lemma Lx_nil : Lx EmptyString [].
Proof. exists O. split; [cbn; lia|]. intros [|f] Hf; [lia|reflexivity]. Qed.

Lemma Lx_ws : forall x rest ts, is_space x = true -> Lx rest ts -> Lx (String x rest) ts.
Proof.
  intros x rest ts Hx (n & Hn & H). exists (S n). split; [cbn [String.length]; lia|].
  intros [|f] Hf; [lia|]. cbn [lex_fuel]. rewrite Hx. apply H. lia.
Qed.

Lemma Lx_tok : forall t x rest ts, tok_ok t = true -> sep_ok t x = true ->
  Lx (String x rest) ts -> Lx (token_text t ++ String x rest) (t :: ts).
Proof.
  intros t x rest ts Ht Hx (n & Hn & H).
  destruct (lex_one_tok_gen t x Ht Hx) as (c & s & E & Hsp & Hlex).
  exists (S n). split.
  - rewrite E. cbn [append String.length]. rewrite str_app_length. cbn [String.length] in *. lia.
  - intros [|f] Hf; [lia|]. rewrite E. cbn [append lex_fuel]. rewrite Hsp, Hlex, H by lia. reflexivity.
Qed.

Lemma Lx_lex : forall s ts, Lx s ts -> lex s = Some ts.
Proof. intros s ts (n & Hn & H). unfold lex. apply H. lia. Qed.

(* the delimiters the translator puts after a token *)
Definition dl (x : ascii) : bool :=
  let n := code x in (n =? 32) || (n =? 10) || (n =? 41) || (n =? 59) || (n =? 44).

Lemma code_inj : forall x k, code x = k -> x = chr k.
Proof.
  intros x k H. unfold code in H. unfold chr. rewrite <- H, N2Z.id, ascii_N_embedding. reflexivity.
Qed.

Lemma dl_cases : forall x, dl x = true -> x = chr 32 \/ x = chr 10 \/ x = chr 41 \/ x = chr 59 \/ x = chr 44.
Proof.
  intros x H. unfold dl in H. repeat (apply orb_true_iff in H as [H|H]);
    apply Z.eqb_eq in H; apply code_inj in H; auto 10.
Qed.

Lemma sep_ok_dl : forall t x, dl x = true -> sep_ok t x = true.
Proof.
  intros t x H. destruct (dl_cases x H) as [E|[E|[E|[E|E]]]]; subst x; destruct t; reflexivity.
Qed.

Lemma Lx_tok_dl : forall t x rest ts, tok_ok t = true -> dl x = true ->
  Lx (String x rest) ts -> Lx (token_text t ++ String x rest) (t :: ts).
Proof. intros. apply Lx_tok; auto. apply sep_ok_dl. assumption. Qed.

(* tokens each followed by one space (the text of plain GRL snippets) *)
Lemma Lx_render : forall ts0 rest ts, forallb tok_ok ts0 = true -> Lx rest ts ->
  Lx (render ts0 ++ rest) (ts0 ++ ts)%list.
Proof.
  induction ts0 as [|t ts0 IH]; intros rest ts Hok H; [exact H|].
  cbn [forallb] in Hok. apply andb_true_iff in Hok as [Ht Hts].
  cbn [render app]. rewrite str_app_assoc. cbn [append].
  apply Lx_tok_dl; [assumption|reflexivity|]. apply Lx_ws; [reflexivity|]. apply IH; assumption.
Qed.

(* ------------------------------------------------------------------------ *)
(* 10. any white space between the tokens                                     *)

Fixpoint render_with (l : list (token * string)) : string :=
  match l with
  | [] => EmptyString
  | (t, sep) :: l' => (token_text t ++ sep ++ render_with l')%string
  end.

Definition ws_ok (sep : string) : bool :=
  match sep with EmptyString => false | _ => str_forall is_space sep end.

Lemma space_cases : forall x, is_space x = true -> x = chr 32 \/ x = chr 9 \/ x = chr 10 \/ x = chr 13.
Proof.
  intros x H. unfold is_space in H. repeat (apply orb_true_iff in H as [H|H]);
    apply Z.eqb_eq in H; apply code_inj in H; auto.
Qed.

Lemma sep_ok_space : forall t x, is_space x = true -> sep_ok t x = true.
Proof.
  intros t x H. destruct (space_cases x H) as [E|[E|[E|E]]]; subst x; destruct t; reflexivity.
Qed.

Lemma Lx_spaces : forall sep rest ts, str_forall is_space sep = true -> Lx rest ts -> Lx (sep ++ rest) ts.
Proof.
  induction sep as [|c sep IH]; intros rest ts H HL; [exact HL|]. cbn [str_forall] in H.
  apply andb_true_iff in H as [Hc Hs]. cbn [append]. apply Lx_ws; [assumption|]. apply IH; assumption.
Qed.

Theorem lex_render_with : forall l, forallb (fun p => tok_ok (fst p) && ws_ok (snd p)) l = true ->
  lex (render_with l) = Some (map fst l).
Proof.
  intros l H. apply Lx_lex. induction l as [|[t sep] l IH]; [apply Lx_nil|].
  cbn [forallb fst snd] in H. apply andb_true_iff in H as [H Hl]. apply andb_true_iff in H as [Ht Hs].
  cbn [render_with map fst]. destruct sep as [|x sep]; [discriminate|]. cbn [ws_ok str_forall] in Hs.
  apply andb_true_iff in Hs as [Hx Hsep]. cbn [append].
  apply Lx_tok; [assumption|apply sep_ok_space; assumption|].
  apply Lx_ws; [assumption|]. apply Lx_spaces; [assumption|]. apply IH. assumption.
Qed.
