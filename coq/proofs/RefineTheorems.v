(* RefineTheorems.v — C01 and C02 for the engine WITH its working memory:
   the refinement theorem (Refinement.v) transports the state-tracking facts of
   the from-scratch SPEC engine (StateTrack.v) and the protocol facts (C06) to
   the memoising engine. *)
From Coq Require Import Permutation.
From Grule Require Import Base Values Syntax EngineGen EngineAbs Facts Eval Fresh Engine
     EngineProofs EngineTheorems MemoProofs StateTrack Refinement.
Open Scope Z_scope.

Section RT.
Variable rules : list rule.
Variable meth : list (string * fval) -> string -> list val -> res (option val * list (string * fval)).
Variable panics_inside : string -> list val -> bool.
Variable mutating : string -> bool.
Hypothesis meth_pure : forall fs f args ret fs', mutating f = false -> meth fs f args = Ok (ret, fs') -> fs' = fs.
Hypothesis Hrules : rules_ok rules mutating.
Hypothesis Hdep : dependency_hypothesis rules meth mutating.

Variable es : list entry.
Hypothesis keys_nodup : NoDup (map e_key es).
Variable c : config.
Hypothesis max_nonneg : 0 <= c_max c.
Variable order : nat -> list entry -> list entry.
Hypothesis order_perm : forall i l, Permutation (order i l) l.

(* the rule stored under key k, its condition and action list evaluated FROM SCRATCH on facts fx *)
Definition when_from_scratch (fx : facts) (k : string) : cres :=
  match find (fun r => String.eqb (rname r) k) rules with
  | Some r => holds meth fx (rwhen r)
  | None => CErr
  end.
Definition then_from_scratch (fx : facts) (k : string) : facts * list effect * bool :=
  match find (fun r => String.eqb (rname r) k) rules with
  | Some r => spec_stmts meth fx (rthen r) []
  | None => (fx, [], true)
  end.

(* the facts after a history of cycles: only executed action lists move them *)
Definition facts_after (fx0 : facts) (h : list cycle_rec) : facts :=
  fold_left (next_user facts then_from_scratch) h fx0.

Notation impl_execute := (execute estate (rule_cond (vars_rules rules) meth panics_inside rules)
                                  (rule_act (vars_rules rules) meth panics_inside rules) reset_all).
Notation spec_execute := (execute facts (spec_cond meth rules) (spec_act meth rules) (fun f => f)).
Notation track_execute := (execute facts (tcond facts when_from_scratch) (tact facts then_from_scratch) (fun f => f)).

Lemma spec_is_tracked : forall fuel fx,
  let '(s1, r1, o1) := spec_execute fuel c order fx es in
  let '(s2, r2, o2) := track_execute fuel c order fx es in
  s_user s1 = s_user s2 /\ r1 = r2 /\ o1 = o2.
Proof.
  intros fuel fx.
  apply (execute_sim facts facts (spec_cond meth rules) (spec_act meth rules)
           (tcond facts when_from_scratch) (tact facts then_from_scratch) eq).
  - intros u1 u2 e ->. unfold spec_cond, tcond, when_from_scratch. destruct (find _ rules); simpl; auto.
  - intros u1 u2 e ->. unfold spec_act, tact, then_from_scratch. destruct (find _ rules); simpl; auto.
  - reflexivity.
Qed.

Lemma tracked_at : forall o u recs u',
  tracked facts when_from_scratch then_from_scratch c o u recs u' ->
  u' = fold_left (next_user facts then_from_scratch) recs u /\
  forall pre r post, recs = (pre ++ r :: post)%list ->
    rec_tracked facts when_from_scratch then_from_scratch c
                (fold_left (next_user facts then_from_scratch) pre u) r ((post = [] /\ o = OQuiescent) \/ c_cancel c = None).
Proof.
  intros o u recs u' H. induction H as [u|u r recs u' Hr Ht [IH1 IH2]].
  - split; auto. intros pre r post E. destruct pre; discriminate.
  - split; [exact IH1|]. intros pre r0 post E. destruct pre as [|p pre]; simpl in E; inversion E; subst.
    + exact Hr.
    + simpl. apply IH2. reflexivity.
Qed.

(* the run of the engine WITH working memory, started from any memory contents, read against the
   from-scratch semantics *)
Lemma impl_tracked : forall fuel (u : estate) sf recs o,
  es_fx u = [] ->
  impl_execute fuel c order u es = (sf, recs, o) ->
  es_facts (s_user sf) = facts_after (es_facts u) recs /\
  forall pre r post, recs = (pre ++ r :: post)%list ->
    rec_tracked facts when_from_scratch then_from_scratch c (facts_after (es_facts u) pre) r ((post = [] /\ o = OQuiescent) \/ c_cancel c = None).
Proof.
  intros fuel u sf recs o Hfx H.
  pose proof (engine_refines_spec_from rules meth panics_inside mutating meth_pure Hrules Hdep fuel c order u es Hfx) as Href.
  rewrite H in Href.
  pose proof (spec_is_tracked fuel (es_facts u)) as Hst.
  destruct (spec_execute fuel c order (es_facts u) es) as [[s2 r2] o2].
  destruct (track_execute fuel c order (es_facts u) es) as [[s3 r3] o3] eqn:Et.
  destruct Href as (-> & -> & Hf). destruct Hst as (Hu & -> & ->).
  unfold EngineAbs.execute in Et.
  apply run_loop_track in Et. destruct Et as (rest & E & Ht). simpl in E. subst r3.
  apply tracked_at in Ht. destruct Ht as [A B]. simpl in A.
  split; [rewrite Hf, Hu; exact A|]. exact B.
Qed.

Lemma impl_fail : forall fuel (u : estate) sf recs o,
  es_fx u = [] ->
  impl_execute fuel c order u es = (sf, recs, o) ->
  forall k, o = OActErr k false \/ o = OCondErr k false ->
    exists pre r, recs = (pre ++ [r])%list /\
      fail_info facts when_from_scratch then_from_scratch c (facts_after (es_facts u) pre) r o.
Proof.
  intros fuel u sf recs o Hfx H k Ho.
  pose proof (engine_refines_spec_from rules meth panics_inside mutating meth_pure Hrules Hdep fuel c order u es Hfx) as Href.
  rewrite H in Href.
  pose proof (spec_is_tracked fuel (es_facts u)) as Hst.
  destruct (spec_execute fuel c order (es_facts u) es) as [[s2 r2] o2].
  destruct (track_execute fuel c order (es_facts u) es) as [[s3 r3] o3] eqn:Et.
  destruct Href as (-> & -> & Hf). destruct Hst as (Hu & -> & ->).
  unfold EngineAbs.execute in Et.
  destruct (run_loop_fail _ _ _ _ _ _ _ _ _ _ _ _ Et k Ho) as (pre & r & E & F).
  exists pre, r. split; [exact E|exact F].
Qed.

(* ------------------------------------------------------------------ C01 *)
Definition C01_statement : Prop :=
  forall fuel (u : estate) sf recs o,
    es_fx u = [] ->                          (* whatever the working memory remembers when the call starts *)
    impl_execute fuel c order u es = (sf, recs, o) ->
    (* every execution reported in any cycle is of an active rule whose condition, evaluated from
       scratch on the facts of that moment, is true *)
    (forall pre r post, recs = (pre ++ r :: post)%list ->
       forall n k, cr_exec r = Some (n, k) ->
         (exists e, In e es /\ e_key e = k /\ active pre e = true) /\
         when_from_scratch (facts_after (es_facts u) pre) k = CTrue) /\
    (* and the facts move only by the executed action lists, ending as the facts the caller sees *)
    es_facts (s_user sf) = facts_after (es_facts u) recs.

Theorem C01_proved : C01_statement.
Proof.
  intros fuel u sf recs o Hfx H.
  destruct (impl_tracked fuel u sf recs o Hfx H) as [Hfin Htr]. split; [|exact Hfin].
  intros pre r post E n k Hk.
  pose proof (C06_proved estate _ _ reset_all es keys_nodup c order order_perm max_nonneg fuel u sf recs o H)
    as (_ & _ & _ & _ & _ & Hd).
  destruct (Hd pre r post E) as (_ & _ & Hex & _ & Hact & _).
  destruct (Hex n k Hk) as [_ Hin].
  split.
  - destruct (Hact _ Hin) as (e & A & B & C). exists e. auto.
  - destruct (Htr pre r post E) as (Hs & _ & _). unfold flags_sound in Hs. rewrite Forall_forall in Hs.
    apply (Hs _ Hin). reflexivity.
Qed.

(* ------------------------------------------------------------------ C02 *)
Definition C02_statement : Prop :=
  forall fuel (u : estate) sf recs o,
    es_fx u = [] ->
    impl_execute fuel c order u es = (sf, recs, o) ->
    (* in every cycle that goes on to fire, each active rule whose from-scratch condition is true was reported as candidate *)
    (forall pre r post, recs = (pre ++ r :: post)%list -> cr_started r = true ->
       forall e, In e es -> active pre e = true ->
         when_from_scratch (facts_after (es_facts u) pre) (e_key e) = CTrue ->
         In (cr_begin r, e_key e, true) (cr_evals r)) /\
    (* when the context is never cancelled, the same holds for every cycle whose evaluation pass was completed: the one
       that exceeds the budget, the one that finds nothing, the one whose action list fails *)
    (c_cancel c = None ->
     forall pre r post, recs = (pre ++ r :: post)%list ->
       Permutation (map ev_key (cr_evals r)) (map e_key (filter (active pre) es)) ->
       forall e, In e es -> active pre e = true ->
         when_from_scratch (facts_after (es_facts u) pre) (e_key e) = CTrue ->
         In (cr_begin r, e_key e, true) (cr_evals r)) /\
    (* nil without Complete: no active rule's condition holds on the final facts *)
    (o = OQuiescent ->
       exists pre r, recs = (pre ++ [r])%list /\ cr_fx r = [] /\
         forall e, In e es -> active pre e = true ->
           when_from_scratch (es_facts (s_user sf)) (e_key e) <> CTrue).

Lemma exact_flag : forall fx (r : cycle_rec) pre e,
  flags_exact facts when_from_scratch fx (cr_evals r) ->
  Forall (fun x => ev_num x = cr_begin r) (cr_evals r) ->
  Permutation (map ev_key (cr_evals r)) (map e_key (filter (active pre) es)) ->
  In e es -> active pre e = true ->
  exists b, In (cr_begin r, e_key e, b) (cr_evals r) /\ b = ctrue (when_from_scratch fx (e_key e)).
Proof.
  intros fx r pre e Hex Hnum Hperm Hin Hact.
  assert (Hk: In (e_key e) (map ev_key (cr_evals r))).
  { eapply Permutation_in; [apply Permutation_sym; exact Hperm|]. apply in_map. apply filter_In. auto. }
  apply in_map_iff in Hk. destruct Hk as ([[n k] b] & Hkey & Hx). unfold ev_key in Hkey. simpl in Hkey. subst k.
  unfold flags_exact in Hex. rewrite Forall_forall in Hnum. rewrite Forall_forall in Hex.
  pose proof (Hnum _ Hx) as Hn. pose proof (Hex _ Hx) as Hb.
  unfold ev_num in Hn. unfold ev_flag, ev_key in Hb. simpl in Hn, Hb. subst n.
  exists b. auto.
Qed.

Theorem C02_proved : C02_statement.
Proof.
  intros fuel u sf recs o Hfx H.
  destruct (impl_tracked fuel u sf recs o Hfx H) as [Hfin Htr].
  pose proof (C06_proved estate _ _ reset_all es keys_nodup c order order_perm max_nonneg fuel u sf recs o H)
    as (_ & _ & _ & Hq & _ & Hd).
  split.
  - intros pre r post E Hst e Hin Hact Hc.
    destruct (Hd pre r post E) as (_ & Hnum & _ & _ & _ & Hperm).
    destruct (Htr pre r post E) as (_ & Hex & Hk).
    destruct (Hk Hst) as (n & k & Ek & _).
    destruct (exact_flag _ r pre e (Hex (or_introl Hst)) Hnum (Hperm ltac:(congruence)) Hin Hact) as (b & Hb & ->).
    rewrite Hc in Hb. exact Hb.
  - split.
    { intros Hnc pre r post E Hperm e Hin Hact Hc.
      destruct (Hd pre r post E) as (_ & Hnum & _ & _ & _ & _).
      destruct (Htr pre r post E) as (_ & Hex & _).
      destruct (exact_flag _ r pre e (Hex (or_intror (or_intror Hnc))) Hnum Hperm Hin Hact) as (b & Hb & ->).
      rewrite Hc in Hb. exact Hb. }
    intros ->. destruct (Hq eq_refl) as (pre & r & E & Hnone & Hfalse & Hperm).
    exists pre, r. split; [exact E|].
    destruct (Hd pre r [] E) as (_ & Hnum & _ & _ & _ & _).
    destruct (Htr pre r [] E) as (_ & Hex & _).
    assert (Hfa: facts_after (es_facts u) recs = facts_after (es_facts u) pre).
    { rewrite E. unfold facts_after. rewrite fold_left_app. simpl. unfold next_user. rewrite Hnone. reflexivity. }
    split.
    + pose proof (execute_ok estate _ _ reset_all es keys_nodup c order order_perm _ _ _ _ _ H) as Hok.
      pose proof (run_ok_recs es c order _ _ _ _ _ Hok pre r [] E) as Hr. simpl in Hr.
      destruct Hr as (_ & _ & _ & _ & Hnf & _). apply Hnf.
      destruct (cr_started r) eqn:Es; auto.
      destruct (Htr pre r [] E) as (_ & _ & Hk). destruct (Hk Es) as (n & k & Ek & _). congruence.
    + intros e Hin Hact Hc.
      destruct (exact_flag _ r pre e (Hex (or_intror (or_introl (conj eq_refl eq_refl)))) Hnum Hperm Hin Hact) as (b & Hb & Eb).
      rewrite Hfin, Hfa in Hc. rewrite Hc in Eb. simpl in Eb. subst b.
      rewrite Forall_forall in Hfalse. specialize (Hfalse _ Hb). discriminate.
Qed.

(* ------------------------------------------------------------------ C03, tied to the from-scratch conditions *)
(* the rule whose actions run has maximal salience among ALL active rules whose condition, evaluated from scratch on the
   facts of that moment, is true *)
Definition C03_semantic_statement : Prop :=
  forall fuel (u : estate) sf recs o,
    es_fx u = [] ->
    impl_execute fuel c order u es = (sf, recs, o) ->
    forall pre r post, recs = (pre ++ r :: post)%list -> cr_started r = true ->
      forall n k, cr_exec r = Some (n, k) ->
        exists e, In e es /\ e_key e = k /\ active pre e = true /\
          when_from_scratch (facts_after (es_facts u) pre) k = CTrue /\
          forall e', In e' es -> active pre e' = true ->
            when_from_scratch (facts_after (es_facts u) pre) (e_key e') = CTrue -> e_sal e' <= e_sal e.

Theorem C03_semantic_proved : C03_semantic_statement.
Proof.
  intros fuel u sf recs o Hfx H pre r post E Hst n k Hk.
  destruct (C01_proved fuel u sf recs o Hfx H) as [H1 _].
  destruct (H1 pre r post E n k Hk) as [(e0 & He0 & Hk0 & Ha0) Hc].
  destruct (C02_proved fuel u sf recs o Hfx H) as [H2 _].
  pose proof (C03_proved estate _ _ reset_all es keys_nodup c order order_perm fuel u sf recs o H pre r post E) as (H3 & _ & _).
  destruct (H3 n k Hk) as (e & He & Hke & Hin & Hmax).
  pose proof (C06_proved estate _ _ reset_all es keys_nodup c order order_perm max_nonneg fuel u sf recs o H)
    as (_ & _ & _ & _ & _ & Hd).
  destruct (Hd pre r post E) as (_ & _ & Hex & _ & _ & _). destruct (Hex n k Hk) as [Hn _].
  assert (e0 = e) by (eapply key_unique; eauto; congruence). subst e0.
  exists e. split; [exact He|]. split; [exact Hke|]. split; [exact Ha0|]. split; [exact Hc|].
  intros e' He' Ha' Hc'. apply Hmax; auto. rewrite Hn. apply (H2 pre r post E Hst e' He' Ha' Hc').
Qed.

End RT.
