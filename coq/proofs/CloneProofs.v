(* CloneProofs.v — KnowledgeBase.Clone on the pointer-graph model (coq/model/Clone.v):
   for every well-formed, closed graph the clone succeeds, is isomorphic to the original along the clone table
   (shared nodes stay shared, distinct nodes stay distinct), unfolds to the same trees, draws all its ids from the
   supply (so it is disjoint from the original and from every other clone); a graph with an orphan node in the
   working memory cannot be cloned; steps that are local to disjoint id sets commute and every interleaving of the
   atomic steps of k instances gives each instance the result of its own sequential run (C09). *)
From Coq Require Import List String Bool Lia Arith.
From Grule Require Import Base Clone.
Import ListNotations.
Open Scope nat_scope.
Open Scope list_scope.

(* ------------------------------------------------------------------ *)
(* lookups                                                             *)
Lemma glookup_in : forall id g nd, glookup id g = Some nd -> In (id, nd) g.
Proof.
  induction g as [|[i n] g IH]; simpl; intros nd H; [discriminate|].
  destruct (Nat.eqb id i) eqn:E.
  - apply Nat.eqb_eq in E. inversion H. subst. left. reflexivity.
  - right. auto.
Qed.

Lemma glookup_dom : forall id g nd, glookup id g = Some nd -> In id (gdom g).
Proof. intros id g nd H. apply glookup_in in H. unfold gdom. apply in_map_iff. exists (id, nd). auto. Qed.

Lemma glookup_none : forall id g, ~ In id (gdom g) -> glookup id g = None.
Proof.
  intros id g H. destruct (glookup id g) eqn:E; auto. exfalso. apply H. eapply glookup_dom; eauto.
Qed.

Lemma in_glookup : forall g id nd, NoDup (gdom g) -> In (id, nd) g -> glookup id g = Some nd.
Proof.
  induction g as [|[i n] g IH]; simpl; intros id nd Hnd Hin; [contradiction|].
  inversion Hnd; subst. destruct Hin as [E|Hin].
  - inversion E; subst. rewrite Nat.eqb_refl. reflexivity.
  - destruct (Nat.eqb id i) eqn:E.
    + apply Nat.eqb_eq in E. subst. exfalso. apply H1. unfold gdom. apply in_map_iff. exists (i, nd). auto.
    + apply IH; auto.
Qed.

Lemma tlookup_in : forall o t c, tlookup o t = Some c -> In (o, c) t.
Proof.
  induction t as [|[a b] t IH]; simpl; intros c H; [discriminate|].
  destruct (Nat.eqb o a) eqn:E.
  - apply Nat.eqb_eq in E. inversion H. subst. left. reflexivity.
  - right. auto.
Qed.

Lemma tlookup_none : forall o t, tlookup o t = None -> ~ In o (map fst t).
Proof.
  induction t as [|[a b] t IH]; simpl; intros H; [tauto|].
  destruct (Nat.eqb o a) eqn:E; [discriminate|]. apply Nat.eqb_neq in E. intros [A|A]; [congruence|]. apply IH; auto.
Qed.

Lemma in_tlookup : forall t o c, NoDup (map fst t) -> In (o, c) t -> tlookup o t = Some c.
Proof.
  induction t as [|[a b] t IH]; simpl; intros o c Hnd Hin; [contradiction|].
  inversion Hnd; subst. destruct Hin as [E|Hin].
  - inversion E; subst. rewrite Nat.eqb_refl. reflexivity.
  - destruct (Nat.eqb o a) eqn:E.
    + apply Nat.eqb_eq in E. subst. exfalso. apply H1. apply in_map_iff. exists (a, c). auto.
    + apply IH; auto.
Qed.

(* ------------------------------------------------------------------ *)
(* well-formed graphs, descendants                                     *)
Definition wf_graph (g : graph) : Prop :=
  NoDup (gdom g) /\
  forall id nd, glookup id g = Some nd -> forall k, In k (n_kids nd) -> k < id /\ exists ndk, glookup k g = Some ndk.

Inductive desc (g : graph) : nat -> nat -> Prop :=
| desc_refl : forall id, desc g id id
| desc_kid : forall id nd k o, glookup id g = Some nd -> In k (n_kids nd) -> desc g k o -> desc g id o.

Lemma desc_le : forall g, wf_graph g -> forall a b, desc g a b -> b <= a.
Proof.
  intros g (_ & Hk) a b H. induction H; auto. destruct (Hk _ _ H _ H0). lia.
Qed.

Lemma desc_trans : forall g a b c, desc g a b -> desc g b c -> desc g a c.
Proof. intros g a b c H. induction H; auto. intros Hc. eapply desc_kid; eauto. Qed.

(* ------------------------------------------------------------------ *)
(* the invariant of the clone state                                    *)
Record inv (g : graph) (start : nat) (st : cst) : Prop := mk_inv {
  iv_le : start <= c_next st;
  iv_fun : NoDup (map fst (c_tbl st));
  iv_inj : NoDup (map snd (c_tbl st));
  iv_rng : forall o c, In (o, c) (c_tbl st) -> start <= c < c_next st;
  iv_odom : forall c, In c (gdom (c_out st)) -> start <= c < c_next st;
  iv_ond : NoDup (gdom (c_out st));
  iv_node : forall o c, In (o, c) (c_tbl st) ->
     exists nd kids', glookup o g = Some nd /\
        glookup c (c_out st) = Some {| n_kind := n_kind nd; n_label := n_label nd; n_kids := kids' |} /\
        Forall2 (fun k k' => In (k, k') (c_tbl st)) (n_kids nd) kids';
  iv_onode : forall c, In c (gdom (c_out st)) -> In c (map snd (c_tbl st))
}.

(* st' extends st; the originals newly on the table are descendants of one of `from` *)
Definition ext (g : graph) (from : list nat) (st st' : cst) : Prop :=
  incl (c_tbl st) (c_tbl st') /\ c_next st <= c_next st' /\
  (forall c nd, glookup c (c_out st) = Some nd -> glookup c (c_out st') = Some nd) /\
  (forall o, In o (map fst (c_tbl st')) -> In o (map fst (c_tbl st)) \/ exists r, In r from /\ desc g r o).

Lemma ext_refl : forall g from st, ext g from st st.
Proof. intros. split; [intros x Hx; exact Hx|]. split; auto. Qed.

Lemma ext_trans : forall g f1 f2 a b c, ext g f1 a b -> ext g f2 b c -> ext g (f1 ++ f2) a c.
Proof.
  intros g f1 f2 a b c (A1 & A2 & A3 & A4) (B1 & B2 & B3 & B4). split; [intros x Hx; auto|]. split; [lia|]. split; [auto|].
  intros o Ho. destruct (B4 o Ho) as [H|(r & Hr & Hd)].
  - destruct (A4 o H) as [H'|(r & Hr & Hd)]; auto. right. exists r. split; auto. apply in_or_app. auto.
  - right. exists r. split; auto. apply in_or_app. auto.
Qed.

Lemma Forall2_impl : forall A B (P Q : A -> B -> Prop) l1 l2, (forall a b, P a b -> Q a b) -> Forall2 P l1 l2 -> Forall2 Q l1 l2.
Proof. intros A B P Q l1 l2 H F. induction F; constructor; auto. Qed.

Section CloneSpec.
Variable g : graph.
Variable start : nat.
Hypothesis Hwf : wf_graph g.

Lemma clone_kids_spec : forall f,
  (forall st id, id < f -> (exists nd, glookup id g = Some nd) -> inv g start st ->
     exists st' id', clone_id f g st id = Ok (st', id') /\ inv g start st' /\ ext g [id] st st' /\ In (id, id') (c_tbl st')) ->
  forall kids st, (forall k, In k kids -> k < f /\ exists nd, glookup k g = Some nd) -> inv g start st ->
  exists st' kids', clone_kids (clone_id f g) st kids = Ok (st', kids') /\ inv g start st' /\ ext g kids st st' /\
                    Forall2 (fun k k' => In (k, k') (c_tbl st')) kids kids'.
Proof.
  intros f Hcl. induction kids as [|k kids IH]; intros st Hk Hinv.
  - exists st, []. simpl. split; auto. split; auto. split; [apply ext_refl|constructor].
  - destruct (Hk k (or_introl eq_refl)) as (Hlt & Hnd).
    destruct (Hcl st k Hlt Hnd Hinv) as (st1 & k' & E1 & I1 & X1 & T1).
    destruct (IH st1 (fun x Hx => Hk x (or_intror Hx)) I1) as (st2 & kids' & E2 & I2 & X2 & F2).
    exists st2, (k' :: kids'). simpl. rewrite E1, E2. split; auto. split; auto. split.
    + apply (ext_trans g [k] kids _ _ _ X1 X2).
    + constructor; auto. destruct X2 as (Hi & _). apply Hi. exact T1.
Qed.

Lemma clone_id_spec : forall fuel st id, id < fuel -> (exists nd, glookup id g = Some nd) -> inv g start st ->
  exists st' id', clone_id fuel g st id = Ok (st', id') /\ inv g start st' /\ ext g [id] st st' /\ In (id, id') (c_tbl st').
Proof.
  induction fuel as [|f IH]; intros st id Hlt (nd & Hnd) Hinv; [lia|].
  simpl. destruct (tlookup id (c_tbl st)) as [c|] eqn:Et.
  - exists st, c. split; auto. split; auto. split; [apply ext_refl|]. apply tlookup_in. exact Et.
  - rewrite Hnd.
    assert (Hkids : forall k, In k (n_kids nd) -> k < f /\ exists ndk, glookup k g = Some ndk).
    { intros k Hk. destruct Hwf as (_ & Hw). destruct (Hw _ _ Hnd _ Hk) as (Hl & He). split; auto. lia. }
    destruct (clone_kids_spec f IH (n_kids nd) st Hkids Hinv) as (st2 & kids' & E2 & I2 & X2 & F2).
    rewrite E2. eexists. eexists. split; [reflexivity|].
    destruct X2 as (Xi & Xn & Xg & Xd). destruct I2 as [Jle Jfun Jinj Jrng Jodom Jond Jnode Jonode].
    assert (Hidnew : ~ In id (map fst (c_tbl st2))).
    { intros Hi. destruct (Xd id Hi) as [H|(r & Hr & Hd)].
      - apply tlookup_none in Et. contradiction.
      - destruct Hwf as (_ & Hw). destruct (Hw _ _ Hnd _ Hr) as (Hl & _). pose proof (desc_le g Hwf _ _ Hd). lia. }
    assert (Hfresh_v : ~ In (c_next st2) (map snd (c_tbl st2))).
    { intros Hi. apply in_map_iff in Hi. destruct Hi as ((o, c) & Ec & Hp). simpl in Ec. subst c. apply Jrng in Hp. lia. }
    assert (Hfresh_o : ~ In (c_next st2) (gdom (c_out st2))).
    { intros Hi. apply Jodom in Hi. lia. }
    split; [|split].
    + constructor; simpl.
      * lia.
      * constructor; auto.
      * constructor; auto.
      * intros o c [E|Hp]; [inversion E; subst; lia|]. apply Jrng in Hp. lia.
      * intros c [E|Hc]; [subst; lia|]. apply Jodom in Hc. lia.
      * constructor; auto.
      * intros o c [E|Hp].
        -- inversion E; subst. exists nd, kids'. split; auto. rewrite Nat.eqb_refl. split; auto.
           eapply Forall2_impl; [|exact F2]. intros a b Hab. right. exact Hab.
        -- destruct (Jnode o c Hp) as (nd0 & k0 & G1 & G2 & G3). exists nd0, k0. split; auto. split.
           ++ destruct (Nat.eqb c (c_next st2)) eqn:E; auto. apply Nat.eqb_eq in E. subst c. apply Jrng in Hp. lia.
           ++ eapply Forall2_impl; [|exact G3]. intros a b Hab. right. exact Hab.
      * intros c [E|Hc]; [left; auto|right; auto].
    + split; [intros x Hx; right; apply Xi; exact Hx|]. split; [simpl; lia|]. split.
      * intros c nd0 Hc. simpl. destruct (Nat.eqb c (c_next st2)) eqn:E; [|apply Xg; exact Hc].
        apply Nat.eqb_eq in E. subst c. apply glookup_dom in Hc. destruct Hinv. apply iv_odom0 in Hc. lia.
      * simpl. intros o [E|Ho].
        -- subst o. right. exists id. split; [left; reflexivity|apply desc_refl].
        -- destruct (Xd o Ho) as [H|(r & Hr & Hd)]; auto. right. exists id. split; [left; reflexivity|].
           eapply desc_kid; eauto.
    + simpl. left. reflexivity.
Qed.

Lemma clone_roots_spec : forall fuel roots st,
  (forall k r, In (k, r) roots -> r < fuel /\ exists nd, glookup r g = Some nd) -> inv g start st ->
  exists st' roots', clone_roots fuel g st roots = Ok (st', roots') /\ inv g start st' /\ ext g (map snd roots) st st' /\
                     Forall2 (fun p p' => fst p = fst p' /\ In (snd p, snd p') (c_tbl st')) roots roots'.
Proof.
  induction roots as [|[k r] roots IH]; intros st Hr Hinv.
  - exists st, []. simpl. split; auto. split; auto. split; [apply ext_refl|constructor].
  - destruct (Hr k r (or_introl eq_refl)) as (Hlt & Hnd).
    destruct (clone_id_spec fuel st r Hlt Hnd Hinv) as (st1 & r' & E1 & I1 & X1 & T1).
    destruct (IH st1 (fun a b Hab => Hr a b (or_intror Hab)) I1) as (st2 & roots' & E2 & I2 & X2 & F2).
    exists st2, ((k, r') :: roots'). simpl. rewrite E1, E2. split; auto. split; auto. split.
    + apply (ext_trans g [r] (map snd roots) _ _ _ X1 X2).
    + constructor; auto. simpl. split; auto. destruct X2 as (Hi & _). apply Hi. exact T1.
Qed.

End CloneSpec.

Lemma inv_init : forall g start, inv g start {| c_tbl := []; c_out := []; c_next := start |}.
Proof.
  intros. constructor; simpl; auto; try constructor; try (intros; contradiction).
Qed.

(* ------------------------------------------------------------------ *)
(* the table is closed under children: everything reachable from a cloned node is cloned *)
Lemma tbl_desc_closed : forall g start st, inv g start st ->
  forall a b, desc g a b -> In a (map fst (c_tbl st)) -> In b (map fst (c_tbl st)).
Proof.
  intros g start st Hinv a b H. induction H; auto. intros Ha.
  apply in_map_iff in Ha. destruct Ha as ((o0, c0) & Eo & Hp). simpl in Eo. subst o0.
  destruct (iv_node _ _ _ Hinv _ _ Hp) as (nd0 & kids' & G1 & _ & G3). rewrite H in G1. inversion G1; subst nd0.
  apply IHdesc. clear - G3 H0. induction G3; simpl in H0; [contradiction|].
  destruct H0 as [->|H0]; auto. apply in_map_iff. exists (k, y). auto.
Qed.

(* ------------------------------------------------------------------ *)
(* working memory                                                      *)
Lemma retarget_ids_ok : forall t ids, (forall i, In i ids -> In i (map fst t)) -> NoDup (map fst t) ->
  exists ids', retarget_ids t ids = Ok ids' /\ Forall2 (fun i c => In (i, c) t) ids ids'.
Proof.
  induction ids as [|i ids IH]; simpl; intros H Hnd.
  - exists []. split; [reflexivity|constructor].
  - assert (Hi : In i (map fst t)) by auto. apply in_map_iff in Hi. destruct Hi as ((o, c) & Eo & Hp). simpl in Eo. subst o.
    rewrite (in_tlookup t i c Hnd Hp). destruct (IH (fun x Hx => H x (or_intror Hx)) Hnd) as (ids' & E & F).
    rewrite E. exists (c :: ids'). split; [reflexivity|constructor; auto].
Qed.

Lemma retarget_map_ok : forall t m, (forall i, In i (map snd m) -> In i (map fst t)) -> NoDup (map fst t) ->
  exists m', retarget_map t m = Ok m' /\ Forall2 (fun p p' => fst p = fst p' /\ In (snd p, snd p') t) m m'.
Proof.
  induction m as [|[s i] m IH]; simpl; intros H Hnd.
  - exists []. split; [reflexivity|constructor].
  - assert (Hi : In i (map fst t)) by auto. apply in_map_iff in Hi. destruct Hi as ((o, c) & Eo & Hp). simpl in Eo. subst o.
    rewrite (in_tlookup t i c Hnd Hp). destruct (IH (fun x Hx => H x (or_intror Hx)) Hnd) as (m' & E & F).
    rewrite E. exists ((s, c) :: m'). split; [reflexivity|constructor; auto].
Qed.

Lemma retarget_idx_ok : forall t m, (forall i, In i (flat_map (fun p => fst p :: snd p) m) -> In i (map fst t)) -> NoDup (map fst t) ->
  exists m', retarget_idx t m = Ok m' /\
     Forall2 (fun p p' => In (fst p, fst p') t /\ Forall2 (fun i c => In (i, c) t) (snd p) (snd p')) m m'.
Proof.
  induction m as [|[v ids] m IH]; simpl; intros H Hnd.
  - exists []. split; [reflexivity|constructor].
  - assert (Hv : In v (map fst t)) by (apply H; left; reflexivity).
    apply in_map_iff in Hv. destruct Hv as ((o, c) & Eo & Hp). simpl in Eo. subst o.
    rewrite (in_tlookup t v c Hnd Hp).
    destruct (retarget_ids_ok t ids) as (ids' & E1 & F1); auto.
    { intros i Hi. apply H. right. apply in_or_app. left. exact Hi. }
    rewrite E1. destruct IH as (m' & E & F); auto.
    { intros i Hi. apply H. right. apply in_or_app. right. exact Hi. }
    rewrite E. exists ((c, ids') :: m'). split; [reflexivity|constructor; auto].
Qed.

Lemma retarget_ids_err : forall t ids i, In i ids -> ~ In i (map fst t) -> retarget_ids t ids = Err.
Proof.
  induction ids as [|j ids IH]; simpl; intros i Hi Hn; [contradiction|].
  destruct (tlookup j t) as [c|] eqn:E; auto. destruct Hi as [->|Hi].
  - exfalso. apply Hn. apply tlookup_in in E. apply in_map_iff. exists (i, c). auto.
  - rewrite (IH i Hi Hn). reflexivity.
Qed.

Lemma retarget_map_err : forall t m i, In i (map snd m) -> ~ In i (map fst t) -> retarget_map t m = Err.
Proof.
  induction m as [|[s j] m IH]; simpl; intros i Hi Hn; [contradiction|].
  destruct (tlookup j t) as [c|] eqn:E; auto. destruct Hi as [->|Hi].
  - exfalso. apply Hn. apply tlookup_in in E. apply in_map_iff. exists (i, c). auto.
  - rewrite (IH i Hi Hn). reflexivity.
Qed.

Lemma retarget_idx_err : forall t m i, In i (flat_map (fun p => fst p :: snd p) m) -> ~ In i (map fst t) -> retarget_idx t m = Err.
Proof.
  induction m as [|[v ids] m IH]; simpl; intros i Hi Hn; [contradiction|].
  destruct (tlookup v t) as [c|] eqn:E; auto.
  destruct Hi as [->|Hi].
  - exfalso. apply Hn. apply tlookup_in in E. apply in_map_iff. exists (i, c). auto.
  - apply in_app_or in Hi. destruct Hi as [Hi|Hi].
    + rewrite (retarget_ids_err t ids i Hi Hn). reflexivity.
    + destruct (retarget_ids t ids); auto. rewrite (IH i Hi Hn). reflexivity.
Qed.

(* ------------------------------------------------------------------ *)
(* knowledge bases                                                     *)
Definition reach (kb : kbg) (o : nat) : Prop := exists k r, In (k, r) (g_roots kb) /\ desc (g_nodes kb) r o.

Definition wf_kb (kb : kbg) : Prop :=
  wf_graph (g_nodes kb) /\ forall k r, In (k, r) (g_roots kb) -> exists nd, glookup r (g_nodes kb) = Some nd.

(* closed: no orphans — every node the working memory points to is reachable from a rule entry *)
Definition closed (kb : kbg) : Prop := forall i, In i (wm_ids (g_wm kb)) -> reach kb i.

(* the relation "kb' is a copy of kb along the table t" *)
Record copy_of (kb kb' : kbg) (t : table) : Prop := mk_copy {
  cp_fun : NoDup (map fst t);                       (* one copy per original: shared nodes stay shared *)
  cp_inj : NoDup (map snd t);                       (* distinct originals have distinct copies *)
  cp_dom : forall o, In o (map fst t) <-> reach kb o;                 (* exactly the reachable nodes are copied *)
  cp_nodes : forall c, In c (gdom (g_nodes kb')) <-> In c (map snd t);  (* the copy consists of the copies *)
  cp_node : forall o c, In (o, c) t -> exists nd kids',
              glookup o (g_nodes kb) = Some nd /\
              glookup c (g_nodes kb') = Some {| n_kind := n_kind nd; n_label := n_label nd; n_kids := kids' |} /\
              Forall2 (fun k k' => In (k, k') t) (n_kids nd) kids';
  cp_roots : Forall2 (fun p p' => fst p = fst p' /\ In (snd p, snd p') t) (g_roots kb) (g_roots kb');
  cp_wm_expr : Forall2 (fun p p' => fst p = fst p' /\ In (snd p, snd p') t) (wm_expr (g_wm kb)) (wm_expr (g_wm kb'));
  cp_wm_atom : Forall2 (fun p p' => fst p = fst p' /\ In (snd p, snd p') t) (wm_atom (g_wm kb)) (wm_atom (g_wm kb'));
  cp_wm_var : Forall2 (fun p p' => fst p = fst p' /\ In (snd p, snd p') t) (wm_var (g_wm kb)) (wm_var (g_wm kb'));
  cp_wm_xidx : Forall2 (fun p p' => In (fst p, fst p') t /\ Forall2 (fun i c => In (i, c) t) (snd p) (snd p')) (wm_xidx (g_wm kb)) (wm_xidx (g_wm kb'));
  cp_wm_aidx : Forall2 (fun p p' => In (fst p, fst p') t /\ Forall2 (fun i c => In (i, c) t) (snd p) (snd p')) (wm_aidx (g_wm kb)) (wm_aidx (g_wm kb'))
}.

Lemma max_id_ge : forall g id, In id (gdom g) -> id <= max_id g.
Proof.
  intros g id. unfold max_id. generalize 0. induction (gdom g) as [|x l IH]; simpl; intros m H; [contradiction|].
  destruct H as [->|H].
  - clear IH. assert (Hm : forall l a, a <= fold_left Nat.max l a).
    { induction l0 as [|y l0 IHl]; simpl; intros a; auto. specialize (IHl (Nat.max a y)). lia. }
    specialize (Hm l (Nat.max m id)). lia.
  - apply IH. exact H.
Qed.

Lemma roots_in_tbl : forall (t : table) (roots roots' : list (string * nat)) k r,
  Forall2 (fun p p' => fst p = fst p' /\ In (snd p, snd p') t) roots roots' -> In (k, r) roots -> In r (map fst t).
Proof.
  intros t roots roots' k r F. induction F; simpl; intros Hr; [contradiction|]. destruct Hr as [->|Hr]; auto.
  destruct H as (_ & H). simpl in H. apply in_map_iff. exists (r, snd y). split; auto.
Qed.

(* (a) every well-formed closed knowledge base can be cloned; the clone is a copy along the table and all its ids
       come from the supply *)
Theorem clone_closed_ok : forall kb start, wf_kb kb -> closed kb ->
  exists kb' t next, clone_kb (S (max_id (g_nodes kb))) start kb = Ok (kb', t, next) /\
     copy_of kb kb' t /\ start <= next /\ (forall c, In c (gdom (g_nodes kb')) -> start <= c < next).
Proof.
  intros kb start (Hwf & Hroots) Hclosed. unfold clone_kb.
  assert (Hr0 : forall k r, In (k, r) (g_roots kb) -> r < S (max_id (g_nodes kb)) /\ exists nd, glookup r (g_nodes kb) = Some nd).
  { intros k r Hr. destruct (Hroots k r Hr) as (nd & Hnd). split; [|eauto]. apply glookup_dom in Hnd. apply max_id_ge in Hnd. lia. }
  destruct (clone_roots_spec (g_nodes kb) start Hwf (S (max_id (g_nodes kb))) (g_roots kb) {| c_tbl := []; c_out := []; c_next := start |} Hr0 (inv_init _ _))
    as (st & roots' & E & I & X & Fr).
  rewrite E.
  assert (Hdom : forall o, In o (map fst (c_tbl st)) <-> reach kb o).
  { intros o. split.
    - intros Ho. destruct X as (_ & _ & _ & Xd). destruct (Xd o Ho) as [H|(r & Hr & Hd)]; [simpl in H; contradiction|].
      apply in_map_iff in Hr. destruct Hr as ((k, r0) & Er & Hp). simpl in Er. subst r0. exists k, r. auto.
    - intros (k & r & Hr & Hd). eapply tbl_desc_closed; eauto.
      eapply roots_in_tbl; eauto. }
  assert (Hwm : forall i, In i (wm_ids (g_wm kb)) -> In i (map fst (c_tbl st))).
  { intros i Hi. apply Hdom. apply Hclosed. exact Hi. }
  unfold wm_ids in Hwm. pose proof (iv_fun _ _ _ I) as Hfun.
  destruct (retarget_map_ok (c_tbl st) (wm_expr (g_wm kb))) as (e' & Ee & Fe); auto.
  { intros i Hi. apply Hwm. apply in_or_app. left. exact Hi. }
  destruct (retarget_map_ok (c_tbl st) (wm_atom (g_wm kb))) as (a' & Ea & Fa); auto.
  { intros i Hi. apply Hwm. apply in_or_app. right. apply in_or_app. left. exact Hi. }
  destruct (retarget_map_ok (c_tbl st) (wm_var (g_wm kb))) as (v' & Ev & Fv); auto.
  { intros i Hi. apply Hwm. apply in_or_app. right. apply in_or_app. right. apply in_or_app. left. exact Hi. }
  destruct (retarget_idx_ok (c_tbl st) (wm_xidx (g_wm kb))) as (x' & Ex & Fx); auto.
  { intros i Hi. apply Hwm. apply in_or_app. right. apply in_or_app. right. apply in_or_app. right. apply in_or_app. left. exact Hi. }
  destruct (retarget_idx_ok (c_tbl st) (wm_aidx (g_wm kb))) as (y' & Ey & Fy); auto.
  { intros i Hi. apply Hwm. apply in_or_app. right. apply in_or_app. right. apply in_or_app. right. apply in_or_app. right. exact Hi. }
  unfold clone_wm. rewrite Ee, Ea, Ev, Ex, Ey.
  eexists. eexists. eexists. split; [reflexivity|]. split; [|split].
  - constructor; simpl; auto.
    + apply (iv_inj _ _ _ I).
    + intros c. split; [apply (iv_onode _ _ _ I)|].
      intros Hc. apply in_map_iff in Hc. destruct Hc as ((o, c0) & Ec & Hp). simpl in Ec. subst c0.
      destruct (iv_node _ _ _ I _ _ Hp) as (nd & kids' & _ & G2 & _). eapply glookup_dom; eauto.
    + apply (iv_node _ _ _ I).
  - apply (iv_le _ _ _ I).
  - simpl. apply (iv_odom _ _ _ I).
Qed.

(* a knowledge base whose working memory points to an orphan node (not reachable from any rule entry) cannot be
   cloned: NewKnowledgeBaseInstance fails (what the roll-back of a rejected resource prevents; the former finding D10a) *)
Theorem clone_orphan_fails : forall kb start i, wf_kb kb -> In i (wm_ids (g_wm kb)) -> ~ reach kb i ->
  clone_kb (S (max_id (g_nodes kb))) start kb = Err.
Proof.
  intros kb start i (Hwf & Hroots) Hi Hnr. unfold clone_kb.
  assert (Hr0 : forall k r, In (k, r) (g_roots kb) -> r < S (max_id (g_nodes kb)) /\ exists nd, glookup r (g_nodes kb) = Some nd).
  { intros k r Hr. destruct (Hroots k r Hr) as (nd & Hnd). split; [|eauto]. apply glookup_dom in Hnd. apply max_id_ge in Hnd. lia. }
  destruct (clone_roots_spec (g_nodes kb) start Hwf (S (max_id (g_nodes kb))) (g_roots kb) {| c_tbl := []; c_out := []; c_next := start |} Hr0 (inv_init _ _))
    as (st & roots' & E & I & X & Fr).
  rewrite E.
  assert (Hnot : ~ In i (map fst (c_tbl st))).
  { intros Ho. apply Hnr. destruct X as (_ & _ & _ & Xd). destruct (Xd i Ho) as [H|(r & Hr & Hd)]; [simpl in H; contradiction|].
    apply in_map_iff in Hr. destruct Hr as ((k, r0) & Er & Hp). simpl in Er. subst r0. exists k, r. auto. }
  unfold clone_wm, wm_ids in *.
  apply in_app_or in Hi. destruct Hi as [Hi|Hi]; [rewrite (retarget_map_err _ _ _ Hi Hnot); reflexivity|].
  destruct (retarget_map (c_tbl st) (wm_expr (g_wm kb))); try reflexivity.
  apply in_app_or in Hi. destruct Hi as [Hi|Hi]; [rewrite (retarget_map_err _ _ _ Hi Hnot); reflexivity|].
  destruct (retarget_map (c_tbl st) (wm_atom (g_wm kb))); try reflexivity.
  apply in_app_or in Hi. destruct Hi as [Hi|Hi]; [rewrite (retarget_map_err _ _ _ Hi Hnot); reflexivity|].
  destruct (retarget_map (c_tbl st) (wm_var (g_wm kb))); try reflexivity.
  apply in_app_or in Hi. destruct Hi as [Hi|Hi]; [rewrite (retarget_idx_err _ _ _ Hi Hnot); reflexivity|].
  destruct (retarget_idx (c_tbl st) (wm_xidx (g_wm kb))); try reflexivity.
  rewrite (retarget_idx_err _ _ _ Hi Hnot). reflexivity.
Qed.

(* ------------------------------------------------------------------ *)
(* (a') the copy unfolds to the same trees: same fuel, same answer    *)
Lemma unfold_list_ext : forall (u1 u2 : nat -> option tree) l1 l2,
  Forall2 (fun a b => u1 a = u2 b) l1 l2 -> unfold_list u1 l1 = unfold_list u2 l2.
Proof. intros u1 u2 l1 l2 F. induction F; simpl; auto. rewrite H, IHF. reflexivity. Qed.

Theorem copy_unfolds_same : forall kb kb' t, copy_of kb kb' t ->
  forall fuel o c, In (o, c) t -> unfold fuel (g_nodes kb') c = unfold fuel (g_nodes kb) o.
Proof.
  intros kb kb' t Hc. induction fuel as [|f IH]; intros o c Hp; simpl; auto.
  destruct (cp_node _ _ _ Hc _ _ Hp) as (nd & kids' & G1 & G2 & G3). rewrite G1, G2. simpl.
  rewrite (unfold_list_ext (unfold f (g_nodes kb')) (unfold f (g_nodes kb)) kids' (n_kids nd)); auto.
  clear - G3 IH. induction G3; constructor; auto.
Qed.

(* every rule entry of the copy is the same tree as the rule entry stored under the same key *)
Corollary clone_rules_same : forall kb kb' t, copy_of kb kb' t ->
  Forall2 (fun p p' => fst p = fst p' /\ forall fuel, unfold fuel (g_nodes kb') (snd p') = unfold fuel (g_nodes kb) (snd p))
          (g_roots kb) (g_roots kb').
Proof.
  intros kb kb' t Hc. eapply Forall2_impl; [|exact (cp_roots _ _ _ Hc)].
  intros p p' (E & Hp). split; auto. intros fuel. eapply copy_unfolds_same; eauto.
Qed.

(* (b) a clone shares no node with the original, nor with another clone taken later from the supply *)
Theorem clone_disjoint_from_original : forall kb start, wf_kb kb -> closed kb -> max_id (g_nodes kb) < start ->
  forall kb' t next, clone_kb (S (max_id (g_nodes kb))) start kb = Ok (kb', t, next) ->
  forall x, In x (gdom (g_nodes kb)) -> ~ In x (gdom (g_nodes kb')).
Proof.
  intros kb start Hwf Hcl Hlt kb' t next E x Hx Hx'.
  destruct (clone_closed_ok kb start Hwf Hcl) as (kb2 & t2 & n2 & E2 & _ & _ & Hr). rewrite E in E2. inversion E2; subst.
  apply Hr in Hx'. apply max_id_ge in Hx. lia.
Qed.

Theorem two_clones_disjoint : forall kb s1, wf_kb kb -> closed kb ->
  forall kb1 t1 n1 kb2 t2 n2,
  clone_kb (S (max_id (g_nodes kb))) s1 kb = Ok (kb1, t1, n1) ->
  clone_kb (S (max_id (g_nodes kb))) n1 kb = Ok (kb2, t2, n2) ->
  forall x, In x (gdom (g_nodes kb1)) -> ~ In x (gdom (g_nodes kb2)).
Proof.
  intros kb s1 Hwf Hcl kb1 t1 n1 kb2 t2 n2 E1 E2 x H1 H2.
  destruct (clone_closed_ok kb s1 Hwf Hcl) as (ka & ta & na & Ea & _ & _ & Ha). rewrite E1 in Ea. inversion Ea; subst.
  destruct (clone_closed_ok kb na Hwf Hcl) as (kb0 & tb & nb & Eb & _ & _ & Hb). rewrite E2 in Eb. inversion Eb; subst.
  apply Ha in H1. apply Hb in H2. lia.
Qed.

(* ------------------------------------------------------------------ *)
(* (c) isolation: steps local to disjoint sets of cells                *)
Section Isolation.
Variable V : Type.
Notation heap := (heap V).
Notation hstep := (hstep V).

Definition agree (ids : list nat) (h1 h2 : heap) : Prop := forall x, In x ids -> h1 x = h2 x.

(* a step of one instance does not change the cells of another instance (nor the blueprint's) *)
Lemma local_frame : forall ids other (f : hstep) h, local V ids f -> (forall x, In x other -> ~ In x ids) -> agree other (f h) h.
Proof. intros ids other f h (Hf & _) Hd x Hx. apply Hf. apply Hd. exact Hx. Qed.

(* steps of two instances commute *)
Theorem local_commute : forall ids1 ids2 (f g : hstep), local V ids1 f -> local V ids2 g ->
  (forall x, In x ids1 -> ~ In x ids2) -> forall h x, f (g h) x = g (f h) x.
Proof.
  intros ids1 ids2 f g (F1 & F2) (G1 & G2) Hd h x.
  destruct (in_dec Nat.eq_dec x ids1) as [H1|H1].
  - assert (H2 : ~ In x ids2) by auto. rewrite (G1 (f h) x H2).
    apply F2; [|exact H1]. intros y Hy. apply G1. auto.
  - rewrite (F1 (g h) x H1). destruct (in_dec Nat.eq_dec x ids2) as [H2|H2].
    + apply G2; [|exact H2]. intros y Hy. symmetry. apply F1. intros Hy1. exact (Hd y Hy1 Hy).
    + rewrite (G1 h x H2), (G1 (f h) x H2), (F1 h x H1). reflexivity.
Qed.

(* k instances with pairwise disjoint cells; a schedule is any interleaving of atomic steps, each tagged with the
   instance that performs it.  Sequential consistency of atomic steps is assumed (a schedule is a list). *)
Variable owner : nat -> list nat.                       (* the cells of instance i *)
Hypothesis owners_disjoint : forall i j x, i <> j -> In x (owner i) -> ~ In x (owner j).

Definition sched := list (nat * hstep).
Definition sched_ok (s : sched) : Prop := Forall (fun p => local V (owner (fst p)) (snd p)) s.
Definition own (i : nat) (s : sched) : list hstep := map snd (filter (fun p => Nat.eqb (fst p) i) s).

Lemma hrun_app : forall (l1 l2 : list hstep) h, hrun V (l1 ++ l2) h = hrun V l2 (hrun V l1 h).
Proof. intros. unfold hrun. apply fold_left_app. Qed.

Lemma hrun_snoc : forall (l : list hstep) f h, hrun V (l ++ [f]) h = f (hrun V l h).
Proof. intros. rewrite hrun_app. reflexivity. Qed.

Theorem interleaving_is_sequential : forall (s : sched) i h, sched_ok s ->
  agree (owner i) (hrun V (map snd s) h) (hrun V (own i s) h).
Proof.
  intros s i h. induction s as [|[j f] s IH] using rev_ind; intros Hok.
  - intros x Hx. reflexivity.
  - unfold sched_ok in Hok. apply Forall_app in Hok. destruct Hok as (Hs & Hf). inversion Hf as [|? ? Hloc _]; subst. simpl in Hloc.
    specialize (IH Hs). unfold own. rewrite map_app, filter_app. simpl (map snd [(j, f)]). rewrite hrun_snoc.
    simpl (filter _ [(j, f)]). destruct (Nat.eqb j i) eqn:E.
    + apply Nat.eqb_eq in E. subst j. rewrite map_app. simpl (map snd [(i, f)]). rewrite hrun_snoc.
      destruct Hloc as (_ & L2). intros x Hx. apply L2; [exact IH|exact Hx].
    + apply Nat.eqb_neq in E. rewrite app_nil_r. destruct Hloc as (L1 & _). intros x Hx.
      rewrite L1 by (apply (owners_disjoint i j x); auto). apply IH. exact Hx.
Qed.

(* no instance's cells are changed by the steps of the others: if instance i does nothing, its cells are untouched *)
Corollary others_do_not_interfere : forall (s : sched) i h, sched_ok s -> own i s = [] ->
  agree (owner i) (hrun V (map snd s) h) h.
Proof. intros s i h Hok Hown x Hx. rewrite (interleaving_is_sequential s i h Hok x Hx), Hown. reflexivity. Qed.

End Isolation.

(* ------------------------------------------------------------------ *)
(* decidable well-formedness implies the propositions used above       *)
Lemma nodupb_sound : forall l, nodupb l = true -> NoDup l.
Proof.
  induction l as [|x l IH]; simpl; intros H; [constructor|]. apply andb_true_iff in H. destruct H as (H1 & H2).
  constructor; auto. intros Hi. apply negb_true_iff in H1.
  assert (existsb (Nat.eqb x) l = true) by (apply existsb_exists; exists x; split; auto; apply Nat.eqb_refl). congruence.
Qed.

Lemma wf_graphb_sound : forall g, wf_graphb g = true -> wf_graph g.
Proof.
  intros g H. unfold wf_graphb in H. apply andb_true_iff in H. destruct H as (H1 & H2). split; [apply nodupb_sound; exact H1|].
  intros id nd Hl k Hk. rewrite forallb_forall in H2. specialize (H2 (id, nd) (glookup_in _ _ _ Hl)).
  unfold node_okb in H2. simpl in H2. rewrite forallb_forall in H2. specialize (H2 k Hk).
  apply andb_true_iff in H2. destruct H2 as (A & Bk). apply Nat.ltb_lt in A. split; auto.
  destruct (glookup k g) eqn:E; [eauto|discriminate].
Qed.

Lemma wf_kbb_sound : forall kb, wf_graphb (g_nodes kb) = true -> roots_okb kb = true -> wf_kb kb.
Proof.
  intros kb H1 H2. split; [apply wf_graphb_sound; exact H1|]. intros k r Hr. unfold roots_okb in H2.
  rewrite forallb_forall in H2. specialize (H2 (k, r) Hr). simpl in H2. destruct (glookup r (g_nodes kb)); [eauto|discriminate].
Qed.

(* the decidable closedness test of the correspondence checker is sound *)
Lemma reach_kid : forall kb id nd k, reach kb id -> glookup id (g_nodes kb) = Some nd -> In k (n_kids nd) -> reach kb k.
Proof.
  intros kb id nd k (key & r & Hr & Hd) Hl Hk. exists key, r. split; auto.
  eapply desc_trans; [exact Hd|]. eapply desc_kid; eauto. apply desc_refl.
Qed.

Lemma add_marks_sound : forall (P : nat -> Prop) ks marked,
  (forall x, In x marked -> P x) -> (forall k, In k ks -> P k) -> forall x, In x (add_marks ks marked) -> P x.
Proof.
  unfold add_marks. induction ks as [|k ks IH]; simpl; intros marked Hm Hk x Hx; auto.
  apply (IH (if existsb (Nat.eqb k) marked then marked else k :: marked)); auto.
  intros y Hy. destruct (existsb (Nat.eqb k) marked); auto. destruct Hy as [<-|Hy]; auto.
Qed.

Lemma mark_down_sound : forall kb l marked, NoDup (gdom (g_nodes kb)) -> incl l (g_nodes kb) ->
  (forall x, In x marked -> reach kb x) -> forall x, In x (mark_down l marked) -> reach kb x.
Proof.
  intros kb. induction l as [|[id nd] l IH]; simpl; intros marked Hnd Hl Hm x Hx; auto.
  assert (Hl' : incl l (g_nodes kb)) by (intros y Hy; apply Hl; right; exact Hy).
  destruct (existsb (Nat.eqb id) marked) eqn:E.
  - apply (IH (add_marks (n_kids nd) marked)); auto.
    apply add_marks_sound; auto. intros k Hk.
    apply existsb_exists in E. destruct E as (y & Hy & Ey). apply Nat.eqb_eq in Ey. subst y.
    eapply reach_kid; [apply Hm; exact Hy| |exact Hk]. apply in_glookup; auto. apply Hl. left. reflexivity.
  - apply (IH marked); auto.
Qed.

Theorem closedb_sound : forall kb, wf_graphb (g_nodes kb) = true -> closedb kb = true -> closed kb.
Proof.
  intros kb Hwf Hc i Hi. unfold closedb in Hc. rewrite forallb_forall in Hc. specialize (Hc i Hi).
  apply existsb_exists in Hc. destruct Hc as (y & Hy & Ey). apply Nat.eqb_eq in Ey. subst y.
  apply wf_graphb_sound in Hwf. destruct Hwf as (Hnd & _).
  unfold reachable in Hy. eapply mark_down_sound; [exact Hnd| | |exact Hy].
  - intros p Hp. apply in_rev in Hp. exact Hp.
  - intros x Hx. apply in_map_iff in Hx. destruct Hx as ((k, r) & E & Hr). simpl in E. subst r. exists k, x. split; auto. apply desc_refl.
Qed.

(* ------------------------------------------------------------------ *)
(* the statements of coq/props/C09.v                                   *)
(* (a) NewKnowledgeBaseInstance succeeds on every well-formed closed knowledge base and yields a copy: the same trees under
       the same rule keys, the working-memory maps re-targeted, sharing preserved both ways, all ids fresh *)
Definition C09_clone_statement : Prop :=
  forall kb start, wf_kb kb -> closed kb ->
  exists kb' t next, clone_kb (S (max_id (g_nodes kb))) start kb = Ok (kb', t, next) /\
     copy_of kb kb' t /\ start <= next /\ (forall c, In c (gdom (g_nodes kb')) -> start <= c < next) /\
     Forall2 (fun p p' => fst p = fst p' /\ forall fuel, unfold fuel (g_nodes kb') (snd p') = unfold fuel (g_nodes kb) (snd p))
             (g_roots kb) (g_roots kb').

Theorem C09_clone_proved : C09_clone_statement.
Proof.
  intros kb start Hwf Hcl. destruct (clone_closed_ok kb start Hwf Hcl) as (kb' & t & next & E & Hc & Hle & Hr).
  exists kb', t, next. split; auto. split; auto. split; auto. split; auto. eapply clone_rules_same; eauto.
Qed.

(* which graphs cannot be cloned: an orphan in the working memory (what a rejected resource left behind before the checkpoint: D10a) *)
Definition C09_orphan_statement : Prop :=
  forall kb start i, wf_kb kb -> In i (wm_ids (g_wm kb)) -> ~ reach kb i -> clone_kb (S (max_id (g_nodes kb))) start kb = Err.
Theorem C09_orphan_proved : C09_orphan_statement.
Proof. exact clone_orphan_fails. Qed.

(* (b) an instance shares no node with the blueprint nor with an instance created later *)
Definition C09_disjoint_statement : Prop :=
  forall kb s1, wf_kb kb -> closed kb -> max_id (g_nodes kb) < s1 ->
  forall kb1 t1 n1 kb2 t2 n2,
  clone_kb (S (max_id (g_nodes kb))) s1 kb = Ok (kb1, t1, n1) ->
  clone_kb (S (max_id (g_nodes kb))) n1 kb = Ok (kb2, t2, n2) ->
  (forall x, In x (gdom (g_nodes kb)) -> ~ In x (gdom (g_nodes kb1)) /\ ~ In x (gdom (g_nodes kb2))) /\
  (forall x, In x (gdom (g_nodes kb1)) -> ~ In x (gdom (g_nodes kb2))).
Theorem C09_disjoint_proved : C09_disjoint_statement.
Proof.
  intros kb s1 Hwf Hcl Hlt kb1 t1 n1 kb2 t2 n2 E1 E2. split.
  - intros x Hx. split.
    + eapply clone_disjoint_from_original; eauto.
    + destruct (clone_closed_ok kb s1 Hwf Hcl) as (ka & ta & na & Ea & _ & Hle & _). rewrite E1 in Ea. inversion Ea; subst.
      eapply (clone_disjoint_from_original kb na); eauto. lia.
  - eapply two_clones_disjoint; eauto.
Qed.

(* (c) isolation, for atomic steps under sequential consistency: steps of instances with disjoint cells commute, and
       whatever the interleaving every instance ends with the result of its own steps run alone *)
Definition C09_isolation_statement : Prop :=
  forall (V : Type) (owner : nat -> list nat),
  (forall i j x, i <> j -> In x (owner i) -> ~ In x (owner j)) ->
  (forall i j (f g : hstep V), i <> j -> local V (owner i) f -> local V (owner j) g -> forall h x, f (g h) x = g (f h) x) /\
  (forall (s : sched V) i h, sched_ok V owner s -> agree V (owner i) (hrun V (map snd s) h) (hrun V (own V i s) h)) /\
  (forall (s : sched V) i h, sched_ok V owner s -> own V i s = [] -> agree V (owner i) (hrun V (map snd s) h) h).
Theorem C09_isolation_proved : C09_isolation_statement.
Proof.
  intros V owner Hd. split; [|split].
  - intros i j f g Hij Hf Hg h x. eapply local_commute; eauto.
  - intros s i h Hok. eapply interleaving_is_sequential; eauto.
  - intros s i h Hok Hown. eapply others_do_not_interfere; eauto.
Qed.
