(* FactsProofs.v — lens laws of the fact store: a write is visible at its own
   path and nowhere else (frame).  Used by C04 and by the memo invariant. *)
From Grule Require Import Base Values Facts.
Open Scope Z_scope.

Definition step_eqb (a b : step) : bool :=
  match a, b with
  | SField x, SField y => String.eqb x y
  | SIndex i, SIndex j => Z.eqb i j
  | SKey x, SKey y => String.eqb x y
  | _, _ => false
  end.

Lemma step_eqb_eq : forall a b, step_eqb a b = true -> a = b.
Proof.
  intros [x|i|x] [y|j|y] H; simpl in H; try discriminate.
  - apply String.eqb_eq in H; subst; auto.
  - apply Z.eqb_eq in H; subst; auto.
  - apply String.eqb_eq in H; subst; auto.
Qed.
Lemma step_eqb_refl : forall a, step_eqb a a = true.
Proof. intros [x|i|x]; simpl; auto using String.eqb_refl, Z.eqb_refl. Qed.

(* two step lists part ways at some position (neither is a prefix of the other) *)
Fixpoint diverge (a b : list step) : bool :=
  match a, b with
  | x :: a', y :: b' => if step_eqb x y then diverge a' b' else true
  | _, _ => false
  end.

Definition paths_diverge (p q : path) : bool :=
  negb (String.eqb (p_root p) (p_root q)) || diverge (p_steps p) (p_steps q).

(* ---- association lists ---- *)
Lemma field_get_set_same : forall fs n x, field_get fs n <> None -> field_get (field_set fs n x) n = Some x.
Proof.
  induction fs as [|[k v] fs IH]; intros n x H; simpl in *; [congruence|].
  destruct (String.eqb k n) eqn:E; simpl; rewrite E; auto.
Qed.
Lemma field_get_set_other : forall fs n m x, n <> m -> field_get (field_set fs n x) m = field_get fs m.
Proof.
  induction fs as [|[k v] fs IH]; intros n m x H; simpl; auto.
  destruct (String.eqb k n) eqn:E; simpl.
  - apply String.eqb_eq in E. subst k. destruct (String.eqb n m) eqn:E2; auto. apply String.eqb_eq in E2. congruence.
  - destruct (String.eqb k m); auto.
Qed.
Lemma field_get_app_new : forall fs k x, field_get fs k = None -> field_get (fs ++ [(k, x)]) k = Some x.
Proof.
  induction fs as [|[k' v] fs IH]; intros k x H; simpl in *.
  - rewrite String.eqb_refl. reflexivity.
  - destruct (String.eqb k' k); [discriminate|auto].
Qed.
Lemma field_get_app_other : forall fs k m x, k <> m -> field_get (fs ++ [(k, x)]) m = field_get fs m.
Proof.
  induction fs as [|[k' v] fs IH]; intros k m x H; simpl.
  - destruct (String.eqb k m) eqn:E; auto. apply String.eqb_eq in E. congruence.
  - destruct (String.eqb k' m); auto.
Qed.

Lemma nth_set_same : forall (A : Type) (l : list A) i x, nth_z l i <> None -> nth_z (set_nth_z l i x) i = Some x.
Proof.
  induction l as [|y l IH]; intros i x H; simpl in *; [congruence|].
  destruct (i =? 0) eqn:E; simpl; rewrite E; auto.
  destruct (i <? 0) eqn:E2; [congruence|]. apply IH. exact H.
Qed.
Lemma nth_set_other : forall (A : Type) (l : list A) i j x, i <> j -> nth_z (set_nth_z l i x) j = nth_z l j.
Proof.
  induction l as [|y l IH]; intros i j x H; simpl; auto.
  destruct (i =? 0) eqn:E; simpl.
  - apply Z.eqb_eq in E. subst i. destruct (j =? 0) eqn:E2; auto. apply Z.eqb_eq in E2. congruence.
  - destruct (j =? 0); auto. destruct (j <? 0); auto. apply IH. lia.
Qed.

(* ---- one step ---- *)
(* [step_upd v s c'] : the container v with the child reached by step s replaced *)
Definition step_upd (v : fval) (s : step) (c' : fval) : option fval :=
  match s, v with
  | SField n, FStruct fs => match field_get fs n with Some _ => Some (FStruct (field_set fs n c')) | None => None end
  | SField n, FPtr (Some (FStruct fs)) =>
      match field_get fs n with Some _ => Some (FPtr (Some (FStruct (field_set fs n c')))) | None => None end
  | SIndex i, FSlice xs => match nth_z xs i with Some _ => Some (FSlice (set_nth_z xs i c')) | None => None end
  | SKey k, FMap kvs => match field_get kvs k with Some _ => Some (FMap (field_set kvs k c')) | None => None end
  | _, _ => None
  end.

Lemma step_upd_get_same : forall v s c' v', step_upd v s c' = Some v' -> step_get v' s = Ok c'.
Proof.
  intros v s c' v' H. destruct s as [n|i|k]; destruct v as [sv|fs|[t|]|xs|kvs]; simpl in H; try discriminate.
  - destruct (field_get fs n) eqn:E; inversion H; subst. simpl. rewrite field_get_set_same; congruence.
  - destruct t as [sv|fs| | |]; try discriminate.
    destruct (field_get fs n) eqn:E; inversion H; subst. simpl. rewrite field_get_set_same; congruence.
  - destruct (nth_z xs i) eqn:E; inversion H; subst. simpl. rewrite nth_set_same; congruence.
  - destruct (field_get kvs k) eqn:E; inversion H; subst. simpl. rewrite field_get_set_same; congruence.
Qed.

Lemma step_upd_get_other : forall v s c' v' s', step_upd v s c' = Some v' -> step_eqb s s' = false -> step_get v' s' = step_get v s'.
Proof.
  intros v s c' v' s' H Hne.
  destruct s as [n|i|k]; destruct v as [sv|fs|[t|]|xs|kvs]; simpl in H; try discriminate.
  - destruct (field_get fs n) eqn:E; inversion H; subst.
    destruct s' as [m|j|m]; simpl; auto. simpl in Hne. rewrite field_get_set_other; auto.
    intro; subst. rewrite String.eqb_refl in Hne. discriminate.
  - destruct t as [sv|fs| | |]; try discriminate.
    destruct (field_get fs n) eqn:E; inversion H; subst.
    destruct s' as [m|j|m]; simpl; auto. simpl in Hne. rewrite field_get_set_other; auto.
    intro; subst. rewrite String.eqb_refl in Hne. discriminate.
  - destruct (nth_z xs i) eqn:E; inversion H; subst.
    destruct s' as [m|j|m]; simpl; auto. simpl in Hne. rewrite nth_set_other; auto.
    intro; subst. rewrite Z.eqb_refl in Hne. discriminate.
  - destruct (field_get kvs k) eqn:E; inversion H; subst.
    destruct s' as [m|j|m]; simpl; auto. simpl in Hne. rewrite field_get_set_other; auto.
    intro; subst. rewrite String.eqb_refl in Hne. discriminate.
Qed.

(* ---- chains of steps ---- *)
Lemma steps_set_get_same : forall ss v x v', steps_set v ss x = Some v' -> steps_get v' ss = Ok x.
Proof.
  induction ss as [|s ss IH]; intros v x v' H; simpl in *.
  - inversion H; reflexivity.
  - destruct s as [n|i|k]; destruct v as [sv|fs|[t|]|xs|kvs]; try discriminate.
    + destruct (field_get fs n) as [c|] eqn:E; try discriminate.
      destruct (steps_set c ss x) as [c'|] eqn:S; try discriminate. inversion H; subst.
      simpl. rewrite field_get_set_same by congruence. eauto.
    + destruct t as [sv|fs| | |]; try discriminate.
      destruct (field_get fs n) as [c|] eqn:E; try discriminate.
      destruct (steps_set c ss x) as [c'|] eqn:S; try discriminate. inversion H; subst.
      simpl. rewrite field_get_set_same by congruence. eauto.
    + destruct (nth_z xs i) as [c|] eqn:E; try discriminate.
      destruct (steps_set c ss x) as [c'|] eqn:S; try discriminate. inversion H; subst.
      simpl. rewrite nth_set_same by congruence. eauto.
    + destruct (field_get kvs k) as [c|] eqn:E.
      * destruct (steps_set c ss x) as [c'|] eqn:S; try discriminate. inversion H; subst.
        simpl. rewrite field_get_set_same by congruence. eauto.
      * destruct ss; try discriminate. inversion H; subst. simpl. rewrite field_get_app_new; auto.
Qed.

Lemma steps_set_get_other : forall ss tt v x v',
  steps_set v ss x = Some v' -> diverge ss tt = true -> steps_get v' tt = steps_get v tt.
Proof.
  induction ss as [|s ss IH]; intros tt v x v' H D; simpl in D; [discriminate|].
  destruct tt as [|t tt]; [discriminate|].
  simpl in H.
  destruct (step_eqb s t) eqn:Est.
  - (* same first step: recurse into the child *)
    apply step_eqb_eq in Est. subst t.
    destruct s as [n|i|k]; destruct v as [sv|fs|[tg|]|xs|kvs]; try discriminate.
    + destruct (field_get fs n) as [c|] eqn:E; try discriminate.
      destruct (steps_set c ss x) as [c'|] eqn:S; try discriminate. inversion H; subst.
      simpl. rewrite field_get_set_same by congruence. rewrite E. eauto.
    + destruct tg as [sv|fs| | |]; try discriminate.
      destruct (field_get fs n) as [c|] eqn:E; try discriminate.
      destruct (steps_set c ss x) as [c'|] eqn:S; try discriminate. inversion H; subst.
      simpl. rewrite field_get_set_same by congruence. rewrite E. eauto.
    + destruct (nth_z xs i) as [c|] eqn:E; try discriminate.
      destruct (steps_set c ss x) as [c'|] eqn:S; try discriminate. inversion H; subst.
      simpl. rewrite nth_set_same by congruence. rewrite E. eauto.
    + destruct (field_get kvs k) as [c|] eqn:E.
      * destruct (steps_set c ss x) as [c'|] eqn:S; try discriminate. inversion H; subst.
        simpl. rewrite field_get_set_same by congruence. rewrite E. eauto.
      * destruct ss; try discriminate.
  - (* different first step: the sibling is untouched *)
    destruct s as [n|i|k]; destruct v as [sv|fs|[tg|]|xs|kvs]; try discriminate.
    + destruct (field_get fs n) as [c|] eqn:E; try discriminate.
      destruct (steps_set c ss x) as [c'|] eqn:S; try discriminate. inversion H; subst.
      assert (Hu: step_upd (FStruct fs) (SField n) c' = Some (FStruct (field_set fs n c'))) by (simpl; rewrite E; reflexivity).
      simpl steps_get. rewrite (step_upd_get_other _ _ _ _ t Hu Est). reflexivity.
    + destruct tg as [sv|fs| | |]; try discriminate.
      destruct (field_get fs n) as [c|] eqn:E; try discriminate.
      destruct (steps_set c ss x) as [c'|] eqn:S; try discriminate. inversion H; subst.
      assert (Hu: step_upd (FPtr (Some (FStruct fs))) (SField n) c' = Some (FPtr (Some (FStruct (field_set fs n c'))))) by (simpl; rewrite E; reflexivity).
      simpl steps_get. rewrite (step_upd_get_other _ _ _ _ t Hu Est). reflexivity.
    + destruct (nth_z xs i) as [c|] eqn:E; try discriminate.
      destruct (steps_set c ss x) as [c'|] eqn:S; try discriminate. inversion H; subst.
      assert (Hu: step_upd (FSlice xs) (SIndex i) c' = Some (FSlice (set_nth_z xs i c'))) by (simpl; rewrite E; reflexivity).
      simpl steps_get. rewrite (step_upd_get_other _ _ _ _ t Hu Est). reflexivity.
    + destruct (field_get kvs k) as [c|] eqn:E.
      * destruct (steps_set c ss x) as [c'|] eqn:S; try discriminate. inversion H; subst.
        assert (Hu: step_upd (FMap kvs) (SKey k) c' = Some (FMap (field_set kvs k c'))) by (simpl; rewrite E; reflexivity).
        simpl steps_get. rewrite (step_upd_get_other _ _ _ _ t Hu Est). reflexivity.
      * destruct ss; try discriminate. inversion H; subst.
        simpl steps_get. destruct t as [m|j|m]; simpl; auto.
        simpl in Est. rewrite field_get_app_other; auto.
        intro; subst. rewrite String.eqb_refl in Est. discriminate.
Qed.

(* ---- the data context ---- *)
Lemma alookup_aupdate_same : forall (A : Type) k (v : A) m, alookup k m <> None -> alookup k (aupdate k v m) = Some v.
Proof.
  induction m as [|[k' v'] m IH]; intros H; simpl in *; [congruence|].
  destruct (String.eqb k k') eqn:E; simpl.
  - rewrite String.eqb_refl. reflexivity.
  - rewrite E. auto.
Qed.
Lemma alookup_aupdate_other : forall (A : Type) k j (v : A) m, k <> j -> alookup j (aupdate k v m) = alookup j m.
Proof.
  induction m as [|[k' v'] m IH]; intros H; simpl.
  - destruct (String.eqb j k) eqn:E; auto. apply String.eqb_eq in E. congruence.
  - destruct (String.eqb k k') eqn:E; simpl.
    + apply String.eqb_eq in E. subst k'. destruct (String.eqb j k) eqn:E2; auto. apply String.eqb_eq in E2. congruence.
    + destruct (String.eqb j k'); auto.
Qed.

(* C04, first half: the written location holds the written value *)
Theorem path_get_set_same : forall fx p x fx', path_set fx p x = Some fx' -> path_get fx' p = Ok x.
Proof.
  intros fx p x fx' H. unfold path_set, path_get in *.
  destruct (alookup (p_root p) fx) as [v|] eqn:E; try discriminate.
  destruct (steps_set v (p_steps p) x) as [v'|] eqn:S; try discriminate. inversion H; subst.
  rewrite alookup_aupdate_same by congruence. eapply steps_set_get_same; eauto.
Qed.

(* C04, second half (frame): every location on a diverging path is untouched *)
Theorem path_get_set_other : forall fx p x fx' q,
  path_set fx p x = Some fx' -> paths_diverge p q = true -> path_get fx' q = path_get fx q.
Proof.
  intros fx p x fx' q H D. unfold path_set, path_get in *.
  destruct (alookup (p_root p) fx) as [v|] eqn:E; try discriminate.
  destruct (steps_set v (p_steps p) x) as [v'|] eqn:S; try discriminate. inversion H; subst.
  unfold paths_diverge in D.
  destruct (String.eqb (p_root p) (p_root q)) eqn:Er; simpl in D.
  - apply String.eqb_eq in Er. rewrite <- Er. rewrite alookup_aupdate_same by congruence. rewrite E.
    eapply steps_set_get_other; eauto.
  - rewrite alookup_aupdate_other; auto. intro Heq. rewrite Heq, String.eqb_refl in Er. discriminate.
Qed.
