#!/bin/sh
# setup_cmd: build translators + harness against /repo, generate coq/gen, full .vo build.
set -e
cd "$(dirname "$0")"
export GOFLAGS=-mod=mod GOPROXY=off
mkdir -p tools/bin run evidence replays coq/gen
(cd tools/go2coq && go build -o ../bin/go2coq .)
cp /repo/go.sum tools/harness/go.sum
(cd tools/harness && go build -o ../bin/harness .)
tools/bin/go2coq -repo /repo -out coq/gen || true
# -k: a file that does not build is reported by the checks that depend on it, not by the setup
(cd coq && coq_makefile -f _CoqProject -o Makefile >/dev/null && (timeout 3000 make -k -j16 >/dev/null 2>run_make.log || (tail -20 run_make.log; true)))
echo setup done
