#!/bin/sh
# sweep.sh <tier> <seed> [ids…]: run checks one after the other on the current tree, print one summary line each.
TIER=${1:-quick}; SEED=${2:-1}; shift 2
IDS=${*:-"C01 C02 C03 C04 C05 C06 C07 C08 C10 C11 C13 C14 C15 C17 C18 C19"}
cd "$(dirname "$0")/.."
[ -x tools/bin/harness ] || ./setup.sh >/dev/null 2>&1
for id in $IDS; do
  VERIF_SEED=$SEED ./check $id $TIER > run/sweep_${id}_${TIER}_${SEED}.log 2>&1
  echo "$id $TIER seed=$SEED rc=$? $(grep -E '^(OK|VIOLATION)' run/sweep_${id}_${TIER}_${SEED}.log | head -2 | tr '\n' ' ')"
done
