#!/bin/sh
# run every registered quick check on the clean tree and keep its evidence
cd /verif
if ! git -C /repo diff --quiet; then echo "/repo is dirty"; exit 2; fi
for id in $(python3 -c "import json; print(' '.join(c['property_id'] for c in json.load(open('MANIFEST.json'))['checks']))"); do
  ./check $id quick > run/refresh_$id.log 2>&1; echo "$id exit=$? $(tail -1 run/refresh_$id.log)"
done
