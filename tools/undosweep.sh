#!/bin/sh
# undosweep.sh: bring every repaired defect back in turn (seeded/own/undo_*.diff) and record what the check reports
cd /verif
MAP="d16:C19 d1:C01 d7:C12 d6:C08 d9:C16 d17:C20 d11:C17 d5:C07 d21:C15 d15:C18 d18:C20 d10:C17 d12:C18 d13:C18 d13b:C18 d14:C18 d8:C16 d8_flag:C12 d3:C01"
echo "{" > seeded/own/undo_results.json.tmp
first=1
for pair in $MAP; do
  d=${pair%%:*}; prop=${pair#*:}
  f=seeded/own/undo_$d.diff
  [ -f $f ] || continue
  if ! git -C /repo apply --check $(readlink -f $f) 2>/dev/null; then res="does-not-apply"; line=""; else
    tools/seedtest.sh $f $prop > run/undo_$d.log 2>&1
    line=$(grep -m1 '^VIOLATION' run/undo_$d.log)
    if [ -n "$line" ]; then res="reported"; else res="MISSED"; fi
  fi
  echo "$d $prop $res $line"
  [ $first = 1 ] || echo "," >> seeded/own/undo_results.json.tmp
  first=0
  printf ' "%s": {"check": "./check %s quick", "result": "%s", "line": "%s"}' "$d" "$prop" "$res" "$line" >> seeded/own/undo_results.json.tmp
done
echo "" >> seeded/own/undo_results.json.tmp; echo "}" >> seeded/own/undo_results.json.tmp
mv seeded/own/undo_results.json.tmp seeded/own/undo_results.json
