package main

// C20 sandbox: every load of the four loaders (GRL text, JSON rule text, JSON fact text,
// binary knowledge-base stream) runs in a child process `harness C20LOAD` started under
// `ulimit -v` with a wall-clock timeout per input.  The child reports, per input, the
// outcome class and three resource figures measured around the load alone:
//
//	alloc   runtime.MemStats.TotalAlloc delta (cumulative bytes allocated on the Go heap)
//	cpu_ns  process CPU time (user+system, getrusage) — robust against a loaded machine
//	ns      wall-clock time
//
// A child that dies (fatal error: out of memory / stack overflow / signal) is restarted at
// the next input; the input it died on is classified "killed" with the head of its stderr.
// The parent has its own watchdog, so a child that cannot even run its timer is killed too.
//
// Inputs are handed over as lists of (bytes, repetition count) parts, so that a nesting
// depth of 100 000 or a 4 MB string is a few bytes in the input file and in a replay.

import (
	"bufio"
	"bytes"
	"encoding/hex"
	"encoding/json"
	"fmt"
	"io"
	"os"
	"os/exec"
	"runtime"
	"runtime/debug"
	"sort"
	"strconv"
	"strings"
	"sync"
	"syscall"
	"time"

	"github.com/hyperjumptech/grule-rule-engine/ast"
	"github.com/hyperjumptech/grule-rule-engine/builder"
	"github.com/hyperjumptech/grule-rule-engine/pkg"
)

const (
	ldGRL    = "grl"
	ldJRule  = "jsonrule"
	ldJXlate = "jsonxlate" // the translation stage of the JSON rule loader alone (JSONResource.Load: encoding/json + pkg/JsonResource.go)
	ldJFact  = "jsonfact"
	ldBin    = "binary"
)

var c20Loaders = []string{ldGRL, ldJRule, ldJFact, ldBin}

// one part of an input: the bytes (Text when printable ASCII, else Hex), Rep times (0 = once)
type c20Part struct {
	Text string `json:"text,omitempty"`
	Hex  string `json:"hex,omitempty"`
	Rep  int    `json:"rep,omitempty"`
}

func (pt c20Part) unit() []byte {
	if pt.Hex != "" {
		b, _ := hex.DecodeString(pt.Hex)
		return b
	}
	return []byte(pt.Text)
}

func (pt c20Part) reps() int {
	if pt.Rep <= 0 {
		return 1
	}
	return pt.Rep
}

type c20In struct {
	Loader    string    `json:"loader"`
	Kind      string    `json:"kind"`
	Parts     []c20Part `json:"parts"`
	Series    string    `json:"series,omitempty"` // scaling series this input belongs to
	N         int       `json:"n,omitempty"`      // size parameter inside the series
	size      int
	repeatOf  *c20In // a repeated run of a member of a doubling series
	TimeoutMs int    `json:"timeout_ms,omitempty"` // wall-clock budget when it is not the default c20TimeoutMs(len)
}

func printable(b []byte) bool {
	for _, c := range b {
		if c < 32 && c != '\n' && c != '\t' || c > 126 {
			return false
		}
	}
	return true
}

func partOf(b []byte, rep int) c20Part {
	if printable(b) {
		return c20Part{Text: string(b), Rep: rep}
	}
	return c20Part{Hex: hex.EncodeToString(b), Rep: rep}
}

func rawIn(loader, kind string, b []byte) *c20In {
	return &c20In{Loader: loader, Kind: kind, Parts: []c20Part{partOf(b, 0)}, size: len(b)}
}

// P("(", n, "true", 1, ")", n)
func partsIn(loader, kind string, a ...interface{}) *c20In {
	in := &c20In{Loader: loader, Kind: kind}
	for i := 0; i+1 < len(a); i += 2 {
		var b []byte
		switch t := a[i].(type) {
		case string:
			b = []byte(t)
		case []byte:
			b = t
		}
		in.Parts = append(in.Parts, partOf(b, a[i+1].(int)))
	}
	in.size = in.length()
	return in
}

func (in *c20In) length() int {
	n := 0
	for _, pt := range in.Parts {
		n += len(pt.unit()) * pt.reps()
	}
	return n
}

func (in *c20In) bytes() []byte {
	var b bytes.Buffer
	for _, pt := range in.Parts {
		u := pt.unit()
		for i := pt.reps(); i > 0; i-- {
			b.Write(u)
		}
	}
	return b.Bytes()
}

type c20Res struct {
	Class  string `json:"class"` // ok error panic timeout killed
	Alloc  uint64 `json:"alloc"`
	Ns     int64  `json:"ns"`
	CPUNs  int64  `json:"cpu_ns"`
	Alloc1 uint64 `json:"alloc1,omitempty"` // JSON rules: the translation alone (JSONResource.Load)
	Msg    string `json:"msg,omitempty"`
}

// wall-clock budget of one load: generous, linear in the input length
func c20TimeoutMs(n int) int { return 20000 + n/20 } // 20 s + 50 us per byte

func cpuNow() int64 {
	var ru syscall.Rusage
	if syscall.Getrusage(syscall.RUSAGE_SELF, &ru) != nil {
		return 0
	}
	return ru.Utime.Nano() + ru.Stime.Nano()
}

func clip(s string, n int) string {
	if len(s) > n {
		return s[:n]
	}
	return s
}

// the four loaders as a user calls them
func c20Load(loader string, b []byte, alloc1 *uint64) (class, msg string) {
	defer func() {
		if r := recover(); r != nil {
			class, msg = "panic", clip(fmt.Sprint(r), 200)
		}
	}()
	var err error
	switch loader {
	case ldGRL:
		lib := ast.NewKnowledgeLibrary()
		err = builder.NewRuleBuilder(lib).BuildRuleFromResource("K", "1", pkg.NewBytesResource(b))
	case ldJRule:
		var res pkg.Resource
		res, err = pkg.NewJSONResourceFromResource(pkg.NewBytesResource(b))
		if err == nil {
			var m0, m1 runtime.MemStats
			runtime.ReadMemStats(&m0)
			var grl []byte
			grl, err = res.Load()
			runtime.ReadMemStats(&m1)
			*alloc1 = m1.TotalAlloc - m0.TotalAlloc
			if err == nil {
				lib := ast.NewKnowledgeLibrary()
				err = builder.NewRuleBuilder(lib).BuildRuleFromResource("K", "1", pkg.NewBytesResource(grl))
			}
		}
	case ldJXlate:
		var res pkg.Resource
		res, err = pkg.NewJSONResourceFromResource(pkg.NewBytesResource(b))
		if err == nil {
			_, err = res.Load()
		}
	case ldJFact:
		err = ast.NewDataContext().AddJSON("F", b)
	case ldBin:
		lib := ast.NewKnowledgeLibrary()
		var kb *ast.KnowledgeBase
		kb, err = lib.LoadKnowledgeBaseFromReader(bytes.NewReader(b), true)
		if err == nil && kb == nil {
			return "error", "nil knowledge base without error"
		}
	default:
		return "error", "unknown loader"
	}
	if err != nil {
		return "error", clip(err.Error(), 120)
	}
	return "ok", ""
}

// child: harness C20LOAD -out <input file> -seed <first input index>
// input file: one input per line:  <loader> <timeout ms> <rep>:<hex> <rep>:<hex> ...
func c20LoadChild(file string, start int) int {
	f, err := os.Open(file)
	if err != nil {
		return 2
	}
	defer f.Close()
	debug.SetGCPercent(100)
	rd := bufio.NewReaderSize(f, 1<<20)
	out := bufio.NewWriter(os.Stdout)
	for k := 0; ; k++ {
		line, err := rd.ReadString('\n')
		if line == "" && err != nil {
			break
		}
		if k < start {
			continue
		}
		fs := strings.Fields(line)
		if len(fs) < 2 {
			return 2
		}
		tmo, _ := strconv.Atoi(fs[1])
		var in bytes.Buffer
		for _, p := range fs[2:] {
			i := strings.IndexByte(p, ':')
			if i < 0 {
				return 2
			}
			rep, _ := strconv.Atoi(p[:i])
			u, err := hex.DecodeString(p[i+1:])
			if err != nil {
				return 2
			}
			for ; rep > 0; rep-- {
				in.Write(u)
			}
		}
		b := in.Bytes()
		line = ""
		fmt.Fprintf(out, "begin %d\n", k)
		out.Flush()
		done := make(chan c20Res, 1)
		go func() {
			var o c20Res
			runtime.GC()
			var m0, m1 runtime.MemStats
			runtime.ReadMemStats(&m0)
			c0, t0 := cpuNow(), time.Now()
			o.Class, o.Msg = c20Load(fs[0], b, &o.Alloc1)
			o.Ns = time.Since(t0).Nanoseconds()
			o.CPUNs = cpuNow() - c0
			runtime.ReadMemStats(&m1)
			o.Alloc = m1.TotalAlloc - m0.TotalAlloc
			done <- o
		}()
		var o c20Res
		select {
		case o = <-done:
		case <-time.After(time.Duration(tmo) * time.Millisecond):
			fmt.Fprintf(out, "result %d {\"class\":\"timeout\"}\n", k)
			out.Flush()
			return 3
		}
		js, _ := json.Marshal(o)
		fmt.Fprintf(out, "result %d %s\n", k, js)
		out.Flush()
	}
	return 0
}

func (in *c20In) timeoutMs() int {
	if in.TimeoutMs > 0 {
		return in.TimeoutMs
	}
	return c20TimeoutMs(in.length())
}

func c20InputLine(in *c20In) string {
	var sb strings.Builder
	fmt.Fprintf(&sb, "%s %d", in.Loader, in.timeoutMs())
	for _, pt := range in.Parts {
		fmt.Fprintf(&sb, " %d:%s", pt.reps(), hex.EncodeToString(pt.unit()))
	}
	sb.WriteString("\n")
	return sb.String()
}

// one worker: its inputs, in order, through children that are restarted after a death
func c20Worker(dir string, w int, ins []*c20In, memKB int) ([]c20Res, error) {
	file := fmt.Sprintf("%s/c20load_w%d.in", dir, w)
	fh, err := os.Create(file)
	if err != nil {
		return nil, err
	}
	bw := bufio.NewWriter(fh)
	for _, in := range ins {
		bw.WriteString(c20InputLine(in))
	}
	bw.Flush()
	fh.Close()
	defer os.Remove(file)
	self, err := os.Executable()
	if err != nil {
		return nil, err
	}
	res := make([]c20Res, len(ins))
	start := 0
	for start < len(ins) {
		cmd := exec.Command("sh", "-c", fmt.Sprintf("ulimit -v %d; exec \"$0\" C20LOAD -out \"$1\" -seed \"$2\"", memKB), self, file, strconv.Itoa(start))
		cmd.Env = append(os.Environ(), "GOMAXPROCS=2", "GOTRACEBACK=none")
		var stderr bytes.Buffer
		cmd.Stderr = &stderr
		pipe, err := cmd.StdoutPipe()
		if err != nil {
			return nil, err
		}
		if err := cmd.Start(); err != nil {
			return nil, err
		}
		var mu sync.Mutex
		cur := -1
		got := map[int]bool{}
		watchdogFired := false
		var timer *time.Timer
		arm := func(d time.Duration) {
			if timer != nil {
				timer.Stop()
			}
			timer = time.AfterFunc(d, func() {
				mu.Lock()
				watchdogFired = true
				mu.Unlock()
				cmd.Process.Kill()
			})
		}
		arm(120 * time.Second) // start-up and decoding of the first input
		sc := bufio.NewReader(pipe)
		for {
			line, err := sc.ReadString('\n')
			if line != "" {
				f := strings.SplitN(strings.TrimSpace(line), " ", 3)
				mu.Lock()
				if len(f) >= 2 && f[0] == "begin" {
					cur, _ = strconv.Atoi(f[1])
					if cur >= 0 && cur < len(ins) {
						arm(time.Duration(ins[cur].timeoutMs())*time.Millisecond + 30*time.Second)
					}
				}
				if len(f) == 3 && f[0] == "result" {
					k, _ := strconv.Atoi(f[1])
					var o c20Res
					if json.Unmarshal([]byte(f[2]), &o) == nil && k >= 0 && k < len(res) {
						res[k] = o
						got[k] = true
					}
					arm(120 * time.Second)
				}
				mu.Unlock()
			}
			if err != nil {
				break
			}
		}
		io.Copy(io.Discard, pipe)
		cmd.Wait()
		if timer != nil {
			timer.Stop()
		}
		if cur < start && len(got) == 0 {
			return nil, fmt.Errorf("sandbox child did not start: %s", clip(stderr.String(), 400))
		}
		if cur >= 0 && cur < len(res) && !got[cur] {
			msg := stderr.String()
			if i := strings.Index(msg, "\n\n"); i > 0 {
				msg = msg[:i]
			}
			msg = strings.Join(strings.Fields(msg), " ")
			cls := "killed"
			if watchdogFired {
				cls, msg = "timeout", "killed by the parent's watchdog"
			}
			if msg == "" {
				msg = fmt.Sprintf("child exited: %v", cmd.ProcessState)
			}
			res[cur] = c20Res{Class: cls, Msg: clip(msg, 300)}
			got[cur] = true
		}
		next := start
		for got[next] {
			next++
		}
		if next == start {
			return nil, fmt.Errorf("sandbox child made no progress at input %d: %s", start, clip(stderr.String(), 400))
		}
		start = next
	}
	return res, nil
}

// all inputs through `workers` parallel sandboxes; big inputs are dealt first and evenly
func c20RunSandbox(dir string, ins []*c20In, memKB int, workers int) ([]c20Res, error) {
	if workers < 1 {
		workers = 1
	}
	if workers > len(ins) {
		workers = len(ins)
	}
	if len(ins) == 0 {
		return nil, nil
	}
	os.MkdirAll(dir, 0o755)
	order := make([]int, len(ins))
	for i := range order {
		order[i] = i
		if ins[i].size == 0 {
			ins[i].size = ins[i].length()
		}
	}
	sort.SliceStable(order, func(a, b int) bool { return ins[order[a]].size > ins[order[b]].size })
	buckets := make([][]int, workers)
	load := make([]int, workers)
	for _, i := range order {
		best := 0
		for w := 1; w < workers; w++ {
			if load[w] < load[best] {
				best = w
			}
		}
		buckets[best] = append(buckets[best], i)
		load[best] += ins[i].size + 2000
	}
	res := make([]c20Res, len(ins))
	errs := make([]error, workers)
	var wg sync.WaitGroup
	for w := 0; w < workers; w++ {
		wg.Add(1)
		go func(w int) {
			defer wg.Done()
			sub := make([]*c20In, len(buckets[w]))
			for j, i := range buckets[w] {
				sub[j] = ins[i]
			}
			r, err := c20Worker(dir, w, sub, memKB)
			if err != nil {
				errs[w] = err
				return
			}
			for j, i := range buckets[w] {
				res[i] = r[j]
			}
		}(w)
	}
	wg.Wait()
	for _, e := range errs {
		if e != nil {
			return nil, e
		}
	}
	return res, nil
}

func init() {
	runners["C20LOAD"] = func(seed uint64, tier string, out string) error {
		os.Exit(c20LoadChild(out, int(seed)))
		return nil
	}
}
