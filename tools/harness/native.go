package main

// An independent evaluator of generated GRL expressions written directly from
// the documentation (docs/en/GRL_en.md, GRL_Literals_en.md, Function_en.md):
// 64-bit integers, int-to-float promotion, `/` is the real quotient, `+`
// concatenates when a string is involved, && and || short-circuit, ! negates.
// It does not use pkg/reflectmath.go nor the model; it is the C05 oracle.

import (
	"fmt"
	"math"
	"strings"
)

type nval struct {
	k string // int float str bool time none
	i int64
	f float64
	s string
	b bool
}

func nInt(i int64) nval     { return nval{k: "int", i: i} }
func nFloat(f float64) nval { return nval{k: "float", f: f} }
func nStr(s string) nval    { return nval{k: "str", s: s} }
func nBool(b bool) nval     { return nval{k: "bool", b: b} }

var none = nval{k: "none"}

func (v nval) num() (float64, bool) {
	switch v.k {
	case "int":
		return float64(v.i), true
	case "float":
		return v.f, true
	}
	return 0, false
}

func nativeVar(v *Var, f *Fact, n int64) nval {
	t := noSpace(v.grl())
	switch t {
	case "N":
		return nInt(n)
	case "F.I":
		return nInt(int64(f.I))
	case "F.I8":
		return nInt(int64(f.I8))
	case "F.I16":
		return nInt(int64(f.I16))
	case "F.I32":
		return nInt(int64(f.I32))
	case "F.I64":
		return nInt(f.I64)
	case "F.U":
		return nInt(int64(f.U))
	case "F.U8":
		return nInt(int64(f.U8))
	case "F.U16":
		return nInt(int64(f.U16))
	case "F.U32":
		return nInt(int64(f.U32))
	case "F.U64":
		return nInt(int64(f.U64))
	case "F.F32":
		return nFloat(float64(f.F32))
	case "F.F64":
		return nFloat(f.F64)
	case "F.S":
		return nStr(f.S)
	case "F.B":
		return nBool(f.B)
	}
	if f.In != nil {
		switch t {
		case "F.In.X":
			return nInt(f.In.X)
		case "F.In.Y":
			return nFloat(f.In.Y)
		case "F.In.S":
			return nStr(f.In.S)
		case "F.In.B":
			return nBool(f.In.B)
		}
	}
	inner := func(in *Inner, fld string) nval {
		switch fld {
		case "X":
			return nInt(in.X)
		case "Y":
			return nFloat(in.Y)
		case "S":
			return nStr(in.S)
		case "B":
			return nBool(in.B)
		}
		return none
	}
	if a, ok := f.Any.(*Inner); ok && a != nil && strings.HasPrefix(t, "F.Any.") {
		return inner(a, strings.TrimPrefix(t, "F.Any."))
	}
	var idx int
	var key string
	if n, err := fmt.Sscanf(t, "F.Items[%d].%s", &idx, &key); err == nil && n == 2 && idx >= 0 && idx < len(f.Items) {
		return inner(f.Items[idx], key)
	}
	if _, err := fmt.Sscanf(t, "F.Arr[%d]", &idx); err == nil && idx >= 0 && idx < len(f.Arr) {
		return nInt(f.Arr[idx])
	}
	if _, err := fmt.Sscanf(t, "F.FArr[%d]", &idx); err == nil && idx >= 0 && idx < len(f.FArr) {
		return nFloat(f.FArr[idx])
	}
	if _, err := fmt.Sscanf(t, "F.SArr[%d]", &idx); err == nil && idx >= 0 && idx < len(f.SArr) {
		return nStr(f.SArr[idx])
	}
	if strings.HasPrefix(t, "F.M[\"") {
		key = strings.TrimSuffix(strings.TrimPrefix(t, "F.M[\""), "\"]")
		if x, ok := f.M[key]; ok {
			return nInt(x)
		}
	}
	if strings.HasPrefix(t, "F.MS[\"") {
		key = strings.TrimSuffix(strings.TrimPrefix(t, "F.MS[\""), "\"]")
		if x, ok := f.MS[key]; ok {
			return nStr(x)
		}
	}
	return none
}

func nativeAtom(a *Atom, f *Fact, n int64) nval {
	switch a.Kind {
	case "const":
		switch a.C.Kind {
		case "int":
			return nInt(a.C.I)
		case "float":
			return nFloat(mathFromBits(a.C.FBits))
		case "str":
			return nStr(a.C.S)
		case "bool":
			return nBool(a.C.B)
		}
		return none
	case "var":
		return nativeVar(a.V, f, n)
	case "neg":
		v := nativeAtom(a.A, f, n)
		if v.k == "bool" {
			return nBool(!v.b)
		}
		return none
	case "func":
		var args []nval
		for _, x := range a.Args {
			args = append(args, nativeExpr(x, f, n))
		}
		switch a.F {
		case "Max", "Min":
			if len(args) == 0 {
				return none
			}
			for _, x := range args {
				if x.k != "float" {
					return none
				}
			}
			r := args[0].f
			for _, x := range args[1:] {
				if (a.F == "Max" && x.f > r) || (a.F == "Min" && x.f < r) {
					r = x.f
				}
			}
			return nFloat(r)
		}
		return none
	case "method":
		var args []nval
		for _, x := range a.Args {
			args = append(args, nativeExpr(x, f, n))
		}
		recvText := noSpace(a.A.grl())
		if recvText == "F" {
			switch a.F {
			case "Sum":
				// the engine passes values as they are: a fact method declared with int64 parameters needs int64 arguments
				return none
			case "Concat":
				var b strings.Builder
				for _, x := range args {
					if x.k != "str" {
						return none
					}
					b.WriteString(x.s)
				}
				return nStr(b.String())
			case "IsPos":
				if len(args) == 1 && args[0].k == "float" {
					return nBool(args[0].f > 0)
				}
			case "GetI64":
				return nInt(f.I64)
			}
			return none
		}
		recv := nativeAtom(a.A, f, n)
		if recv.k == "str" {
			switch a.F {
			case "Len":
				return nInt(int64(len(recv.s)))
			case "ToUpper":
				return nStr(strings.ToUpper(recv.s))
			case "ToLower":
				return nStr(strings.ToLower(recv.s))
			case "Contains":
				if len(args) == 1 && args[0].k == "str" {
					return nBool(strings.Contains(recv.s, args[0].s))
				}
			case "HasPrefix":
				if len(args) == 1 && args[0].k == "str" {
					return nBool(strings.HasPrefix(recv.s, args[0].s))
				}
			case "HasSuffix":
				if len(args) == 1 && args[0].k == "str" {
					return nBool(strings.HasSuffix(recv.s, args[0].s))
				}
			case "Index", "LastIndex", "Count", "Compare":
				if len(args) == 1 && args[0].k == "str" {
					switch a.F {
					case "Index":
						return nInt(int64(strings.Index(recv.s, args[0].s)))
					case "LastIndex":
						return nInt(int64(strings.LastIndex(recv.s, args[0].s)))
					case "Count":
						return nInt(int64(strings.Count(recv.s, args[0].s)))
					}
					return nInt(int64(strings.Compare(recv.s, args[0].s)))
				}
			case "Trim":
				if len(args) == 0 {
					return nStr(strings.TrimSpace(recv.s))
				}
			case "Replace":
				if len(args) == 2 && args[0].k == "str" && args[1].k == "str" {
					return nStr(strings.ReplaceAll(recv.s, args[0].s, args[1].s))
				}
			case "Repeat":
				if len(args) == 1 && args[0].k == "int" && args[0].i >= 0 && args[0].i < 16 {
					return nStr(strings.Repeat(recv.s, int(args[0].i)))
				}
			case "In":
				for _, x := range args {
					if x.k != "str" {
						return none
					}
					if x.s == recv.s {
						return nBool(true)
					}
				}
				return nBool(false)
			}
			return none
		}
		if a.F == "Len" {
			switch recvText {
			case "F.Arr":
				return nInt(int64(len(f.Arr)))
			case "F.SArr":
				return nInt(int64(len(f.SArr)))
			case "F.M":
				return nInt(int64(len(f.M)))
			}
		}
		return none
	}
	return none
}

func nativeExpr(e *Expr, f *Fact, n int64) nval {
	switch e.Kind {
	case "atom":
		return nativeAtom(e.A, f, n)
	case "paren":
		v := nativeExpr(e.E, f, n)
		if e.Neg {
			if v.k != "bool" {
				return none
			}
			return nBool(!v.b)
		}
		return v
	}
	l := nativeExpr(e.L, f, n)
	if l.k == "none" {
		return none
	}
	switch e.Op {
	case "&&":
		if l.k != "bool" {
			return none
		}
		if !l.b {
			return nBool(false)
		}
		r := nativeExpr(e.R, f, n)
		if r.k != "bool" {
			return none
		}
		return r
	case "||":
		if l.k != "bool" {
			return none
		}
		if l.b {
			return nBool(true)
		}
		r := nativeExpr(e.R, f, n)
		if r.k != "bool" {
			return none
		}
		return r
	}
	r := nativeExpr(e.R, f, n)
	if r.k == "none" {
		return none
	}
	switch e.Op {
	case "+":
		if l.k == "str" || r.k == "str" {
			// concatenation: integers print in decimal; floats are left to the engine's own format
			ps := func(v nval) (string, bool) {
				switch v.k {
				case "str":
					return v.s, true
				case "int":
					return fmt.Sprintf("%d", v.i), true
				}
				return "", false
			}
			a, ok1 := ps(l)
			b, ok2 := ps(r)
			if ok1 && ok2 {
				return nStr(a + b)
			}
			return none
		}
		fallthrough
	case "-", "*":
		if l.k == "int" && r.k == "int" {
			switch e.Op {
			case "+":
				return nInt(l.i + r.i)
			case "-":
				return nInt(l.i - r.i)
			default:
				return nInt(l.i * r.i)
			}
		}
		a, ok1 := l.num()
		b, ok2 := r.num()
		if !ok1 || !ok2 {
			return none
		}
		switch e.Op {
		case "+":
			return nFloat(a + b)
		case "-":
			return nFloat(a - b)
		default:
			return nFloat(a * b)
		}
	case "/":
		a, ok1 := l.num()
		b, ok2 := r.num()
		if !ok1 || !ok2 || b == 0 {
			return none
		}
		return nFloat(a / b)
	case "%":
		if l.k == "int" && r.k == "int" && r.i != 0 {
			return nInt(l.i % r.i)
		}
		return none
	case "&":
		if l.k == "int" && r.k == "int" {
			return nInt(l.i & r.i)
		}
		return none
	case "|":
		if l.k == "int" && r.k == "int" {
			return nInt(l.i | r.i)
		}
		return none
	case "<", "<=", ">", ">=", "==", "!=":
		var c int
		switch {
		case l.k == "str" && r.k == "str":
			c = strings.Compare(l.s, r.s)
		case l.k == "bool" && r.k == "bool":
			if e.Op != "==" && e.Op != "!=" {
				return none
			}
			if l.b == r.b {
				c = 0
			} else {
				c = 1
			}
		case l.k == "int" && r.k == "int":
			switch {
			case l.i < r.i:
				c = -1
			case l.i > r.i:
				c = 1
			}
		default:
			a, ok1 := l.num()
			b, ok2 := r.num()
			if !ok1 || !ok2 || math.IsNaN(a) || math.IsNaN(b) {
				return none
			}
			switch {
			case a < b:
				c = -1
			case a > b:
				c = 1
			}
		}
		switch e.Op {
		case "<":
			return nBool(c < 0)
		case "<=":
			return nBool(c <= 0)
		case ">":
			return nBool(c > 0)
		case ">=":
			return nBool(c >= 0)
		case "==":
			return nBool(c == 0)
		default:
			return nBool(c != 0)
		}
	}
	return none
}
