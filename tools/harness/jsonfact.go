package main

// C04 on JSON facts (DataContext.AddJSON): assignments into members, nested members, array elements and
// map-selector members of a JSON fact.  Implementation-side oracle only (the Coq fact model has Go structs,
// pointers, slices and maps; JSON facts are maps/slices of interface values): the value stored must be the value
// computed, at exactly the addressed location, everything else in the JSON document unchanged.

import (
	"encoding/json"
	"fmt"
	"reflect"
	"strings"

	"github.com/hyperjumptech/grule-rule-engine/ast"
	"github.com/hyperjumptech/grule-rule-engine/engine"
)

type jsonProbe struct {
	Kind string `json:"kind"` // "jsonprobe"
	Doc  string `json:"doc"`
	Stmt string `json:"stmt"`
	Path []interface{} `json:"path"` // string member or float64 index
	Want interface{}   `json:"want"`
}

func normJSON(v interface{}) interface{} {
	switch x := v.(type) {
	case map[string]interface{}:
		o := map[string]interface{}{}
		for k, e := range x {
			o[k] = normJSON(e)
		}
		return o
	case []interface{}:
		o := make([]interface{}, len(x))
		for i, e := range x {
			o[i] = normJSON(e)
		}
		return o
	case int64:
		return float64(x)
	case int:
		return float64(x)
	case float32:
		return float64(x)
	}
	return v
}

func jsonAt(v interface{}, path []interface{}) (interface{}, bool) {
	for _, st := range path {
		switch k := st.(type) {
		case string:
			m, ok := v.(map[string]interface{})
			if !ok {
				return nil, false
			}
			v, ok = m[k]
			if !ok {
				return nil, false
			}
		case float64:
			a, ok := v.([]interface{})
			if !ok || int(k) < 0 || int(k) >= len(a) {
				return nil, false
			}
			v = a[int(k)]
		}
	}
	return v, true
}

func jsonSet(v interface{}, path []interface{}, x interface{}) {
	for i, st := range path {
		last := i == len(path)-1
		switch k := st.(type) {
		case string:
			m := v.(map[string]interface{})
			if last {
				m[k] = x
				return
			}
			v = m[k]
		case float64:
			a := v.([]interface{})
			if last {
				a[int(k)] = x
				return
			}
			v = a[int(k)]
		}
	}
}

// every scalar location of the document, as (GRL text of the variable, path)
func jsonLocations(prefix string, v interface{}, path []interface{}, p *prng, out *[][2]interface{}) {
	switch x := v.(type) {
	case map[string]interface{}:
		for k, e := range x {
			txt := prefix + "." + k
			if p.chance(1, 3) && len(path) > 0 {
				txt = prefix + "[\"" + k + "\"]"
			}
			jsonLocations(txt, e, append(append([]interface{}{}, path...), k), p, out)
		}
	case []interface{}:
		for i, e := range x {
			jsonLocations(fmt.Sprintf("%s[%d]", prefix, i), e, append(append([]interface{}{}, path...), float64(i)), p, out)
		}
	default:
		*out = append(*out, [2]interface{}{prefix, append([]interface{}{}, path...)})
	}
}

func genJSONProbe(p *prng) jsonProbe {
	doc := map[string]interface{}{
		"n": float64(p.intn(5)), "f": float64(p.intn(8)) / 4, "s": pick(p, []string{"a", "", "x y"}), "b": p.chance(1, 2),
		"o":   map[string]interface{}{"k": float64(p.intn(4)), "t": "in", "deep": map[string]interface{}{"z": float64(p.intn(3)), "w": true}},
		"arr": []interface{}{float64(p.intn(3)), float64(1 + p.intn(3)), float64(7)},
		"sa":  []interface{}{"u", "v"},
		"oa":  []interface{}{map[string]interface{}{"q": float64(p.intn(9))}},
	}
	b, _ := json.Marshal(doc)
	var locs [][2]interface{}
	// deterministic order: walk a sorted copy
	var sorted interface{}
	json.Unmarshal(b, &sorted)
	keys := []string{"arr", "b", "f", "n", "o", "oa", "s", "sa"}
	for _, k := range keys {
		jsonLocations("J."+k, sorted.(map[string]interface{})[k], []interface{}{k}, p, &locs)
	}
	// map iteration inside nested objects is unordered: sort by text
	for i := range locs {
		for j := i + 1; j < len(locs); j++ {
			if locs[j][0].(string) < locs[i][0].(string) {
				locs[i], locs[j] = locs[j], locs[i]
			}
		}
	}
	loc := locs[p.intn(len(locs))]
	txt, path := loc[0].(string), loc[1].([]interface{})
	cur, _ := jsonAt(sorted, path)
	pr := jsonProbe{Kind: "jsonprobe", Doc: string(b), Path: path}
	switch c := cur.(type) {
	case float64:
		k := int64(1 + p.intn(3))
		switch p.intn(4) {
		case 0:
			pr.Stmt, pr.Want = fmt.Sprintf("%s = %d;", txt, k), float64(k)
		case 1:
			pr.Stmt, pr.Want = fmt.Sprintf("%s = %s + %d;", txt, txt, k), c+float64(k)
		case 2:
			pr.Stmt, pr.Want = fmt.Sprintf("%s += %d;", txt, k), c+float64(k)
		default:
			pr.Stmt, pr.Want = fmt.Sprintf("%s = %s * 2 - 0.5;", txt, txt), c*2-0.5
		}
	case string:
		if p.chance(1, 2) {
			pr.Stmt, pr.Want = fmt.Sprintf("%s = %s + \"!\";", txt, txt), c+"!"
		} else {
			pr.Stmt, pr.Want = fmt.Sprintf("%s = \"new\";", txt), "new"
		}
	case bool:
		pr.Stmt, pr.Want = fmt.Sprintf("%s = %v;", txt, !c), !c
	}
	return pr
}

// runs one probe on the real engine; "" when the property holds
func runJSONProbe(pr jsonProbe) string {
	dc := ast.NewDataContext()
	if err := dc.AddJSON("J", []byte(pr.Doc)); err != nil {
		return "C04: the JSON fact is rejected: " + err.Error()
	}
	lib, err := buildRules("rule R \"json\" salience 0 {\n  when true\n  then\n    "+pr.Stmt+"\n    Retract(\"R\");\n}\n", "Eng")
	if err != nil {
		return "C04: " + pr.Stmt + " is rejected: " + err.Error()
	}
	kb, err := lib.NewKnowledgeBaseInstance("Eng", "1")
	if err != nil {
		return "C04: instance: " + err.Error()
	}
	if err := (&engine.GruleEngine{MaxCycle: 5}).Execute(dc, kb); err != nil {
		return "C04: " + pr.Stmt + " on a JSON fact fails: " + err.Error()
	}
	val, err := dc.Get("J").GetValue()
	if err != nil {
		return "C04: cannot read the JSON fact back: " + err.Error()
	}
	got := normJSON(val.Interface())
	var want interface{}
	json.Unmarshal([]byte(pr.Doc), &want)
	jsonSet(want, pr.Path, normJSON(pr.Want))
	if !reflect.DeepEqual(got, want) {
		gb, _ := json.Marshal(got)
		wb, _ := json.Marshal(want)
		return fmt.Sprintf("C04: after %s the JSON fact is %s, expected %s (the addressed member holds the computed value, everything else is unchanged)", strings.TrimSpace(pr.Stmt), gb, wb)
	}
	return ""
}
