package main

// Property-specific scenario families and oracles on top of the engine
// harness (engrun.go): C04 frame, C05 renderings, C07 siblings, C08 reuse,
// C13 evaluation counts, C14 fault containment.

import (
	"encoding/json"
	"fmt"
	"math"
	"os"
	"reflect"
	"sort"
	"strings"

	"github.com/hyperjumptech/grule-rule-engine/ast"
	"github.com/hyperjumptech/grule-rule-engine/engine"
)

func distinctSal(rs []*Rule) bool {
	seen := map[int64]bool{}
	for _, r := range rs {
		if seen[r.Sal] {
			return false
		}
		seen[r.Sal] = true
	}
	return true
}

// ---------------------------------------------------------------- C04
// which leaf locations differ between two facts
func factDiff(a, b *Fact, na, nb int64) []string {
	var d []string
	va, vb := reflect.ValueOf(*a), reflect.ValueOf(*b)
	t := va.Type()
	for i := 0; i < t.NumField(); i++ {
		f := t.Field(i)
		if !f.IsExported() {
			continue
		}
		x, y := va.Field(i), vb.Field(i)
		switch f.Name {
		case "In":
			if a.In == nil || b.In == nil {
				if a.In != b.In {
					d = append(d, "F.In")
				}
				continue
			}
			ia, ib := reflect.ValueOf(*a.In), reflect.ValueOf(*b.In)
			for j := 0; j < ia.NumField(); j++ {
				if !reflect.DeepEqual(ia.Field(j).Interface(), ib.Field(j).Interface()) {
					d = append(d, "F.In."+ia.Type().Field(j).Name)
				}
			}
		case "Any":
			pa, _ := a.Any.(*Inner)
			pb, _ := b.Any.(*Inner)
			if pa == nil || pb == nil {
				if (pa == nil) != (pb == nil) {
					d = append(d, "F.Any")
				}
				continue
			}
			ia, ib := reflect.ValueOf(*pa), reflect.ValueOf(*pb)
			for j := 0; j < ia.NumField(); j++ {
				if !reflect.DeepEqual(ia.Field(j).Interface(), ib.Field(j).Interface()) {
					d = append(d, "F.Any."+ia.Type().Field(j).Name)
				}
			}
		case "Items":
			if len(a.Items) != len(b.Items) {
				d = append(d, "F.Items")
				continue
			}
			for k := range a.Items {
				ia, ib := reflect.ValueOf(*a.Items[k]), reflect.ValueOf(*b.Items[k])
				for j := 0; j < ia.NumField(); j++ {
					if !reflect.DeepEqual(ia.Field(j).Interface(), ib.Field(j).Interface()) {
						d = append(d, fmt.Sprintf("F.Items[%d].%s", k, ia.Type().Field(j).Name))
					}
				}
			}
		case "Arr", "FArr", "SArr":
			if x.Len() != y.Len() {
				d = append(d, "F."+f.Name)
				continue
			}
			for j := 0; j < x.Len(); j++ {
				if !reflect.DeepEqual(x.Index(j).Interface(), y.Index(j).Interface()) {
					d = append(d, fmt.Sprintf("F.%s[%d]", f.Name, j))
				}
			}
		case "M", "MS":
			keys := map[string]bool{}
			for _, k := range x.MapKeys() {
				keys[k.String()] = true
			}
			for _, k := range y.MapKeys() {
				keys[k.String()] = true
			}
			for k := range keys {
				xv, yv := x.MapIndex(reflect.ValueOf(k)), y.MapIndex(reflect.ValueOf(k))
				if !xv.IsValid() || !yv.IsValid() || !reflect.DeepEqual(xv.Interface(), yv.Interface()) {
					d = append(d, fmt.Sprintf("F.%s[\"%s\"]", f.Name, k))
				}
			}
		default:
			if !reflect.DeepEqual(x.Interface(), y.Interface()) {
				// NaN != NaN: compare float bits through the dump
				if fmt.Sprintf("%v", x.Interface()) != fmt.Sprintf("%v", y.Interface()) || (f.Name != "F64" && f.Name != "F32") {
					d = append(d, "F."+f.Name)
				}
			}
		}
	}
	if na != nb {
		d = append(d, "N")
	}
	sort.Strings(d)
	return d
}

// locations a rule may change: its assignment targets and the fields its mutating methods touch
func allowedChanges(r *Rule) map[string]bool {
	al := map[string]bool{}
	for _, st := range r.Then {
		if st.Kind == "assign" {
			t := noSpace(st.X.grl())
			al[t] = true
			if strings.HasPrefix(t, "F.Items[") && !strings.HasPrefix(t, "F.Items[0]") && !strings.HasPrefix(t, "F.Items[1]") {
				// computed index (F.Items[F.U8%2].X): the element is decided at run time; either element is an addressed
				// location for this frame oracle (the exact one is the model's business in the correspondence)
				fld := t[strings.LastIndex(t, "."):]
				al["F.Items[0]"+fld], al["F.Items[1]"+fld] = true, true
			}
		} else if st.A.Kind == "method" && (st.A.F == "AddTo" || st.A.F == "Inc") {
			al["F.I64"] = true
		}
	}
	return al
}

// ---------------------------------------------------------------- C05
// legal re-renderings of an expression: redundant parentheses around atoms are NOT added (they would be
// a different tree); spacing, comments and keyword / boolean case are varied
func rerender(p *prng, text string) string {
	var b strings.Builder
	inStr := false
	for i := 0; i < len(text); i++ {
		c := text[i]
		if c == '"' {
			inStr = !inStr
		}
		if !inStr && c == ' ' {
			switch p.intn(6) {
			case 0:
				b.WriteString("  ")
			case 1:
				b.WriteString("\n\t")
			case 2:
				b.WriteString(" /* c */ ")
			default:
				b.WriteByte(' ')
			}
			continue
		}
		b.WriteByte(c)
	}
	s := b.String()
	for _, kw := range []string{"rule ", "when ", "then\n", "salience "} {
		if p.chance(1, 2) {
			s = strings.Replace(s, kw, strings.ToUpper(kw), 1)
		}
	}
	if p.chance(1, 2) {
		s = strings.ReplaceAll(s, " true", " TRUE")
		s = strings.ReplaceAll(s, " false", " False")
	}
	return s
}

// ---------------------------------------------------------------- C07
// a near-identical sibling of a condition: one constant, operator, negation, selector or argument differs
func siblingOf(p *prng, e *Expr) *Expr {
	b, _ := json.Marshal(e)
	var c Expr
	json.Unmarshal(b, &c)
	fixFloats(&c)
	done := false
	var walkE func(e *Expr)
	var walkA func(a *Atom)
	walkA = func(a *Atom) {
		if done || a == nil {
			return
		}
		switch a.Kind {
		case "const":
			if p.chance(1, 2) {
				switch a.C.Kind {
				case "int":
					a.C.I += pick(p, []int64{1, -1, 10})
				case "float":
					f := mathFromBits(a.C.FBits)
					f = pick(p, []float64{f + 0.0000001, f * 1.0000001, -f, f + 1e-12, f * 10, math.Nextafter(f, 1e300), math.Nextafter(f, -1e300)})
					a.C.F, a.C.FBits = f, mathBits(f)
				case "str":
					a.C.S += pick(p, []string{"x", " ", "A"})
				case "bool":
					a.C.B = !a.C.B
				}
				done = true
			}
		case "method":
			walkA(a.A)
			for _, x := range a.Args {
				walkE(x)
			}
		case "var":
			if a.V.Kind == "sel" && p.chance(1, 2) {
				walkE(a.V.Sel)
			}
		}
	}
	walkE = func(e *Expr) {
		if done || e == nil {
			return
		}
		switch e.Kind {
		case "atom":
			walkA(e.A)
		case "paren":
			if p.chance(1, 4) {
				e.Neg = !e.Neg
				done = true
				return
			}
			walkE(e.E)
		case "bin":
			if p.chance(1, 6) {
				e.L, e.R = e.R, e.L // operand order
				done = true
				return
			}
			if p.chance(1, 5) {
				alt := map[string][]string{"<": {"<=", ">"}, "<=": {"<", ">="}, ">": {">=", "<"}, ">=": {">", "<="}, "==": {"!="}, "!=": {"=="},
					"&&": {"||"}, "||": {"&&"}, "+": {"-"}, "-": {"+"}, "*": {"+"}, "&": {"|"}, "|": {"&"}, "%": {"*"}, "/": {"*"}}
				if a, ok := alt[e.Op]; ok {
					e.Op = pick(p, a)
					done = true
					return
				}
			}
			if p.chance(1, 2) {
				walkE(e.L)
				walkE(e.R)
			} else {
				walkE(e.R)
				walkE(e.L)
			}
		}
	}
	for try := 0; try < 6 && !done; try++ {
		walkE(&c)
	}
	return renorm(&c)
}

// re-establish the precedence shape after an operator was changed
func renorm(e *Expr) *Expr {
	switch e.Kind {
	case "bin":
		return mkBin(e.Op, renorm(e.L), renorm(e.R))
	case "paren":
		return eParen(e.Neg, renorm(e.E))
	}
	return e
}

func fixFloats(e *Expr) {
	if e == nil {
		return
	}
	var fa func(a *Atom)
	fa = func(a *Atom) {
		if a == nil {
			return
		}
		if a.C != nil && a.C.Kind == "float" {
			a.C.F = mathFromBits(a.C.FBits)
		}
		fa(a.A)
		for _, x := range a.Args {
			fixFloats(x)
		}
		fixFloats(a.Sel)
		if a.V != nil {
			fixVar(a.V)
		}
	}
	fa(e.A)
	fixFloats(e.E)
	fixFloats(e.L)
	fixFloats(e.R)
}

func fixVar(v *Var) {
	if v == nil {
		return
	}
	fixFloats(v.Sel)
	fixVar(v.V)
}

// does rule text `grl` (one rule) match on the facts?  fresh library, fetch
func fetchNames(grl string, f *Fact, n int64) ([]string, error) {
	lib, err := buildRules(grl, "Sib")
	if err != nil {
		return nil, err
	}
	kb, err := lib.NewKnowledgeBaseInstance("Sib", "1")
	if err != nil {
		return nil, err
	}
	dc := ast.NewDataContext()
	dc.Add("F", f.clone())
	dc.Add("N", n)
	eng := &engine.GruleEngine{MaxCycle: 10}
	res, err := eng.FetchMatchingRules(dc, kb)
	if err != nil {
		return nil, nil
	}
	var out []string
	for _, r := range res {
		out = append(out, r.RuleName)
	}
	sort.Strings(out)
	return out, nil
}

// ---------------------------------------------------------------- runners
func runEngVariant(prop string) runner {
	return func(seed uint64, tier string, out string) error {
		p := newPrng(seed ^ uint64(prop[1])<<16 ^ uint64(prop[2])<<8 ^ 0xE7)
		rep := newReport(prop, seed, tier)
		n := 220
		if tier == "thorough" {
			n = 6000
		}
		var cases []string
		var index []interface{}
		distinct := map[string]bool{}
		emit := func(s EngScenario, obs EngObs) {
			rep.Evaluations++
			rep.count("outcome " + strings.SplitN(obs.Outcome, ":", 2)[0])
			passes, fired := 0, 0
			for _, e := range obs.Events {
				if e.Kind == "B" {
					passes++
				}
				if e.Kind == "X" {
					fired++
				}
			}
			rep.count("cycles " + bucket(passes))
			if fired >= 1 {
				distinct[s.grl()+s.Fact.dump()] = true
			}
			if obs.OracleMsg != "" {
				rep.fail(obs.OracleMsg, engCaseRec{s, obs})
			}
			id := len(index)
			index = append(index, engCaseRec{s, obs})
			cases = append(cases, s.gallinaCase(id, obs))
			if len(rep.Samples) < 3 {
				rep.sample(map[string]interface{}{"grl": s.grl(), "outcome": obs.Outcome, "cycles": passes, "fired": fired})
			}
		}
		if prop == "C04" {
			// assignments into JSON facts (implementation-side oracle)
			np := 40
			if tier == "thorough" {
				np = 1500
			}
			for i := 0; i < np; i++ {
				pr := genJSONProbe(p.fork())
				rep.Evaluations++
				rep.count("json fact probes")
				if msg := runJSONProbe(pr); msg != "" {
					rep.fail(msg, pr)
				}
			}
		}
		if prop == "C05" {
			// operator grouping against the published precedence table
			for _, pp := range precedenceProbes() {
				obs, err := runEngScenario(pp.S, true)
				if err != nil {
					return err
				}
				rep.count("precedence probes")
				if obs.OracleMsg == "" && obs.Outcome == "nil" && obs.Fact.I64 != pp.Want {
					rep.failKey(pp.Key, fmt.Sprintf("C05: %s evaluates to %d; grouped by the published precedence table it is %d", strings.TrimSpace(strings.Split(strings.Split(pp.S.Rules[0].Raw, "F.I64 = ")[1], ";")[0]), obs.Fact.I64, pp.Want), engCaseRec{pp.S, obs})
					obs.OracleMsg = ""
				}
				emit(pp.S, obs)
			}
			// exhaustive grid of operator x kind x kind cells on a boundary-rich fact
			nums := []string{"I", "I8", "I16", "I32", "I64", "U", "U8", "U16", "U32", "U64", "F32", "F64"}
			isF := func(n string) bool { return n[0] == 'F' }
			grid := &Fact{I: -7, I8: -7, I16: -9, I32: 12, I64: -13, U: 5, U8: 5, U16: 3, U32: 4, U64: 6, F32: -2.5, F64: 3.75,
				S: "s", T: factBaseTime, In: &Inner{}, Arr: []int64{1, 2, 3}, FArr: []float64{1, 2, 3}, SArr: []string{"a", "b", "c"},
				M: map[string]int64{"a": 1, "b": 2}, MS: map[string]string{"k": "v", "l": "z"}}
			for _, op := range []string{"+", "-", "*", "/", "%", "&", "|", "<", "<=", ">", ">=", "==", "!="} {
				for _, l := range nums {
					for _, r := range nums {
						if (op == "%" || op == "&" || op == "|") && (isF(l) || isF(r)) {
							continue
						}
						if tier != "thorough" && p.intn(3) != 0 && !(op == "%" || op == "/") {
							continue
						}
						e := mkBin(op, eVar(vPath("F", l)), eVar(vPath("F", r)))
						var sink *Var
						switch {
						case strings.ContainsAny(op, "<>=!"):
							sink = vPath("F", "B")
						case op == "/" || isF(l) || isF(r):
							sink = vPath("F", "F64")
						default:
							sink = vPath("F", "I64")
						}
						rl := &Rule{Name: "R0", Desc: "cell", Sal: 0, When: cBool(true), Then: []*Stmt{assign(sink, "=", e), call(fn("Retract", cStr("R0")))}}
						s := EngScenario{Rules: []*Rule{rl}, Fact: grid.clone(), N: 0, MaxCycle: 3, CancelAt: -1, Listeners: 1}
						obs, err := runEngScenario(s, false)
						if err != nil {
							return err
						}
						if want := nativeExpr(e, s.Fact, 0); want.k != "none" && obs.Outcome == "nil" {
							ok := true
							switch want.k {
							case "int":
								ok = obs.Fact.I64 == want.i
							case "float":
								ok = obs.Fact.F64 == want.f
							case "bool":
								ok = obs.Fact.B == want.b
							}
							if !ok {
								obs.OracleMsg = fmt.Sprintf("C05: %s on F.%s=%v, F.%s=%v gives %s; the documented semantics give %+v", e.grl(), l, nativeVar(vPath("F", l), s.Fact, 0), r, nativeVar(vPath("F", r), s.Fact, 0), obs.Fact.dump(), want)
							}
						}
						rep.count("grid cell " + op)
						emit(s, obs)
					}
				}
			}
			// grid of the string built-ins: receiver x function x argument
			type scall struct {
				f    string
				args []*Expr
			}
			var calls []scall
			for _, a := range []string{"", "a", "l", "lo", "ll", "Hello", " "} {
				for _, f := range []string{"Index", "LastIndex", "Count", "Compare", "Contains", "HasPrefix", "HasSuffix"} {
					calls = append(calls, scall{f, []*Expr{cStr(a)}})
				}
				calls = append(calls, scall{"Replace", []*Expr{cStr(a), cStr("xy")}}, scall{"Replace", []*Expr{cStr(a), cStr("")}},
					scall{"In", []*Expr{cStr("zz"), cStr(a)}}, scall{"In", []*Expr{cStr(a), cInt(1)}}, scall{"In", []*Expr{cInt(1), cStr(a)}})
			}
			calls = append(calls, scall{"Len", nil}, scall{"Trim", nil}, scall{"ToUpper", nil}, scall{"ToLower", nil}, scall{"In", nil},
				scall{"Repeat", []*Expr{cInt(0)}}, scall{"Repeat", []*Expr{cInt(3)}}, scall{"Repeat", []*Expr{cInt(-1)}},
				scall{"Index", []*Expr{cInt(1)}}, scall{"Trim", []*Expr{cStr("x")}}, scall{"Replace", []*Expr{cStr("l")}}, scall{"NoSuchFunction", nil})
			for _, recv := range []string{"", "a", "Hello", "  lo l\t", "llll", "hello Hello"} {
				for _, c := range calls {
					if tier != "thorough" && p.intn(3) != 0 {
						continue
					}
					e := method(aVar(vPath("F", "S")), c.f, c.args...)
					var sink *Var
					switch c.f {
					case "Index", "LastIndex", "Count", "Compare", "Len":
						sink = vPath("F", "I64")
					case "Contains", "HasPrefix", "HasSuffix", "In":
						sink = vPath("F", "B")
					default:
						sink = vPath("F", "In", "S")
					}
					rl := &Rule{Name: "R0", Desc: "cell", Sal: 0, When: cBool(true), Then: []*Stmt{assign(sink, "=", e), call(fn("Retract", cStr("R0")))}}
					f := grid.clone()
					f.S = recv
					f.I64, f.B, f.In.S = -99, false, "unset"
					s := EngScenario{Rules: []*Rule{rl}, Fact: f, N: 0, MaxCycle: 3, CancelAt: -1, Listeners: 1}
					obs, err := runEngScenario(s, false)
					if err != nil {
						return err
					}
					if want := nativeExpr(e, s.Fact, 0); want.k != "none" && obs.Outcome == "nil" {
						ok := true
						switch want.k {
						case "int":
							ok = obs.Fact.I64 == want.i
						case "str":
							ok = obs.Fact.In.S == want.s
						case "bool":
							ok = obs.Fact.B == want.b
						}
						if !ok {
							obs.OracleMsg = fmt.Sprintf("C05: %s on F.S=%q gives %s; the documented semantics (Go's strings package) give %+v", e.grl(), recv, obs.Fact.dump(), want)
						}
					}
					rep.count("string built-in " + c.f)
					emit(s, obs)
				}
			}
		}
		for i := 0; i < n; i++ {
			q := p.fork()
			switch prop {
			case "C04":
				// one rule firing several times whose actions are a sequence of assignments over the addressing grid
				g := &gen{p: q, ops: map[string]int{}}
				r := &Rule{Name: "R0", Desc: "assign", Sal: 0, When: mkBin("<", eVar(vPath("F", "I8")), cInt(int64(1+q.intn(3))))}
				k := 1 + q.intn(4)
				for j := 0; j < k; j++ {
					r.Then = append(r.Then, g.action()...)
				}
				var th []*Stmt
				for _, st := range r.Then {
					if st.Kind == "atom" && st.A.Kind == "func" && (st.A.F == "Retract" || st.A.F == "Complete") {
						continue
					}
					if st.Kind == "assign" && noSpace(st.X.grl()) == "F.I8" {
						continue
					}
					th = append(th, st)
				}
				r.Then = append(th, assign(vPath("F", "I8"), "=", mkBin("+", eVar(vPath("F", "I8")), cInt(1))))
				s := EngScenario{Rules: []*Rule{r}, Fact: genFact(q), N: int64(q.intn(3)), MaxCycle: 12, CancelAt: -1, Listeners: 1}
				s.Fact.I8 = int8(q.intn(2))
				var probeDst string
				var probeE *Expr
				if q.chance(1, 3) {
					// conversion probe: one assignment between numeric kinds, fired once
					probeDst = pick(q, []string{"I", "I16", "I32", "I64", "F32", "F64", "U16", "U32"})
					probeE = pick(q, []*Expr{g.floatExpr(1), eVar(g.floatVar()), g.intExpr(1), eVar(g.intVar())})
					if q.chance(1, 3) {
						// large magnitudes: integers above 2^53 with low bits set, stored across the signed / unsigned families
						// (every bit must arrive: no detour through float64)
						big := int64(1)<<uint(53+q.intn(9)) + int64(1+2*q.intn(500))
						s.Fact.U64, s.Fact.I64, s.Fact.U, s.Fact.I = uint64(big), big-2, uint(big+4), int(big+6)
						probeDst = pick(q, []string{"I64", "U64", "I", "U"})
						src := pick(q, []string{"U64", "I64", "U", "I"})
						probeE = pick(q, []*Expr{eVar(vPath("F", src)), mkBin("+", eVar(vPath("F", src)), cInt(int64(1+q.intn(3)))), mkBin("-", eVar(vPath("F", src)), cInt(int64(q.intn(3))))})
						rep.count("conversion probe, magnitude above 2^53")
					}
					r.When = cBool(true)
					r.Then = []*Stmt{assign(vPath("F", probeDst), "=", probeE), call(fn("Retract", cStr("R0")))}
				}
				obs, err := runEngScenario(s, true)
				if err != nil {
					return err
				}
				if obs.OracleMsg == "" {
					al := allowedChanges(r)
					for _, ch := range factDiff(s.Fact, obs.Fact, s.N, obs.N) {
						if !al[ch] {
							obs.OracleMsg = fmt.Sprintf("C04: %s changed although no action of the fired rule addresses it (assignment targets %v)", ch, keysOf(al))
						}
					}
					for _, st := range r.Then {
						if st.Kind == "assign" {
							rep.count("assign " + st.Op + " " + pathShape(st.X))
						}
					}
				}
				if obs.OracleMsg == "" && probeE != nil && obs.Outcome == "nil" {
					if want := nativeExpr(probeE, s.Fact, s.N); want.k == "int" || want.k == "float" {
						got := nativeVar(vPath("F", probeDst), obs.Fact, obs.N)
						var exp nval
						dstFloat := probeDst == "F32" || probeDst == "F64"
						switch {
						case dstFloat && want.k == "int":
							exp = nFloat(float64(want.i))
						case dstFloat:
							exp = nFloat(want.f)
							if probeDst == "F32" {
								exp = nFloat(float64(float32(want.f)))
							}
						case want.k == "float":
							exp = nInt(int64(math.Trunc(want.f))) // Go conversion: toward zero
						default:
							exp = nInt(want.i)
						}
						inRange := true
						if !dstFloat {
							lim := map[string]int64{"I": math.MaxInt64, "I16": math.MaxInt16, "I32": math.MaxInt32, "I64": math.MaxInt64, "U16": math.MaxUint16, "U32": math.MaxUint32, "U64": math.MaxInt64, "U": math.MaxInt64}[probeDst]
							lo := -lim - 1
							if probeDst[0] == 'U' {
								lo = 0
							}
							inRange = exp.i >= lo && exp.i <= lim && (want.k != "float" || math.Abs(want.f) < 1e15)
						}
						rep.count("conversion probe " + want.k + " -> " + probeDst)
						if inRange && (got.k != exp.k || got.i != exp.i || (got.f != exp.f && !(got.f != got.f && exp.f != exp.f))) {
							obs.OracleMsg = fmt.Sprintf("C04: F.%s = %s stored %+v, the value in range of the destination is %+v", probeDst, probeE.grl(), got, exp)
						}
					}
				}
				if obs.OracleMsg == "" && probeE == nil {
					// x op= e must behave as x = x op e
					r2 := &Rule{Name: r.Name, Desc: r.Desc, Sal: r.Sal, When: r.When}
					for _, st := range r.Then {
						if st.Kind == "assign" && st.Op != "=" {
							r2.Then = append(r2.Then, assign(st.X, "=", mkBin(st.Op[:1], eVar(st.X), st.E)))
						} else {
							r2.Then = append(r2.Then, st)
						}
					}
					s2 := s
					s2.Rules = []*Rule{r2}
					o2, err := runEngScenario(s2, false)
					if err == nil && (o2.Outcome != obs.Outcome || o2.Fact.dump() != obs.Fact.dump() || o2.N != obs.N) {
						obs.OracleMsg = fmt.Sprintf("C04: compound assignments differ from their expansion x = x op e: %s / %s vs %s / %s", obs.Outcome, obs.Fact.dump(), o2.Outcome, o2.Fact.dump())
					}
				}
				emit(s, obs)
			case "C05":
				// an expression assigned to a typed sink, in two renderings: same tree, same value
				g := &gen{p: q, ops: map[string]int{}}
				var e *Expr
				var sink *Var
				switch q.intn(6) {
				case 4, 5:
					// operator x kind x kind cell: two fields of arbitrary numeric kinds under one operator
					nums := []string{"I", "I8", "I16", "I32", "I64", "U", "U8", "U16", "U32", "U64", "F32", "F64"}
					l, r := pick(q, nums), pick(q, nums)
					op := pick(q, []string{"+", "-", "*", "/", "%", "&", "|", "<", "<=", ">", ">=", "==", "!="})
					isF := func(n string) bool { return n[0] == 'F' }
					if (op == "%" || op == "&" || op == "|") && (isF(l) || isF(r)) {
						op = "+"
					}
					e = mkBin(op, eVar(vPath("F", l)), eVar(vPath("F", r)))
					g.ops["cell "+op]++
					switch {
					case strings.ContainsAny(op, "<>=!"):
						sink = vPath("F", "B")
					case op == "/" || isF(l) || isF(r):
						sink = vPath("F", "F64")
					default:
						sink = vPath("F", "I64")
					}
				case 0:
					e, sink = g.intExpr(3), vPath("F", "I64")
				case 1:
					e, sink = g.floatExpr(3), vPath("F", "F64")
				case 2:
					e, sink = g.strExpr(2), vPath("F", "S")
				default:
					e, sink = g.boolExpr(3), vPath("F", "B")
				}
				for k, v := range g.ops {
					rep.Distribution["operator "+k] += v
				}
				r := &Rule{Name: "R0", Desc: "expr", Sal: 0, When: cBool(true), Then: []*Stmt{assign(sink, "=", e), call(fn("Retract", cStr("R0")))}}
				s := EngScenario{Rules: []*Rule{r}, Fact: genFact(q), N: int64(q.intn(3)), MaxCycle: 5, CancelAt: -1, Listeners: 1}
				obs, err := runEngScenario(s, true)
				if err != nil {
					return err
				}
				if obs.OracleMsg == "" && obs.Outcome == "nil" {
					if want := nativeExpr(e, s.Fact, s.N); want.k != "none" {
						got, ok := "", true
						switch want.k {
						case "int":
							got, ok = fmt.Sprintf("int %d", obs.Fact.I64), obs.Fact.I64 == want.i && sink.grl() == "F.I64"
						case "float":
							got, ok = fmt.Sprintf("float %v", obs.Fact.F64), (obs.Fact.F64 == want.f || (want.f != want.f && obs.Fact.F64 != obs.Fact.F64)) && sink.grl() == "F.F64"
						case "str":
							got, ok = fmt.Sprintf("string %q", obs.Fact.S), obs.Fact.S == want.s && sink.grl() == "F.S"
						case "bool":
							got, ok = fmt.Sprintf("bool %v", obs.Fact.B), obs.Fact.B == want.b && sink.grl() == "F.B"
						}
						rep.count("native oracle applied")
						if !ok {
							obs.OracleMsg = fmt.Sprintf("C05: %s evaluates to %s; the documented semantics give %+v", e.grl(), got, want)
						}
					}
				}
				if obs.OracleMsg == "" {
					// second rendering, run separately
					alt := rerender(q, s.grl())
					lib, err := buildRules(alt, "Eng")
					if err != nil {
						obs.OracleMsg = "C05: a re-rendering with other spacing / comments / keyword case is rejected: " + err.Error()
					} else {
						kb, _ := lib.NewKnowledgeBaseInstance("Eng", "1")
						f2 := s.Fact.clone()
						o2 := runEngOn(kb, s, f2, false, nil)
						if o2.Outcome != obs.Outcome || f2.dump() != obs.Fact.dump() {
							obs.OracleMsg = fmt.Sprintf("C05: two renderings of one expression give different results: %s vs %s\n%s", obs.Fact.dump(), f2.dump(), alt)
						}
					}
				}
				emit(s, obs)
				if q.chance(1, 5) {
					// operand order: `l + r` and `r + l` over strings in ONE knowledge base (two rules, two sinks); string
					// concatenation is not commutative, each occurrence is evaluated in its own order
					l, rr := g.strExpr(1), g.strExpr(1)
					ra := &Rule{Name: "R0", Desc: "l + r", Sal: 1, When: cBool(true), Then: []*Stmt{assign(vPath("F", "S"), "=", mkBin("+", l, rr)), call(fn("Retract", cStr("R0")))}}
					rb := &Rule{Name: "R1", Desc: "r + l", Sal: 0, When: cBool(true), Then: []*Stmt{assign(vSel(vPath("F", "SArr"), cInt(0)), "=", mkBin("+", rr, l)), call(fn("Retract", cStr("R1")))}}
					s2 := EngScenario{Rules: []*Rule{ra, rb}, Fact: genFact(q), N: int64(q.intn(3)), MaxCycle: 5, CancelAt: -1, Listeners: 1}
					o2, err := runEngScenario(s2, true)
					if err != nil {
						return err
					}
					if o2.OracleMsg == "" && o2.Outcome == "nil" {
						if w0 := nativeExpr(mkBin("+", l, rr), s2.Fact, s2.N); w0.k == "str" {
							mid := s2.Fact.clone()
							mid.S = w0.s
							if w1 := nativeExpr(mkBin("+", rr, l), mid, s2.N); w1.k == "str" && len(o2.Fact.SArr) > 0 {
								rep.count("operand-order pair (l + r, r + l in one knowledge base)")
								if o2.Fact.S != w0.s || o2.Fact.SArr[0] != w1.s {
									o2.OracleMsg = fmt.Sprintf("C05: in one knowledge base %s stores %q and %s stores %q; the documented semantics give %q and %q", mkBin("+", l, rr).grl(), o2.Fact.S, mkBin("+", rr, l).grl(), o2.Fact.SArr[0], w0.s, w1.s)
								}
							}
						}
					}
					emit(s2, o2)
				}
			case "C07":
				g := &gen{p: q, ops: map[string]int{}}
				r1 := g.rule(0, 2)
				fact := genFact(q)
				if fact.In == nil {
					fact.In = &Inner{S: "in"}
				}
				var sib *Expr
				switch q.intn(8) {
				case 0:
					// operand order of a string concatenation that holds for one order only
					a, b := g.strVar(), g.strVar()
					cat := mkBin("+", eVar(a), eVar(b))
					if v := nativeExpr(cat, fact, 0); v.k == "str" {
						r1.When = mkBin("==", cat, cStr(v.s))
						sib = mkBin("==", mkBin("+", eVar(b), eVar(a)), cStr(v.s))
					}
				case 1:
					// two float constants that differ in the last bit only, separated by the fact value
					x := g.floatVar()
					if v := nativeVar(x, fact, 0); v.k == "float" && v.f == v.f {
						op := pick(q, []string{"==", ">=", "<="})
						r1.When = mkBin(op, eVar(x), cFloat(v.f))
						sib = mkBin(op, eVar(x), cFloat(math.Nextafter(v.f, pick(q, []float64{1e300, -1e300}))))
					}
				}
				if sib == nil {
					sib = siblingOf(q, r1.When)
				}
				r2 := &Rule{Name: "R1", Desc: "sibling", Sal: r1.Sal, When: sib}
				r2.Then = []*Stmt{assign(vPath("F", "S"), "=", mkBin("+", eVar(vPath("F", "S")), cStr("2"))), call(fn("Retract", cStr("R1")))}
				r1.Then = []*Stmt{assign(vPath("F", "In", "S"), "=", mkBin("+", eVar(vPath("F", "In", "S")), cStr("1"))), call(fn("Retract", cStr("R0")))}
				if r1.When.grl() == r2.When.grl() {
					continue
				}
				rules := []*Rule{r1, r2}
				if q.chance(1, 2) {
					rules = []*Rule{r2, r1}
				}
				s := EngScenario{Rules: rules, Fact: fact, N: 0, MaxCycle: 6, CancelAt: -1, Listeners: 1}
				if q.chance(1, 2) {
					s.Split = []int{0, 1}
				}
				obs, err := runEngScenario(s, true)
				if err != nil {
					return err
				}
				if obs.OracleMsg == "" {
					together, _ := fetchNames(s.grl(), s.Fact, s.N)
					a1, _ := fetchNames(r1.grl(), s.Fact, s.N)
					a2, _ := fetchNames(r2.grl(), s.Fact, s.N)
					alone := append(append([]string{}, a1...), a2...)
					sort.Strings(alone)
					if strings.Join(together, ",") != strings.Join(alone, ",") {
						obs.OracleMsg = fmt.Sprintf("C07: built together the rules matching are %v, built alone %v\n%s", together, alone, s.grl())
					}
				}
				emit(s, obs)
			case "C08":
				// a history of calls on ONE instance; every call is compared with the model of a fresh run
				s0 := genEng(q, prop)
				if q.chance(2, 3) {
					distinctSaliences(q, s0.Rules) // no ties: the history can be compared with fresh instances on the implementation alone
				}
				lib, err := buildSplit(s0)
				if err != nil {
					return err
				}
				kb, err := lib.NewKnowledgeBaseInstance("Eng", "1")
				if err != nil {
					return err
				}
				snaps := map[string]string{}
				for k, e := range kb.RuleEntries {
					snaps[k] = e.GetSnapshot()
				}
				s0.Removed = nil
				calls := 2 + q.intn(4)
				fe := newFreshEval(s0)
				for c := 0; c < calls; c++ {
					s := s0
					s.Fact = genFact(q)
					s.N = int64(q.intn(3))
					s.MaxCycle = uint64(pick(q, []int{1, 2, 5, 25}))
					s.RetErr = q.chance(1, 4)
					s.CancelAt = -1
					if q.chance(1, 4) {
						s.CancelAt = q.intn(12)
					}
					fetchMsg := ""
					if q.chance(1, 3) {
						// a FetchMatchingRules call in between: on the used instance it must name the rules a fresh instance names
						names := func(k *ast.KnowledgeBase) (string, error) {
							dc := ast.NewDataContext()
							dc.Add("F", s.Fact.clone())
							dc.Add("N", s.N)
							res, err := (&engine.GruleEngine{MaxCycle: 5}).FetchMatchingRules(dc, k)
							var ns []string
							for _, e := range res {
								ns = append(ns, e.RuleName)
							}
							sort.Strings(ns)
							return strings.Join(ns, ","), err
						}
						got, gerr := names(kb)
						if fresh, err := lib.NewKnowledgeBaseInstance("Eng", "1"); err == nil {
							want, werr := names(fresh)
							if got != want || (gerr == nil) != (werr == nil) {
								fetchMsg = fmt.Sprintf("FetchMatchingRules before call %d of a history on one instance returns [%s] (err %v); on a fresh instance of the same knowledge base and the same facts [%s] (err %v)", c+1, got, gerr, want, werr)
							}
						}
						rep.count("history: fetch between executes (compared with a fresh instance)")
					}
					f := s.Fact.clone()
					obs := runEngOn(kb, s, f, s.CancelAt < 0, fe)
					obs.Snaps = snaps
					if fetchMsg != "" {
						obs.OracleMsg = fetchMsg
					}
					if obs.OracleMsg == "" && s.CancelAt < 0 {
						obs.OracleMsg = engProtocolOracle(s, obs)
					}
					if obs.OracleMsg == "" && len(obs.Inactive) > 0 && len(obs.Inactive[0]) > 0 {
						obs.OracleMsg = fmt.Sprintf("rules %v are still retracted when the call starts", obs.Inactive[0])
					}
					if obs.OracleMsg == "" && s.CancelAt < 0 && !s.RetErr && distinctSal(s0.Rules) {
						// the property itself, on the implementation alone: the same call on a fresh instance of the same
						// knowledge base (saliences pairwise distinct, so the firing order does not depend on map order; without
						// ReturnErrOnFailedRuleEvaluation, because with it the rule named by the error is the first failing one in
						// the evaluation order of the pass, which is map order)
						if fresh, err := lib.NewKnowledgeBaseInstance("Eng", "1"); err == nil {
							o2 := runEngOn(fresh, s, s.Fact.clone(), false, nil)
							if o2.Outcome != obs.Outcome || o2.Fact.dump() != obs.Fact.dump() || o2.N != obs.N {
								obs.OracleMsg = fmt.Sprintf("the reused instance ends %s with facts %s N=%d; a fresh instance of the same knowledge base on the same facts ends %s with facts %s N=%d",
									obs.Outcome, obs.Fact.dump(), obs.N, o2.Outcome, o2.Fact.dump(), o2.N)
							}
							rep.count("history: call compared with a fresh instance (distinct saliences)")
						}
					}
					if obs.OracleMsg != "" {
						obs.OracleMsg = fmt.Sprintf("C08 (call %d of a history on one instance): %s", c+1, obs.OracleMsg)
					}
					rep.count(fmt.Sprintf("history: call %d ends %s", c+1, strings.SplitN(obs.Outcome, ":", 2)[0]))
					emit(s, obs)
				}
			case "C13":
				// a counted method shared by k rules with arbitrary surroundings
				g := &gen{p: q, ops: map[string]int{}}
				s := genEng(q, prop)
				k := 1 + q.intn(3)
				shared := pick(q, []*Expr{method(aVar(vName("F")), "GetI64"), method(aVar(vName("F")), "Sum", eVar(vPath("F", "I64")), cInt(1))})
				for j := 0; j < k && j < len(s.Rules); j++ {
					s.Rules[j].When = mkBin("&&", mkBin(pick(q, []string{"<", "<=", ">=", "!="}), shared, cInt(int64(2+q.intn(4)))), eParen(false, s.Rules[j].When))
					if s.Rules[j].When.R.E.Kind != "bin" {
						s.Rules[j].When.R = s.Rules[j].When.R.E
					}
				}
				_ = g
				if usesGetI64(s.Rules) {
					for _, r := range s.Rules {
						var outp []*Stmt
						for _, st := range r.Then {
							if st.Kind == "atom" && st.A.Kind == "func" && st.A.F == "Forget" && len(st.A.Args) == 1 && st.A.Args[0].grl() == "\"F.GetI64()\"" {
								continue
							}
							outp = append(outp, st)
							if writesI64(st) {
								outp = append(outp, call(fn("Forget", cStr("F.GetI64()"))))
							}
						}
						r.Then = outp
					}
				}
				obs, err := runEngScenario(s, true)
				if err != nil {
					return err
				}
				if obs.OracleMsg == "" {
					obs.OracleMsg = c13Oracle(s, obs)
				}
				rep.count(fmt.Sprintf("shared method in %d rules", k))
				emit(s, obs)
			case "C14":
				s := genEng(q, prop)
				obs, err := runEngScenario(s, true)
				if err != nil {
					return err
				}
				emit(s, obs)
			}
		}
		rep.Cases = len(cases)
		rep.DistinctNontrivial = len(distinct)
		rep.Rule = variantRule[prop]
		if err := writeShards(out, "From Grule Require Import Base Values Syntax EngineGen EngineAbs MiniEngine Facts Eval Engine.", "eng_mismatches", "eng_case", cases, 16); err != nil {
			return err
		}
		return rep.write(out, index)
	}
}

var variantRule = map[string]string{
	"C04": "one rule with 1-4 random assignments (=, +=, -=, *=, /=) over struct fields of every numeric kind, nested pointer fields, slice elements, map entries, strings, bools and the top-level variable, sources of int/float/uint kinds (numeric conversion), run once; the whole fact is compared with the model and every changed location must be an assignment target; non-trivial = the rule fired; distinct by rule text and facts",
	"C05": "random well-typed expression trees (depth <= 3; all arithmetic, bitwise, comparison, logical, negation operators; int/uint/float widths, strings, bools, time; string and array/map functions, pure and variadic methods, Max/Min) assigned to a typed sink; value compared with the model; a second rendering (spacing, comments, keyword and boolean case) must give the same value; non-trivial = the rule fired; distinct by rule text and facts",
	"C07": "pairs of near-identical sibling rules (one constant digit / sign / string character, one operator, one negation, one selector or one argument differs), both build orders, one or two resources; Execute compared with the model, FetchMatchingRules alone vs together on the implementation; non-trivial = some rule fired",
	"C08": "histories of 2-5 Execute calls (fresh facts each, ending normally, by Complete, action error, cycle limit or cancellation, FetchMatchingRules calls in between) on ONE knowledge-base instance; every call is compared with the model of a run on a fresh instance; non-trivial = some rule fired",
	"C13": "random rule sets in which a counted method (F.GetI64() or F.Sum(F.I64, 1)) is put into the conditions of 1-3 rules; method call counters compared with the model and with the number of invalidation epochs of the observed run; non-trivial = some rule fired",
	"C14": "random rule sets with a faulty stream (missing fact, index / key out of range, kind mismatch, integer division by zero, panicking method, failing assignment at any action position, faults inside sub-expressions shared with healthy rules), both flag values; non-trivial = some rule fired",
}

func keysOf(m map[string]bool) []string {
	var k []string
	for x := range m {
		k = append(k, x)
	}
	sort.Strings(k)
	return k
}

func pathShape(v *Var) string {
	t := noSpace(v.grl())
	switch {
	case !strings.Contains(t, "."):
		return "top-level"
	case strings.Contains(t, "[\""):
		return "map entry"
	case strings.Contains(t, "["):
		return "slice element"
	case strings.HasPrefix(t, "F.In."):
		return "nested pointer field"
	case strings.HasPrefix(t, "F.Items["):
		return "field of a struct in a slice"
	case strings.HasPrefix(t, "F.Any."):
		return "field behind an interface-typed field"
	}
	return "struct field " + strings.TrimPrefix(t, "F.")
}

// C13: a shared pure method is evaluated at most once per invalidation epoch
type methAtom struct {
	text string
	name string
	vars []string // texts of the variables in its receiver and arguments
}

func collectMethAtoms(rs []*Rule) []methAtom {
	seen := map[string]bool{}
	var out []methAtom
	var we func(e *Expr)
	var wa func(a *Atom)
	var wv func(v *Var, acc *[]string)
	var varsA func(a *Atom, acc *[]string)
	var varsE func(e *Expr, acc *[]string)
	wv = func(v *Var, acc *[]string) {
		if v == nil {
			return
		}
		*acc = append(*acc, noSpace(v.grl()))
		wv(v.V, acc)
		if v.Sel != nil {
			varsE(v.Sel, acc)
		}
	}
	varsA = func(a *Atom, acc *[]string) {
		if a == nil {
			return
		}
		if a.V != nil {
			wv(a.V, acc)
		}
		varsA(a.A, acc)
		for _, x := range a.Args {
			varsE(x, acc)
		}
		if a.Sel != nil {
			varsE(a.Sel, acc)
		}
	}
	varsE = func(e *Expr, acc *[]string) {
		if e == nil {
			return
		}
		varsA(e.A, acc)
		varsE(e.E, acc)
		varsE(e.L, acc)
		varsE(e.R, acc)
	}
	wa = func(a *Atom) {
		if a == nil {
			return
		}
		if a.Kind == "method" && noSpace(a.A.grl()) == "F" && (a.F == "GetI64" || a.F == "Sum" || a.F == "Concat" || a.F == "IsPos") {
			t := noSpace(a.grl())
			if !seen[t] {
				seen[t] = true
				m := methAtom{text: t, name: a.F}
				varsA(a, &m.vars)
				out = append(out, m)
			}
		}
		wa(a.A)
		for _, x := range a.Args {
			we(x)
		}
		if a.Sel != nil {
			we(a.Sel)
		}
		if a.V != nil && a.V.Sel != nil {
			we(a.V.Sel)
		}
	}
	we = func(e *Expr) {
		if e == nil {
			return
		}
		wa(e.A)
		we(e.E)
		we(e.L)
		we(e.R)
	}
	for _, r := range rs {
		we(r.When)
		for _, st := range r.Then {
			if st.Kind == "assign" {
				we(st.E)
			}
		}
	}
	return out
}

// container and selector of an element variable text C[sel] (outermost trailing bracket), ok=false for anything else
func splitElem(t string) (string, string, bool) {
	if !strings.HasSuffix(t, "]") {
		return "", "", false
	}
	depth := 0
	for i := len(t) - 1; i >= 0; i-- {
		switch t[i] {
		case ']':
			depth++
		case '[':
			depth--
			if depth == 0 {
				return t[:i], t[i+1 : len(t)-1], true
			}
		}
	}
	return "", "", false
}

func literalSel(sel string) bool {
	if sel == "" {
		return false
	}
	if sel[0] == '"' || sel[0] == '\'' {
		return true
	}
	for _, c := range sel {
		if !(c >= '0' && c <= '9') && c != '-' {
			return false
		}
	}
	return true
}

// an assignment to the element tgt also concerns the element variable v of the same container when their selectors may
// denote the same element: any pair except two different literals (the engine's ResetElement)
func mayAliasText(tgt, v string) bool {
	c1, s1, ok1 := splitElem(tgt)
	c2, s2, ok2 := splitElem(v)
	if !ok1 || !ok2 || c1 != c2 || tgt == v {
		return false
	}
	return !(literalSel(s1) && literalSel(s2))
}

func c13Oracle(s EngScenario, obs EngObs) string {
	rule := map[string]*Rule{}
	for _, r := range s.Rules {
		rule[r.Name] = r
	}
	atoms := collectMethAtoms(s.Rules)
	bound := map[string]int64{}
	for _, a := range atoms {
		epochs := int64(1)
		for _, e := range obs.Events {
			if e.Kind != "X" {
				continue
			}
			// one epoch per invalidating *statement* of the executed rule (the bound of the theorem C13_run: the call may be
			// evaluated again between two invalidating statements of one action list)
			for _, st := range rule[e.Rule].Then {
				inval := false
				t := noSpace(st.grl())
				if strings.Contains(t, "Forget(") || strings.Contains(t, "Changed(") || (st.Kind == "atom" && st.A.Kind == "method" && (st.A.F == "AddTo" || st.A.F == "Inc")) {
					inval = true
				}
				if st.Kind == "assign" {
					tgt := noSpace(st.X.grl())
					for _, v := range a.vars {
						if v == tgt || strings.HasPrefix(v, tgt+".") || strings.HasPrefix(v, tgt+"[") || (a.name == "GetI64" && tgt == "F.I64") || mayAliasText(tgt, v) {
							inval = true
						}
					}
				}
				if inval {
					epochs++
				}
			}
		}
		bound[a.name] += epochs
	}
	for m, b := range bound {
		if obs.Calls[m] > b {
			return fmt.Sprintf("C13: method %s ran %d times in one Execute although its %d distinct call texts see at most %d invalidation epochs in total", m, obs.Calls[m], len(atoms), b)
		}
	}
	return ""
}

func replayEngAny(prop string) func(path string) (bool, string, error) {
	return func(path string) (bool, string, error) {
		b, err := os.ReadFile(path)
		if err != nil {
			return false, "", err
		}
		var jp struct {
			Scenario jsonProbe `json:"scenario"`
		}
		if json.Unmarshal(b, &jp) == nil && jp.Scenario.Kind == "jsonprobe" {
			msg := runJSONProbe(jp.Scenario)
			return msg != "", msg + "\n" + jp.Scenario.Doc + "\n" + jp.Scenario.Stmt, nil
		}
		var rp struct {
			What     string     `json:"what"`
			Scenario engCaseRec `json:"scenario"`
		}
		if err := json.Unmarshal(b, &rp); err != nil {
			return false, "", err
		}
		s := rp.Scenario.Scenario
		for i := 0; i < 10; i++ {
			obs, err := runEngScenario(s, true)
			if err != nil {
				return false, "", err
			}
			if obs.OracleMsg == "" && prop == "C13" {
				obs.OracleMsg = c13Oracle(s, obs)
			}
			if obs.OracleMsg == "" && prop == "C04" && len(s.Rules) == 1 {
				al := allowedChanges(s.Rules[0])
				for _, ch := range factDiff(s.Fact, obs.Fact, s.N, obs.N) {
					if !al[ch] {
						obs.OracleMsg = "C04: " + ch + " changed although no action addresses it"
					}
				}
			}
			if obs.OracleMsg != "" {
				return true, obs.OracleMsg + "\n" + s.grl(), nil
			}
		}
		return false, "(history- and rendering-dependent oracles are re-run by the check itself)\n" + s.grl(), nil
	}
}

func init() {
	for _, p := range []string{"C04", "C05", "C07", "C08", "C13", "C14"} {
		runners[p] = runEngVariant(p)
		replayers[p] = replayEngAny(p)
	}
}
