package main

import (
	"encoding/json"
	"os"
	"path/filepath"
)

// OracleFailure is a violation of the property observed directly on the
// implementation (no model involved).  Scenario is enough to replay it.
type OracleFailure struct {
	What     string      `json:"what"`
	Scenario interface{} `json:"scenario"`
	Key      string      `json:"key,omitempty"` // set for the fixed regression scenarios (regress.go)
}

type Report struct {
	Property           string           `json:"property"`
	Seed               uint64           `json:"seed"`
	Tier               string           `json:"tier"`
	Evaluations        int              `json:"evaluations"`
	DistinctNontrivial int              `json:"distinct_nontrivial"`
	Rule               string           `json:"rule"`
	Samples            []interface{}    `json:"samples"`
	Distribution       map[string]int   `json:"distribution"`
	OracleFailures     []OracleFailure  `json:"oracle_failures"`
	KnownFindings      []string         `json:"known_findings"`
	Cases              int              `json:"cases"`
	Exhaustive         bool             `json:"exhaustive"`
	Notes              []string         `json:"notes"`
	Extra              map[string]interface{} `json:"extra,omitempty"`
}

func newReport(prop string, seed uint64, tier string) *Report {
	return &Report{Property: prop, Seed: seed, Tier: tier, Distribution: map[string]int{}, Extra: map[string]interface{}{}}
}

func (r *Report) count(key string) { r.Distribution[key]++ }

func (r *Report) fail(what string, scenario interface{}) {
	if len(r.OracleFailures) < 50 {
		r.OracleFailures = append(r.OracleFailures, OracleFailure{What: what, Scenario: scenario})
	}
}

func (r *Report) failKey(key, what string, scenario interface{}) {
	r.OracleFailures = append(r.OracleFailures, OracleFailure{What: what, Scenario: scenario, Key: key})
}

func (r *Report) sample(s interface{}) {
	if len(r.Samples) < 5 {
		r.Samples = append(r.Samples, s)
	}
}

func (r *Report) write(dir string, caseIndex []interface{}) error {
	os.MkdirAll(dir, 0o755)
	b, err := json.MarshalIndent(r, "", " ")
	if err != nil {
		return err
	}
	if err := os.WriteFile(filepath.Join(dir, "report.json"), b, 0o644); err != nil {
		return err
	}
	cb, err := json.Marshal(caseIndex)
	if err != nil {
		return err
	}
	return os.WriteFile(filepath.Join(dir, "cases.json"), cb, 0o644)
}
