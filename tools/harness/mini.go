package main

// Mini-engine harness: generated rule sets over integer counters run on the
// real GruleEngine with a call-counting context and a recording listener; the
// same scenarios are evaluated by coq/model/MiniEngine.v (EngineAbs
// instantiated).  Serves C03, C06, C10, C11, C14, C15.

import (
	"context"
	"encoding/json"
	"errors"
	"fmt"
	"os"
	"sort"
	"strings"

	"github.com/hyperjumptech/grule-rule-engine/ast"
	"github.com/hyperjumptech/grule-rule-engine/builder"
	"github.com/hyperjumptech/grule-rule-engine/engine"
	"github.com/hyperjumptech/grule-rule-engine/pkg"
)

// ---- the mini rule language ----
type MCond struct {
	Op string  `json:"op"` // lt ge eq true false err panic nonbool and or not
	I  int     `json:"i,omitempty"`
	K  int64   `json:"k,omitempty"`
	A  *MCond  `json:"a,omitempty"`
	B  *MCond  `json:"b,omitempty"`
}

type MAct struct {
	Op string `json:"op"` // inc set retract complete fail boom
	I  int    `json:"i,omitempty"`
	K  int64  `json:"k,omitempty"`
	N  string `json:"n,omitempty"`
}

type MRule struct {
	Name    string `json:"name"`
	Sal     int64  `json:"sal"`
	Cond    MCond  `json:"cond"`
	Acts    []MAct `json:"acts"`
	Removed bool   `json:"removed,omitempty"` // RemoveRuleEntry on the instance before the call
}

type MiniScenario struct {
	Rules    []MRule `json:"rules"`
	Counters []int64 `json:"counters"`
	MaxCycle uint64  `json:"max_cycle"`
	RetErr   bool    `json:"ret_err"`
	CancelAt int     `json:"cancel_at"` // index of the first ctx.Err() call that reports cancellation; -1 none
	Listeners int    `json:"listeners"`
}

const nCounters = 6

type MiniFact struct {
	C0, C1, C2, C3, C4, C5 int64
}

func (f *MiniFact) get() []int64 { return []int64{f.C0, f.C1, f.C2, f.C3, f.C4, f.C5} }
func (f *MiniFact) set(v []int64) {
	f.C0, f.C1, f.C2, f.C3, f.C4, f.C5 = v[0], v[1], v[2], v[3], v[4], v[5]
}
func (f *MiniFact) Boom() bool     { panic("boom") }
func (f *MiniFact) Fail() (bool, error) { return false, errors.New("fail") }

// counter i of the model: F.C<i> for i < nCounters, the top-level data-context variable T for i == nCounters
func cname(i int) string {
	if i == nCounters {
		return "T"
	}
	return fmt.Sprintf("F.C%d", i)
}

func (c MCond) grl() string {
	switch c.Op {
	case "lt":
		return fmt.Sprintf("%s < %d", cname(c.I), c.K)
	case "ge":
		return fmt.Sprintf("%s >= %d", cname(c.I), c.K)
	case "eq":
		return fmt.Sprintf("%s == %d", cname(c.I), c.K)
	case "true":
		return "true"
	case "false":
		return "false"
	case "err":
		return "Nope.X == 1"
	case "panic":
		return "F.Boom()"
	case "nonbool":
		return "F.C0 + 1"
	case "and":
		return "(" + c.A.grl() + ") && (" + c.B.grl() + ")"
	case "or":
		return "(" + c.A.grl() + ") || (" + c.B.grl() + ")"
	case "not":
		return "!(" + c.A.grl() + ")"
	}
	return "true"
}

func (c MCond) gallina() string {
	switch c.Op {
	case "lt":
		return fmt.Sprintf("(MLt %d %s)", c.I, gZ(c.K))
	case "ge":
		return fmt.Sprintf("(MGe %d %s)", c.I, gZ(c.K))
	case "eq":
		return fmt.Sprintf("(MEq %d %s)", c.I, gZ(c.K))
	case "true":
		return "MTrue"
	case "false":
		return "MFalse"
	case "err":
		return "MErr"
	case "panic":
		return "MPanic"
	case "nonbool":
		return "MNonBool"
	case "and":
		return "(MAnd " + c.A.gallina() + " " + c.B.gallina() + ")"
	case "or":
		return "(MOr " + c.A.gallina() + " " + c.B.gallina() + ")"
	case "not":
		return "(MNot " + c.A.gallina() + ")"
	}
	return "MTrue"
}

// Go-side evaluation (independent oracle): ok=false means error
func (c MCond) eval(u []int64) (val bool, ok bool) {
	switch c.Op {
	case "lt":
		return u[c.I] < c.K, true
	case "ge":
		return u[c.I] >= c.K, true
	case "eq":
		return u[c.I] == c.K, true
	case "true":
		return true, true
	case "false":
		return false, true
	case "and":
		a, ok := c.A.eval(u)
		if !ok {
			return false, false
		}
		if !a {
			return false, true
		}
		return c.B.eval(u)
	case "or":
		a, ok := c.A.eval(u)
		if !ok {
			return false, false
		}
		if a {
			return true, true
		}
		return c.B.eval(u)
	case "not":
		a, ok := c.A.eval(u)
		return !a, ok
	}
	return false, false
}

func (a MAct) grl() string {
	switch a.Op {
	case "inc":
		return fmt.Sprintf("%s = %s + 1;", cname(a.I), cname(a.I))
	case "set":
		return fmt.Sprintf("%s = %d;", cname(a.I), a.K)
	case "retract":
		return fmt.Sprintf("Retract(\"%s\");", a.N)
	case "complete":
		return "Complete();"
	case "fail":
		return "F.Missing = 1;"
	case "boom":
		return "F.C0 = F.Boom();"
	}
	return ""
}

func (a MAct) gallina() string {
	switch a.Op {
	case "inc":
		return fmt.Sprintf("(MInc %d)", a.I)
	case "set":
		return fmt.Sprintf("(MSet %d %s)", a.I, gZ(a.K))
	case "retract":
		return "(MRetract " + gStr(a.N) + ")"
	case "complete":
		return "MComplete"
	case "fail":
		return "MFail"
	case "boom":
		return "MBoom"
	}
	return "MFail"
}

func (s MiniScenario) grl() string {
	var b strings.Builder
	for _, r := range s.Rules {
		fmt.Fprintf(&b, "rule %s \"%s\" salience %d {\n  when %s\n  then\n", r.Name, "mini "+r.Name, r.Sal, r.Cond.grl())
		for _, a := range r.Acts {
			b.WriteString("    " + a.grl() + "\n")
		}
		b.WriteString("}\n")
	}
	return b.String()
}

// ---- running on the implementation ----
type cctx struct {
	context.Context
	calls    *int
	cancelAt int
	log      *[]string
}

func (c cctx) Err() error {
	i := *c.calls
	*c.calls = i + 1
	if c.cancelAt >= 0 && i >= c.cancelAt {
		// every failing check is followed by one more call that fetches the error to return or wrap:
		// only the checks are logged
		if (i-c.cancelAt)%2 == 0 {
			*c.log = append(*c.log, "e")
		}
		return context.Canceled
	}
	*c.log = append(*c.log, "E")
	return nil
}

type recListener struct {
	log  *[]string
	id   int
	fact *MiniFact
	kb   *ast.KnowledgeBase
}

func (l *recListener) BeginCycle(ctx context.Context, cycle uint64) {
	*l.log = append(*l.log, fmt.Sprintf("%dB %d", l.id, cycle))
	if l.id == 0 && l.kb != nil {
		// which entries will be skipped by this pass (read before the engine ranges over the map)
		var in []string
		for _, e := range l.kb.RuleEntries {
			if e.Retracted && !e.Deleted {
				in = append(in, e.RuleName)
			}
		}
		sort.Strings(in)
		*l.log = append(*l.log, "0I "+strings.Join(in, ","))
	}
}
func (l *recListener) EvaluateRuleEntry(ctx context.Context, cycle uint64, entry *ast.RuleEntry, candidate bool) {
	*l.log = append(*l.log, fmt.Sprintf("%dV %d %s %v", l.id, cycle, entry.RuleName, candidate))
}
func (l *recListener) ExecuteRuleEntry(ctx context.Context, cycle uint64, entry *ast.RuleEntry) {
	*l.log = append(*l.log, fmt.Sprintf("%dX %d %s", l.id, cycle, entry.RuleName))
}

type MiniEvent struct {
	Kind  string `json:"k"` // B V X
	Cycle uint64 `json:"c"`
	Rule  string `json:"r,omitempty"`
	Can   bool   `json:"can,omitempty"`
	Chk   int    `json:"chk,omitempty"` // number of ctx.Err() calls made before this callback
}

type MiniObs struct {
	Events    []MiniEvent `json:"events"`
	Outcome   string      `json:"outcome"` // nil cyclelimit ctx conderr:<rule> acterr:<rule> other:<msg> panic
	Counters  []int64     `json:"counters"`
	Orders    [][]string  `json:"orders"`   // per pass: keys in iteration order
	Inactive  [][]string  `json:"inactive"` // per pass: retracted rule names at the start of the pass
	ErrCalls  int         `json:"err_calls"`
	RawLog    []string    `json:"-"`
	ListenersAgree bool   `json:"listeners_agree"`
}

func buildMini(s MiniScenario) (*ast.KnowledgeBase, error) {
	lib := ast.NewKnowledgeLibrary()
	rb := builder.NewRuleBuilder(lib)
	if err := rb.BuildRuleFromResource("Mini", "1", pkg.NewBytesResource([]byte(s.grl()))); err != nil {
		return nil, fmt.Errorf("build: %v\n%s", err, s.grl())
	}
	kb, err := lib.NewKnowledgeBaseInstance("Mini", "1")
	if err != nil {
		return nil, err
	}
	for _, r := range s.Rules {
		if r.Removed {
			kb.RemoveRuleEntry(r.Name)
		}
	}
	return kb, nil
}

func classifyErr(err error, s MiniScenario) string {
	if err == nil {
		return "nil"
	}
	if errors.Is(err, context.Canceled) {
		return "ctx"
	}
	msg := err.Error()
	if strings.HasPrefix(msg, "the GruleEngine successfully selected rule candidate") {
		return "cyclelimit"
	}
	name := ""
	for _, r := range s.Rules {
		if strings.Contains(msg, "rule "+r.Name+" ") || strings.Contains(msg, "rule '"+r.Name+"'") || strings.Contains(msg, "rule "+r.Name+".") {
			if len(r.Name) > len(name) {
				name = r.Name
			}
		}
	}
	if strings.HasPrefix(msg, "error while executing rule") {
		return "acterr:" + name
	}
	if strings.Contains(msg, "evaluating") {
		return "conderr:" + name
	}
	return "other:" + msg
}

func runMiniOn(kb *ast.KnowledgeBase, s MiniScenario, fact *MiniFact, topT int64) (obs MiniObs) {
	var log []string
	calls := 0
	ctx := cctx{Context: context.Background(), calls: &calls, cancelAt: s.CancelAt, log: &log}
	eng := &engine.GruleEngine{MaxCycle: s.MaxCycle, ReturnErrOnFailedRuleEvaluation: s.RetErr}
	for i := 0; i < s.Listeners; i++ {
		eng.Listeners = append(eng.Listeners, &recListener{log: &log, id: i, fact: fact, kb: kb})
	}
	dc := ast.NewDataContext()
	if err := dc.Add("F", fact); err != nil {
		obs.Outcome = "other:" + err.Error()
		return
	}
	dc.Add("T", topT)
	func() {
		defer func() {
			if r := recover(); r != nil {
				obs.Outcome = fmt.Sprintf("panic:%v", r)
			}
		}()
		err := eng.ExecuteWithContext(ctx, dc, kb)
		obs.Outcome = classifyErr(err, s)
	}()
	obs.Counters = fact.get()
	if tn := dc.Get("T"); tn != nil && tn.Value().CanInt() {
		obs.Counters = append(obs.Counters, tn.Value().Int())
	} else {
		obs.Counters = append(obs.Counters, -999)
	}
	obs.ErrCalls = calls
	obs.RawLog = log
	po := parseLog(log, s, obs.Outcome)
	obs.Events, obs.Orders, obs.Inactive, obs.ListenersAgree = po.Events, po.Orders, po.Inactive, po.ListenersAgree
	return
}

// parseLog turns the interleaved log of ctx.Err() calls and listener callbacks into events and
// per-pass iteration orders
func parseLog(log []string, s MiniScenario, outcome string) (obs MiniObs) {
	obs.Outcome = outcome
	// listener 0 is the reference; the others must have seen the same sequence
	obs.ListenersAgree = true
	per := make([][]string, s.Listeners)
	for _, l := range log {
		if l == "E" || l == "e" {
			continue
		}
		id := int(l[0] - '0')
		if strings.HasPrefix(l[1:], "I") {
			continue
		}
		per[id] = append(per[id], l[1:])
	}
	for i := 1; i < s.Listeners; i++ {
		if strings.Join(per[i], "|") != strings.Join(per[0], "|") {
			obs.ListenersAgree = false
		}
	}
	// events + per-pass iteration order (skipped entries are those met by a lone loop check)
	active := func() map[string]bool { return map[string]bool{} }
	_ = active
	var cur []string       // keys of the current pass in order; "" marks a skipped entry
	pendingE := 0    // passing checks since the last callback
	pendingFail := 0 // failing checks since the last callback
	totalE := 0
	inPass := false
	flush := func() {
		if inPass {
			obs.Orders = append(obs.Orders, cur)
		}
		cur = nil
	}
	for _, l := range log {
		if l == "E" || l == "e" {
			if l == "E" {
				pendingE++
			} else {
				pendingFail++
			}
			totalE++
			continue
		}
		if l[0] != '0' {
			continue
		}
		f := strings.Fields(l[1:])
		var c uint64
		if f[0] != "I" {
			fmt.Sscanf(f[1], "%d", &c)
		}
		switch f[0] {
		case "I":
			var in []string
			if len(f) > 1 {
				in = strings.Split(f[1], ",")
			}
			obs.Inactive = append(obs.Inactive, in)
			continue
		case "B":
			flush()
			inPass = true
			pendingE, pendingFail = 0, 0
			obs.Events = append(obs.Events, MiniEvent{Kind: "B", Cycle: c})
		case "V":
			// the last two checks belong to this rule, earlier ones to skipped entries
			for i := 0; i < pendingE+pendingFail-2; i++ {
				cur = append(cur, "")
			}
			pendingE, pendingFail = 0, 0
			cur = append(cur, f[2])
			obs.Events = append(obs.Events, MiniEvent{Kind: "V", Cycle: c, Rule: f[2], Can: f[3] == "true", Chk: totalE})
		case "X":
			for i := 0; i < pendingE; i++ {
				cur = append(cur, "")
			}
			pendingE, pendingFail = 0, 0
			obs.Events = append(obs.Events, MiniEvent{Kind: "X", Cycle: c, Rule: f[2], Chk: totalE})
		}
	}
	// trailing checks of the last pass
	if inPass {
		trailing := pendingE
		switch {
		case obs.Outcome == "nil":
			trailing-- // the check on the exit path
		case strings.HasPrefix(obs.Outcome, "conderr:"):
			trailing -= 2 // loop check and Evaluate check of the failing rule
		}
		hasX := false
		for i := len(obs.Events) - 1; i >= 0 && obs.Events[i].Kind != "B"; i-- {
			if obs.Events[i].Kind == "X" {
				hasX = true
			}
		}
		if !hasX {
			for i := 0; i < trailing; i++ {
				cur = append(cur, "")
			}
			if strings.HasPrefix(obs.Outcome, "conderr:") {
				cur = append(cur, obs.Outcome[8:])
			}
		}
	}
	flush()
	return
}

func (s MiniScenario) gallinaCase(id int, obs MiniObs, inactiveFirst func(pass int) []string) string {
	var rules, entries []string
	for _, r := range s.Rules {
		var acts []string
		for _, a := range r.Acts {
			acts = append(acts, a.gallina())
		}
		rules = append(rules, fmt.Sprintf("{| mr_key := %s; mr_cond := %s; mr_acts := %s |}", gStr(r.Name), r.Cond.gallina(), gList(acts)))
		name := r.Name
		if r.Removed {
			name = "Deleted_" + r.Name
		}
		entries = append(entries, fmt.Sprintf("{| e_key := %s; e_name := %s; e_sal := %s; e_retracted := false; e_deleted := %s |}",
			gStr(r.Name), gStr(name), gZ(r.Sal), gBool(r.Removed)))
	}
	var cs []string
	for _, c := range s.Counters {
		cs = append(cs, gZ(c))
	}
	cancel := "None"
	if s.CancelAt >= 0 {
		cancel = fmt.Sprintf("(Some %d%%nat)", s.CancelAt)
	}
	var orders []string
	for _, pass := range obs.Orders {
		var ks []string
		for _, k := range pass {
			if k == "" {
				ks = append(ks, "None")
			} else {
				ks = append(ks, "Some "+gStr(k))
			}
		}
		orders = append(orders, gList(ks))
	}
	var evs []string
	for _, e := range obs.Events {
		switch e.Kind {
		case "B":
			evs = append(evs, fmt.Sprintf("EvBegin %d", e.Cycle))
		case "V":
			evs = append(evs, fmt.Sprintf("EvEval %d %s %s", e.Cycle, gStr(e.Rule), gBool(e.Can)))
		case "X":
			evs = append(evs, fmt.Sprintf("EvExec %d %s", e.Cycle, gStr(e.Rule)))
		}
	}
	var oc []string
	for _, c := range obs.Counters {
		oc = append(oc, gZ(c))
	}
	out := "BOther"
	switch {
	case obs.Outcome == "nil":
		out = "BNil"
	case obs.Outcome == "cyclelimit":
		out = "BCycleLimit"
	case obs.Outcome == "ctx":
		out = "BCtx"
	case strings.HasPrefix(obs.Outcome, "conderr:"):
		out = "(BCondErr " + gStr(obs.Outcome[8:]) + ")"
	case strings.HasPrefix(obs.Outcome, "acterr:"):
		out = "(BActErr " + gStr(obs.Outcome[7:]) + ")"
	}
	return fmt.Sprintf("{| mc_id := %d; mc_rules := %s; mc_entries := %s; mc_counters := %s;\n   mc_config := {| c_max := %d; c_reterr := %s; c_cancel := %s |};\n   mc_orders := %s;\n   mc_obs_events := %s; mc_obs_outcome := %s; mc_obs_counters := %s |}",
		id, gList(rules), gList(entries), gList(cs), s.MaxCycle, gBool(s.RetErr), cancel, gList(orders), gList(evs), out, gList(oc))
}

// ---- generation ----
func genMCond(p *prng, depth int, faulty bool) MCond {
	if depth > 0 && p.chance(1, 4) {
		a := genMCond(p, depth-1, faulty)
		b := genMCond(p, depth-1, faulty)
		switch p.intn(3) {
		case 0:
			return MCond{Op: "and", A: &a, B: &b}
		case 1:
			return MCond{Op: "or", A: &a, B: &b}
		default:
			return MCond{Op: "not", A: &a}
		}
	}
	if faulty && p.chance(1, 6) {
		return MCond{Op: pick(p, []string{"err", "panic", "nonbool"})}
	}
	switch p.intn(10) {
	case 0:
		return MCond{Op: "true"}
	case 1:
		return MCond{Op: "false"}
	case 2, 3:
		return MCond{Op: "ge", I: p.intn(nCounters + 1), K: int64(p.intn(5))}
	case 4:
		return MCond{Op: "eq", I: p.intn(nCounters + 1), K: int64(p.intn(4))}
	default:
		return MCond{Op: "lt", I: p.intn(nCounters + 1), K: int64(1 + p.intn(5))}
	}
}

func genMini(p *prng, prop string) MiniScenario {
	n := 1 + p.intn(6)
	if prop == "C03" && n < 2 {
		n = 2 + p.intn(5)
	}
	sals := []int64{0, 0, 0, 1, -1, 7, -7, 2147483647, -2147483648, 10, 10}
	var s MiniScenario
	faulty := prop == "C14" || p.chance(1, 4)
	names := []string{}
	for i := 0; i < n; i++ {
		names = append(names, fmt.Sprintf("R%d", i))
	}
	for i := 0; i < n; i++ {
		r := MRule{Name: names[i], Sal: pick(p, sals), Cond: genMCond(p, 2, faulty)}
		// most rules make progress towards their own threshold so that flags flip during the run
		if (r.Cond.Op == "lt" || r.Cond.Op == "eq") && p.chance(4, 5) {
			r.Acts = append(r.Acts, MAct{Op: "inc", I: r.Cond.I})
		}
		na := p.intn(3)
		for j := 0; j < na; j++ {
			switch p.intn(12) {
			case 0, 1, 2:
				r.Acts = append(r.Acts, MAct{Op: "inc", I: p.intn(nCounters + 1)})
			case 3:
				r.Acts = append(r.Acts, MAct{Op: "set", I: p.intn(nCounters + 1), K: int64(p.intn(4))})
			case 4, 5:
				tgt := names[p.intn(n)]
				if p.chance(1, 8) {
					tgt = "Unknown"
				}
				r.Acts = append(r.Acts, MAct{Op: "retract", N: tgt})
			case 6:
				if prop == "C10" || p.chance(1, 3) {
					r.Acts = append(r.Acts, MAct{Op: "complete"})
				}
			case 7:
				if faulty {
					r.Acts = append(r.Acts, MAct{Op: pick(p, []string{"fail", "boom"})})
				}
			default:
				r.Acts = append(r.Acts, MAct{Op: "inc", I: p.intn(nCounters + 1)})
			}
		}
		if (prop == "C10") && p.chance(1, 2) {
			pos := p.intn(len(r.Acts) + 1)
			a := MAct{Op: "retract", N: names[p.intn(n)]}
			if p.chance(1, 3) {
				a = MAct{Op: "complete"}
			}
			r.Acts = append(r.Acts[:pos], append([]MAct{a}, r.Acts[pos:]...)...)
		}
		if len(r.Acts) == 0 {
			r.Acts = append(r.Acts, MAct{Op: "retract", N: r.Name})
		}
		if p.chance(1, 10) {
			r.Removed = true
		}
		s.Rules = append(s.Rules, r)
	}
	s.Counters = make([]int64, nCounters+1)
	for i := range s.Counters {
		s.Counters[i] = int64(p.intn(3))
	}
	s.MaxCycle = uint64(pick(p, []int{0, 1, 2, 3, 5, 8, 20, 20, 20, 50}))
	s.RetErr = p.chance(1, 3)
	s.CancelAt = -1
	s.Listeners = pick(p, []int{1, 1, 1, 2, 3})
	return s
}

type miniCaseRec struct {
	Scenario MiniScenario `json:"scenario"`
	Obs      MiniObs      `json:"obs"`
}

// ---- direct oracles on the implementation's own observations ----
func miniOracle(prop string, s MiniScenario, obs MiniObs) string {
	if strings.HasPrefix(obs.Outcome, "panic:") {
		return "a panic escaped ExecuteWithContext: " + obs.Outcome
	}
	if !obs.ListenersAgree {
		return "registered listeners did not receive the same callback sequence"
	}
	sal := map[string]int64{}
	rule := map[string]MRule{}
	for _, r := range s.Rules {
		sal[r.Name] = r.Sal
		rule[r.Name] = r
	}
	// shadow state: replay of the observed firings
	u := append([]int64{}, s.Counters...)
	retracted := map[string]bool{}
	completed := false
	type pass struct {
		begin uint64
		evals []MiniEvent
		exec  *MiniEvent
	}
	var passes []pass
	for i := range obs.Events {
		e := obs.Events[i]
		switch e.Kind {
		case "B":
			passes = append(passes, pass{begin: e.Cycle})
		case "V":
			if len(passes) == 0 {
				return "EvaluateRuleEntry before any BeginCycle"
			}
			passes[len(passes)-1].evals = append(passes[len(passes)-1].evals, e)
		case "X":
			if len(passes) == 0 {
				return "ExecuteRuleEntry before any BeginCycle"
			}
			if passes[len(passes)-1].exec != nil {
				return fmt.Sprintf("two rules executed in cycle %d", e.Cycle)
			}
			passes[len(passes)-1].exec = &obs.Events[i]
		}
	}
	fired := 0
	cancelled := s.CancelAt >= 0
	for pi, ps := range passes {
		last := pi == len(passes)-1
		if ps.begin != uint64(pi+1) {
			return fmt.Sprintf("cycles are not numbered consecutively from 1: pass %d announced as %d", pi+1, ps.begin)
		}
		seen := map[string]bool{}
		var cands []string
		for _, v := range ps.evals {
			if v.Cycle != ps.begin {
				return fmt.Sprintf("evaluation of %s reported for cycle %d inside cycle %d", v.Rule, v.Cycle, ps.begin)
			}
			if seen[v.Rule] {
				return fmt.Sprintf("rule %s evaluated twice in cycle %d", v.Rule, ps.begin)
			}
			seen[v.Rule] = true
			r, ok := rule[v.Rule]
			if !ok || r.Removed {
				return fmt.Sprintf("removed or unknown rule %s evaluated", v.Rule)
			}
			if retracted[v.Rule] {
				return fmt.Sprintf("retracted rule %s evaluated in cycle %d", v.Rule, ps.begin)
			}
			want, ok := r.Cond.eval(u)
			if !ok {
				want = false
			}
			if cancelled && v.Chk > s.CancelAt {
				// RuleEntry.Evaluate saw the cancelled context and refused to evaluate
				want = false
			}
			if v.Can != want {
				return fmt.Sprintf("candidate status of %s in cycle %d is %v, its condition on the current facts is %v", v.Rule, ps.begin, v.Can, want)
			}
			if v.Can {
				cands = append(cands, v.Rule)
			}
		}
		complete := !last || !(obs.Outcome == "ctx" || strings.HasPrefix(obs.Outcome, "conderr:"))
		if complete {
			for _, r := range s.Rules {
				if !r.Removed && !retracted[r.Name] && !seen[r.Name] {
					return fmt.Sprintf("active rule %s was not evaluated in cycle %d", r.Name, ps.begin)
				}
			}
		}
		if ps.exec != nil {
			x := ps.exec
			if x.Cycle != ps.begin {
				return fmt.Sprintf("execution of %s reported for cycle %d inside cycle %d", x.Rule, x.Cycle, ps.begin)
			}
			isCand := false
			for _, c := range cands {
				if c == x.Rule {
					isCand = true
				}
				if sal[c] > sal[x.Rule] {
					return fmt.Sprintf("cycle %d fired %s (salience %d) although candidate %s has salience %d", ps.begin, x.Rule, sal[x.Rule], c, sal[c])
				}
			}
			if !isCand {
				return fmt.Sprintf("cycle %d fired %s which was not reported as candidate", ps.begin, x.Rule)
			}
			if completed {
				return fmt.Sprintf("rule %s fired after Complete()", x.Rule)
			}
			// did the action list start?  (only the last pass can have been refused by a cancelled context)
			started := !(last && obs.Outcome == "ctx" && cancelled)
			if last && obs.Outcome == "ctx" && cancelled {
				// decide from the facts: replay and compare below
				started = false
				trial := append([]int64{}, u...)
				applyActs(rule[x.Rule], trial, map[string]bool{}, new(bool))
				if eqCounters(trial, obs.Counters) && !eqCounters(u, obs.Counters) {
					started = true
				}
			}
			if started && cancelled && x.Chk > s.CancelAt {
				return fmt.Sprintf("the action list of %s was started although an earlier ctx.Err() check (call %d of %d before it) had seen the cancelled context", x.Rule, s.CancelAt, x.Chk)
			}
			if started {
				fired++
				failed := applyActs(rule[x.Rule], u, retracted, &completed)
				if failed && !(last && obs.Outcome == "acterr:"+x.Rule) {
					return fmt.Sprintf("action of %s failed but Execute did not return an error naming it (%s)", x.Rule, obs.Outcome)
				}
				if !failed && last && strings.HasPrefix(obs.Outcome, "acterr:") {
					return fmt.Sprintf("Execute reported an action error (%s) although no action of %s fails", obs.Outcome, x.Rule)
				}
				if (completed || failed) && !last {
					return fmt.Sprintf("a further cycle started after rule %s completed or failed", x.Rule)
				}
			}
		} else if complete && len(cands) > 0 && obs.Outcome != "cyclelimit" {
			return fmt.Sprintf("cycle %d had candidates %v but no rule fired (%s)", ps.begin, cands, obs.Outcome)
		}
		if last {
			switch obs.Outcome {
			case "nil":
				if !(completed || (ps.exec == nil && len(cands) == 0)) {
					return "Execute returned nil although a candidate was left and Complete() was not called"
				}
			case "cyclelimit":
				if len(cands) == 0 || uint64(fired) != s.MaxCycle {
					return fmt.Sprintf("cycle-limit error with %d firings (MaxCycle %d) and candidates %v", fired, s.MaxCycle, cands)
				}
			}
		}
	}
	if uint64(fired) > s.MaxCycle {
		return fmt.Sprintf("%d rules fired with MaxCycle %d", fired, s.MaxCycle)
	}
	if !eqCounters(u, obs.Counters) {
		return fmt.Sprintf("facts after the run %v differ from the replay of the reported firings %v", obs.Counters, u)
	}
	if cancelled {
		if s.CancelAt == 0 && (len(obs.Events) > 0 || obs.Outcome != "ctx") {
			return "a context cancelled before the call produced events or no context error"
		}
		if obs.Outcome == "nil" && obs.ErrCalls > s.CancelAt {
			return "Execute returned nil although one of its ctx.Err() checks saw the cancellation"
		}
	}
	if strings.HasPrefix(obs.Outcome, "other:") {
		return "unclassified error: " + obs.Outcome
	}
	return ""
}

func eqCounters(a, b []int64) bool {
	for i := range a {
		if a[i] != b[i] {
			return false
		}
	}
	return true
}

func applyActs(r MRule, u []int64, retracted map[string]bool, completed *bool) (failed bool) {
	for _, a := range r.Acts {
		switch a.Op {
		case "inc":
			u[a.I]++
		case "set":
			u[a.I] = a.K
		case "retract":
			retracted[a.N] = true
		case "complete":
			*completed = true
		case "fail", "boom":
			return true
		}
	}
	return false
}

func runMiniProp(prop string) runner {
	return func(seed uint64, tier string, out string) error {
		p := newPrng(seed ^ uint64(len(prop))*7919 ^ uint64(prop[2])<<8)
		rep := newReport(prop, seed, tier)
		n := 350
		if tier == "thorough" {
			n = 6000
			if prop == "C15" {
				n = 1000 // every cancellation position of every scenario: about 64 cases per scenario
			}
		}
		var cases []string
		var index []interface{}
		distinct := map[string]bool{}
		for i := 0; i < n; i++ {
			s := genMini(p.fork(), prop)
			variants := []MiniScenario{s}
			// budgets around the natural length, and every/sampled cancellation position
			base, err := runScenario(s)
			if err != nil {
				return err
			}
			natural := 0
			for _, e := range base.Events {
				if e.Kind == "X" {
					natural++
				}
			}
			if prop == "C06" || p.chance(1, 3) {
				for _, d := range []int{-1, 0, 1} {
					m := natural + d
					if m >= 0 && uint64(m) != s.MaxCycle {
						v := s
						v.MaxCycle = uint64(m)
						variants = append(variants, v)
					}
				}
			}
			if prop == "C15" || p.chance(1, 4) {
				total := base.ErrCalls
				step := 1
				if tier != "thorough" && total > 12 {
					step = total / 12
				}
				for k := 0; k <= total; k += step {
					v := s
					v.CancelAt = k
					variants = append(variants, v)
				}
			}
			for vi, v := range variants {
				var obs MiniObs
				if vi == 0 {
					obs = base
				} else {
					obs, err = runScenario(v)
					if err != nil {
						return err
					}
				}
				rep.Evaluations++
				rep.count("outcome " + strings.SplitN(obs.Outcome, ":", 2)[0])
				rep.count(fmt.Sprintf("rules %d", len(v.Rules)))
				passes := 0
				for _, e := range obs.Events {
					if e.Kind == "B" {
						passes++
					}
				}
				if passes >= 2 {
					b, _ := json.Marshal(v)
					distinct[string(b)] = true
				}
				if what := miniOracle(prop, v, obs); what != "" {
					rep.fail(what, miniCaseRec{v, obs})
				}
								id := len(index)
				index = append(index, miniCaseRec{v, obs})
				cases = append(cases, v.gallinaCase(id, obs, nil))
				if vi == 0 && i < 3 {
					rep.sample(map[string]interface{}{"grl": v.grl(), "max_cycle": v.MaxCycle, "outcome": obs.Outcome, "events": len(obs.Events)})
				}
			}
		}
		rep.Cases = len(cases)
		rep.DistinctNontrivial = len(distinct)
		rep.Rule = "random mini rule sets (1-6 rules over 6 integer counters; threshold/boolean/erroring conditions; increment, set, Retract, Complete, failing and panicking actions; saliences incl. int32 limits and ties; removed rules; 1-3 listeners) run on the real engine with budgets around the natural run length and enumerated cancellation positions; non-trivial = at least two cycles; distinct by scenario"
		if err := writeShards(out, "From Grule Require Import Base EngineGen EngineAbs MiniEngine.", "mini_mismatches", "mini_case", cases, 16); err != nil {
			return err
		}
		return rep.write(out, index)
	}
}

func runScenario(s MiniScenario) (MiniObs, error) {
	kb, err := buildMini(s)
	if err != nil {
		return MiniObs{}, err
	}
	f := &MiniFact{}
	f.set(s.Counters)
	return runMiniOn(kb, s, f, s.Counters[nCounters]), nil
}

func replayMini(prop string) func(path string) (bool, string, error) {
	return func(path string) (bool, string, error) {
		b, err := os.ReadFile(path)
		if err != nil {
			return false, "", err
		}
		var rp struct {
			Scenario miniCaseRec `json:"scenario"`
		}
		if err := json.Unmarshal(b, &rp); err != nil {
			return false, "", err
		}
		s := rp.Scenario.Scenario
		// the map order varies: try several runs
		for i := 0; i < 20; i++ {
			obs, err := runScenario(s)
			if err != nil {
				return false, "", err
			}
			if what := miniOracle(prop, s, obs); what != "" {
				return true, fmt.Sprintf("%s\n%s\nevents=%v outcome=%s counters=%v", what, s.grl(), obs.Events, obs.Outcome, obs.Counters), nil
			}
		}
		return false, s.grl(), nil
	}
}

func init() {
	for _, p := range []string{"C03", "C06", "C10", "C15"} {
		runners[p] = runMiniProp(p)
		replayers[p] = replayMini(p)
	}
}
