package main

// C20, binary knowledge-base stream only: LoadKnowledgeBaseFromReader on arbitrary bytes.
//
// Inputs: random bytes, and structure-aware mutations (bit flips, byte edits, edits of the
// 8-byte length / count / tag fields with boundary numbers, truncation, splicing,
// duplication) of valid streams — streams of small built knowledge bases and of small
// synthetic catalogs written by the engine's own Catalog.WriteCatalogToWriter.
//
// Every real load runs in a child process under `ulimit -v` with a wall-clock timeout per
// input; the child reports the outcome class and the TotalAlloc delta.
//
//	correspondence  coq/model/Codec.v decode / alloc_decode on the same bytes: accepted or
//	                rejected like Catalog.ReadCatalogFromReader; requested bytes equal to
//	                the accounting of the Go mirror walker below (fixed buffers, min(announced,
//	                remaining) per byte block, 16 per appended string - the repaired reader of
//	                engine commit 2f18ef4)
//	oracle          on every input: the loader returns a result or an error (a recovered
//	                panic is an error), is not killed, does not time out, and allocates at
//	                most allocPerByte*len + allocBase bytes (TotalAlloc delta)
//	regression      a fixed corpus of hostile length prefixes / counts (formerly known finding
//	                D18: 2^40, 2^33, MaxInt64, MaxInt64+1, 2^64-1 as string length, element
//	                count, value-block length, embedded constant length) runs first on every
//	                check and must pass the same oracle
//
// This part is fuzzing (bounded testing); the theorems are in coq/props/C20.v.

import (
	"bufio"
	"bytes"
	"encoding/binary"
	"encoding/hex"
	"encoding/json"
	"fmt"
	"os"
	"os/exec"
	"runtime"
	"strconv"
	"strings"
	"time"

	"github.com/hyperjumptech/grule-rule-engine/ast"
)

// ---- mirror walker: the decoder of ReadCatalogFromReader with the model's allocation accounting ----
type walker struct {
	b     []byte
	pos   int
	alloc uint64
	ok    bool
}

const allocCap = uint64(1) << 62

func (w *walker) add(n uint64) {
	if w.alloc+n < w.alloc || w.alloc+n > allocCap {
		w.alloc = allocCap
	} else {
		w.alloc += n
	}
}
func (w *walker) raw(n uint64) []byte {
	if !w.ok {
		return nil
	}
	if n > uint64(len(w.b)-w.pos) {
		w.ok = false
		return nil
	}
	r := w.b[w.pos : w.pos+int(n)]
	w.pos += int(n)
	return r
}
func (w *walker) u64() uint64 {
	if !w.ok {
		return 0
	}
	w.add(8)
	r := w.raw(8)
	if r == nil {
		return 0
	}
	return binary.LittleEndian.Uint64(r)
}
func (w *walker) str() string {
	n := w.u64()
	if !w.ok {
		return ""
	}
	// readBytesFromReader: n > MaxInt64 is refused before reading; otherwise the buffer holds what arrives
	if n < 1<<63 {
		if rem := uint64(len(w.b) - w.pos); n < rem {
			w.add(n)
		} else {
			w.add(rem)
		}
	}
	return string(w.raw(n))
}
func (w *walker) boolean() {
	if w.ok {
		w.add(1)
		w.raw(1)
	}
}
func (w *walker) strs() {
	n := w.u64()
	if !w.ok {
		return
	}
	for i := uint64(0); i < n && w.ok; i++ {
		w.str()
		if w.ok {
			w.add(16) // append of one string header
		}
	}
}

var metaFieldKinds = map[uint64]string{0: "sssL", 1: "ssss", 2: "sssssbbbbb", 3: "sssssssib", 4: "sssiYb", 5: "sssssssbss", 6: "sssss",
	7: "sssssiss", 8: "sssss", 9: "sssL", 10: "ssss", 11: "ssssss", 12: "ssss"}

func walkStream(b []byte) (ok bool, alloc uint64) {
	w := &walker{b: b, ok: true}
	if v := w.str(); !w.ok || v != ast.Version {
		return false, w.alloc
	}
	w.str()
	w.str()
	n := w.u64()
	for i := uint64(0); i < n && w.ok; i++ {
		w.str()
		t := w.u64()
		if !w.ok {
			break
		}
		kinds, known := metaFieldKinds[t]
		if !known {
			w.ok = false
			break
		}
		for _, k := range kinds {
			switch k {
			case 's', 'Y':
				w.str()
			case 'i':
				w.u64()
			case 'b':
				w.boolean()
			case 'L':
				w.strs()
			}
		}
	}
	w.str()
	w.str()
	for sec := 0; sec < 3; sec++ {
		n = w.u64()
		for i := uint64(0); i < n && w.ok; i++ {
			w.str()
			w.str()
		}
	}
	for sec := 0; sec < 2; sec++ {
		n = w.u64()
		for i := uint64(0); i < n && w.ok; i++ {
			w.str()
			w.strs()
		}
	}
	return w.ok, w.alloc
}

// ---- base streams ----
func synthCatalog(p *prng) []byte {
	id := func() string { return fmt.Sprintf("n%d", p.intn(6)) }
	maybe := func(s string) string {
		if p.chance(1, 3) {
			return ""
		}
		return s
	}
	nm := func() ast.NodeMeta {
		return ast.NodeMeta{AstID: id(), GrlText: maybe("F.X<3"), Snapshot: maybe("E(x)")}
	}
	ints := []int{0, 1, -1, 14, 7, 2147483647, -2147483648, 1 << 40}
	cat := &ast.Catalog{KnowledgeBaseName: maybe("KB"), KnowledgeBaseVersion: maybe("1"), MemoryName: maybe("KB"), MemoryVersion: maybe("1")}
	cat.Data = map[string]ast.Meta{}
	n := p.intn(6)
	for i := 0; i < n; i++ {
		var m ast.Meta
		switch p.intn(13) {
		case 0:
			l := []string{}
			for j := p.intn(3); j > 0; j-- {
				l = append(l, id())
			}
			m = &ast.ArgumentListMeta{NodeMeta: nm(), ArgumentASTIDs: l}
		case 1:
			m = &ast.ArrayMapSelectorMeta{NodeMeta: nm(), ExpressionID: maybe(id())}
		case 2:
			m = &ast.AssigmentMeta{NodeMeta: nm(), VariableID: id(), ExpressionID: id(), IsAssign: p.chance(1, 2), IsPlusAssign: p.chance(1, 2), IsMulAssign: p.chance(1, 4)}
		case 3:
			m = &ast.ExpressionMeta{NodeMeta: nm(), LeftExpressionID: maybe(id()), RightExpressionID: maybe(id()), SingleExpressionID: maybe(id()), ExpressionAtomID: maybe(id()), Operator: pick(p, ints), Negated: p.chance(1, 2)}
		case 4:
			vb := make([]byte, p.intn(12))
			for j := range vb {
				vb[j] = byte(p.intn(256))
			}
			m = &ast.ConstantMeta{NodeMeta: nm(), ValueType: ast.ValueType(pick(p, []int{0, 13, 14, 15, 16, 99})), ValueBytes: vb, IsNil: p.chance(1, 4)}
		case 5:
			m = &ast.ExpressionAtomMeta{NodeMeta: nm(), VariableName: maybe("X"), ConstantID: maybe(id()), FunctionCallID: maybe(id()), VariableID: maybe(id()), Negated: p.chance(1, 2), ExpressionAtomID: maybe(id()), ArrayMapSelectorID: maybe(id())}
		case 6:
			m = &ast.FunctionCallMeta{NodeMeta: nm(), FunctionName: maybe("Max"), ArgumentListID: maybe(id())}
		case 7:
			m = &ast.RuleEntryMeta{NodeMeta: nm(), RuleName: maybe("R"), RuleDescription: maybe("d"), Salience: pick(p, ints), WhenScopeID: maybe(id()), ThenScopeID: maybe(id())}
		case 8:
			m = &ast.ThenExpressionMeta{NodeMeta: nm(), AssignmentID: maybe(id()), ExpressionAtomID: maybe(id())}
		case 9:
			m = &ast.ThenExpressionListMeta{NodeMeta: nm(), ThenExpressionIDs: []string{id()}}
		case 10:
			m = &ast.ThenScopeMeta{NodeMeta: nm(), ThenExpressionListID: maybe(id())}
		case 11:
			m = &ast.VariableMeta{NodeMeta: nm(), Name: maybe("F"), VariableID: maybe(id()), ArrayMapSelectorID: maybe(id())}
		default:
			m = &ast.WhenScopeMeta{NodeMeta: nm(), ExpressionID: maybe(id())}
		}
		cat.Data[m.GetAstID()] = m
	}
	cat.MemoryVariableSnapshotMap = map[string]string{}
	cat.MemoryExpressionSnapshotMap = map[string]string{}
	cat.MemoryExpressionAtomSnapshotMap = map[string]string{}
	cat.MemoryExpressionVariableMap = map[string][]string{}
	cat.MemoryExpressionAtomVariableMap = map[string][]string{}
	for j := p.intn(3); j > 0; j-- {
		cat.MemoryVariableSnapshotMap["V("+id()+")"] = id()
		cat.MemoryExpressionSnapshotMap["E("+id()+")"] = id()
		cat.MemoryExpressionAtomSnapshotMap["A("+id()+")"] = id()
		cat.MemoryExpressionVariableMap[id()] = []string{id(), id()}
		cat.MemoryExpressionAtomVariableMap[id()] = []string{}
	}
	var buf bytes.Buffer
	if err := cat.WriteCatalogToWriter(&buf); err != nil {
		return nil
	}
	return buf.Bytes()
}

// offsets of the 8-byte fields of a valid stream (lengths, counts, tags, ints)
func u64Offsets(b []byte) []int {
	var offs []int
	// a second pass of the walker that records where it reads integers
	r := &walker{b: b, ok: true}
	rec := func() { offs = append(offs, r.pos) }
	str := func() { rec(); r.str() }
	strs := func() {
		rec()
		n := r.u64()
		for i := uint64(0); i < n && r.ok; i++ {
			str()
		}
	}
	str()
	str()
	str()
	rec()
	n := r.u64()
	for i := uint64(0); i < n && r.ok; i++ {
		str()
		rec()
		t := r.u64()
		for _, k := range metaFieldKinds[t] {
			switch k {
			case 's', 'Y':
				str()
			case 'i':
				rec()
				r.u64()
			case 'b':
				r.boolean()
			case 'L':
				strs()
			}
		}
	}
	str()
	str()
	for sec := 0; sec < 3; sec++ {
		rec()
		n = r.u64()
		for i := uint64(0); i < n && r.ok; i++ {
			str()
			str()
		}
	}
	for sec := 0; sec < 2; sec++ {
		rec()
		n = r.u64()
		for i := uint64(0); i < n && r.ok; i++ {
			str()
			strs()
		}
	}
	return offs
}

var boundaryU64 = []uint64{0, 1, 2, 3, 7, 8, 12, 13, 16, 17, 255, 256, 65535, 1 << 16, 1 << 24, 1 << 31, 1 << 32, 1 << 40, 1<<63 - 1, 1 << 63, 1<<64 - 1}

func mutate(p *prng, base []byte, other []byte) ([]byte, string) {
	b := append([]byte(nil), base...)
	if len(b) == 0 {
		return b, "empty"
	}
	switch p.intn(9) {
	case 0:
		for k := 1 + p.intn(3); k > 0; k-- {
			b[p.intn(len(b))] ^= 1 << uint(p.intn(8))
		}
		return b, "bitflip"
	case 1:
		b[p.intn(len(b))] = byte(p.intn(256))
		return b, "byte"
	case 2, 3, 4:
		offs := u64Offsets(base)
		if len(offs) == 0 {
			return b, "none"
		}
		o := offs[p.intn(len(offs))]
		if o+8 <= len(b) {
			v := pick(p, boundaryU64)
			old := binary.LittleEndian.Uint64(b[o:])
			switch p.intn(6) {
			case 0, 1:
				v = old + uint64(p.intn(5)) - 2
			case 2:
				v = uint64(len(b)-o-8) + uint64(p.intn(3)) - 1 // exactly / one off the number of bytes that follow
			case 3:
				v = uint64(p.intn(20))
			}
			binary.LittleEndian.PutUint64(b[o:], v)
		}
		return b, "u64 field"
	case 5:
		return b[:p.intn(len(b))], "truncate"
	case 6:
		if len(other) > 0 {
			return append(b[:p.intn(len(b))], other[p.intn(len(other)):]...), "splice"
		}
		return b, "none"
	case 7:
		i := p.intn(len(b))
		j := i + p.intn(len(b)-i)
		return append(append(append([]byte(nil), b[:j]...), b[i:j]...), b[j:]...), "duplicate"
	default:
		i := p.intn(len(b))
		j := i + p.intn(len(b)-i)
		return append(b[:i], b[j:]...), "delete"
	}
}

// ---- child ----
type c20Out struct {
	Class  string `json:"class"` // ok error panic timeout killed
	Alloc  uint64 `json:"alloc"`
	ReadOK bool   `json:"read_ok"` // Catalog.ReadCatalogFromReader accepted the stream
	Msg    string `json:"msg,omitempty"`
}

func c20Child(file string, start int) int {
	f, err := os.Open(file)
	if err != nil {
		return 2
	}
	defer f.Close()
	sc := bufio.NewScanner(f)
	sc.Buffer(make([]byte, 1<<20), 1<<26)
	out := bufio.NewWriter(os.Stdout)
	k := -1
	for sc.Scan() {
		k++
		if k < start {
			continue
		}
		b, err := hex.DecodeString(strings.TrimSpace(sc.Text()))
		if err != nil {
			return 2
		}
		fmt.Fprintf(out, "begin %d\n", k)
		out.Flush()
		done := make(chan c20Out, 1)
		go func() {
			var o c20Out
			func() {
				defer func() {
					if r := recover(); r != nil {
						o.ReadOK = false
					}
				}()
				o.ReadOK = (&ast.Catalog{}).ReadCatalogFromReader(bytes.NewReader(b)) == nil
			}()
			runtime.GC()
			var m0, m1 runtime.MemStats
			runtime.ReadMemStats(&m0)
			func() {
				defer func() {
					if r := recover(); r != nil {
						o.Class = "panic"
						o.Msg = fmt.Sprint(r)
					}
				}()
				lib := ast.NewKnowledgeLibrary()
				kb, err := lib.LoadKnowledgeBaseFromReader(bytes.NewReader(b), true)
				switch {
				case err != nil:
					o.Class = "error"
					o.Msg = err.Error()
					if len(o.Msg) > 120 {
						o.Msg = o.Msg[:120]
					}
				case kb != nil:
					o.Class = "ok"
				default:
					o.Class = "error"
					o.Msg = "nil knowledge base without error"
				}
			}()
			runtime.ReadMemStats(&m1)
			o.Alloc = m1.TotalAlloc - m0.TotalAlloc
			done <- o
		}()
		var o c20Out
		select {
		case o = <-done:
		case <-time.After(5 * time.Second):
			fmt.Fprintf(out, "result %d {\"class\":\"timeout\"}\n", k)
			out.Flush()
			return 3
		}
		js, _ := json.Marshal(o)
		fmt.Fprintf(out, "result %d %s\n", k, js)
		out.Flush()
	}
	return 0
}

// runs all inputs through child processes (restarting after a death); memLimitKB for ulimit -v
func runSandboxed(dir string, inputs [][]byte, memLimitKB int) ([]c20Out, error) {
	file := dir + "/c20_inputs.hex"
	var sb strings.Builder
	for _, b := range inputs {
		sb.WriteString(hex.EncodeToString(b) + "\n")
	}
	if err := os.WriteFile(file, []byte(sb.String()), 0o644); err != nil {
		return nil, err
	}
	self, err := os.Executable()
	if err != nil {
		return nil, err
	}
	res := make([]c20Out, len(inputs))
	start := 0
	for start < len(inputs) {
		cmd := exec.Command("sh", "-c", fmt.Sprintf("ulimit -v %d; exec \"$0\" C20CHILD -out \"$1\" -seed \"$2\"", memLimitKB), self, file, strconv.Itoa(start))
		cmd.Env = append(os.Environ(), "GOMAXPROCS=2")
		var stdout, stderr bytes.Buffer
		cmd.Stdout, cmd.Stderr = &stdout, &stderr
		cmd.Run()
		cur := -1
		got := map[int]bool{}
		for _, line := range strings.Split(stdout.String(), "\n") {
			f := strings.SplitN(line, " ", 3)
			if len(f) >= 2 && f[0] == "begin" {
				cur, _ = strconv.Atoi(f[1])
			}
			if len(f) == 3 && f[0] == "result" {
				k, _ := strconv.Atoi(f[1])
				var o c20Out
				if json.Unmarshal([]byte(f[2]), &o) == nil && k < len(res) {
					res[k] = o
					got[k] = true
				}
			}
		}
		if cur < start && len(got) == 0 {
			return nil, fmt.Errorf("sandbox child did not start: %s", stderr.String())
		}
		if cur >= 0 && !got[cur] {
			msg := stderr.String()
			if i := strings.Index(msg, "runtime: "); i >= 0 {
				msg = msg[i:]
			} else if i := strings.Index(msg, "fatal error"); i >= 0 {
				msg = msg[i:]
			}
			if i := strings.Index(msg, "\n\n"); i > 0 {
				msg = msg[:i]
			}
			if len(msg) > 300 {
				msg = msg[:300]
			}
			res[cur] = c20Out{Class: "killed", Msg: msg}
			got[cur] = true
		}
		next := start
		for got[next] {
			next++
		}
		if next == start {
			return nil, fmt.Errorf("sandbox child made no progress at input %d: %s", start, stderr.String())
		}
		start = next
	}
	return res, nil
}

type c20Case struct {
	Hex      string `json:"hex"`
	Mutation string `json:"mutation"`
	Fixed    bool   `json:"regression_corpus,omitempty"`
	Out      c20Out `json:"out"`
}

func hexPieces(b []byte) string {
	h := hex.EncodeToString(b)
	var pieces []string
	for len(h) > 0 {
		n := 128
		if n > len(h) {
			n = len(h)
		}
		pieces = append(pieces, "\""+h[:n]+"\"%string")
		h = h[n:]
	}
	return gList(pieces)
}

func c20Oracle(b []byte, o c20Out) string {
	switch o.Class {
	case "ok", "error":
	case "panic":
		return "LoadKnowledgeBaseFromReader panicked: " + o.Msg
	case "killed":
		return "the process loading the stream was killed: " + o.Msg
	case "timeout":
		return "LoadKnowledgeBaseFromReader did not return within 5 s"
	default:
		return "no outcome recorded"
	}
	if bound := allocPerByte*uint64(len(b)) + allocBase; o.Alloc > bound {
		return fmt.Sprintf("LoadKnowledgeBaseFromReader allocated %d bytes for a stream of %d bytes", o.Alloc, len(b))
	}
	return ""
}

// TotalAlloc allowed for a load: the repaired reader takes a fresh 512-byte buffer for every
// string it reads (bytes.Buffer.ReadFrom) and a string needs at least 8 bytes of stream, plus
// the nodes and maps built per meta
const allocPerByte, allocBase = 256, 1 << 20

func btoi(b bool) int {
	if b {
		return 1
	}
	return 0
}

func hostileStream(n uint64) []byte {
	var h bytes.Buffer
	ast.WriteStringToWriter(&h, ast.Version)
	x := make([]byte, 8)
	binary.LittleEndian.PutUint64(x, n)
	h.Write(x)
	return h.Bytes()
}

// fixed regression corpus (formerly known finding D18, repaired by engine commit 2f18ef4): hostile
// length prefixes and counts at every place where the reader used to size an allocation by them
func hostileCorpus() (ins [][]byte, names []string) {
	sizes := []uint64{1 << 40, 1 << 33, 1<<63 - 1, 1 << 63, 1<<64 - 1, 1 << 24}
	u64 := func(b *bytes.Buffer, n uint64) {
		x := make([]byte, 8)
		binary.LittleEndian.PutUint64(x, n)
		b.Write(x)
	}
	str := func(b *bytes.Buffer, s string) { ast.WriteStringToWriter(b, s) }
	header := func() *bytes.Buffer {
		b := &bytes.Buffer{}
		str(b, ast.Version)
		str(b, "KB")
		str(b, "1")
		return b
	}
	for _, n := range sizes {
		// the length of the knowledge-base name
		ins, names = append(ins, hostileStream(n)), append(names, fmt.Sprintf("string length %d", n))
		// the number of metas
		b := header()
		u64(b, n)
		ins, names = append(ins, b.Bytes()), append(names, fmt.Sprintf("meta count %d", n))
		// the element count of an ArgumentList
		b = header()
		u64(b, 1)
		str(b, "a")
		u64(b, uint64(ast.TypeArgumentList))
		str(b, "a")
		str(b, "x")
		str(b, "AL()")
		u64(b, n)
		str(b, "e1")
		ins, names = append(ins, b.Bytes()), append(names, fmt.Sprintf("ArgumentList count %d", n))
		// the length of the value block of a constant
		b = header()
		u64(b, 1)
		str(b, "c")
		u64(b, uint64(ast.TypeConstant))
		str(b, "c")
		str(b, "1")
		str(b, "C(int64->1)")
		u64(b, uint64(ast.TypeInteger))
		u64(b, n)
		b.Write([]byte{1, 0, 0})
		ins, names = append(ins, b.Bytes()), append(names, fmt.Sprintf("ValueBytes length %d", n))
		// the list length inside the expression index
		b = header()
		u64(b, 0)
		str(b, "KB")
		str(b, "1")
		u64(b, 0)
		u64(b, 0)
		u64(b, 0)
		u64(b, 1)
		str(b, "v1")
		u64(b, n)
		str(b, "e1")
		ins, names = append(ins, b.Bytes()), append(names, fmt.Sprintf("expression index list count %d", n))
		b = header()
		u64(b, 0)
		str(b, "KB")
		str(b, "1")
		u64(b, 0)
		u64(b, 0)
		u64(b, 0)
		u64(b, 0)
		u64(b, 1)
		str(b, "v1")
		u64(b, n)
		str(b, "a1")
		ins, names = append(ins, b.Bytes()), append(names, fmt.Sprintf("atom index list count %d", n))
		// the element count of a ThenExpressionList
		b = header()
		u64(b, 1)
		str(b, "l")
		u64(b, uint64(ast.TypeThenExpressionList))
		str(b, "l")
		str(b, "x")
		str(b, "TEL()")
		u64(b, n)
		ins, names = append(ins, b.Bytes()), append(names, fmt.Sprintf("ThenExpressionList count %d", n))
		// a complete, decodable catalog whose string constant announces n bytes inside its value block
		cat := &ast.Catalog{KnowledgeBaseName: "KB", KnowledgeBaseVersion: "1", MemoryName: "KB", MemoryVersion: "1"}
		vb := make([]byte, 8)
		binary.LittleEndian.PutUint64(vb, n)
		cat.Data = map[string]ast.Meta{"c": &ast.ConstantMeta{NodeMeta: ast.NodeMeta{AstID: "c", GrlText: "\"ab\"", Snapshot: "C(string->2\"ab\")"},
			ValueType: ast.TypeString, ValueBytes: append(vb, 'a', 'b')}}
		var cb bytes.Buffer
		if cat.WriteCatalogToWriter(&cb) == nil {
			ins, names = append(ins, cb.Bytes()), append(names, fmt.Sprintf("embedded constant length %d", n))
		}
	}
	return
}

func runC20Bin(seed uint64, tier string, out string) error {
	p := newPrng(seed ^ 0xC20B1)
	rep := newReport("C20", seed, tier)
	os.MkdirAll(out, 0o755)
	nIn, nCoq := 1500, 420
	if tier == "thorough" {
		nIn, nCoq = 40000, 5000
	}
	// base streams
	var bases [][]byte
	for i := 0; i < 3; i++ {
		s := genC12(p.fork(), 0) // kind "tiny"
		if lib, err := s.build(); err == nil {
			if w, err := storeKB(lib, s.KBName, s.Version, -1, false); err == nil {
				bases = append(bases, w.buf.Bytes())
			}
		}
	}
	nReal := len(bases)
	for i := 0; i < 40; i++ {
		if b := synthCatalog(p.fork()); b != nil {
			bases = append(bases, b)
		}
	}
	var inputs [][]byte
	var muts []string
	add := func(b []byte, m string) { inputs = append(inputs, b); muts = append(muts, m) }
	// the regression corpus runs first
	hin, hnames := hostileCorpus()
	for i, b := range hin {
		add(b, "regression corpus: "+hnames[i])
	}
	nFixed := len(inputs)
	add([]byte{}, "empty")
	for _, b := range bases {
		add(b, "valid")
	}
	for len(inputs) < nIn+nFixed {
		switch r := p.intn(10); {
		case r == 0:
			b := make([]byte, p.intn(200))
			for j := range b {
				b[j] = byte(p.intn(256))
			}
			add(b, "random bytes")
		case r == 1:
			// valid version string, then random bytes
			b := hostileStream(0)[:11]
			for j := p.intn(60); j > 0; j-- {
				b = append(b, byte(p.intn(256)*p.intn(2)))
			}
			add(b, "version + random")
		case r == 2 && nReal > 0:
			b, m := mutate(p, bases[p.intn(nReal)], bases[p.intn(len(bases))])
			add(b, "kb stream: "+m)
		default:
			b, m := mutate(p, bases[nReal+p.intn(len(bases)-nReal)], bases[nReal+p.intn(len(bases)-nReal)])
			if p.chance(1, 4) {
				b, _ = mutate(p, b, nil)
				m += "+"
			}
			add(b, "synthetic: "+m)
		}
	}
	var runIdx []int
	runInputs := inputs
	for i := range inputs {
		runIdx = append(runIdx, i)
	}
	outs, err := runSandboxed(out, runInputs, 4<<20)
	if err != nil {
		return err
	}
	cases := []string{}
	index := []interface{}{}
	distinct := map[string]bool{}
	coqBytes := 0
	var maxAlloc, maxRatio uint64
	for j, i := range runIdx {
		b, o := inputs[i], outs[j]
		rep.Evaluations++
		rep.count("class " + o.Class)
		rep.count("input " + strings.SplitN(muts[i], ":", 2)[0])
		rec := c20Case{Hex: hex.EncodeToString(b), Mutation: muts[i], Out: o, Fixed: i < nFixed}
		if msg := c20Oracle(b, o); msg != "" {
			rep.fail("C20 (binary stream, "+muts[i]+"): "+msg, rec)
		}
		if o.Alloc > maxAlloc {
			maxAlloc = o.Alloc
		}
		if len(b) >= 64 {
			if r := o.Alloc / uint64(len(b)); r > maxRatio {
				maxRatio = r
			}
		}
		wok, walloc := walkStream(b)
		if wok != o.ReadOK && (o.Class == "ok" || o.Class == "error") {
			rep.fail(fmt.Sprintf("C20 tie: Catalog.ReadCatalogFromReader accepted=%v, the mirror decoder of the harness accepted=%v (%s)", o.ReadOK, wok, muts[i]), rec)
		}
		if o.Class == "ok" && !o.ReadOK {
			rep.fail("C20 tie: load succeeded although ReadCatalogFromReader rejects the stream", rec)
		}
		if o.Class == "ok" || len(b) > 40 {
			distinct[rec.Hex] = true
		}
		if len(cases) < nCoq && len(b) <= 3000 && coqBytes < 500000*(1+9*btoi(tier == "thorough")) {
			coqBytes += len(b)
			id := len(index)
			index = append(index, rec)
			cases = append(cases, fmt.Sprintf("(%d, %s, %s, %d%%N)", id, hexPieces(b), gBool(o.ReadOK), walloc))
		}
	}
	rep.Extra["largest TotalAlloc of a load (bytes)"] = maxAlloc
	rep.Extra["largest TotalAlloc / stream length (streams >= 64 bytes)"] = maxRatio
	rep.Extra["regression corpus inputs"] = nFixed
	rep.Cases = len(cases)
	rep.DistinctNontrivial = len(distinct)
	rep.Rule = "arbitrary bytes presented as binary knowledge-base stream: random bytes, version string + random bytes, and mutants (bit flips, byte edits, boundary numbers written into length / count / tag / int fields, truncation, splicing, duplication, deletion; one or two mutations) of the streams of 3 built knowledge bases and 40 synthetic catalogs; each load in a child process under ulimit -v 4 GiB with a 5 s timeout; non-trivial = loads successfully or longer than 40 bytes, distinct by content; a fixed corpus of hostile length prefixes and counts (the former known finding D18) runs first"
	if err := writeShardsBySize(out, "From Grule Require Import Base CodecPrim Codec CorrCodec.", "c20_mismatches", "c20_case", cases, 16); err != nil {
		return err
	}
	return rep.write(out, index)
}

func replayC20Bin(path string) (bool, string, error) {
	b, err := os.ReadFile(path)
	if err != nil {
		return false, "", err
	}
	var rp struct {
		Scenario c20Case `json:"scenario"`
	}
	if err := json.Unmarshal(b, &rp); err != nil {
		return false, "", err
	}
	in, err := hex.DecodeString(rp.Scenario.Hex)
	if err != nil {
		return false, "", err
	}
	dir, _ := os.MkdirTemp("", "c20replay")
	defer os.RemoveAll(dir)
	outs, err := runSandboxed(dir, [][]byte{in}, 2<<20)
	if err != nil {
		return false, "", err
	}
	msg := c20Oracle(in, outs[0])
	wok, _ := walkStream(in)
	if msg == "" && wok != outs[0].ReadOK && outs[0].Class != "killed" {
		msg = "ReadCatalogFromReader and the mirror decoder disagree"
	}
	return msg != "", fmt.Sprintf("%s (%d bytes, %s): %s", rp.Scenario.Hex, len(in), outs[0].Class, msg), nil
}

func init() {
	runners["C20BIN"] = runC20Bin
	// ---- C20 begin: replays of all four loaders (c20all.go replayC20) fall back to replayC20Bin for binary-only scenarios
	replayers["C20"] = replayC20
	// ---- C20 end
	// the sandboxed child: harness C20CHILD -out <input file> -seed <first input index>
	runners["C20CHILD"] = func(seed uint64, tier string, out string) error {
		os.Exit(c20Child(out, int(seed)))
		return nil
	}
}
