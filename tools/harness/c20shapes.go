package main

// C20 shapes: families of inputs indexed by a size parameter n (nesting depth, repetition
// count, literal length).  Each family is used twice: as a scaling series n, 2n, 4n, ...
// (consecutive ratios of allocation / CPU time must stay below a fixed factor: a quadratic
// loader shows 4, a linear one 2) and as depth probes 10 ... 100 000 (... 1 000 000).

import (
	"bytes"
	"fmt"
	"strings"

	"github.com/hyperjumptech/grule-rule-engine/ast"
	"github.com/hyperjumptech/grule-rule-engine/builder"
	"github.com/hyperjumptech/grule-rule-engine/pkg"
)

type c20Shape struct {
	Loader string
	Name   string
	Make   func(n int) *c20In
	// MaxN: largest size parameter used for this family (0 = no limit besides the tier's)
	MaxN int
}

const grlHead = "rule R \"d\" salience 1 { when "
const grlMid = " then "
const grlTail = " }\n"

func grlWhen(name string, a ...interface{}) func(n int) *c20In {
	return func(n int) *c20In {
		args := []interface{}{grlHead, 1}
		for _, x := range a {
			if s, ok := x.(string); ok && s == "#" {
				args = append(args, n)
			} else {
				args = append(args, x)
			}
		}
		args = append(args, grlMid+"F.X = 1;"+grlTail, 1)
		return partsIn(ldGRL, name, args...)
	}
}

func rawRep(loader, name string, a ...interface{}) func(n int) *c20In {
	return func(n int) *c20In {
		var args []interface{}
		for _, x := range a {
			if s, ok := x.(string); ok && s == "#" {
				args = append(args, n)
			} else {
				args = append(args, x)
			}
		}
		return partsIn(loader, name, args...)
	}
}

const jrHead = `{"name":"R","desc":"d","salience":1,"when":`
const jrTail = `,"then":["F.X = 1"]}`

func c20Shapes() []c20Shape {
	var sh []c20Shape
	add := func(loader, name string, mk func(n int) *c20In, maxN int) {
		sh = append(sh, c20Shape{Loader: loader, Name: name, Make: mk, MaxN: maxN})
	}
	g := func(name string, a ...interface{}) { add(ldGRL, name, grlWhen(name, a...), 0) }
	// ---- GRL text ----
	g("grl nested parentheses", "(", "#", "true", 1, ")", "#")
	g("grl nested negated parentheses", "!(", "#", "true", 1, ")", "#")
	g("grl nested selectors", "F.A[", "#", "0", 1, "]", "#", " == 1", 1)
	g("grl nested call arguments", "f(", "#", "1", 1, ")", "#")
	g("grl chain of &&", "true && ", "#", "true", 1)
	g("grl chain of +", "1 + ", "#", "1 == 2", 1)
	g("grl chain of comparisons in parentheses", "(1 < 2) || ", "#", "false", 1)
	g("grl negations", "!", "#", "F.B", 1)
	g("grl member chain", "F", 1, ".a", "#", " == 1", 1)
	g("grl method chain", "F", 1, ".m()", "#", " == 1", 1)
	g("grl many arguments", "f(", 1, "1, ", "#", "1)", 1)
	g("grl long identifier", "F.", 1, "a", "#", " == 1", 1)
	g("grl long string literal", "F.S == \"", 1, "s", "#", "\"", 1)
	g("grl long string of escapes", "F.S == \"", 1, "\\n", "#", "\"", 1)
	g("grl long integer literal", "F.I == ", 1, "7", "#")
	g("grl long float literal", "F.I == 1.", 1, "7", "#")
	g("grl long exponent", "F.I == 1e", 1, "7", "#")
	g("grl long block comment", "/*", 1, "c", "#", "*/ true", 1)
	g("grl many block comments", "/**/", "#", " true", 1)
	g("grl long line comment", "//", 1, "c", "#", "\n true", 1)
	g("grl white space", " ", "#", "true", 1)
	add(ldGRL, "grl many rules", rawRep(ldGRL, "grl many rules", "rule R \"d\" { when true then F.X = 1; }\n", "#"), 0) // duplicate names: rejected after parsing
	add(ldGRL, "grl many actions", rawRep(ldGRL, "grl many actions", grlHead+"true"+grlMid, 1, "F.X = 1; ", "#", grlTail, 1), 0)
	add(ldGRL, "grl long description", rawRep(ldGRL, "grl long description", "rule R \"", 1, "d", "#", "\" { when true then F.X = 1; }", 1), 0)
	add(ldGRL, "grl long salience", rawRep(ldGRL, "grl long salience", "rule R \"d\" salience ", 1, "9", "#", " { when true then F.X = 1; }", 1), 0)
	// malformed
	g("grl unclosed parentheses", "(", "#", "true", 1)
	g("grl unopened parentheses", "true", 1, ")", "#")
	g("grl unclosed selectors", "F.A[", "#", "0", 1)
	g("grl unterminated string", "F.S == \"", 1, "s", "#")
	g("grl unterminated comment", "true /*", 1, "c", "#")
	add(ldGRL, "grl illegal characters", rawRep(ldGRL, "grl illegal characters", "@", "#"), 0)
	add(ldGRL, "grl open braces", rawRep(ldGRL, "grl open braces", "{", "#"), 0)
	add(ldGRL, "grl quotes", rawRep(ldGRL, "grl quotes", "\"", "#"), 0)
	add(ldGRL, "grl NUL bytes", rawRep(ldGRL, "grl NUL bytes", []byte{0}, "#"), 0)
	add(ldGRL, "grl 0xFF bytes", rawRep(ldGRL, "grl 0xFF bytes", []byte{0xff}, "#"), 0)
	add(ldGRL, "grl non-ASCII letters", rawRep(ldGRL, "grl non-ASCII letters", grlHead+"F.", 1, "\xc3\xa9", "#", " == 1"+grlMid+"F.X = 1;"+grlTail, 1), 0)
	add(ldGRL, "grl keyword soup", rawRep(ldGRL, "grl keyword soup", "rule when then ", "#"), 0)
	// ---- JSON rule text ----
	j := func(name string, a ...interface{}) {
		args := append([]interface{}{jrHead, 1}, a...)
		args = append(args, jrTail, 1)
		add(ldJRule, name, rawRep(ldJRule, name, args...), 0)
	}
	j("jsonrule nested and", `{"and":[`, "#", `{"eq":["F.A",1]},{"eq":["F.A",1]}`, 1, `,{"eq":["F.B",2]}]}`, "#")
	j("jsonrule nested operands", `{"plus":[`, "#", `1`, 1, `,1]}`, "#")
	j("jsonrule nested not", `{"not":[`, "#", `{"obj":"F.B"}`, 1, `]}`, "#")
	j("jsonrule nested call arguments", `{"call":["f",`, "#", `1`, 1, `]}`, "#")
	j("jsonrule nested arrays as when", `[`, "#", `]`, "#")
	j("jsonrule nested objects as when", `{"a":`, "#", `1`, 1, `}`, "#")
	j("jsonrule wide and", `{"and":[`, 1, `{"eq":["F.A",1]},`, "#", `{"eq":["F.A",1]}]}`, 1)
	j("jsonrule wide plus", `{"eq":[{"plus":[`, 1, `1,`, "#", `1]},1]}`, 1)
	j("jsonrule wide call", `{"call":["f"`, 1, `,1`, "#", `]}`, 1)
	j("jsonrule long when string", `"true`, 1, ` && true`, "#", `"`, 1)
	j("jsonrule long constant", `{"eq":[{"const":"`, 1, `s`, "#", `"},"x"]}`, 1)
	j("jsonrule long escaped constant", `{"eq":[{"const":"`, 1, `\n`, "#", `"},"x"]}`, 1)
	j("jsonrule long number", `{"eq":[`, 1, `7`, "#", `,1]}`, 1)
	add(ldJRule, "jsonrule long name", rawRep(ldJRule, "jsonrule long name", `{"name":"R`, 1, `a`, "#", `","desc":"d","salience":1,"when":"true","then":["F.X = 1"]}`, 1), 0)
	add(ldJRule, "jsonrule long description", rawRep(ldJRule, "jsonrule long description", `{"name":"R","desc":"`, 1, `\"`, "#", `","salience":1,"when":"true","then":["F.X = 1"]}`, 1), 0)
	add(ldJRule, "jsonrule many actions", rawRep(ldJRule, "jsonrule many actions", `{"name":"R","desc":"d","salience":1,"when":"true","then":[`, 1, `"F.X = 1",`, "#", `{"set":["F.X",1]}]}`, 1), 0)
	add(ldJRule, "jsonrule many rules", rawRep(ldJRule, "jsonrule many rules", `[`, 1, `{"name":"R","desc":"d","salience":1,"when":"true","then":["F.X = 1"]},`, "#", `{"name":"R","when":"true","then":["F.X = 1"]}]`, 1), 0)
	add(ldJRule, "jsonrule many nulls", rawRep(ldJRule, "jsonrule many nulls", `[`, 1, `{},`, "#", `{}]`, 1), 0)
	add(ldJRule, "jsonrule unclosed arrays", rawRep(ldJRule, "jsonrule unclosed arrays", `[`, "#"), 0)
	add(ldJRule, "jsonrule unclosed objects", rawRep(ldJRule, "jsonrule unclosed objects", `{"when":`, "#"), 0)
	add(ldJRule, "jsonrule unterminated string", rawRep(ldJRule, "jsonrule unterminated string", `{"name":"`, 1, `a`, "#"), 0)
	add(ldJRule, "jsonrule white space", rawRep(ldJRule, "jsonrule white space", ` `, "#", `{}`, 1), 0)
	// the same families through the translation stage alone
	for _, x := range sh {
		if x.Loader == ldJRule {
			x := x
			name := strings.Replace(x.Name, "jsonrule", "jsonxlate", 1)
			sh = append(sh, c20Shape{Loader: ldJXlate, Name: name, MaxN: x.MaxN, Make: func(n int) *c20In {
				in := x.Make(n)
				in.Loader, in.Kind = ldJXlate, name
				return in
			}})
		}
	}
	// ---- JSON fact text ----
	f := func(name string, a ...interface{}) { add(ldJFact, name, rawRep(ldJFact, name, a...), 0) }
	f("jsonfact nested arrays", `[`, "#", `1`, 1, `]`, "#")
	f("jsonfact nested objects", `{"a":`, "#", `1`, 1, `}`, "#")
	f("jsonfact nested mixed", `[{"a":`, "#", `null`, 1, `}]`, "#")
	f("jsonfact wide array of numbers", `[`, 1, `1,`, "#", `1]`, 1)
	f("jsonfact wide array of objects", `[`, 1, `{},`, "#", `{}]`, 1)
	f("jsonfact wide array of arrays", `[`, 1, `[],`, "#", `[]]`, 1)
	f("jsonfact wide object", `{"k":1`, 1, `,"k":1`, "#", `}`, 1) // the same key again and again
	f("jsonfact long string", `{"s":"`, 1, `s`, "#", `"}`, 1)
	f("jsonfact long escaped string", `{"s":"`, 1, `\u00e9`, "#", `"}`, 1)
	f("jsonfact long key", `{"`, 1, `k`, "#", `":1}`, 1)
	f("jsonfact long number", `{"n":`, 1, `7`, "#", `}`, 1)
	f("jsonfact long fraction", `{"n":0.`, 1, `7`, "#", `}`, 1)
	f("jsonfact long exponent", `{"n":1e`, 1, `7`, "#", `}`, 1)
	f("jsonfact white space", ` `, "#", `{}`, 1)
	f("jsonfact unclosed arrays", `[`, "#")
	f("jsonfact unclosed objects", `{"a":`, "#")
	f("jsonfact unterminated string", `"`, 1, `s`, "#")
	f("jsonfact closing brackets", `]`, "#")
	f("jsonfact NUL bytes", []byte{0}, "#")
	f("jsonfact non-ASCII string", `"`, 1, "\xc3\xa9", "#", `"`, 1)
	f("jsonfact invalid UTF-8 string", `"`, 1, []byte{0xff}, "#", `"`, 1)
	// distinct keys: built below (not a pure repetition)
	sh = append(sh, c20Shape{Loader: ldJFact, Name: "jsonfact wide object distinct keys", Make: func(n int) *c20In {
		var b strings.Builder
		b.WriteString("{")
		for i := 0; i < n; i++ {
			fmt.Fprintf(&b, "\"k%d\":%d,", i, i)
		}
		b.WriteString("\"z\":0}")
		in := rawIn(ldJFact, "jsonfact wide object distinct keys", []byte(b.String()))
		return in
	}, MaxN: 200000})
	// ---- binary stream: real streams of knowledge bases of n rules ----
	sh = append(sh, c20Shape{Loader: ldBin, Name: "binary stream of n rules", Make: func(n int) *c20In {
		return rawIn(ldBin, "binary stream of n rules", c20StreamOfRules(n))
	}, MaxN: 2000})
	sh = append(sh, c20Shape{Loader: ldBin, Name: "binary version string + n bytes", Make: func(n int) *c20In {
		return partsIn(ldBin, "binary version string + n bytes", hostileStream(0)[:11], 1, []byte{0}, n)
	}})
	sh = append(sh, c20Shape{Loader: ldBin, Name: "binary string field of n bytes present", Make: func(n int) *c20In {
		h := hostileStream(uint64(n))
		return partsIn(ldBin, "binary string field of n bytes present", h, 1, "k", n)
	}})
	sh = append(sh, c20Shape{Loader: ldBin, Name: "binary n bytes 0xFF", Make: func(n int) *c20In {
		return partsIn(ldBin, "binary n bytes 0xFF", []byte{0xff}, n)
	}})
	return sh
}

var c20StreamCache = map[int][]byte{}

// the stream StoreKnowledgeBaseToWriter writes for a knowledge base of n small distinct rules
func c20StreamOfRules(n int) []byte {
	if b, ok := c20StreamCache[n]; ok {
		return b
	}
	// the rules arrive in resources of 20 (the builder is quadratic in the size of one resource, finding D23)
	lib := ast.NewKnowledgeLibrary()
	rb := builder.NewRuleBuilder(lib)
	for lo := 0; lo < n; lo += 20 {
		var sb strings.Builder
		for i := lo; i < n && i < lo+20; i++ {
			fmt.Fprintf(&sb, "rule R%d \"d%d\" salience %d { when F.I%d < %d && F.S == \"s%d\" then F.I%d = F.I%d + %d; Retract(\"R%d\"); }\n", i, i, i%100, i%7, i, i, i%7, i%7, i+1, i)
		}
		if err := rb.BuildRuleFromResource("K", "1", pkg.NewBytesResource([]byte(sb.String()))); err != nil {
			return nil
		}
	}
	var buf bytes.Buffer
	if err := lib.StoreKnowledgeBaseToWriter(&buf, "K", "1"); err != nil {
		return nil
	}
	c20StreamCache[n] = buf.Bytes()
	return buf.Bytes()
}
