// harness: correspondence + direct-oracle harness for the Coq model of
// grule-rule-engine (DESIGN §4.2).  Built against /repo's working tree by
// every check.
//
//	harness <property> -seed N -tier quick|thorough -out DIR
//	harness replay <file>
package main

import (
	"flag"
	"fmt"
	"os"
	"strings"
)

type runner func(seed uint64, tier string, out string) error

var runners = map[string]runner{}
var replayers = map[string]func(path string) (bool, string, error){}

func main() {
	if len(os.Args) < 2 {
		fmt.Fprintln(os.Stderr, "usage: harness <property> -seed N -tier quick|thorough -out DIR | harness replay FILE")
		os.Exit(2)
	}
	cmd := strings.ToUpper(os.Args[1])
	if cmd == "REPLAY" {
		if len(os.Args) < 3 {
			os.Exit(2)
		}
		os.Exit(doReplay(os.Args[2]))
	}
	fs := flag.NewFlagSet(cmd, flag.ExitOnError)
	seed := fs.Uint64("seed", 1, "PRNG seed")
	tier := fs.String("tier", "quick", "quick|thorough")
	out := fs.String("out", "run/"+cmd, "output directory")
	fs.Parse(os.Args[2:])
	r, ok := runners[cmd]
	if !ok {
		fmt.Fprintln(os.Stderr, "unknown property", cmd)
		os.Exit(2)
	}
	silenceLogs()
	if err := r(*seed, *tier, *out); err != nil {
		fmt.Fprintln(os.Stderr, "harness error:", err)
		os.Exit(2)
	}
}
