package main

// The harness' fact library.  Its Gallina twin is coq/model/Methods.v; the
// canonical dump below is the Go side of Facts.fval.

import (
	"encoding/json"
	"fmt"
	"math"
	"sort"
	"strings"
	"time"
)

type Inner struct {
	X int64
	Y float64
	S string
	B bool
}

func (in *Inner) Double() int64 { return in.X * 2 }

type Fact struct {
	I   int
	I8  int8
	I16 int16
	I32 int32
	I64 int64
	U   uint
	U8  uint8
	U16 uint16
	U32 uint32
	U64 uint64
	F32 float32
	F64 float64
	S   string
	B   bool
	T   time.Time
	In  *Inner
	Any interface{} // always nil or a *Inner: the interface-typed-field branches of model/GoDataAccessLayer.go
	Items []*Inner // slice of pointers to structs: four-component paths F.Items[i].X
	Arr  []int64
	FArr []float64
	SArr []string
	M    map[string]int64
	MS   map[string]string

	calls map[string]int64 // unexported: invisible to the engine
}

func (f *Fact) note(m string) {
	if f.calls == nil {
		f.calls = map[string]int64{}
	}
	f.calls[m]++
}

func (f *Fact) GetI64() int64            { f.note("GetI64"); return f.I64 }
func (f *Fact) Sum(a, b int64) int64     { f.note("Sum"); return a + b }
func (f *Fact) Concat(p ...string) string { f.note("Concat"); return strings.Join(p, "") }
func (f *Fact) Inc()                     { f.note("Inc"); f.I64++ }
func (f *Fact) AddTo(n int64) int64      { f.note("AddTo"); f.I64 += n; return f.I64 }
func (f *Fact) IsPos(x float64) bool     { f.note("IsPos"); return x > 0 }
func (f *Fact) Boom() bool               { f.note("Boom"); panic("boom") }
func (f *Fact) Two() (int64, int64)      { f.note("Two"); return 1, 2 }

func (f *Fact) clone() *Fact {
	c := *f
	if f.In != nil {
		in := *f.In
		c.In = &in
	}
	if a, ok := f.Any.(*Inner); ok && a != nil {
		in := *a
		c.Any = &in
	}
	c.Items = nil
	for _, it := range f.Items {
		in := *it
		c.Items = append(c.Items, &in)
	}
	c.Arr = append([]int64(nil), f.Arr...)
	c.FArr = append([]float64(nil), f.FArr...)
	c.SArr = append([]string(nil), f.SArr...)
	if f.M != nil {
		c.M = map[string]int64{}
		for k, v := range f.M {
			c.M[k] = v
		}
	}
	if f.MS != nil {
		c.MS = map[string]string{}
		for k, v := range f.MS {
			c.MS[k] = v
		}
	}
	c.calls = map[string]int64{}
	return &c
}

var factBaseTime = time.Date(2024, 3, 1, 12, 0, 0, 0, time.UTC)

// ---- canonical dump (Gallina fval) ----
func gFV(v string) string { return "(FV " + v + ")" }

func (in *Inner) gallina() string {
	if in == nil {
		return "(FPtr None)"
	}
	return fmt.Sprintf("(FPtr (Some (FStruct [(\"X\"%%string, %s); (\"Y\"%%string, %s); (\"S\"%%string, %s); (\"B\"%%string, %s)])))",
		gFV(fmt.Sprintf("(VInt I64 %s)", gZ(in.X))), gFV(fmt.Sprintf("(VFloat F64 %s)", gFloat(in.Y))), gFV("(VStr "+gStr(in.S)+")"), gFV("(VBool "+gBool(in.B)+")"))
}

func (f *Fact) gallina() string {
	var fs []string
	add := func(n, v string) { fs = append(fs, fmt.Sprintf("(%s, %s)", gStr(n), v)) }
	add("I", gFV(fmt.Sprintf("(VInt Iw %s)", gZ(int64(f.I)))))
	add("I8", gFV(fmt.Sprintf("(VInt I8 %s)", gZ(int64(f.I8)))))
	add("I16", gFV(fmt.Sprintf("(VInt I16 %s)", gZ(int64(f.I16)))))
	add("I32", gFV(fmt.Sprintf("(VInt I32 %s)", gZ(int64(f.I32)))))
	add("I64", gFV(fmt.Sprintf("(VInt I64 %s)", gZ(f.I64))))
	add("U", gFV(fmt.Sprintf("(VUint Uw %s)", gU(uint64(f.U)))))
	add("U8", gFV(fmt.Sprintf("(VUint U8 %s)", gU(uint64(f.U8)))))
	add("U16", gFV(fmt.Sprintf("(VUint U16 %s)", gU(uint64(f.U16)))))
	add("U32", gFV(fmt.Sprintf("(VUint U32 %s)", gU(uint64(f.U32)))))
	add("U64", gFV(fmt.Sprintf("(VUint U64 %s)", gU(f.U64))))
	add("F32", gFV(fmt.Sprintf("(VFloat F32 %s)", gFloat(float64(f.F32)))))
	add("F64", gFV(fmt.Sprintf("(VFloat F64 %s)", gFloat(f.F64))))
	add("S", gFV("(VStr "+gStr(f.S)+")"))
	add("B", gFV("(VBool "+gBool(f.B)+")"))
	add("T", gFV(fmt.Sprintf("(VTime {| t_inst := %s; t_loc := 1; t_mono := false |})", gZ(f.T.UnixNano()))))
	add("In", f.In.gallina())
	if a, ok := f.Any.(*Inner); ok {
		add("Any", a.gallina()) // an interface holding a pointer to a struct reads and writes like the pointer
	} else {
		add("Any", "(FPtr None)")
	}
	var its []string
	for _, it := range f.Items {
		its = append(its, it.gallina())
	}
	add("Items", "(FSlice "+gList(its)+")")
	var xs []string
	for _, x := range f.Arr {
		xs = append(xs, gFV(fmt.Sprintf("(VInt I64 %s)", gZ(x))))
	}
	add("Arr", "(FSlice "+gList(xs)+")")
	xs = nil
	for _, x := range f.FArr {
		xs = append(xs, gFV(fmt.Sprintf("(VFloat F64 %s)", gFloat(x))))
	}
	add("FArr", "(FSlice "+gList(xs)+")")
	xs = nil
	for _, x := range f.SArr {
		xs = append(xs, gFV("(VStr "+gStr(x)+")"))
	}
	add("SArr", "(FSlice "+gList(xs)+")")
	var keys []string
	for k := range f.M {
		keys = append(keys, k)
	}
	sort.Strings(keys)
	xs = nil
	for _, k := range keys {
		xs = append(xs, fmt.Sprintf("(%s, %s)", gStr(k), gFV(fmt.Sprintf("(VInt I64 %s)", gZ(f.M[k])))))
	}
	add("M", "(FMap "+gList(xs)+")")
	keys = nil
	for k := range f.MS {
		keys = append(keys, k)
	}
	sort.Strings(keys)
	xs = nil
	for _, k := range keys {
		xs = append(xs, fmt.Sprintf("(%s, %s)", gStr(k), gFV("(VStr "+gStr(f.MS[k])+")")))
	}
	add("MS", "(FMap "+gList(xs)+")")
	return "(FPtr (Some (FStruct " + gList(fs) + ")))"
}

// textual dump for the Go-side oracles (deep comparison)
func (f *Fact) dump() string {
	c := *f
	c.calls = nil
	in := "nil"
	if f.In != nil {
		in = fmt.Sprintf("%+v", *f.In)
	}
	c.In = nil
	if a, ok := f.Any.(*Inner); ok && a != nil {
		in += fmt.Sprintf(" Any=%+v", *a)
	}
	c.Any = nil
	for i, it := range f.Items {
		in += fmt.Sprintf(" Items[%d]=%+v", i, *it)
	}
	c.Items = nil
	var mk []string
	for k, v := range f.M {
		mk = append(mk, fmt.Sprintf("%s=%d", k, v))
	}
	sort.Strings(mk)
	var msk []string
	for k, v := range f.MS {
		msk = append(msk, fmt.Sprintf("%s=%s", k, v))
	}
	sort.Strings(msk)
	c.M, c.MS = nil, nil
	return fmt.Sprintf("%+v In=%s M=%v MS=%v F64bits=%x", c, in, mk, msk, math.Float64bits(f.F64))
}

func genFact(p *prng) *Fact {
	sg := func() int {
		v := p.intn(4)
		if p.chance(1, 5) {
			return -v - 1
		}
		return v
	}
	f := &Fact{
		I: sg(), I8: int8(sg()), I16: int16(sg()), I32: int32(sg()), I64: int64(sg()),
		U: uint(p.intn(4)), U8: uint8(p.intn(4)), U16: uint16(p.intn(4)), U32: uint32(p.intn(4)), U64: uint64(p.intn(4)),
		F32: float32(p.intn(8))/2 - float32(p.intn(2))*2.5, F64: float64(p.intn(8))/4 - float64(p.intn(2))*7.25,
		S: pick(p, []string{"", "a", "ab", "Hello", "x y"}), B: p.chance(1, 2),
		T:  factBaseTime.Add(time.Duration(p.intn(3)) * time.Hour),
		In: &Inner{X: int64(sg()), Y: float64(p.intn(6))/2 - float64(p.intn(2))*1.75, S: pick(p, []string{"in", "", "Q"}), B: p.chance(1, 2)},
	}
	for i := 0; i < 3; i++ {
		f.Arr = append(f.Arr, int64(p.intn(4)))
		f.FArr = append(f.FArr, float64(p.intn(6))/2-float64(p.intn(2))*2.25)
		f.SArr = append(f.SArr, pick(p, []string{"s", "t", ""}))
	}
	f.M = map[string]int64{"a": int64(p.intn(4)), "b": int64(p.intn(4))}
	f.MS = map[string]string{"k": pick(p, []string{"v", "w"}), "l": "z"}
	if p.chance(1, 12) {
		f.In = nil
	}
	f.Items = []*Inner{{X: f.I64 - 1, Y: 1.5, S: "it0", B: f.B}, {X: int64(f.U8), Y: -0.5, S: "", B: !f.B}}
	// Any is never a nil interface here: the engine answers a read through a nil interface with an error value and a
	// read through a nil pointer with a recovered panic, which leave different memo flags behind; the model has one
	// constructor (FPtr None) for both, so the nil interface is outside the modelled fact class (DESIGN 11.8)
	f.Any = &Inner{X: f.I64 + 1, Y: 0.25, S: "any", B: !f.B} // derived, not drawn
	f.calls = map[string]int64{}
	return f
}

// JSON form with floats as IEEE bit patterns (NaN and infinities are not valid JSON numbers)
type factJSON struct {
	I    int
	I8   int8
	I16  int16
	I32  int32
	I64  int64
	U    uint
	U8   uint8
	U16  uint16
	U32  uint32
	U64  uint64
	F32  uint64
	F64  uint64
	S    string
	B    bool
	T    time.Time
	In   *innerJSON
	Any  *innerJSON `json:",omitempty"`
	Items []*innerJSON `json:",omitempty"`
	Arr  []int64
	FArr []uint64
	SArr []string
	M    map[string]int64
	MS   map[string]string
}
type innerJSON struct {
	X int64
	Y uint64
	S string
	B bool
}

func (f *Fact) MarshalJSON() ([]byte, error) {
	j := factJSON{I: f.I, I8: f.I8, I16: f.I16, I32: f.I32, I64: f.I64, U: f.U, U8: f.U8, U16: f.U16, U32: f.U32, U64: f.U64,
		F32: math.Float64bits(float64(f.F32)), F64: math.Float64bits(f.F64), S: f.S, B: f.B, T: f.T, Arr: f.Arr, SArr: f.SArr, M: f.M, MS: f.MS}
	if f.In != nil {
		j.In = &innerJSON{X: f.In.X, Y: math.Float64bits(f.In.Y), S: f.In.S, B: f.In.B}
	}
	if a, ok := f.Any.(*Inner); ok && a != nil {
		j.Any = &innerJSON{X: a.X, Y: math.Float64bits(a.Y), S: a.S, B: a.B}
	}
	for _, it := range f.Items {
		j.Items = append(j.Items, &innerJSON{X: it.X, Y: math.Float64bits(it.Y), S: it.S, B: it.B})
	}
	for _, x := range f.FArr {
		j.FArr = append(j.FArr, math.Float64bits(x))
	}
	return json.Marshal(j)
}

func (f *Fact) UnmarshalJSON(b []byte) error {
	var j factJSON
	if err := json.Unmarshal(b, &j); err != nil {
		return err
	}
	*f = Fact{I: j.I, I8: j.I8, I16: j.I16, I32: j.I32, I64: j.I64, U: j.U, U8: j.U8, U16: j.U16, U32: j.U32, U64: j.U64,
		F32: float32(math.Float64frombits(j.F32)), F64: math.Float64frombits(j.F64), S: j.S, B: j.B, T: j.T, Arr: j.Arr, SArr: j.SArr, M: j.M, MS: j.MS}
	if j.In != nil {
		f.In = &Inner{X: j.In.X, Y: math.Float64frombits(j.In.Y), S: j.In.S, B: j.In.B}
	}
	if j.Any != nil {
		f.Any = &Inner{X: j.Any.X, Y: math.Float64frombits(j.Any.Y), S: j.Any.S, B: j.Any.B}
	}
	for _, it := range j.Items {
		f.Items = append(f.Items, &Inner{X: it.X, Y: math.Float64frombits(it.Y), S: it.S, B: it.B})
	}
	for _, x := range j.FArr {
		f.FArr = append(f.FArr, math.Float64frombits(x))
	}
	f.calls = map[string]int64{}
	return nil
}
