package main

// C12: binary store/load yields an equivalent knowledge base or an error.
//
// Generated knowledge bases (typed random rule sets of enggen.go plus targeted
// templates: every node kind, every constant kind, method-mutated facts announced
// with Changed/Forget, map elements) are stored with the real
// StoreKnowledgeBaseToWriter.
//
//	correspondence  the real bytes are decoded by the Coq model (coq/model/Codec.v,
//	                Catalog.v): name, version, re-encoding reproduces the bytes, the
//	                unfolded rules equal the rules that were built, the working-memory
//	                maps and the invalidation index are what IndexVariables computes,
//	                the number of Write calls, sampled truncations are decode errors.
//	oracles         (implementation only) load(store(kb)) and load(store(load(store(kb))))
//	                have the same name / version / rule names / descriptions / saliences /
//	                snapshots / working-memory maps and their instances behave like
//	                instances of the original on generated fact sets; every truncation
//	                offset fails to load; a writer failing at any Write call makes the
//	                store fail; overwrite=false leaves an existing entry untouched; a
//	                failed load leaves the library untouched.
//
// Bounded testing: these oracles are tests, the theorems are in coq/props/C12.v.

import (
	"bytes"
	"encoding/hex"
	"encoding/json"
	"errors"
	"fmt"
	"io"
	"os"
	"path/filepath"
	"reflect"
	"sort"
	"strings"
	"sync"
	"time"

	"github.com/hyperjumptech/grule-rule-engine/ast"
	"github.com/hyperjumptech/grule-rule-engine/builder"
	"github.com/hyperjumptech/grule-rule-engine/engine"
	"github.com/hyperjumptech/grule-rule-engine/pkg"
)

// atom-level postfix forms need a non-variable atom in front: methods returning a struct
// pointer, a slice and a map (only used by the C12 / C20 generators)
func (f *Fact) GetIn() *Inner          { return f.In }
func (f *Fact) GetArr() []int64        { return f.Arr }
func (f *Fact) GetM() map[string]int64 { return f.M }

type C12Scenario struct {
	Kind    string      `json:"kind"`
	KBName  string      `json:"kb_name"`
	Version string      `json:"version"`
	Eng     EngScenario `json:"eng"`
	Facts   []*Fact     `json:"facts"`
	Remove  []string    `json:"remove,omitempty"` // rules removed from the library (RemoveRuleEntry) before storing
	// the knowledge base is stored once (to a discarded writer) before the removals, and half of the removals go through
	// KnowledgeBase.RemoveRuleEntry: a store reflects the knowledge base as it is now, not as it was at an earlier store
	PreStore bool `json:"pre_store,omitempty"`
}

// ---- generation ----

var c12Saliences = []int64{0, 1, -1, 5, 10, -10, 7, 100, -3, 2147483647, -2147483648, 42}

func distinctSaliences(p *prng, rs []*Rule) {
	perm := append([]int64(nil), c12Saliences...)
	for i := len(perm) - 1; i > 0; i-- {
		j := p.intn(i + 1)
		perm[i], perm[j] = perm[j], perm[i]
	}
	for i, r := range rs {
		r.Sal = perm[i%len(perm)]
		if r.Raw != "" && r.Desc == c12EscapedDesc {
			c12SetRaw(r) // the raw text carries the salience too
		}
	}
}

// a description that needs escapes in GRL (quotes, backslash, newline)
const c12EscapedDesc = "say \"hi\" \\ and\nnext line"

func c12SetRaw(r *Rule) {
	r.Raw = ""
	r.Raw = strings.Replace(r.grl(), "\""+r.Desc+"\"", "\"say \\\"hi\\\" \\\\ and\\nnext line\"", 1)
}

func atomMember(a *Atom, n string) *Atom { return &Atom{Kind: "member", A: a, N: n} }
func atomSel(a *Atom, sel *Expr) *Atom   { return &Atom{Kind: "sel", A: a, Sel: sel} }
func atomMethod(a *Atom, f string, args ...*Expr) *Atom {
	return &Atom{Kind: "method", A: a, F: f, Args: args}
}
func atomNeg(a *Atom) *Atom { return &Atom{Kind: "neg", A: a} }

// one rule per template; together they exercise every constructor of Syntax.v
func c12Templates(p *prng, kind string) []*Rule {
	F := aVar(vName("F"))
	switch kind {
	case "kinds":
		r0 := &Rule{Name: "Kinds0", Desc: "every atom form",
			When: mkBin("&&",
				mkBin("<", eAtom(atomMember(atomMethod(F, "GetIn"), "X")), cInt(int64(3+p.intn(3)))),
				mkBin("||",
					mkBin(">=", eAtom(atomSel(atomMethod(F, "GetArr"), cInt(int64(p.intn(3))))), cInt(0)),
					eAtom(atomNeg(aVar(vPath("F", "B")))))),
			Then: []*Stmt{assign(vPath("F", "In", "X"), "+=", cInt(1)),
				call(fn("Changed", cStr("F.GetIn()")))}}
		r1 := &Rule{Name: "Kinds1", Desc: "selectors, functions, negated group",
			When: mkBin("&&",
				eParen(true, mkBin(">", eAtom(atomSel(atomMethod(F, "GetM"), cStr("a"))), cInt(int64(5+p.intn(3))))),
				mkBin("<", eVar(vSel(vPath("F", "Arr"), eVar(vPath("F", "U8")))), eAtom(fn("Max", cFloat(4.5), eVar(vPath("F", "F64")))))),
			Then: []*Stmt{assign(vSel(vPath("F", "M"), cStr("a")), "=", mkBin("+", eVar(vSel(vPath("F", "M"), cStr("a"))), cInt(2))),
				assign(vSel(vPath("F", "Arr"), eVar(vPath("F", "U8"))), "*=", cInt(2)),
				call(fn("Forget", cStr("F.GetM()"))),
				call(atomMethod(F, "Concat", cStr("x"), eVar(vPath("F", "S")))),
				assign(vPath("F", "F32"), "/=", cFloat(2)),
				assign(vPath("F", "I16"), "-=", cInt(1))}}
		r2 := &Rule{Name: "Kinds2", Desc: "method on a constant, member of member",
			When: mkBin("==", eAtom(atomMethod(&Atom{Kind: "const", C: &Const{Kind: "str", S: "abc"}}, "Len")),
				mkBin("+", eVar(vPath("F", "In", "X")), mkBin("%", eVar(vPath("F", "I32")), cInt(3)))),
			Then: []*Stmt{call(fn("Retract", cStr("Kinds2")))}}
		all := []*Rule{r0, r1, r2}
		i := p.intn(3)
		if p.chance(1, 3) {
			return []*Rule{all[i], all[(i+1)%3]}
		}
		return []*Rule{all[i]}
	case "consts":
		strs := []string{"", "a", "x y", "),E(EA(", "tab\there", "semi;colon", "{}[]", "1.8", "ü-ä", strings.Repeat("long", 12)}
		ints := []int64{0, 1, -1, 255, 256, 65535, -32768, 2147483647, -2147483648, 9223372036854775807, -9223372036854775807, 1 << 40}
		flts := []float64{0, 0.5, -0.5, 1e-7, 2e-7, 1.5e300, 3.141592653589793, 123456.789, 5e-324, 0.1}
		var conj *Expr
		add := func(e *Expr) {
			if conj == nil {
				conj = e
			} else {
				conj = mkBin("||", conj, e)
			}
		}
		for i := 0; i < 1+p.intn(2); i++ {
			add(mkBin("==", eVar(vPath("F", "S")), cStr(pick(p, strs))))
			add(mkBin(pick(p, []string{"<", ">", "=="}), eVar(vPath("F", "I64")), cInt(pick(p, ints))))
			add(mkBin(pick(p, []string{"<", ">="}), eVar(vPath("F", "F64")), cFloat(pick(p, flts))))
		}
		add(mkBin("==", eVar(vPath("F", "B")), cBool(p.chance(1, 2))))
		add(mkBin(pick(p, []string{"==", "!="}), eVar(vPath("F", "S")), eAtom(&Atom{Kind: "const", C: &Const{Kind: "nil"}})))
		r0 := &Rule{Name: "Consts0", Desc: "constants of every kind", When: conj,
			Then: []*Stmt{assign(vPath("F", "S"), "=", cStr(pick(p, strs))), assign(vPath("F", "B"), "=", cBool(true)),
				assign(vPath("F", "F64"), "=", cFloat(pick(p, flts))), assign(vPath("F", "I64"), "=", cInt(pick(p, ints))),
				call(fn("Retract", cStr("Consts0")))}}
		r1 := &Rule{Name: "Consts1", Desc: "", When: mkBin("!=", eVar(vSel(vPath("F", "MS"), cStr("k"))), cStr(pick(p, strs))),
			Then: []*Stmt{call(fn("Complete"))}}
		if p.chance(1, 2) {
			return []*Rule{r0}
		}
		return []*Rule{r0, r1}
	case "tiny":
		// small, but with a meta of each of the 13 types
		i := int64(p.intn(3))
		x := vSel(vPath("F", "Arr"), cInt(i))
		r0 := &Rule{Name: "T", Desc: "t", When: mkBin("<", eAtom(atomMethod(F, "Sum", eVar(x), cInt(1))), cInt(int64(3+p.intn(2)))),
			Then: []*Stmt{assign(x, "=", mkBin("+", eVar(x), cInt(1)))}}
		return []*Rule{r0}
	case "announce":
		// a fact changed by a Go method and announced by name; the variable is never the
		// left side of an assignment anywhere in the knowledge base
		k := int64(2 + p.intn(4))
		ann := pick(p, []string{"Changed", "Forget"})
		m := call(atomMethod(F, "Inc"))
		if p.chance(1, 3) {
			m = call(atomMethod(F, "AddTo", cInt(1)))
		}
		// the call statement itself is remembered by the engine (it runs once per Execute unless forgotten): announce it too
		r0 := &Rule{Name: "Up", Desc: "method-mutated counter", When: mkBin("<", eVar(vPath("F", "I64")), cInt(k)),
			Then: []*Stmt{m, call(fn(ann, cStr("F.I64"))), call(fn("Forget", cStr(noSpace(m.A.grl()))))}}
		r1 := &Rule{Name: "Watch", Desc: "reads the same variable through an expression",
			When: mkBin("&&", mkBin(">=", mkBin("*", eVar(vPath("F", "I64")), cInt(2)), cInt(2*k)), mkBin("<", eVar(vPath("F", "U16")), cInt(9))),
			Then: []*Stmt{assign(vPath("F", "U16"), "=", cInt(9))}}
		return []*Rule{r0, r1}
	case "mapelem":
		k := int64(3 + p.intn(3))
		key := pick(p, []string{"a", "b"})
		x := vSel(vPath("F", "M"), cStr(key))
		r0 := &Rule{Name: "Climb", Desc: "map element read and assigned", When: mkBin("<", eVar(x), cInt(k)),
			Then: []*Stmt{assign(x, "=", mkBin("+", eVar(x), cInt(1)))}}
		r1 := &Rule{Name: "Top", Desc: "fires when the element reached the top", When: mkBin("&&", mkBin(">=", eVar(x), cInt(k)), eAtom(atomNeg(aVar(vPath("F", "B"))))),
			Then: []*Stmt{assign(vPath("F", "B"), "=", cBool(true))}}
		y := vSel(vPath("F", "Arr"), cInt(int64(p.intn(3))))
		r2 := &Rule{Name: "Elem", Desc: "slice element", When: mkBin("<", eVar(y), cInt(k)), Then: []*Stmt{assign(y, "+=", cInt(1))}}
		return []*Rule{r0, r1, r2}
	}
	return nil
}

var c12Kinds = []string{"tiny", "random", "kinds", "random", "consts", "announce", "mapelem", "mixed"}

func genC12(p *prng, i int) C12Scenario {
	kind := c12Kinds[i%len(c12Kinds)]
	s := C12Scenario{Kind: kind}
	s.KBName = pick(p, []string{"KB", "K b", "Pricing-Rules_v2", "x", "K\xc3\xa9"})
	s.Version = pick(p, []string{"1", "0.0.1", "", "v 2", "1.8"})
	var rules []*Rule
	if kind == "random" || kind == "mixed" {
		e := genEng(p.fork(), "C12")
		rules = e.Rules
		s.Eng.Split = e.Split
		if max := 2 + p.intn(3); len(rules) > max {
			rules = rules[:max]
			if s.Eng.Split != nil {
				s.Eng.Split = s.Eng.Split[:max]
			}
		}
	}
	if kind != "random" {
		k := kind
		if kind == "mixed" {
			k = pick(p, []string{"kinds", "consts", "mapelem", "tiny"})
			s.Eng.Split = nil
		}
		rules = append(rules, c12Templates(p, k)...)
	}
	if len(rules) > len(c12Saliences) {
		rules = rules[:len(c12Saliences)]
		if s.Eng.Split != nil {
			s.Eng.Split = s.Eng.Split[:len(rules)]
		}
	}
	distinctSaliences(p, rules)
	descs := []string{"", "plain", "with spaces and . , ; punctuation", "desc (brackets) [x] {y}", "ümlaut"}
	for _, r := range rules {
		if p.chance(1, 2) {
			r.Desc = pick(p, descs)
		}
	}
	s.Eng.Rules = rules
	s.Eng.MaxCycle = uint64(pick(p, []int{10, 25, 25}))
	s.Eng.CancelAt = -1
	s.Eng.Listeners = 1
	s.Eng.N = int64(p.intn(3))
	s.Eng.Fact = genFact(p)
	nf := 2 + p.intn(2)
	for j := 0; j < nf; j++ {
		f := genFact(p)
		if kind == "announce" || kind == "mapelem" {
			f.I64 = int64(p.intn(2))
			f.M["a"], f.M["b"] = int64(p.intn(2)), int64(p.intn(3))
		}
		s.Facts = append(s.Facts, f)
	}
	// some knowledge bases have rules removed at library level before they are stored
	if len(rules) >= 2 && p.chance(2, 5) {
		k := p.intn(len(rules))
		s.Remove = append(s.Remove, rules[k].Name)
		if len(rules) >= 3 && p.chance(1, 3) {
			s.Remove = append(s.Remove, rules[(k+1)%len(rules)].Name)
		}
		s.PreStore = len(rules)%2 == 0 || len(s.Remove) == 2 // derived: the PRNG stream of older replays is unchanged
	}
	// a description that needs escapes in GRL (quotes, backslash, newline): the stream carries it unquoted
	if kind == "tiny" && p.chance(1, 2) {
		r := rules[0]
		r.Desc = c12EscapedDesc
		c12SetRaw(r)
	}
	return s
}

// ---- running the implementation ----

type countWriter struct {
	buf    bytes.Buffer
	calls  int
	bounds []int // stream offset after every Write call
	failAt int   // index of the failing Write call; -1 = never
	short  bool  // the failing call reports a short write instead of writing nothing
}

var errWriterFault = errors.New("injected writer fault")

func (w *countWriter) Write(b []byte) (int, error) {
	k := w.calls
	w.calls++
	if k == w.failAt {
		if w.short && len(b) > 1 {
			w.buf.Write(b[:len(b)/2])
			return len(b) / 2, errWriterFault
		}
		return 0, errWriterFault
	}
	w.buf.Write(b)
	w.bounds = append(w.bounds, w.buf.Len())
	return len(b), nil
}

func (s C12Scenario) build() (*ast.KnowledgeLibrary, error) {
	lib := ast.NewKnowledgeLibrary()
	rb := builder.NewRuleBuilder(lib)
	e := s.Eng
	if len(e.Split) != len(e.Rules) {
		if err := rb.BuildRuleFromResource(s.KBName, s.Version, pkg.NewBytesResource([]byte(e.grl()))); err != nil {
			return nil, fmt.Errorf("build: %v\n%s", err, e.grl())
		}
	} else {
		for res := 0; res <= 3; res++ {
			var b strings.Builder
			for i, r := range e.Rules {
				if e.Split[i] == res {
					b.WriteString(r.grl())
				}
			}
			if b.Len() == 0 {
				continue
			}
			if err := rb.BuildRuleFromResource(s.KBName, s.Version, pkg.NewBytesResource([]byte(b.String()))); err != nil {
				return nil, fmt.Errorf("build: %v\n%s", err, b.String())
			}
		}
	}
	if s.PreStore {
		if _, err := storeKB(lib, s.KBName, s.Version, -1, false); err != nil {
			return nil, fmt.Errorf("store before the removals: %v", err)
		}
	}
	for i, r := range s.Remove {
		if s.PreStore && i == 1 {
			lib.GetKnowledgeBase(s.KBName, s.Version).RemoveRuleEntry(r)
			continue
		}
		lib.RemoveRuleEntry(r, s.KBName, s.Version)
	}
	return lib, nil
}

func storeKB(lib *ast.KnowledgeLibrary, name, version string, failAt int, short bool) (w *countWriter, err error) {
	w = &countWriter{failAt: failAt, short: short}
	defer func() {
		if r := recover(); r != nil {
			err = fmt.Errorf("store panicked: %v", r)
		}
	}()
	err = lib.StoreKnowledgeBaseToWriter(w, name, version)
	return
}

func loadKB(lib *ast.KnowledgeLibrary, b []byte, overwrite bool) (kb *ast.KnowledgeBase, err error, panicked bool) {
	defer func() {
		if r := recover(); r != nil {
			err = fmt.Errorf("load panicked: %v", r)
			panicked = true
		}
	}()
	kb, err = lib.LoadKnowledgeBaseFromReader(bytes.NewReader(b), overwrite)
	return
}

// a conforming io.Reader that hands out the stream in short pieces (1 byte, or 1..max bytes):
// Read may return fewer bytes than asked for without an error
type shortReader struct {
	b   []byte
	p   *prng
	max int
}

func (r *shortReader) Read(dst []byte) (int, error) {
	if len(r.b) == 0 {
		return 0, io.EOF
	}
	if len(dst) == 0 {
		return 0, nil
	}
	n := 1
	if r.max > 1 {
		n = 1 + r.p.intn(r.max)
	}
	if n > len(dst) {
		n = len(dst)
	}
	if n > len(r.b) {
		n = len(r.b)
	}
	copy(dst, r.b[:n])
	r.b = r.b[n:]
	return n, nil
}

func loadKBFrom(lib *ast.KnowledgeLibrary, rd io.Reader, overwrite bool) (kb *ast.KnowledgeBase, err error) {
	defer func() {
		if r := recover(); r != nil {
			err = fmt.Errorf("load panicked: %v", r)
		}
	}()
	return lib.LoadKnowledgeBaseFromReader(rd, overwrite)
}

// projection of a knowledge base: name, version, per rule (name, description, salience, snapshot, flags)
func kbMeta(kb *ast.KnowledgeBase) string {
	var rows []string
	for k, e := range kb.RuleEntries {
		rows = append(rows, fmt.Sprintf("%q name=%q desc=%q sal=%d deleted=%v snap=%s", k, e.RuleName, e.RuleDescription, e.Salience, e.Deleted, e.GetSnapshot()))
	}
	sort.Strings(rows)
	return fmt.Sprintf("name=%q version=%q\n%s", kb.Name, kb.Version, strings.Join(rows, "\n"))
}

// the five working-memory maps, read through reflection (unexported fields), keyed by
// snapshot / AstID; the index lists as sorted sets.  AstIDs survive store/load.
func wmDump(kb *ast.KnowledgeBase) (out string) {
	defer func() {
		if r := recover(); r != nil {
			out = fmt.Sprintf("wm dump failed: %v", r)
		}
	}()
	wm := reflect.ValueOf(kb.WorkingMemory).Elem()
	var rows []string
	id := func(v reflect.Value) string {
		if v.IsNil() {
			return "<nil>"
		}
		return v.Elem().FieldByName("AstID").String()
	}
	for _, name := range []string{"expressionSnapshotMap", "expressionAtomSnapshotMap", "variableSnapshotMap"} {
		m := wm.FieldByName(name)
		it := m.MapRange()
		for it.Next() {
			rows = append(rows, fmt.Sprintf("%s %s -> %s", name, it.Key().String(), id(it.Value())))
		}
	}
	for _, name := range []string{"expressionVariableMap", "expressionAtomVariableMap"} {
		m := wm.FieldByName(name)
		it := m.MapRange()
		for it.Next() {
			var ids []string
			for i := 0; i < it.Value().Len(); i++ {
				ids = append(ids, id(it.Value().Index(i)))
			}
			sort.Strings(ids)
			rows = append(rows, fmt.Sprintf("%s %s -> %s", name, id(it.Key()), strings.Join(ids, ",")))
		}
	}
	sort.Strings(rows)
	return fmt.Sprintf("wm name=%q version=%q\n%s", kb.WorkingMemory.Name, kb.WorkingMemory.Version, strings.Join(rows, "\n"))
}

// observation of one run, independent of the map iteration order inside a cycle
func normObs(o EngObs) string {
	var b strings.Builder
	var evals []string
	flush := func() {
		sort.Strings(evals)
		b.WriteString(strings.Join(evals, " "))
		b.WriteString("\n")
		evals = nil
	}
	for _, e := range o.Events {
		switch e.Kind {
		case "B":
			flush()
			fmt.Fprintf(&b, "cycle %d: ", e.Cycle)
		case "V":
			evals = append(evals, fmt.Sprintf("%s=%v", e.Rule, e.Can))
		case "X":
			evals = append(evals, fmt.Sprintf("~fire:%s", e.Rule))
		}
	}
	flush()
	var ck []string
	for k, v := range o.Calls {
		ck = append(ck, fmt.Sprintf("%s=%d", k, v))
	}
	sort.Strings(ck)
	fmt.Fprintf(&b, "outcome=%s completed=%v n=%d/%s retracted=%v calls=%v\nfacts=%s", o.Outcome, o.Completed, o.N, o.NKind, o.Retracted, ck, o.Fact.dump())
	return b.String()
}

func runInstance(lib *ast.KnowledgeLibrary, s C12Scenario, f *Fact) (string, error) {
	kb, err := lib.NewKnowledgeBaseInstance(s.KBName, s.Version)
	if err != nil {
		return "", err
	}
	obs := runEngOn(kb, s.Eng, f.clone(), false, nil)
	return normObs(obs), nil
}

// active and removed rule names of a knowledge base (blueprint)
func ruleSets(kb *ast.KnowledgeBase) (active, removed []string) {
	for _, e := range kb.RuleEntries {
		if e.Deleted {
			removed = append(removed, e.RuleName)
		} else {
			active = append(active, e.RuleName)
		}
	}
	sort.Strings(active)
	sort.Strings(removed)
	return
}

// probes an instance: the rules FetchMatchingRules returns and the rules Execute evaluates / fires
func probeInstance(lib *ast.KnowledgeLibrary, s C12Scenario, f *Fact) (fetched, touched []string, err error) {
	kb, err := lib.NewKnowledgeBaseInstance(s.KBName, s.Version)
	if err != nil {
		return nil, nil, err
	}
	func() {
		defer func() { recover() }()
		dc := ast.NewDataContext()
		dc.Add("F", f.clone())
		dc.Add("N", s.Eng.N)
		eng := &engine.GruleEngine{MaxCycle: 10}
		if res, ferr := eng.FetchMatchingRules(dc, kb); ferr == nil {
			for _, r := range res {
				fetched = append(fetched, r.RuleName)
			}
		}
	}()
	sort.Strings(fetched)
	kb2, err := lib.NewKnowledgeBaseInstance(s.KBName, s.Version)
	if err != nil {
		return nil, nil, err
	}
	seen := map[string]bool{}
	for _, e := range runEngOn(kb2, s.Eng, f.clone(), false, nil).Events {
		if e.Rule != "" {
			seen[e.Rule] = true
		}
	}
	for k := range seen {
		touched = append(touched, k)
	}
	sort.Strings(touched)
	return
}

// the name under which each rule of the scenario stands in the built knowledge base (a tombstone name
// for a removed one; saliences are distinct), and the names flagged Deleted
func actualNames(kb *ast.KnowledgeBase, s C12Scenario) (names map[string]string, deleted []string) {
	names = map[string]string{}
	for _, r := range s.Eng.Rules {
		names[r.Name] = r.Name
	}
	for _, e := range kb.RuleEntries {
		if !e.Deleted {
			continue
		}
		deleted = append(deleted, e.RuleName)
		for _, r := range s.Eng.Rules {
			if int64(e.Salience) == r.Sal {
				names[r.Name] = e.RuleName
			}
		}
	}
	sort.Strings(deleted)
	return
}

type c12Result struct {
	Names   map[string]string
	Deleted []string
	LoadDel []string // names flagged Deleted in load(store(kb))
	Stream  []byte
	Stream2 []byte
	Writes  int
	Bounds  []int
	Fail    string // first failing oracle clause, "" if none
	Stats   map[string]int
}

func firstDiff(a, b string) string {
	la, lb := strings.Split(a, "\n"), strings.Split(b, "\n")
	for i := 0; i < len(la) || i < len(lb); i++ {
		x, y := "", ""
		if i < len(la) {
			x = la[i]
		}
		if i < len(lb) {
			y = lb[i]
		}
		if x != y {
			if len(x) > 300 {
				x = x[:300] + "…"
			}
			if len(y) > 300 {
				y = y[:300] + "…"
			}
			return fmt.Sprintf("stored: %s | loaded: %s", x, y)
		}
	}
	return ""
}

// all truncation offsets in `offs` must fail to load; returns the offsets that loaded
func truncationsLoading(b []byte, offs []int) []int {
	var mu sync.Mutex
	var bad []int
	var wg sync.WaitGroup
	const workers = 12
	ch := make(chan int, 256)
	for w := 0; w < workers; w++ {
		wg.Add(1)
		go func() {
			defer wg.Done()
			for k := range ch {
				lib := ast.NewKnowledgeLibrary()
				kb, err, _ := loadKB(lib, b[:k], true)
				if err == nil || kb != nil || len(lib.Library) != 0 {
					mu.Lock()
					bad = append(bad, k)
					mu.Unlock()
				}
			}
		}()
	}
	for _, k := range offs {
		ch <- k
	}
	close(ch)
	wg.Wait()
	sort.Ints(bad)
	return bad
}

// runs every oracle on one scenario.  exhaustive: all truncation offsets, else field
// boundaries + sampled offsets.
func runC12(s C12Scenario, p *prng, exhaustive bool) (res c12Result, err error) {
	res.Stats = map[string]int{}
	t0 := time.Now()
	lap := func(name string) {
		res.Stats["ms "+name] += int(time.Since(t0) / time.Millisecond)
		t0 = time.Now()
	}
	lib, err := s.build()
	if err != nil {
		return res, err
	}
	orig := lib.GetKnowledgeBase(s.KBName, s.Version)
	w, serr := storeKB(lib, s.KBName, s.Version, -1, false)
	if serr != nil {
		res.Fail = fmt.Sprintf("store of a built knowledge base failed: %v", serr)
		return res, nil
	}
	res.Stream, res.Writes, res.Bounds = w.buf.Bytes(), w.calls, w.bounds
	b1 := res.Stream

	// load(store(kb))
	lib2 := ast.NewKnowledgeLibrary()
	kb2, lerr, _ := loadKB(lib2, b1, p.chance(1, 2))
	if lerr != nil || kb2 == nil {
		res.Fail = fmt.Sprintf("loading a stream written by StoreKnowledgeBaseToWriter failed: %v", lerr)
		return res, nil
	}
	if lib2.Library[ast.GetKnowledgeBaseKey(s.KBName, s.Version)] != kb2 {
		res.Fail = "the loaded knowledge base is not registered in the library under its name and version"
		return res, nil
	}
	// the same stream through readers that deliver it in short pieces must load to the same knowledge base
	for _, max := range []int{1, 7} {
		libs := ast.NewKnowledgeLibrary()
		kbs, errs := loadKBFrom(libs, &shortReader{b: b1, p: p.fork(), max: max}, true)
		if errs != nil || kbs == nil {
			res.Fail = fmt.Sprintf("the stream does not load through a reader that returns at most %d byte(s) per Read: %v", max, errs)
			return res, nil
		}
		if kbMeta(kbs) != kbMeta(kb2) || wmDump(kbs) != wmDump(kb2) {
			res.Fail = fmt.Sprintf("loading through a reader that returns at most %d byte(s) per Read gives a different knowledge base", max)
			return res, nil
		}
		// and a truncated stream still is an error through it
		cutAt := p.intn(len(b1))
		if kbt, errt := loadKBFrom(ast.NewKnowledgeLibrary(), &shortReader{b: b1[:cutAt], p: p.fork(), max: max}, true); errt == nil || kbt != nil {
			res.Fail = fmt.Sprintf("the stream cut off at byte %d loads without error through a reader that returns at most %d byte(s) per Read", cutAt, max)
			return res, nil
		}
	}
	res.Stats["loads through short-read readers"] += 2
	// store and load again
	w2, serr2 := storeKB(lib2, s.KBName, s.Version, -1, false)
	if serr2 != nil {
		res.Fail = fmt.Sprintf("storing the loaded knowledge base failed: %v", serr2)
		return res, nil
	}
	res.Stream2 = w2.buf.Bytes()
	lib3 := ast.NewKnowledgeLibrary()
	kb3, lerr3, _ := loadKB(lib3, res.Stream2, true)
	if lerr3 != nil || kb3 == nil {
		res.Fail = fmt.Sprintf("loading the re-stored stream failed: %v", lerr3)
		return res, nil
	}
	if len(res.Stream2) != len(b1) || w2.calls != w.calls {
		res.Fail = fmt.Sprintf("the re-stored stream has %d bytes / %d writes, the first one %d / %d", len(res.Stream2), w2.calls, len(b1), w.calls)
		return res, nil
	}
	res.Names, res.Deleted = actualNames(orig, s)
	if len(res.Deleted) != len(s.Remove) {
		res.Fail = fmt.Sprintf("RemoveRuleEntry of %v left %d entries flagged as removed", s.Remove, len(res.Deleted))
		return res, nil
	}
	// same active rules, same removed rules - on the blueprints and as seen by Fetch and Execute on instances
	act0, rem0 := ruleSets(orig)
	_, res.LoadDel = ruleSets(kb2)
	for gen, kb := range map[string]*ast.KnowledgeBase{"load(store(kb))": kb2, "load(store(load(store(kb))))": kb3} {
		if act, rem := ruleSets(kb); strings.Join(act, ",") != strings.Join(act0, ",") || strings.Join(rem, ",") != strings.Join(rem0, ",") {
			res.Fail = fmt.Sprintf("%s has active rules %v and removed rules %v, the stored knowledge base has active %v and removed %v", gen, act, rem, act0, rem0)
			return res, nil
		}
	}
	if len(rem0) > 0 {
		isRem := map[string]bool{}
		for _, n := range rem0 {
			isRem[n] = true
		}
		f0 := s.Facts[0]
		fe0, _, perr := probeInstance(lib, s, f0)
		if perr != nil {
			res.Fail = fmt.Sprintf("NewKnowledgeBaseInstance failed on the built knowledge base: %v", perr)
			return res, nil
		}
		for gen, l := range map[string]*ast.KnowledgeLibrary{"the stored knowledge base": lib, "load(store(kb))": lib2, "load(store(load(store(kb))))": lib3} {
			fe, to, perr := probeInstance(l, s, f0)
			if perr != nil {
				res.Fail = fmt.Sprintf("no instance can be made of %s: %v", gen, perr)
				return res, nil
			}
			for _, n := range append(append([]string(nil), fe...), to...) {
				if isRem[n] {
					res.Fail = fmt.Sprintf("removed rule %s is fetched, evaluated or fired on an instance of %s", n, gen)
					return res, nil
				}
			}
			if strings.Join(fe, ",") != strings.Join(fe0, ",") {
				res.Fail = fmt.Sprintf("FetchMatchingRules on an instance of %s returns %v, on the stored knowledge base %v", gen, fe, fe0)
				return res, nil
			}
		}
		res.Stats["knowledge bases with removed rules"]++
	}
	m0, wm0 := kbMeta(orig), wmDump(orig)
	cat0 := orig.MakeCatalog()
	for gen, kb := range map[string]*ast.KnowledgeBase{"load(store(kb))": kb2, "load(store(load(store(kb))))": kb3} {
		if os.Getenv("VERIF_C12_BEHAVIOUR_ONLY") != "" { // debugging aid: see what the behavioural oracle alone finds
			break
		}
		if catx := kb.MakeCatalog(); !cat0.Equals(catx) || !catx.Equals(cat0) {
			res.Fail = fmt.Sprintf("the catalog of %s is not equal to the catalog of the stored knowledge base (some field of some node did not survive)", gen)
			return res, nil
		}
		if m := kbMeta(kb); m != m0 {
			res.Fail = fmt.Sprintf("%s differs in name / version / rule names / descriptions / saliences / snapshots: %s", gen, firstDiff(m0, m))
			return res, nil
		}
		if wmx := wmDump(kb); wmx != wm0 {
			res.Fail = fmt.Sprintf("%s differs in its working memory (snapshot maps or invalidation index): %s", gen, firstDiff(wm0, wmx))
			return res, nil
		}
	}
	lap("store+load+compare")
	// behaviour of instances on generated fact sets
	libs := []*ast.KnowledgeLibrary{lib2, lib3}
	for fi, f := range s.Facts {
		o1, e1 := runInstance(lib, s, f)
		o1b, e1b := runInstance(lib, s, f)
		if e1 != nil || e1b != nil {
			res.Fail = fmt.Sprintf("NewKnowledgeBaseInstance failed on the built knowledge base: %v %v", e1, e1b)
			return res, nil
		}
		if o1 != o1b {
			res.Stats["behaviour: run not reproducible on the original, skipped"]++
			continue
		}
		for li, l := range libs {
			differs := 0
			var last, instErr string
			for try := 0; try < 3; try++ {
				o2, e2 := runInstance(l, s, f)
				if e2 != nil {
					instErr = e2.Error()
					differs++
					continue
				}
				o1c, _ := runInstance(lib, s, f)
				if o2 != o1c {
					differs++
					last = firstDiff(o1c, o2)
				} else {
					break
				}
			}
			if differs == 3 {
				gen := []string{"load(store(kb))", "load(store(load(store(kb))))"}[li]
				if instErr != "" {
					res.Fail = fmt.Sprintf("no instance can be made of %s: %s", gen, instErr)
				} else {
					res.Fail = fmt.Sprintf("an instance of %s behaves differently on fact set %d: %s", gen, fi, last)
				}
				return res, nil
			}
			res.Stats["behaviour runs compared"]++
		}
	}
	lap("behaviour")
	// truncation
	var offs []int
	if exhaustive {
		for k := 0; k < len(b1); k++ {
			offs = append(offs, k)
		}
		res.Stats["truncation: streams cut at every offset"]++
	} else {
		seen := map[int]bool{}
		add := func(k int) {
			if k >= 0 && k < len(b1) && !seen[k] {
				seen[k] = true
				offs = append(offs, k)
			}
		}
		add(0)
		nb := len(w.bounds)
		for i := 0; i < 60 && i < nb; i++ { // the trailing sections and the header
			add(w.bounds[nb-1-i])
			add(w.bounds[i])
		}
		for i := 0; i < 250; i++ {
			bnd := w.bounds[p.intn(nb)]
			add(bnd)
			if i%5 == 0 {
				add(bnd - 1)
				add(bnd + 1)
			}
		}
		for i := 0; i < 100; i++ {
			add(p.intn(len(b1)))
		}
	}
	res.Stats["truncation offsets"] += len(offs)
	if bad := truncationsLoading(b1, offs); len(bad) > 0 {
		res.Fail = fmt.Sprintf("the stream (%d bytes) cut off at byte %d loads without error (%d of %d tried offsets load)", len(b1), bad[0], len(bad), len(offs))
		return res, nil
	}
	lap("truncation")
	// failing writer: every Write call index (sampled indices for the bigger streams in quick)
	faultIdx := map[int]bool{}
	if exhaustive {
		for k := 0; k < w.calls; k++ {
			faultIdx[k] = true
		}
	} else {
		for k := 0; k < 25 && k < w.calls; k++ {
			faultIdx[k] = true
			faultIdx[w.calls-1-k] = true
		}
		for i := 0; i < 120; i++ {
			faultIdx[p.intn(w.calls)] = true
		}
	}
	for k := 0; k < w.calls; k++ {
		if !faultIdx[k] {
			continue
		}
		short := k%3 == 1
		wf, ferr := storeKB(lib, s.KBName, s.Version, k, short)
		if ferr == nil {
			res.Fail = fmt.Sprintf("store returned nil although Write call %d of %d failed", k, w.calls)
			return res, nil
		}
		if strings.HasPrefix(ferr.Error(), "store panicked") {
			res.Fail = fmt.Sprintf("store panicked when Write call %d failed: %v", k, ferr)
			return res, nil
		}
		// what reached the writer must not load
		if k%17 == 0 {
			l4 := ast.NewKnowledgeLibrary()
			if kb, err4, _ := loadKB(l4, wf.buf.Bytes(), true); err4 == nil && kb != nil {
				res.Fail = fmt.Sprintf("the partial stream left by a store that failed at Write call %d loads without error", k)
				return res, nil
			}
		}
	}
	res.Stats["writer faults"] += len(faultIdx)
	lap("writer faults")
	// overwrite = false on an existing entry
	other := C12Scenario{KBName: s.KBName, Version: s.Version, Eng: EngScenario{Rules: []*Rule{{Name: "Other", Desc: "the entry that was there first", Sal: 3,
		When: mkBin("<", eVar(vPath("F", "I64")), cInt(2)), Then: []*Stmt{assign(vPath("F", "I64"), "+=", cInt(1))}}}, MaxCycle: 10, CancelAt: -1, Listeners: 1}}
	lib5, err := other.build()
	if err != nil {
		return res, err
	}
	before := lib5.Library[ast.GetKnowledgeBaseKey(s.KBName, s.Version)]
	bm, bw := kbMeta(before), wmDump(before)
	bo, _ := runInstance(lib5, other, s.Facts[0])
	kbx, errx, _ := loadKB(lib5, b1, false)
	after := lib5.Library[ast.GetKnowledgeBaseKey(s.KBName, s.Version)]
	if errx == nil || kbx != nil {
		res.Fail = "LoadKnowledgeBaseFromReader(overwrite=false) returned no error although the library already has an entry with this name and version"
		return res, nil
	}
	ao, aerr := runInstance(lib5, other, s.Facts[0])
	if after != before || len(lib5.Library) != 1 || kbMeta(after) != bm || wmDump(after) != bw || aerr != nil || ao != bo {
		res.Fail = "LoadKnowledgeBaseFromReader(overwrite=false) changed the existing library entry"
		return res, nil
	}
	// a failed load (truncated stream) leaves the library as it was, also with overwrite=true
	cut := b1[:len(b1)-1-p.intn(len(b1)/2)]
	if kby, erry, _ := loadKB(lib5, cut, true); erry == nil || kby != nil || lib5.Library[ast.GetKnowledgeBaseKey(s.KBName, s.Version)] != before || len(lib5.Library) != 1 || kbMeta(before) != bm {
		res.Fail = "a load that fails (truncated stream, overwrite=true) changed the library"
		return res, nil
	}
	// overwrite = true replaces, overwrite = false on a free key registers
	if kbz, errz, _ := loadKB(lib5, b1, true); errz != nil || lib5.Library[ast.GetKnowledgeBaseKey(s.KBName, s.Version)] != kbz || kbMeta(kbz) != m0 {
		res.Fail = fmt.Sprintf("LoadKnowledgeBaseFromReader(overwrite=true) did not replace the existing entry: %v", errz)
		return res, nil
	}
	lib6 := ast.NewKnowledgeLibrary()
	if kbz, errz, _ := loadKB(lib6, b1, false); errz != nil || lib6.Library[ast.GetKnowledgeBaseKey(s.KBName, s.Version)] != kbz {
		res.Fail = fmt.Sprintf("LoadKnowledgeBaseFromReader(overwrite=false) into an empty library failed: %v", errz)
		return res, nil
	}
	res.Stats["overwrite checks"]++
	lap("overwrite")
	return res, nil
}

// ---- Coq case ----
func (s C12Scenario) gallinaCase(id int, stream []byte, writes int, cuts []int, names map[string]string, deleted, loadedDeleted []string) string {
	var rules []string
	for _, r := range s.Eng.Rules {
		rr := *r
		if n, ok := names[r.Name]; ok {
			rr.Name = n
		}
		rules = append(rules, rr.gallina())
	}
	var del, ldel []string
	for _, d := range deleted {
		del = append(del, gStr(d))
	}
	for _, d := range loadedDeleted {
		ldel = append(ldel, gStr(d))
	}
	var cs []string
	for _, c := range cuts {
		cs = append(cs, fmt.Sprintf("%d%%N", c))
	}
	h := hex.EncodeToString(stream)
	var pieces []string
	for len(h) > 0 {
		n := 128
		if n > len(h) {
			n = len(h)
		}
		pieces = append(pieces, "\""+h[:n]+"\"%string")
		h = h[n:]
	}
	return fmt.Sprintf("{| cc_id := %d; cc_hex := %s; cc_name := %s; cc_version := %s;\n cc_rules := %s;\n cc_deleted := %s; cc_loaded_deleted := %s;\n cc_writes := %d%%N; cc_cuts := %s |}",
		id, gList(pieces), gStr(s.KBName), gStr(s.Version), gList(rules), gList(del), gList(ldel), writes, gList(cs))
}

type c12CaseRec struct {
	Scenario C12Scenario `json:"scenario"`
	Gen      int         `json:"generation"` // 1: store(kb), 2: store(load(store(kb)))
	Bytes    int         `json:"bytes"`
}

// ---- regression: removed rules (formerly known finding D8, repaired by engine commit 01c7ce8) ----
// rules Keep and Gone, Gone removed at library level before the store; runs first on every check and
// goes through every oracle like a generated scenario
func c12RemovedRuleRegression() C12Scenario {
	s := C12Scenario{Kind: "removed-rule regression", KBName: "KB", Version: "1", Remove: []string{"Gone"}}
	s.Eng = EngScenario{MaxCycle: 10, CancelAt: -1, Listeners: 1, Rules: []*Rule{
		{Name: "Keep", Desc: "stays", Sal: 1, When: mkBin("<", eVar(vPath("F", "I64")), cInt(2)), Then: []*Stmt{assign(vPath("F", "I64"), "+=", cInt(1))}},
		{Name: "Gone", Desc: "removed before the store", Sal: 5, When: mkBin("==", eVar(vPath("F", "S")), cStr("a")), Then: []*Stmt{assign(vPath("F", "S"), "=", cStr("fired"))}}}}
	f := genFact(newPrng(7))
	f.I64, f.S = 0, "a"
	g := genFact(newPrng(8))
	g.I64, g.S = 1, "b"
	s.Facts = []*Fact{f, g}
	return s
}

// the same with a store before the removal (the second store must not repeat the first)
func c12StoreRemoveStoreRegression() C12Scenario {
	s := c12RemovedRuleRegression()
	s.Kind, s.PreStore = "store-remove-store regression", true
	return s
}

// the rule of the model-made stream (coq/proofs/CatalogProofs.v vec_rule)
func modelVectorRule() *Rule {
	F := aVar(vName("F"))
	return &Rule{Name: "Vec", Desc: "model made", Sal: -3,
		When: mkBin("&&",
			mkBin("<", eAtom(atomMember(atomMethod(F, "GetIn"), "X")), cInt(3)),
			eParen(true, mkBin(">=", eAtom(atomSel(atomMethod(F, "GetArr"), cInt(1))),
				eAtom(fn("Max", cFloat(1.0), eVar(vSel(vPath("F", "M"), cStr("a")))))))),
		Then: []*Stmt{assign(vPath("F", "I64"), "+=", cInt(1)), call(fn("Retract", cStr("Vec")))}}
}

// the real loader reads a stream written by the model (no node sharing, no working-memory
// maps) and must build the same rule tree as the GRL builder; "" if it does
func c12ModelVector() string {
	b, err := hex.DecodeString(modelVectorHex)
	if err != nil {
		return "model vector is not hex"
	}
	lib := ast.NewKnowledgeLibrary()
	kb, lerr, _ := loadKB(lib, b, true)
	if lerr != nil || kb == nil {
		return fmt.Sprintf("the real loader rejects the stream encoded by the model: %v", lerr)
	}
	r := modelVectorRule()
	ref, err := buildRules(r.grl(), "ModelKB")
	if err != nil {
		return "harness: " + err.Error()
	}
	want := ref.GetKnowledgeBase("ModelKB", "1").RuleEntries["Vec"]
	got := kb.RuleEntries["Vec"]
	if kb.Name != "ModelKB" || kb.Version != "7" || len(kb.RuleEntries) != 1 || got == nil {
		return fmt.Sprintf("the model-made stream loads as %s:%s with %d rules", kb.Name, kb.Version, len(kb.RuleEntries))
	}
	if got.RuleDescription != want.RuleDescription || got.Salience != want.Salience || got.GetSnapshot() != want.GetSnapshot() {
		return fmt.Sprintf("the rule loaded from the model-made stream differs from the rule built from GRL: %s | %s", got.GetSnapshot(), want.GetSnapshot())
	}
	// and the real store of it decodes again: every truncation of the model-made stream fails too
	if bad := truncationsLoading(b, []int{0, 1, 10, 11, len(b) / 2, len(b) - 9, len(b) - 8, len(b) - 1}); len(bad) > 0 {
		return fmt.Sprintf("the model-made stream cut at byte %d loads", bad[0])
	}
	return ""
}

func runC12Prop(seed uint64, tier string, out string) error {
	p := newPrng(seed ^ 0xC12C12)
	rep := newReport("C12", seed, tier)
	n, nExh := 28, 5
	if tier == "thorough" {
		n, nExh = 240, 60 // an exhaustive stream costs 10-25 CPU seconds (every byte offset is a load attempt)
	}
	cases := []string{}
	index := []interface{}{}
	distinct := map[string]bool{}
	exhLeft := nExh
	coqBytes := 0
	for i := -2; i < n; i++ {
		var s C12Scenario
		if i == -2 {
			s = c12RemovedRuleRegression() // the regression scenarios run first
		} else if i == -1 {
			s = c12StoreRemoveStoreRegression()
		} else {
			s = genC12(p.fork(), i)
		}
		// cheap size probe decides which streams are cut at every offset in quick
		exhaustive := false
		if exhLeft > 0 {
			limit := 14000
			if tier == "thorough" {
				limit = 24000 // every offset and every Write index of all streams up to 24 kB
			}
			if lib, err := s.build(); err == nil {
				if w, err := storeKB(lib, s.KBName, s.Version, -1, false); err == nil && w.buf.Len() <= limit {
					exhaustive = true
				}
			}
		}
		if exhaustive {
			exhLeft--
		}
		res, err := runC12(s, p.fork(), exhaustive)
		if err != nil {
			return err
		}
		rep.Evaluations++
		rep.count("kind " + s.Kind)
		rep.count(fmt.Sprintf("rules %d", len(s.Eng.Rules)))
		rep.count("stream " + sizeBucket(len(res.Stream)))
		for k, v := range res.Stats {
			rep.Distribution[k] += v
		}
		if res.Fail != "" {
			rep.fail("C12: "+res.Fail, s)
			if len(res.Stream) == 0 {
				continue
			}
		}
		if len(s.Eng.Rules) >= 2 {
			distinct[s.Eng.grl()] = true
		}
		// sampled truncations for the model: field boundaries and random offsets
		var cuts []int
		for j := 0; j < 6 && len(res.Bounds) > 0; j++ {
			cuts = append(cuts, res.Bounds[p.intn(len(res.Bounds))]%len(res.Stream))
			cuts = append(cuts, p.intn(len(res.Stream)))
		}
		if len(res.Bounds) >= 2 {
			cuts = append(cuts, res.Bounds[len(res.Bounds)-2])
		}
		for gen, stream := range [][]byte{res.Stream, res.Stream2} {
			if len(stream) == 0 || (gen == 1 && i%5 != 1 && tier != "thorough") {
				continue
			}
			budget := 700000
			if tier == "thorough" {
				budget = 9000000
			}
			if len(stream) > 48000 || coqBytes+len(stream) > budget {
				rep.count("stream not given to the model (byte budget of the tier)")
				continue
			}
			coqBytes += len(stream)
			id := len(index)
			index = append(index, c12CaseRec{s, gen + 1, len(stream)})
			cs := cuts
			if gen == 1 {
				cs = nil
			}
			cases = append(cases, s.gallinaCase(id, stream, res.Writes, cs, res.Names, res.Deleted, res.LoadDel))
		}
		if i < 3 {
			rep.sample(map[string]interface{}{"kind": s.Kind, "grl": s.Eng.grl(), "stream_bytes": len(res.Stream), "write_calls": res.Writes})
		}
	}
	if msg := c12ModelVector(); msg != "" {
		rep.fail("C12 tie (model -> implementation): "+msg, C12Scenario{Kind: "model-vector", KBName: "ModelKB", Version: "7", Eng: EngScenario{Rules: []*Rule{modelVectorRule()}}})
	} else {
		rep.count("model-made stream accepted by the real loader")
	}
	rep.Cases = len(cases)
	rep.DistinctNontrivial = len(distinct)
	rep.Exhaustive = false
	rep.Rule = "generated knowledge bases (random typed rule sets of 1-7 rules in one or several resources; templates with every atom / variable / expression form, every constant kind incl. extreme integers, denormal floats and strings imitating snapshot syntax, method-mutated facts announced with Changed/Forget, map and slice elements; varied names, versions, descriptions, distinct saliences incl. int32 extremes); each is stored, loaded, stored and loaded again; non-trivial = at least two rules, distinct by rule text; quick cuts the streams of the first 5 knowledge bases <= 14 kB (thorough: the first 60 <= 24 kB) at every byte and the others at every field boundary (+-1) and 200 random offsets; every Write call index is made to fail"
	if err := writeShardsBySize(out, "From Grule Require Import Base Values Syntax CodecPrim Codec Catalog CorrCodec.", "c12_mismatches", "c12_case", cases, 16); err != nil {
		return err
	}
	return rep.write(out, index)
}

// like writeShards, but the cases are distributed so that the shards have about the same
// number of bytes (parsing the byte literals dominates the cost of a shard)
func writeShardsBySize(dir, imports, checker, caseType string, cases []string, n int) error {
	if err := os.MkdirAll(dir, 0o755); err != nil {
		return err
	}
	old, _ := filepath.Glob(filepath.Join(dir, "cases_*.v*"))
	for _, f := range old {
		os.Remove(f)
	}
	if n > len(cases) {
		n = len(cases)
	}
	if n < 1 {
		n = 1
	}
	order := make([]int, len(cases))
	for i := range order {
		order[i] = i
	}
	sort.SliceStable(order, func(a, b int) bool { return len(cases[order[a]]) > len(cases[order[b]]) })
	bins := make([][]int, n)
	load := make([]int, n)
	for _, ci := range order {
		best := 0
		for b := 1; b < n; b++ {
			if load[b] < load[best] {
				best = b
			}
		}
		bins[best] = append(bins[best], ci)
		load[best] += len(cases[ci])
	}
	for k := 0; k < n; k++ {
		var b strings.Builder
		b.WriteString("(* generated by the correspondence harness *)\n" + imports + "\nOpen Scope Z_scope.\n")
		fmt.Fprintf(&b, "Definition cases : list %s := [\n", caseType)
		sort.Ints(bins[k])
		for i, ci := range bins[k] {
			if i > 0 {
				b.WriteString(";\n")
			}
			b.WriteString(cases[ci])
		}
		b.WriteString("\n].\n")
		fmt.Fprintf(&b, "Definition M := Eval vm_compute in %s cases.\nPrint M.\n", checker)
		if err := os.WriteFile(filepath.Join(dir, fmt.Sprintf("cases_%d.v", k)), []byte(b.String()), 0o644); err != nil {
			return err
		}
	}
	return nil
}

func sizeBucket(n int) string {
	switch {
	case n < 8000:
		return "<8k"
	case n < 16000:
		return "8-16k"
	case n < 32000:
		return "16-32k"
	case n < 64000:
		return "32-64k"
	}
	return ">=64k"
}

func fixScenarioFloats(s *C12Scenario) {
	for _, r := range s.Eng.Rules {
		fixFloats(r.When)
		for _, st := range r.Then {
			fixFloats(st.E)
			if st.X != nil {
				fixVar(st.X)
			}
			if st.A != nil {
				fixFloats(eAtom(st.A))
			}
		}
	}
}

func replayC12(path string) (bool, string, error) {
	b, err := os.ReadFile(path)
	if err != nil {
		return false, "", err
	}
	var rp struct {
		Scenario json.RawMessage `json:"scenario"`
	}
	if err := json.Unmarshal(b, &rp); err != nil {
		return false, "", err
	}
	var s C12Scenario
	var rec c12CaseRec
	if json.Unmarshal(rp.Scenario, &rec) == nil && len(rec.Scenario.Eng.Rules) > 0 {
		s = rec.Scenario
	} else if err := json.Unmarshal(rp.Scenario, &s); err != nil {
		return false, "", err
	}
	fixScenarioFloats(&s)
	if len(s.Facts) == 0 {
		s.Facts = []*Fact{genFact(newPrng(1))}
	}
	for i := 0; i < 3; i++ {
		res, err := runC12(s, newPrng(uint64(i+1)), true)
		if err != nil {
			return false, "", err
		}
		if res.Fail != "" {
			return true, res.Fail + "\n" + s.Eng.grl(), nil
		}
	}
	return false, s.Eng.grl(), nil
}

func init() {
	runners["C12"] = runC12Prop
	replayers["C12"] = replayC12
}
