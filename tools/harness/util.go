package main

import (
	"encoding/json"
	"fmt"
	"io"
	"os"

	"github.com/hyperjumptech/grule-rule-engine/logger"
	"github.com/sirupsen/logrus"
)

func silenceLogs() {
	l := logrus.New()
	l.SetOutput(io.Discard)
	l.SetLevel(logrus.PanicLevel)
	logger.SetLogger(l)
}

// harness replay FILE: the file is {"property": "...", "scenario": ...}
func doReplay(path string) int {
	b, err := os.ReadFile(path)
	if err != nil {
		fmt.Fprintln(os.Stderr, err)
		return 2
	}
	var hdr struct {
		Property string `json:"property"`
	}
	json.Unmarshal(b, &hdr)
	f, ok := replayers[hdr.Property]
	if !ok {
		fmt.Fprintln(os.Stderr, "no replayer for property", hdr.Property)
		return 2
	}
	silenceLogs()
	failed, msg, err := f(path)
	if err != nil {
		fmt.Fprintln(os.Stderr, err)
		return 2
	}
	fmt.Println(msg)
	if failed {
		fmt.Println("REPRODUCED")
		return 1
	}
	fmt.Println("NOT-REPRODUCED")
	return 0
}
