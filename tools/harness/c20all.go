package main

// C20, all four loaders: GRL text (builder.BuildRuleFromResource), JSON rule text (JSON resource +
// builder), JSON fact text (DataContext.AddJSON), binary knowledge-base stream
// (KnowledgeLibrary.LoadKnowledgeBaseFromReader) on arbitrary bytes.
//
// From one seed, for every loader:
//   (a) random bytes (uniform, printable, over the loader's alphabet);
//   (b) the fixed battery of small edge cases and structure-aware mutants of valid inputs (bit
//       flips, deletions, duplications, splices, truncation at every kind of boundary, boundary
//       numbers, small nests, long identifiers / strings, unterminated strings / comments, NUL
//       and non-ASCII bytes, repeated ranges);
//   (c) shape families (c20shapes.go) as scaling series n, 2n, 4n, ... and as depth probes
//       10 ... 100 000 (1 000 000 in thorough).
// Every load runs in the sandboxed child (c20sandbox.go: ulimit -v, wall-clock timeout).
//
// ORACLE (on the implementation alone):
//   class in {ok, error}                       (panic, killed, timeout are failures)
//   TotalAlloc <= A*len + B,  CPU <= C*len + D (constants per loader below; fixed)
//   scaling series: alloc(2n)/alloc(n) and cpu(2n)/cpu(n) below fixed factors
// outside the known-finding region D23 (GRL
// and JSON rules: more than c20RegionTokens lexical elements - the builder is super-linear) whose
// fixed witnesses are replayed on every run and reported under their keys.
//
// CORRESPONDENCE: the binary part is c20bin.go unchanged (Codec.v decode / alloc_decode); GRL
// inputs inside the model's ASCII domain go through Parser.v parse_grl / build
// (CorrParse.c17_case_diff: verdict and snapshot of every stored rule); JSON rule objects whose
// decoded value is inside the model's domain go through JsonRule.v translate (CorrJson).
//
// This is fuzzing / differential testing; the theorems are in coq/props/C20.v.

import (
	"encoding/json"
	"fmt"
	"math"
	"os"
	"path/filepath"
	"sort"
	"strconv"
	"strings"
	"time"
)

type c20Bound struct {
	A, B uint64  // TotalAlloc <= A*len + B
	C, D float64 // CPU ns <= C*len + D
}

// fixed oracle constants; the observed maxima are printed next to them in the evidence
var c20Bounds = map[string]c20Bound{
	ldGRL:    {A: 16384, B: 48 << 20, C: 400e3, D: 8e9},
	ldJRule:  {A: 16384, B: 48 << 20, C: 400e3, D: 8e9},
	ldJXlate: {A: 512, B: 4 << 20, C: 40e3, D: 4e9},
	ldJFact:  {A: 512, B: 4 << 20, C: 40e3, D: 4e9},
	ldBin:    {A: 64, B: 8 << 20, C: 20e3, D: 4e9},
}

const c20AllocRatioMax = 3.0       // doubling the size: linear 2, quadratic 4
const c20CPUExponentMax = 1.7      // growth exponent of the CPU time over a doubling chain: linear 1, quadratic 2
const c20AllocRatioFloor = 2 << 20 // ratios are evaluated when the larger run allocated at least this much
const c20CPURatioFloor = 200e6     // the exponent is evaluated when the largest member used at least this much CPU (ns)
const c20CPUChainStart = 40e6      // ... from the first member of the chain that used at least this much

type c20Scenario struct {
	In        *c20In  `json:"input"`
	Len       int     `json:"len"`
	Tokens    int     `json:"tokens,omitempty"`
	Out       c20Res  `json:"out"`
	Prev      *c20In  `json:"prev,omitempty"`       // scaling: the input of half the size
	TimeChain bool    `json:"time_chain,omitempty"` // prev is the first member of a doubling chain, the verdict is the growth exponent of the CPU time
	PrevO     *c20Res `json:"prev_out,omitempty"`
	Loader    string  `json:"loader"` // distinguishes these replays from the binary-only ones
}

func c20ClassOracle(in *c20In, o c20Res) string {
	switch o.Class {
	case "ok", "error":
		return ""
	case "panic":
		return "the loader panicked: " + o.Msg
	case "killed":
		return "the process running the loader was killed: " + o.Msg
	case "timeout":
		return fmt.Sprintf("the loader did not return within %d ms", in.timeoutMs())
	}
	return "no outcome recorded"
}

// inside region D23 the linear bound is refuted (known finding); what is still enforced there is
// the envelope A*len + B + c20CubicQ*tokens^3, so that a further deterioration is noticed
const c20CubicQ = 96
const c20TimeoutTokens = 250

func c20EnvelopeOracle(in *c20In, n, tokens int, o c20Res) string {
	bd := c20Bounds[in.Loader]
	t := uint64(tokens)
	if lim := bd.A*uint64(n) + bd.B + c20CubicQ*t*t*t; o.Alloc > lim {
		return fmt.Sprintf("allocated %d bytes for an input of %d bytes / %d lexical elements (envelope inside region D23: %d*len + %d + %d*elements^3 = %d)", o.Alloc, n, tokens, bd.A, bd.B, c20CubicQ, lim)
	}
	return ""
}

func c20AllocOracle(in *c20In, n int, o c20Res) string {
	bd := c20Bounds[in.Loader]
	if lim := bd.A*uint64(n) + bd.B; o.Alloc > lim {
		return fmt.Sprintf("allocated %d bytes for an input of %d bytes (bound %d*len + %d = %d)", o.Alloc, n, bd.A, bd.B, lim)
	}
	return ""
}

func c20CPUOracle(in *c20In, n int, o c20Res) string {
	bd := c20Bounds[in.Loader]
	if lim := bd.C*float64(n) + bd.D; float64(o.CPUNs) > lim {
		return fmt.Sprintf("used %.0f ms of CPU for an input of %d bytes (bound %.0f us*len + %.0f ms)", float64(o.CPUNs)/1e6, n, bd.C/1e3, bd.D/1e6)
	}
	return ""
}

func c20LinearOracle(in *c20In, n int, o c20Res) string {
	if msg := c20AllocOracle(in, n, o); msg != "" {
		return msg
	}
	return c20CPUOracle(in, n, o)
}

// growth exponent of the CPU time between two sizes: 1 linear, 2 quadratic
func c20Exponent(nlo, nhi int, tlo, thi int64) float64 {
	if tlo <= 0 || thi <= 0 || nhi <= nlo {
		return 0
	}
	return math.Log(float64(thi)/float64(tlo)) / math.Log(float64(nhi)/float64(nlo))
}

// the chain of consecutive doublings that ends at the largest member of a series: its first member with at least
// c20CPUChainStart of CPU time and its last member, provided that spans two doublings and ends above the floor
func c20TimeChain(idx []int, get func(i int) (n int, cpu int64, class string)) (lo, hi int, ok bool) {
	if len(idx) < 3 {
		return 0, 0, false
	}
	hi = idx[len(idx)-1]
	nhi, thi, chi := get(hi)
	if float64(thi) < c20CPURatioFloor || (chi != "ok" && chi != "error") {
		return 0, 0, false
	}
	lo = -1
	n := nhi
	for k := len(idx) - 2; k >= 0; k-- {
		nk, tk, ck := get(idx[k])
		if nk*2 != n || ck != chi || float64(tk) < c20CPUChainStart {
			break
		}
		n = nk
		lo = idx[k]
	}
	if lo < 0 {
		return 0, 0, false
	}
	nlo, _, _ := get(lo)
	return lo, hi, nhi >= 4*nlo
}

// A verdict that rests on a time measurement is confirmed before it is reported: the inputs run
// `rounds` more times in sandboxes of their own and the smallest CPU time counts (the machine may be busy).
func c20MinCPU(dir string, ins []*c20In, rounds int) ([]c20Res, error) {
	var all []*c20In
	for r := 0; r < rounds; r++ {
		all = append(all, ins...)
	}
	res, err := c20RunSandbox(dir, all, 3<<20, 3)
	if err != nil {
		return nil, err
	}
	out := make([]c20Res, len(ins))
	for i := range ins {
		out[i] = res[i]
		for r := 1; r < rounds; r++ {
			o := res[r*len(ins)+i]
			if o.Class != out[i].Class {
				continue
			}
			if o.CPUNs < out[i].CPUNs {
				out[i].CPUNs, out[i].Ns = o.CPUNs, o.Ns
			}
			if o.Alloc < out[i].Alloc {
				out[i].Alloc = o.Alloc
			}
		}
	}
	return out, nil
}

type c20Stat struct {
	N           int            `json:"inputs"`
	MaxLen      int            `json:"max_len"`
	MaxAllocLen float64        `json:"max_alloc_per_byte"` // over inputs of at least 4096 bytes
	MaxAllocSm  uint64         `json:"max_alloc_small"`    // over inputs below 4096 bytes
	MaxCPULen   float64        `json:"max_cpu_us_per_byte"`
	MaxCPUSm    float64        `json:"max_cpu_ms_small"`
	MaxWallMs   float64        `json:"max_wall_ms"`
	MaxARatio   float64        `json:"max_alloc_ratio"`
	MaxCRatio   float64        `json:"max_cpu_growth_exponent"`
	ARatioAt    string         `json:"max_alloc_ratio_at,omitempty"`
	CRatioAt    string         `json:"max_cpu_growth_exponent_at,omitempty"`
	WorstAlloc  string         `json:"max_alloc_per_byte_at,omitempty"`
	WorstCPU    string         `json:"max_cpu_per_byte_at,omitempty"`
	Classes     map[string]int `json:"classes"`
}

func runC20All(seed uint64, tier string, out string) error {
	os.MkdirAll(out, 0o755)
	old, _ := filepath.Glob(filepath.Join(out, "cases_*.v*"))
	for _, f := range old {
		os.Remove(f)
	}
	thorough := tier == "thorough"
	// ---- binary correspondence + oracle of c20bin.go, in a sub-directory, merged below ----
	binDir := filepath.Join(out, "bin")
	binErr := make(chan error, 1)
	go func() { binErr <- runC20Bin(seed, tier, binDir) }()

	p := newPrng(seed ^ 0xC20A11)
	rep := newReport("C20", seed, tier)
	witRep := newReport("C20", seed, tier)
	witErr := make(chan error, 1)
	go func() { witErr <- c20RunWitnesses(filepath.Join(out, "witness"), thorough, witRep) }()
	nRandom, nMut := 60, 260
	loadTokens := c20LoadTokensQuick
	if thorough {
		nRandom, nMut = 1500, 8000
		loadTokens = c20LoadTokensThorough
	}
	var ins []*c20In
	add := func(in *c20In) { ins = append(ins, in) }
	for _, in := range c20Battery() {
		add(in)
	}
	// valid bases
	bases := map[string][][]byte{}
	for i := 0; i < 24; i++ {
		bases[ldGRL] = append(bases[ldGRL], []byte(c20ValidGRL(p.fork())))
		bases[ldJRule] = append(bases[ldJRule], []byte(c20ValidJSONRule(p.fork())))
		bases[ldJFact] = append(bases[ldJFact], []byte(c20ValidJSONFact(p.fork())))
	}
	for i := 0; i < 2; i++ {
		s := genC12(p.fork(), 0)
		if lib, err := s.build(); err == nil {
			if w, err := storeKB(lib, s.KBName, s.Version, -1, false); err == nil {
				bases[ldBin] = append(bases[ldBin], w.buf.Bytes())
			}
		}
	}
	nRealBin := len(bases[ldBin])
	for i := 0; i < 24; i++ {
		if b := synthCatalog(p.fork()); b != nil {
			bases[ldBin] = append(bases[ldBin], b)
		}
	}
	for _, ld := range c20Loaders {
		for _, b := range bases[ld] {
			add(rawIn(ld, "valid", b))
		}
		for i := 0; i < nRandom; i++ {
			add(c20RandomBytes(p, ld))
		}
		bs := bases[ld]
		for i := 0; i < nMut && len(bs) > 0; i++ {
			base, other := bs[p.intn(len(bs))], bs[p.intn(len(bs))]
			var b []byte
			var m string
			switch ld {
			case ldGRL:
				t, mm := c20GRLMutate(p, string(base), string(other))
				b, m = []byte(t), mm
			case ldJRule, ldJFact:
				t, mm := c20JSONMutate(p, string(base), string(other))
				b, m = []byte(t), mm
			default:
				if nRealBin > 0 && p.chance(1, 6) {
					base = bs[p.intn(nRealBin)]
				} else if len(bs) > nRealBin {
					base = bs[nRealBin+p.intn(len(bs)-nRealBin)]
				}
				if p.chance(1, 2) {
					b, m = mutate(p, base, other)
				} else {
					b, m = c20ByteMutate(p, base, other)
				}
			}
			if p.chance(1, 5) {
				var m2 string
				b, m2 = c20ByteMutate(p, b, other)
				m += " + " + m2
			}
			add(rawIn(ld, "mutant: "+m, b))
		}
	}
	// everything generated for the JSON rule loader also goes through its translation stage alone
	for _, in := range ins {
		if in.Loader == ldJRule {
			c := *in
			c.Loader = ldJXlate
			add(&c)
		}
	}
	// ---- shape families: scaling series and depth probes ----
	series := []int{2000, 4000, 8000, 16000, 32000}
	probes := []int{10, 100, 1000, 10000, 100000}
	small := []int{10, 40, 120}
	if thorough {
		series = []int{2000, 4000, 8000, 16000, 32000, 64000, 128000, 256000}
		probes = []int{10, 100, 1000, 10000, 100000, 1000000}
		small = []int{10, 40, 120, 200}
	}
	shapes := c20Shapes()
	for _, sh := range shapes {
		seen := map[int]bool{}
		for _, set := range [][]int{series, probes, small} {
			for _, n := range set {
				if seen[n] || sh.MaxN > 0 && n > sh.MaxN {
					continue
				}
				seen[n] = true
				in := sh.Make(n)
				in.Series, in.N = sh.Name, n
				add(in)
			}
		}
	}
	// the members of the doubling series run three times (the oracle takes the smallest CPU time: the first parse in a
	// child pays for ANTLR's prediction cache, and the machine may be busy)
	nOnce := len(ins)
	for rnd := 0; rnd < 2; rnd++ {
		for _, in := range ins[:nOnce] {
			if in.Series == "" || in.N < series[0] || in.N > series[len(series)-1] {
				continue
			}
			isSeries := false
			for _, n := range series {
				isSeries = isSeries || n == in.N
			}
			if !isSeries {
				continue
			}
			c := *in
			c.Kind = in.Kind + " (repeat)"
			c.repeatOf = in
			add(&c)
		}
	}
	// ---- regions ----
	type item struct {
		in     *c20In
		n      int
		tokens int
		d23    bool
	}
	var run []*c20In
	var items []item
	for _, in := range ins {
		b := in.bytes()
		it := item{in: in, n: len(b)}
		if in.Loader == ldGRL || in.Loader == ldJRule {
			it.tokens = c20Tokens(b)
			it.d23 = it.tokens > c20RegionTokens
			if it.tokens > loadTokens {
				rep.count(in.Loader + ": inside known-finding region D23, above the loading limit (not loaded)")
				continue
			}
		}
		if in.Loader == ldJXlate {
			it.tokens = c20JSONDepth(b) // the envelope uses the nesting depth here
			it.d23 = it.tokens > c20RegionDepth
		}
		in.size = it.n
		if it.d23 {
			in.size = it.n + it.tokens*it.tokens*8 // scheduling weight only
		}
		run = append(run, in)
		items = append(items, it)
	}
	memKB := 3 << 20
	workers := 14
	if v, err := strconv.Atoi(os.Getenv("C20_WORKERS")); err == nil && v > 0 {
		workers = v
	}
	tSand := time.Now()
	res, err := c20RunSandbox(out, run, memKB, workers)
	if err != nil {
		return err
	}
	rep.Extra["sandbox_wall_s"] = time.Since(tSand).Seconds()
	// ---- oracle ----
	stats := map[string]*c20Stat{}
	for _, ld := range append([]string{ldJXlate}, c20Loaders...) {
		stats[ld] = &c20Stat{Classes: map[string]int{}}
		stats[ld+" (region D23)"] = &c20Stat{Classes: map[string]int{}}
	}
	distinct := map[string]bool{}
	regionTimeouts := 0
	var suspects [][3]int // time-based verdicts awaiting confirmation: (-1, -1, item) absolute bound, (p, a, b) two consecutive doublings
	bySeries := map[string][]int{}
	minCPU := map[string]int64{}
	minAlloc := map[string]uint64{}
	for i, it := range items {
		o := res[i]
		in := it.in
		rep.Evaluations++
		key := in.Loader
		if it.d23 {
			key += " (region D23)"
		}
		st := stats[key]
		st.N++
		st.Classes[o.Class]++
		if o.Class == "panic" || o.Class == "killed" {
			rep.count(in.Loader + " " + o.Class + ": " + clip(o.Msg, 70))
		}
		kind := in.Kind
		if j := strings.Index(kind, " + "); j > 0 {
			kind = kind[:j]
		}
		if in.Series != "" {
			kind = "shape"
		}
		if j := strings.Index(kind, "truncate "); j > 0 {
			kind = kind[:j] + "truncate at a token boundary"
		}
		rep.count(in.Loader + " / " + strings.SplitN(kind, " (", 2)[0])
		switch {
		case it.n < 64:
			rep.count("size < 64 B")
		case it.n < 1024:
			rep.count("size 64 B - 1 KiB")
		case it.n < 65536:
			rep.count("size 1 - 64 KiB")
		case it.n < 1<<20:
			rep.count("size 64 KiB - 1 MiB")
		default:
			rep.count("size >= 1 MiB")
		}
		if it.n > st.MaxLen {
			st.MaxLen = it.n
		}
		if w := float64(o.Ns) / 1e6; w > st.MaxWallMs {
			st.MaxWallMs = w
		}
		if it.n >= 4096 {
			if r := float64(o.Alloc) / float64(it.n); r > st.MaxAllocLen {
				st.MaxAllocLen, st.WorstAlloc = r, fmt.Sprintf("%s n=%d len=%d", in.Kind, in.N, it.n)
			}
			if r := float64(o.CPUNs) / 1e3 / float64(it.n); r > st.MaxCPULen {
				st.MaxCPULen, st.WorstCPU = r, fmt.Sprintf("%s n=%d len=%d", in.Kind, in.N, it.n)
			}
		} else {
			if o.Alloc > st.MaxAllocSm {
				st.MaxAllocSm = o.Alloc
			}
			if c := float64(o.CPUNs) / 1e6; c > st.MaxCPUSm {
				st.MaxCPUSm = c
			}
		}
		sc := c20Scenario{In: in, Len: it.n, Tokens: it.tokens, Out: o, Loader: in.Loader}
		if msg := c20ClassOracle(in, o); msg != "" {
			if it.d23 && o.Class == "timeout" && it.tokens > c20TimeoutTokens && in.Loader != ldJXlate {
				// not returning in time deep inside region D23 is the known finding itself (worst observed cost
				// about 110 ns * elements^3: 20 s are plausible from some 350 elements on a busy machine)
				rep.count(in.Loader + ": timeout inside known-finding region D23")
				if regionTimeouts < 2 {
					rep.failKey("D23-grl-builder-superlinear", fmt.Sprintf("C20 (%s, %s, %d bytes, %d lexical elements): %s", in.Loader, in.Kind, it.n, it.tokens, msg), sc)
				}
				regionTimeouts++
			} else {
				rep.fail(fmt.Sprintf("C20 (%s, %s, %d bytes): %s", in.Loader, in.Kind, it.n, msg), sc)
			}
		} else if !it.d23 {
			if msg := c20AllocOracle(in, it.n, o); msg != "" {
				rep.fail(fmt.Sprintf("C20 (%s, %s): %s", in.Loader, in.Kind, msg), sc)
			} else if c20CPUOracle(in, it.n, o) != "" {
				suspects = append(suspects, [3]int{-1, -1, i})
			}
		} else if msg := c20EnvelopeOracle(in, it.n, it.tokens, o); msg != "" {
			rep.fail(fmt.Sprintf("C20 (%s, %s): %s", in.Loader, in.Kind, msg), sc)
		}
		if in.repeatOf != nil {
			rep.count("repeated run of a series member")
		}
		if it.n > 40 || o.Class == "ok" {
			distinct[in.Loader+"\x00"+string(in.bytesKey())] = true
		}
		if in.Series != "" && !it.d23 {
			mk := fmt.Sprintf("%s\x00%s\x00%d", in.Loader, in.Series, in.N)
			if (o.Class == "ok" || o.Class == "error") && (minCPU[mk] == 0 || o.CPUNs < minCPU[mk]) {
				minCPU[mk] = o.CPUNs
			}
			if (o.Class == "ok" || o.Class == "error") && (minAlloc[mk] == 0 || o.Alloc < minAlloc[mk]) {
				minAlloc[mk] = o.Alloc
			}
			if in.repeatOf == nil {
				bySeries[in.Loader+"\x00"+in.Series] = append(bySeries[in.Loader+"\x00"+in.Series], i)
			}
		}
		if len(rep.Samples) < 5 && i%397 == 11 && it.n < 400 {
			rep.sample(sc)
		}
	}
	// scaling ratios between consecutive doublings
	for _, idx := range bySeries {
		sort.Slice(idx, func(a, b int) bool { return items[idx[a]].in.N < items[idx[b]].in.N })
		for k := 1; k < len(idx); k++ {
			a, b := idx[k-1], idx[k]
			if items[b].in.N != 2*items[a].in.N {
				continue
			}
			oa, ob := res[a], res[b]
			if (oa.Class != "ok" && oa.Class != "error") || oa.Class != ob.Class {
				continue
			}
			// smallest figures over the repeated runs
			ka := fmt.Sprintf("%s\x00%s\x00%d", items[a].in.Loader, items[a].in.Series, items[a].in.N)
			kb := fmt.Sprintf("%s\x00%s\x00%d", items[b].in.Loader, items[b].in.Series, items[b].in.N)
			oa.CPUNs, ob.CPUNs, oa.Alloc, ob.Alloc = minCPU[ka], minCPU[kb], minAlloc[ka], minAlloc[kb]
			st := stats[items[b].in.Loader]
			sc := c20Scenario{In: items[b].in, Len: items[b].n, Out: ob, Prev: items[a].in, PrevO: &oa, Loader: items[b].in.Loader}
			where := fmt.Sprintf("%s n=%d -> %d", items[b].in.Series, items[a].in.N, items[b].in.N)
			if ob.Alloc >= c20AllocRatioFloor && oa.Alloc > 0 {
				r := float64(ob.Alloc) / float64(oa.Alloc)
				if r > st.MaxARatio {
					st.MaxARatio, st.ARatioAt = r, where
				}
				if r > c20AllocRatioMax {
					rep.fail(fmt.Sprintf("C20 (%s, scaling %s): doubling the input multiplied the allocation by %.2f (%d -> %d bytes; bound %.1f)", items[b].in.Loader, where, r, oa.Alloc, ob.Alloc, c20AllocRatioMax), sc)
				}
			}
		}
		// CPU time: growth exponent over the doubling chain that ends at the largest size (at least two doublings)
		var chain []int
		for _, i := range idx {
			for _, n := range series {
				if items[i].in.N == n {
					chain = append(chain, i)
				}
			}
		}
		if lo, hi, ok := c20TimeChain(chain, func(i int) (int, int64, string) {
			it := items[i]
			return it.in.N, minCPU[fmt.Sprintf("%s\x00%s\x00%d", it.in.Loader, it.in.Series, it.in.N)], res[i].Class
		}); ok {
			st := stats[items[hi].in.Loader]
			tlo := minCPU[fmt.Sprintf("%s\x00%s\x00%d", items[lo].in.Loader, items[lo].in.Series, items[lo].in.N)]
			thi := minCPU[fmt.Sprintf("%s\x00%s\x00%d", items[hi].in.Loader, items[hi].in.Series, items[hi].in.N)]
			e := c20Exponent(items[lo].in.N, items[hi].in.N, tlo, thi)
			if e > c20CPUExponentMax {
				suspects = append(suspects, [3]int{-2, lo, hi})
			} else if e > st.MaxCRatio {
				st.MaxCRatio, st.CRatioAt = e, fmt.Sprintf("%s n=%d .. %d", items[hi].in.Series, items[lo].in.N, items[hi].in.N)
			}
		}
	}
	// confirmation of the time-based verdicts: the inputs run again (4 rounds, 2 for expensive ones) in sandboxes of their
	// own; the smallest CPU time over all runs of an input counts
	if len(suspects) > 0 {
		var cin []*c20In
		for _, sp := range suspects {
			for _, i := range sp {
				if i >= 0 {
					cin = append(cin, items[i].in)
				}
			}
		}
		rounds := 4
		for _, in := range cin {
			for i, it := range items {
				if it.in == in && res[i].CPUNs > 10e9 {
					rounds = 2
				}
			}
		}
		cres, err := c20MinCPU(filepath.Join(out, "confirm"), cin, rounds)
		if err != nil {
			return err
		}
		k := 0
		best := func(i int) c20Res { // smallest CPU time over the first runs and the re-measurement
			o := cres[k]
			k++
			it := items[i]
			if it.in.Series != "" {
				mk := fmt.Sprintf("%s\x00%s\x00%d", it.in.Loader, it.in.Series, it.in.N)
				if m, ok := minCPU[mk]; ok && m < o.CPUNs {
					o.CPUNs = m
				}
			}
			if res[i].CPUNs < o.CPUNs && res[i].Class == o.Class {
				o.CPUNs = res[i].CPUNs
			}
			return o
		}
		for _, sp := range suspects {
			rep.count("time-based verdict re-measured")
			if sp[0] == -1 {
				it := items[sp[2]]
				o := best(sp[2])
				if msg := c20CPUOracle(it.in, it.n, o); msg != "" && (o.Class == "ok" || o.Class == "error") {
					rep.fail(fmt.Sprintf("C20 (%s, %s): %s (smallest of the repeated runs)", it.in.Loader, it.in.Kind, msg), c20Scenario{In: it.in, Len: it.n, Out: o, Loader: it.in.Loader})
				}
				continue
			}
			olo, ohi := best(sp[1]), best(sp[2])
			ilo, ihi := items[sp[1]], items[sp[2]]
			st := stats[ihi.in.Loader]
			where := fmt.Sprintf("%s n=%d .. %d", ihi.in.Series, ilo.in.N, ihi.in.N)
			e := c20Exponent(ilo.in.N, ihi.in.N, olo.CPUNs, ohi.CPUNs)
			if e > c20CPUExponentMax && olo.Class == ohi.Class {
				rep.fail(fmt.Sprintf("C20 (%s, scaling %s): the CPU time grows with exponent %.2f in the size (%.0f ms at n=%d, %.0f ms at n=%d, smallest of the repeated runs; bound %.1f, linear is 1)", ihi.in.Loader, where, e,
					float64(olo.CPUNs)/1e6, ilo.in.N, float64(ohi.CPUNs)/1e6, ihi.in.N, c20CPUExponentMax), c20Scenario{In: ihi.in, Len: ihi.n, Out: ohi, Prev: ilo.in, PrevO: &olo, TimeChain: true, Loader: ihi.in.Loader})
			} else if e > st.MaxCRatio {
				st.MaxCRatio, st.CRatioAt = e, where+" (re-measured)"
			}
		}
	}
	rep.Extra["observed"] = stats
	rep.Extra["oracle_constants"] = map[string]interface{}{"alloc_le_A_len_plus_B_and_cpu_ns_le_C_len_plus_D": c20Bounds, "alloc_ratio_max": c20AllocRatioMax, "cpu_growth_exponent_max": c20CPUExponentMax, "cpu_chain_start_ns": c20CPUChainStart,
		"ratio_floor_alloc_bytes": c20AllocRatioFloor, "ratio_floor_cpu_ns": c20CPURatioFloor, "region_D23_tokens": c20RegionTokens, "region_D23_loading_limit_tokens": loadTokens,
		"sandbox": fmt.Sprintf("ulimit -v %d KiB, wall-clock timeout 20 s + 50 us/byte, GOMAXPROCS=2, %d parallel children", memKB, workers)}
	rep.Extra["shape_families"] = len(shapes)
	rep.Extra["series_sizes"] = series
	rep.Extra["probe_sizes"] = probes

	// ---- merge the binary part ----
	if err := <-binErr; err != nil {
		return err
	}
	var index []interface{}
	var binRep Report
	if b, err := os.ReadFile(filepath.Join(binDir, "report.json")); err == nil && json.Unmarshal(b, &binRep) == nil {
		rep.Evaluations += binRep.Evaluations
		for k, v := range binRep.Distribution {
			rep.Distribution["binary (c20bin) / "+k] += v
		}
		rep.OracleFailures = append(rep.OracleFailures, binRep.OracleFailures...)
		rep.KnownFindings = append(rep.KnownFindings, binRep.KnownFindings...)
		rep.DistinctNontrivial += binRep.DistinctNontrivial
		rep.Extra["binary_rule"] = binRep.Rule
	} else {
		return fmt.Errorf("binary part wrote no report: %v", err)
	}
	if b, err := os.ReadFile(filepath.Join(binDir, "cases.json")); err == nil {
		json.Unmarshal(b, &index)
	}
	shards, _ := filepath.Glob(filepath.Join(binDir, "cases_*.v"))
	for _, f := range shards {
		b, err := os.ReadFile(f)
		if err != nil {
			return err
		}
		if err := os.WriteFile(filepath.Join(out, strings.Replace(filepath.Base(f), "cases_", "cases_bin_", 1)), b, 0o644); err != nil {
			return err
		}
	}
	nBinCases := len(index)
	// ---- correspondence with the GRL parser model and the JSON translator model ----
	nGRL, nJR := 260, 100
	if thorough {
		nGRL, nJR = 4000, 2000
	}
	var grlCases, jrCases []string
	for i, it := range items {
		o := res[i]
		if o.Class != "ok" && o.Class != "error" || it.n > 1500 || it.tokens > 260 {
			continue
		}
		switch {
		case it.in.Loader == ldGRL && len(grlCases) < nGRL:
			if c, rec, ok := c20GRLCase(len(index), it.in, it.in.bytes()); ok {
				grlCases = append(grlCases, c)
				index = append(index, rec)
				rep.count("correspondence: GRL text through the parser model")
			}
		case it.in.Loader == ldJRule && len(jrCases) < nJR:
			if c, rec, ok := c20JRuleCase(len(index), it.in, it.in.bytes()); ok {
				jrCases = append(jrCases, c)
				index = append(index, rec)
				rep.count("correspondence: JSON rule object through the translator model")
			}
		}
	}
	if err := c20WriteShards(out, "grl", "From Grule Require Import Base Values Syntax Lexer Parser CorrParse.", "c17_mismatches", "c17case", grlCases, 12); err != nil {
		return err
	}
	if err := c20WriteShards(out, "jrule", "From Grule Require Import Base Values Syntax Lexer Parser EngineAbs Facts Methods CorrParse JsonRule CorrJson.", "c18_mismatches", "c18case", jrCases, 8); err != nil {
		return err
	}
	if err := <-witErr; err != nil {
		return err
	}
	rep.OracleFailures = append(rep.OracleFailures, witRep.OracleFailures...)
	for k, v := range witRep.Distribution {
		rep.Distribution[k] += v
	}
	rep.Cases = len(index)
	rep.Extra["correspondence_cases"] = map[string]int{"binary stream (Codec.decode / alloc_decode)": nBinCases, "GRL text (Parser.build)": len(grlCases), "JSON rule (JsonRule.translate)": len(jrCases)}
	rep.DistinctNontrivial += len(distinct)
	rep.Rule = "arbitrary bytes presented to the four loaders: fixed battery of small edge cases, random bytes, structure-aware mutants of generated valid inputs, shape families as doubling series and depth probes; " +
		"each load in a child process under ulimit -v with a wall-clock timeout; non-trivial = loads successfully or longer than 40 bytes, distinct by (loader, content); binary part: " + binRep.Rule
	return rep.write(out, index)
}

// a short key of the content (the parts, not the expanded bytes)
func (in *c20In) bytesKey() []byte {
	b, _ := json.Marshal(in.Parts)
	return b
}

func replayC20(path string) (bool, string, error) {
	b, err := os.ReadFile(path)
	if err != nil {
		return false, "", err
	}
	var rp struct {
		Scenario struct {
			Loader string `json:"loader"`
		} `json:"scenario"`
	}
	if json.Unmarshal(b, &rp) != nil || rp.Scenario.Loader == "" {
		return replayC20Bin(path)
	}
	var full struct {
		Scenario c20Scenario `json:"scenario"`
	}
	if err := json.Unmarshal(b, &full); err != nil {
		return false, "", err
	}
	sc := full.Scenario
	dir, _ := os.MkdirTemp("", "c20replay")
	defer os.RemoveAll(dir)
	ins := []*c20In{sc.In}
	if sc.Prev != nil {
		ins = append(ins, sc.Prev)
	}

	res, err := c20MinCPU(dir, ins, 3)
	if err != nil {
		return false, "", err
	}
	o := res[0]
	n := sc.In.length()
	msg := c20ClassOracle(sc.In, o)
	if msg == "" {
		if inRegionD23(sc.In, sc.In.bytes()) {
			t := c20Tokens(sc.In.bytes())
			if sc.In.Loader == ldJXlate {
				t = c20JSONDepth(sc.In.bytes())
			}
			msg = c20EnvelopeOracle(sc.In, n, t, o)
		} else {
			msg = c20LinearOracle(sc.In, n, o)
		}
	}
	desc := fmt.Sprintf("loader=%s kind=%q len=%d class=%s alloc=%d cpu_ms=%.1f wall_ms=%.1f %s", sc.In.Loader, sc.In.Kind, n, o.Class, o.Alloc, float64(o.CPUNs)/1e6, float64(o.Ns)/1e6, o.Msg)
	if msg == "" && sc.Prev != nil {
		oa := res[1]
		if !sc.TimeChain && o.Alloc >= c20AllocRatioFloor && oa.Alloc > 0 && float64(o.Alloc)/float64(oa.Alloc) > c20AllocRatioMax {
			msg = fmt.Sprintf("allocation ratio %.2f for twice the size", float64(o.Alloc)/float64(oa.Alloc))
		}
		if sc.TimeChain {
			if e := c20Exponent(sc.Prev.N, sc.In.N, oa.CPUNs, o.CPUNs); e > c20CPUExponentMax && float64(o.CPUNs) >= c20CPURatioFloor {
				msg = fmt.Sprintf("CPU time grows with exponent %.2f between n=%d and n=%d", e, sc.Prev.N, sc.In.N)
			}
		}
		desc += fmt.Sprintf(" | half size: alloc=%d cpu_ms=%.1f", oa.Alloc, float64(oa.CPUNs)/1e6)
	}
	if n <= 400 {
		desc += fmt.Sprintf("\ninput=%q", sc.In.bytes())
	}
	return msg != "", desc + "\n" + msg, nil
}

// harness C20PROBE: measurement aid.  C20_PROBE=<substring of shape names> C20_SIZES=10,100,...
func runC20Probe(seed uint64, tier string, out string) error {
	want := os.Getenv("C20_PROBE")
	var sizes []int
	for _, s := range strings.Split(os.Getenv("C20_SIZES"), ",") {
		if n, err := strconv.Atoi(strings.TrimSpace(s)); err == nil {
			sizes = append(sizes, n)
		}
	}
	if len(sizes) == 0 {
		sizes = []int{10, 100, 1000, 10000}
	}
	var ins []*c20In
	for _, sh := range c20Shapes() {
		if !strings.Contains(sh.Name, want) {
			continue
		}
		for _, n := range sizes {
			if sh.MaxN > 0 && n > sh.MaxN {
				continue
			}
			in := sh.Make(n)
			in.N = n
			ins = append(ins, in)
		}
	}
	memKB := 4 << 20
	if v, err := strconv.Atoi(os.Getenv("C20_MEMKB")); err == nil {
		memKB = v
	}
	res, err := c20RunSandbox(out, ins, memKB, 12)
	if err != nil {
		return err
	}
	for i, in := range ins {
		r := res[i]
		l := in.length()
		fmt.Printf("%-48s n=%-8d len=%-9d tok=%-7d %-7s alloc=%-11d a/len=%-8.1f alloc1=%-10d cpu_ms=%-8.1f wall_ms=%-8.1f us/B=%-7.2f %s\n", in.Kind, in.N, l, c20Tokens(in.bytes()), r.Class, r.Alloc,
			float64(r.Alloc)/float64(l+1), r.Alloc1, float64(r.CPUNs)/1e6, float64(r.Ns)/1e6, float64(r.CPUNs)/1e3/float64(l+1), clip(r.Msg, 80))
	}
	return nil
}

func init() {
	runners["C20"] = runC20All
	runners["C20PROBE"] = runC20Probe
}
