package main

import "fmt"

// Fixed regression scenarios: the witnesses of recorded findings (DESIGN.md §5).  They run on every
// check of the properties they concern, before the generated stream.  A failing scenario is reported
// with its key; the check driver prints KNOWN-FINDING for keys listed as open in known_findings.json
// and VIOLATION for any other failure.  Nothing is suppressed here.

type regression struct {
	Key string
	S   EngScenario
}

func baseFact() *Fact {
	f := genFact(newPrng(7))
	f.I, f.I64 = 0, 0
	f.Arr = []int64{0, 1, 2}
	f.M = map[string]int64{"a": 0, "b": 1}
	f.S = "a"
	f.In = &Inner{X: 0, Y: 0.5, S: "in", B: true}
	return f
}

func regressionScenarios(prop string) []regression {
	if prop != "C01" && prop != "C02" {
		return nil
	}
	mk := func(rules ...*Rule) EngScenario {
		return EngScenario{Rules: rules, Fact: baseFact(), N: 0, MaxCycle: 12, CancelAt: -1, Listeners: 1}
	}
	var out []regression
	// D2: a method reads a field through its receiver; the assignment to the field does not reset the method atom
	out = append(out, regression{"D2-method-reads-assigned-field", mk(&Rule{Name: "R0", Desc: "d2", Sal: 0,
		When: mkBin("<", method(aVar(vName("F")), "GetI64"), cInt(3)),
		Then: []*Stmt{assign(vPath("F", "I64"), "=", mkBin("+", eVar(vPath("F", "I64")), cInt(1)))}})})
	// D3: element written through a constant selector, read through a computed one
	out = append(out, regression{"D3-slice-dynamic-selector", mk(&Rule{Name: "R0", Desc: "d3", Sal: 0,
		When: mkBin("<", eVar(vSel(vPath("F", "Arr"), eVar(vPath("F", "I")))), cInt(3)),
		Then: []*Stmt{assign(vSel(vPath("F", "Arr"), cInt(0)), "=", mkBin("+", eVar(vSel(vPath("F", "Arr"), cInt(0))), cInt(1)))}})})
	out = append(out, regression{"D3-map-dynamic-selector", mk(&Rule{Name: "R0", Desc: "d3m", Sal: 0,
		When: mkBin("<", eVar(vSel(vPath("F", "M"), eVar(vPath("F", "S")))), cInt(3)),
		Then: []*Stmt{assign(vSel(vPath("F", "M"), cStr("a")), "=", mkBin("+", eVar(vSel(vPath("F", "M"), cStr("a"))), cInt(1)))}})})
	// siblings below a slice element (four-component paths), the written one read through a computed selector
	{
		it := func(i *Expr, f string) *Var { return vMember(vSel(vPath("F", "Items"), i), f) }
		sc := mk(
			&Rule{Name: "Raise", Desc: "", Sal: 0,
				When: mkBin("<", eVar(it(eVar(vPath("F", "I")), "X")), cInt(3)),
				Then: []*Stmt{assign(it(cInt(0), "X"), "=", mkBin("+", eVar(it(cInt(0), "X")), cInt(1)))}},
			&Rule{Name: "Lift", Desc: "", Sal: 5,
				When: mkBin("<", eVar(it(eVar(vPath("F", "I")), "Y")), cFloat(3)),
				Then: []*Stmt{assign(it(cInt(0), "Y"), "=", mkBin("+", eVar(it(cInt(0), "Y")), cFloat(1)))}})
		sc.Fact.Items[0].X, sc.Fact.Items[0].Y = 0, 0.5
		out = append(out, regression{"deep-path-siblings-dynamic-selector", sc})
	}
	// the flat class of proofs/Frame.v (where the hypotheses of the refinement theorem are theorems): must simply hold
	neg := func(e *Expr) *Expr { return eParen(true, e) }
	fl := mk(
		&Rule{Name: "Count", Desc: "", Sal: 0,
			When: mkBin("&&", mkBin("&&", mkBin("<", eVar(vPath("F", "I64")), cInt(3)), neg(mkBin("==", eVar(vPath("F", "S")), cStr("stop")))),
				mkBin("<", method(aVar(vName("F")), "Sum", eVar(vPath("F", "I64")), cInt(1)), cInt(9))),
			Then: []*Stmt{assign(vPath("F", "I64"), "+=", cInt(1)),
				assign(vSel(vPath("F", "Arr"), cInt(1)), "=", mkBin("+", eVar(vSel(vPath("F", "Arr"), cInt(0))), eVar(vPath("F", "I64")))),
				assign(vSel(vPath("F", "M"), cStr("a")), "=", mkBin("+", eVar(vSel(vPath("F", "M"), cStr("b"))), cInt(1)))}},
		&Rule{Name: "Mark", Desc: "", Sal: 5,
			When: mkBin(">=", eVar(vPath("F", "I64")), eVar(vPath("F", "In", "X"))),
			Then: []*Stmt{assign(vPath("F", "S"), "=", mkBin("+", eVar(vPath("F", "S")), cStr("!"))), call(fn("Retract", cStr("Mark")))}},
		&Rule{Name: "Done", Desc: "", Sal: -1,
			When: mkBin("||", eAtom(&Atom{Kind: "neg", A: aVar(vPath("F", "B"))}), mkBin(">", eVar(vName("N")), cInt(5))),
			Then: []*Stmt{call(fn("Complete"))}})
	fl.Fact.In.X, fl.Fact.B, fl.Fact.S = 2, true, "go"
	out = append(out, regression{"flat-example", fl})
	return out
}

// ---- C05: operator grouping against the PUBLISHED precedence table (docs/en/GRL_en.md) ----
// `a o1 b o2 c` without parentheses, for every pair of integer operators: the engine's value against the value of the
// grouping the table prescribes.  The tree handed to the model is the grouping of the grammar (antlr/grulev3.g4).
var docLevel = map[string]int{"*": 5, "%": 5, "&": 5, "+": 4, "-": 4, "|": 4}

func intOp(op string, a, b int64) int64 {
	switch op {
	case "*":
		return a * b
	case "%":
		return a % b
	case "&":
		return a & b
	case "+":
		return a + b
	case "-":
		return a - b
	}
	return a | b
}

func intOp2(op string, a, b int64) int64 {
	if op == "%" && b == 0 {
		return 0
	}
	return intOp(op, a, b)
}

type precProbe struct {
	Key  string
	S    EngScenario
	Want int64
}

func precedenceProbes() []precProbe {
	var out []precProbe
	ops := []string{"*", "%", "&", "+", "-", "|"}
	for _, o1 := range ops {
		for _, o2 := range ops {
			var a, b, c, left, right int64
			found := false
			for _, t := range [][3]int64{{7, 6, 3}, {13, 5, 2}, {9, 4, 7}, {11, 3, 5}, {6, 7, 4}} {
				a, b, c = t[0], t[1], t[2]
				safe := func(op string, y int64) bool { return op != "%" || y != 0 }
				if !safe(o1, b) || !safe(o2, c) || !safe(o1, intOp2(o2, b, c)) {
					continue
				}
				left = intOp(o2, intOp(o1, a, b), c)
				right = intOp(o1, a, intOp(o2, b, c))
				if left != right {
					found = true
					break
				}
			}
			if !found {
				continue
			}
			want := left // same level: left-associative
			if docLevel[o2] > docLevel[o1] {
				want = right
			}
			// the grammar's grouping, for the model
			var tree *Expr
			if opLevel[o2] < opLevel[o1] {
				tree = eBin(o1, cInt(a), eBin(o2, cInt(b), cInt(c)))
			} else {
				tree = eBin(o2, eBin(o1, cInt(a), cInt(b)), cInt(c))
			}
			text := fmt.Sprintf("%d %s %d %s %d", a, o1, b, o2, c)
			r := &Rule{Name: "P", Desc: "prec", Sal: 0, When: cBool(true),
				Then: []*Stmt{assign(vPath("F", "I64"), "=", tree), call(fn("Retract", cStr("P")))}}
			r.Raw = fmt.Sprintf("rule P \"prec\" salience 0 {\n  when true\n  then\n    F.I64 = %s;\n    Retract(\"P\");\n}\n", text)
			s := EngScenario{Rules: []*Rule{r}, Fact: baseFact(), N: 0, MaxCycle: 5, CancelAt: -1, Listeners: 1}
			out = append(out, precProbe{Key: "D4-precedence " + o1 + " " + o2, S: s, Want: want})
		}
	}
	return out
}
