package main

// C11: FetchMatchingRules on generated mini rule sets (see mini.go), optionally
// after an Execute on the same instance (whose rules may have retracted
// themselves), with removed rules, equal saliences and erroring conditions.

import (
	"encoding/json"
	"fmt"
	"os"
	"sort"
	"strings"

	"github.com/hyperjumptech/grule-rule-engine/ast"
	"github.com/hyperjumptech/grule-rule-engine/engine"
)

type FetchScenario struct {
	Mini        MiniScenario `json:"mini"`
	ExecFirst   bool         `json:"exec_first"` // run Execute on the instance (fresh facts) before fetching
	FetchFacts  []int64      `json:"fetch_facts"`
}

type FetchObs struct {
	Names    []string `json:"names"`
	Sals     []int64  `json:"sals"`
	Err      string   `json:"err"`
	Before   []int64  `json:"before"`
	After    []int64  `json:"after"`
	Panicked bool     `json:"panicked"`
}

func runFetch(fs FetchScenario) (FetchObs, error) {
	var obs FetchObs
	kb, err := buildMini(fs.Mini)
	if err != nil {
		return obs, err
	}
	if fs.ExecFirst {
		f := &MiniFact{}
		f.set(fs.Mini.Counters)
		m := fs.Mini
		m.CancelAt = -1
		m.Listeners = 0
		runMiniOn(kb, m, f, fs.Mini.Counters[nCounters])
	}
	f := &MiniFact{}
	f.set(fs.FetchFacts)
	obs.Before = f.get()
	dc := ast.NewDataContext()
	dc.Add("F", f)
	dc.Add("T", fs.FetchFacts[nCounters])
	eng := &engine.GruleEngine{MaxCycle: 100, ReturnErrOnFailedRuleEvaluation: fs.Mini.RetErr}
	func() {
		defer func() {
			if r := recover(); r != nil {
				obs.Panicked = true
				obs.Err = fmt.Sprint(r)
			}
		}()
		res, err := eng.FetchMatchingRules(dc, kb)
		if err != nil {
			obs.Err = err.Error()
			return
		}
		for _, r := range res {
			obs.Names = append(obs.Names, r.RuleName)
			obs.Sals = append(obs.Sals, int64(r.Salience))
		}
	}()
	obs.After = f.get()
	return obs, nil
}

func fetchOracle(fs FetchScenario, obs FetchObs) string {
	if obs.Panicked {
		return "FetchMatchingRules panicked: " + obs.Err
	}
	if !eqCounters(obs.Before, obs.After) {
		return fmt.Sprintf("FetchMatchingRules changed the facts: %v -> %v", obs.Before, obs.After)
	}
	var want []string
	anyErr := false
	for _, r := range fs.Mini.Rules {
		if r.Removed {
			continue
		}
		v, ok := r.Cond.eval(fs.FetchFacts)
		if !ok {
			anyErr = true
			continue
		}
		if v {
			want = append(want, r.Name)
		}
	}
	if fs.Mini.RetErr && anyErr {
		if obs.Err == "" {
			return "a condition fails to evaluate and ReturnErrOnFailedRuleEvaluation is set, but no error was returned"
		}
		return ""
	}
	if obs.Err != "" {
		return "unexpected error: " + obs.Err
	}
	got := append([]string{}, obs.Names...)
	sort.Strings(got)
	sort.Strings(want)
	if strings.Join(got, ",") != strings.Join(want, ",") {
		return fmt.Sprintf("returned rules %v, satisfied non-removed rules are %v", got, want)
	}
	for i := 1; i < len(obs.Sals); i++ {
		if obs.Sals[i-1] < obs.Sals[i] {
			return fmt.Sprintf("result is not in non-increasing salience order: %v %v", obs.Names, obs.Sals)
		}
	}
	return ""
}

func (fs FetchScenario) gallinaCase(id int, obs FetchObs) string {
	var rules, entries []string
	for _, r := range fs.Mini.Rules {
		var acts []string
		for _, a := range r.Acts {
			acts = append(acts, a.gallina())
		}
		rules = append(rules, fmt.Sprintf("{| mr_key := %s; mr_cond := %s; mr_acts := %s |}", gStr(r.Name), r.Cond.gallina(), gList(acts)))
		entries = append(entries, fmt.Sprintf("{| e_key := %s; e_name := %s; e_sal := %s; e_retracted := %s; e_deleted := %s |}",
			gStr(r.Name), gStr(r.Name), gZ(r.Sal), gBool(fs.ExecFirst), gBool(r.Removed)))
	}
	var cs []string
	for _, c := range fs.FetchFacts {
		cs = append(cs, gZ(c))
	}
	o := "None"
	if obs.Err == "" {
		var ks []string
		for _, n := range obs.Names {
			ks = append(ks, gStr(n))
		}
		o = "(Some " + gList(ks) + ")"
	}
	return fmt.Sprintf("{| fc_id := %d; fc_rules := %s; fc_entries := %s; fc_counters := %s; fc_reterr := %s; fc_obs := %s |}",
		id, gList(rules), gList(entries), gList(cs), gBool(fs.Mini.RetErr), o)
}

type fetchCaseRec struct {
	Scenario FetchScenario `json:"scenario"`
	Obs      FetchObs      `json:"obs"`
}

func runC11(seed uint64, tier string, out string) error {
	p := newPrng(seed ^ 0xC11)
	rep := newReport("C11", seed, tier)
	n := 500
	if tier == "thorough" {
		n = 15000
	}
	var cases []string
	var index []interface{}
	distinct := map[string]bool{}
	for i := 0; i < n; i++ {
		m := genMini(p.fork(), "C11")
		if len(m.Rules) < 2 {
			continue
		}
		fs := FetchScenario{Mini: m, ExecFirst: p.chance(1, 3)}
		fs.FetchFacts = make([]int64, nCounters+1)
		for j := range fs.FetchFacts {
			fs.FetchFacts[j] = int64(p.intn(4))
		}
		// repeat to vary the map iteration order
		for rep2 := 0; rep2 < 2; rep2++ {
			obs, err := runFetch(fs)
			if err != nil {
				return err
			}
			rep.Evaluations++
			if what := fetchOracle(fs, obs); what != "" {
				rep.fail(what, fetchCaseRec{fs, obs})
			}
			rep.count(fmt.Sprintf("matched %d", len(obs.Names)))
			if obs.Err != "" {
				rep.count("error returned")
			}
			if fs.ExecFirst {
				rep.count("after Execute on the same instance")
			}
			if len(obs.Names) >= 2 {
				b, _ := json.Marshal(fs)
				distinct[string(b)] = true
			}
			id := len(index)
			index = append(index, fetchCaseRec{fs, obs})
			cases = append(cases, fs.gallinaCase(id, obs))
			if i < 3 && rep2 == 0 {
				rep.sample(map[string]interface{}{"grl": m.grl(), "facts": fs.FetchFacts, "returned": obs.Names, "err": obs.Err})
			}
		}
	}
	rep.Cases = len(cases)
	rep.DistinctNontrivial = len(distinct)
	rep.Rule = "random mini rule sets (2-6 rules, mixed threshold / boolean / erroring conditions, equal and extreme saliences, removed rules), FetchMatchingRules on random facts, one third after an Execute on the same instance, both flag values, each run twice (map order); non-trivial = at least two rules returned; distinct by scenario"
	if err := writeShards(out, "From Grule Require Import Base EngineGen EngineAbs MiniEngine.", "fetch_mismatches", "fetch_case", cases, 16); err != nil {
		return err
	}
	return rep.write(out, index)
}

func replayC11(path string) (bool, string, error) {
	b, err := os.ReadFile(path)
	if err != nil {
		return false, "", err
	}
	var rp struct {
		Scenario fetchCaseRec `json:"scenario"`
	}
	if err := json.Unmarshal(b, &rp); err != nil {
		return false, "", err
	}
	for i := 0; i < 20; i++ {
		obs, err := runFetch(rp.Scenario.Scenario)
		if err != nil {
			return false, "", err
		}
		if what := fetchOracle(rp.Scenario.Scenario, obs); what != "" {
			return true, what + "\n" + rp.Scenario.Scenario.Mini.grl(), nil
		}
	}
	return false, rp.Scenario.Scenario.Mini.grl(), nil
}

func init() {
	runners["C11"] = runC11
	replayers["C11"] = replayC11
}
