package main

// C17: a GRL document is accepted exactly when it is grammatical.
//
// Generated valid documents (typed rule sets of enggen.go and purely syntactic
// documents with every lexical variety the grammar has) and mutants of them
// (delete / duplicate / swap / replace / insert a token or a character, remove
// white space) are loaded with the real builder.  Every case is written as a
// Gallina term (text, resources loaded before, verdict, snapshot of every rule
// of the knowledge base afterwards, the generating tree when known) for the
// model parser coq/model/Parser.v (CorrParse.c17_case_diff).  Direct oracles on
// the implementation alone: see c17Oracle.

import (
	"bytes"
	"encoding/json"
	"fmt"
	"math"
	"os"
	"path/filepath"
	"sort"
	"strconv"
	"strings"

	"github.com/hyperjumptech/grule-rule-engine/ast"
	"github.com/hyperjumptech/grule-rule-engine/builder"
	"github.com/hyperjumptech/grule-rule-engine/pkg"
)

type declRule struct {
	Name string `json:"name"`
	Desc string `json:"desc"`
	Sal  int64  `json:"sal"`
}

type C17Scenario struct {
	Kind     string       `json:"kind"`
	Prior    []string     `json:"prior,omitempty"`
	Text     string       `json:"text"`
	Expect   string       `json:"expect,omitempty"` // accept | reject | "" (decided by the model only)
	Why      string       `json:"why,omitempty"`
	Declared []declRule   `json:"declared,omitempty"`
	Eng      *EngScenario `json:"eng,omitempty"` // facts to run the prior rules on (behaviour oracle)
	tree     []*Rule
}

type C17Obs struct {
	Accepted   bool                `json:"accepted"`
	ErrKind    string              `json:"err_kind"` // nil reporter other panic
	NErrors    int                 `json:"n_errors"`
	ErrText    string              `json:"err_text,omitempty"`
	PriorRules map[string]string   `json:"prior_rules,omitempty"`
	Rules      map[string]string   `json:"rules"`
	Meta       map[string]declRule `json:"meta"`
	InstErr    string              `json:"inst_err,omitempty"`
	StoreErr   string              `json:"store_err,omitempty"`
	Behaviour  string              `json:"behaviour,omitempty"` // same | differs:<detail> | skipped:<why>
	PriorFail  string              `json:"prior_fail,omitempty"`
}

// ---------------------------------------------------------------------------
// running the implementation

func kbRules(kb *ast.KnowledgeBase) (map[string]string, map[string]declRule) {
	snaps := map[string]string{}
	meta := map[string]declRule{}
	for k, e := range kb.RuleEntries {
		func() {
			defer func() {
				if r := recover(); r != nil {
					snaps[k] = fmt.Sprintf("<snapshot panics: %v>", r)
				}
			}()
			snaps[k] = e.GetSnapshot()
		}()
		meta[k] = declRule{Name: e.RuleName, Desc: e.RuleDescription, Sal: int64(e.Salience)}
	}
	return snaps, meta
}

func runPriorOnFacts(lib *ast.KnowledgeLibrary, s *EngScenario) (string, error) {
	kb, err := lib.NewKnowledgeBaseInstance("K", "1")
	if err != nil {
		return "", err
	}
	es := *s
	es.Listeners = 0
	es.CancelAt = -1
	f := s.Fact.clone()
	obs := runEngOn(kb, es, f, false, nil)
	return fmt.Sprintf("%s|%s|N=%d", obs.Outcome, f.dump(), obs.N), nil
}

func runC17Scenario(s C17Scenario) (obs C17Obs) {
	lib := ast.NewKnowledgeLibrary()
	rb := builder.NewRuleBuilder(lib)
	for _, t := range s.Prior {
		if err := rb.BuildRuleFromResource("K", "1", pkg.NewBytesResource([]byte(t))); err != nil {
			obs.PriorFail = err.Error()
			return
		}
	}
	kb := lib.GetKnowledgeBase("K", "1")
	obs.PriorRules, _ = kbRules(kb)
	before := ""
	if s.Eng != nil && len(s.Prior) > 0 {
		b1, err1 := runPriorOnFacts(lib, s.Eng)
		b2, err2 := runPriorOnFacts(lib, s.Eng)
		if err1 != nil || err2 != nil {
			obs.PriorFail = fmt.Sprintf("instance of the prior knowledge base: %v %v", err1, err2)
			return
		}
		if b1 == b2 {
			before = b1
		}
	}
	func() {
		defer func() {
			if r := recover(); r != nil {
				obs.ErrKind = "panic"
				obs.ErrText = fmt.Sprint(r)
			}
		}()
		err := rb.BuildRuleFromResource("K", "1", pkg.NewBytesResource([]byte(s.Text)))
		switch e := err.(type) {
		case nil:
			obs.ErrKind = "nil"
			obs.Accepted = true
		case *pkg.GruleErrorReporter:
			obs.ErrKind = "reporter"
			obs.NErrors = len(e.Errors)
			if len(e.Errors) > 0 {
				obs.ErrText = e.Errors[0].Error()
			}
		default:
			obs.ErrKind = "other"
			obs.ErrText = err.Error()
		}
	}()
	obs.Rules, obs.Meta = kbRules(kb)
	func() {
		defer func() {
			if r := recover(); r != nil {
				obs.InstErr = fmt.Sprintf("panic: %v", r)
			}
		}()
		if _, err := lib.NewKnowledgeBaseInstance("K", "1"); err != nil {
			obs.InstErr = err.Error()
		}
	}()
	var buf bytes.Buffer
	func() {
		defer func() {
			if r := recover(); r != nil {
				obs.StoreErr = fmt.Sprintf("panic: %v", r)
			}
		}()
		if err := lib.StoreKnowledgeBaseToWriter(&buf, "K", "1"); err != nil {
			obs.StoreErr = err.Error()
		}
	}()
	if s.Eng != nil && len(s.Prior) > 0 && !obs.Accepted {
		switch {
		case before == "":
			obs.Behaviour = "skipped:prior run not deterministic"
		case obs.InstErr != "":
			obs.Behaviour = "skipped:no instance"
		case len(obs.Rules) != len(obs.PriorRules):
			obs.Behaviour = "skipped:rule set changed"
		default:
			after, err := runPriorOnFacts(lib, s.Eng)
			if err != nil {
				obs.Behaviour = "skipped:no instance"
			} else if after == before {
				obs.Behaviour = "same"
			} else {
				obs.Behaviour = "differs:" + before + " => " + after
			}
		}
	}
	return
}

// Direct oracles (implementation only).  Returns violations and findings inside
// a known region (name of the region first; C17 has no tolerated region any more:
// the rollback clause is checked like every other).
func c17Oracle(s C17Scenario, o C17Obs) (viol []string, known [][2]string) {
	if o.PriorFail != "" {
		return []string{"a valid generated resource was rejected while preparing the knowledge base: " + o.PriorFail}, nil
	}
	if o.ErrKind == "panic" {
		return []string{"BuildRuleFromResource panicked: " + o.ErrText}, nil
	}
	if o.ErrKind == "other" {
		viol = append(viol, "BuildRuleFromResource returned an error that is not a GruleErrorReporter: "+o.ErrText)
	}
	if o.ErrKind == "reporter" && o.NErrors == 0 {
		viol = append(viol, "BuildRuleFromResource returned a GruleErrorReporter that lists no error")
	}
	if s.Expect == "accept" && !o.Accepted {
		viol = append(viol, "a grammatical document was rejected: "+o.ErrText)
	}
	if s.Expect == "reject" && o.Accepted {
		viol = append(viol, "silently accepted: "+s.Why)
	}
	if o.Accepted {
		for _, d := range s.Declared {
			m, ok := o.Meta[d.Name]
			if !ok {
				viol = append(viol, fmt.Sprintf("accepted, but rule %s is not in the knowledge base", d.Name))
			} else if m.Desc != d.Desc || m.Sal != d.Sal {
				viol = append(viol, fmt.Sprintf("rule %s is stored with description %q salience %d, the text declares %q salience %d", d.Name, m.Desc, m.Sal, d.Desc, d.Sal))
			}
		}
		if len(s.Declared) > 0 && len(o.Rules) != len(o.PriorRules)+len(s.Declared) {
			viol = append(viol, fmt.Sprintf("accepted: knowledge base holds %d rules, expected %d", len(o.Rules), len(o.PriorRules)+len(s.Declared)))
		}
		if o.InstErr != "" {
			viol = append(viol, "accepted, but NewKnowledgeBaseInstance fails afterwards: "+o.InstErr)
		}
		if o.StoreErr != "" {
			viol = append(viol, "accepted, but StoreKnowledgeBaseToWriter fails afterwards: "+o.StoreErr)
		}
	}
	// what was loaded before must survive, whatever the verdict
	for n, snap := range o.PriorRules {
		if got, ok := o.Rules[n]; !ok {
			viol = append(viol, fmt.Sprintf("rule %s loaded earlier is gone after the call", n))
		} else if got != snap {
			viol = append(viol, fmt.Sprintf("rule %s loaded earlier was changed by the call", n))
		}
	}
	if !o.Accepted && o.ErrKind == "reporter" {
		var added []string
		for n := range o.Rules {
			if _, ok := o.PriorRules[n]; !ok {
				added = append(added, n)
			}
		}
		sort.Strings(added)
		if len(added) > 0 {
			viol = append(viol, fmt.Sprintf("the text was rejected (%s) but its rule(s) %v are in the knowledge base", o.ErrText, added))
		}
		if o.InstErr != "" {
			viol = append(viol, fmt.Sprintf("the text was rejected (%s) and afterwards NewKnowledgeBaseInstance fails: %s", o.ErrText, o.InstErr))
		}
		if o.StoreErr != "" {
			viol = append(viol, fmt.Sprintf("the text was rejected (%s) and afterwards StoreKnowledgeBaseToWriter fails: %s", o.ErrText, o.StoreErr))
		}
		if strings.HasPrefix(o.Behaviour, "differs:") {
			viol = append(viol, "rejected text changed the behaviour of the rules loaded before: "+o.Behaviour)
		}
	}
	return
}

// ---------------------------------------------------------------------------
// known findings (read only)

func verifRoot() string {
	if r := os.Getenv("VERIF_ROOT"); r != "" {
		return r
	}
	exe, err := os.Executable()
	if err != nil {
		return "."
	}
	return filepath.Join(filepath.Dir(exe), "..", "..")
}

func openRegions(prop string) map[string]string {
	out := map[string]string{}
	b, err := os.ReadFile(filepath.Join(verifRoot(), "known_findings.json"))
	if err != nil {
		return out
	}
	var kf struct {
		Open []struct {
			ID       string `json:"id"`
			Property string `json:"property"`
			Region   string `json:"region"`
		} `json:"open"`
	}
	if json.Unmarshal(b, &kf) != nil {
		return out
	}
	for _, k := range kf.Open {
		if k.Property == prop && k.Region != "" {
			out[k.Region] = k.ID
		}
	}
	return out
}

// ---------------------------------------------------------------------------
// Gallina text literal: printable stretches as string literals, the rest by code

func gText(s string) string {
	var parts []string
	var cur strings.Builder
	flush := func() {
		if cur.Len() > 0 {
			parts = append(parts, "\""+strings.ReplaceAll(cur.String(), "\"", "\"\"")+"\"%string")
			cur.Reset()
		}
	}
	for i := 0; i < len(s); i++ {
		c := s[i]
		if c >= 32 && c <= 126 {
			cur.WriteByte(c)
		} else {
			flush()
			parts = append(parts, fmt.Sprintf("chs %d", c))
		}
	}
	flush()
	if len(parts) == 0 {
		return "\"\"%string"
	}
	if len(parts) == 1 && strings.HasPrefix(parts[0], "\"") {
		return parts[0]
	}
	return "(cat [" + strings.Join(parts, "; ") + "])"
}

func (s C17Scenario) gallinaCase(id int, o C17Obs) string {
	var prior []string
	for _, t := range s.Prior {
		prior = append(prior, gText(t))
	}
	var obs []string
	if o.Accepted {
		var names []string
		for n := range o.Rules {
			names = append(names, n)
		}
		sort.Strings(names)
		for _, n := range names {
			obs = append(obs, "("+gText(n)+", "+gText(o.Rules[n])+")")
		}
	}
	exp := "None"
	if s.tree != nil {
		var rs []string
		for _, r := range s.tree {
			rs = append(rs, r.gallina())
		}
		exp = "(Some " + gList(rs) + ")"
	}
	return fmt.Sprintf("(%d, %s, %s, %s, %s, %s)", id, gList(prior), gText(s.Text), gBool(o.Accepted), gList(obs), exp)
}

// ---------------------------------------------------------------------------
// purely syntactic generator with lexical variety

type sgen struct {
	p     *prng
	spell map[*Const]string // chosen spelling of a float constant (magnitude)
}

var c17Keywords = map[string]bool{"rule": true, "when": true, "then": true, "true": true, "false": true, "nil": true, "salience": true}

func (g *sgen) ident() string {
	const first = "abcdefghijklmnopqrstuvwxyzABCDEFGHIJKLMNOPQRSTUVWXYZ"
	const rest = first + "0123456789_"
	for {
		if g.p.chance(1, 8) {
			return pick(g.p, []string{"e", "E", "p", "P", "e1", "x", "Rule1", "whenever", "nile", "trueish", "F", "Fact", "thenX", "salience_", "O0"})
		}
		n := 1 + g.p.intn(5)
		b := []byte{first[g.p.intn(len(first))]}
		for i := 1; i < n; i++ {
			b = append(b, rest[g.p.intn(len(rest))])
		}
		if !c17Keywords[strings.ToLower(string(b))] {
			return string(b)
		}
	}
}

var c17StrAtoms = []string{"a", "b", "Z", " ", "0", "\"", "'", "\\", "\n", "\t", "\r", "\x01", "\x7f", "(", ")", "{", "}", ";", "/*", "//", "#", "rule", "\a", "\v", "\f", "\b", "\x00", "%d", "=="}

func (g *sgen) strValue() string {
	n := g.p.intn(5)
	var b strings.Builder
	for i := 0; i < n; i++ {
		b.WriteString(pick(g.p, c17StrAtoms))
	}
	return b.String()
}

var c17FloatTexts = []string{"0.0", "1.5", "0.1", "2.50", "10.25", "1e5", "1E5", "1e+5", "1e-5", "12.5e3", ".5", ".25e2", "3.0e0", "0.000001", "123456789.125",
	"1.7976931348623157e308", "4.9e-324", "2.2250738585072014e-308", "1e-400", "0e0", "9007199254740993.0", "0.30000000000000004", "1e22", "1e23", "5e-324", "2.5e-324", "2.4e-324",
	"0x1p-2", "0x1.8p1", "0X1P+4", "0x.8p1", "0x1.p1", "0xAp0", "0x1.fffffffffffffp1023", "0x1p-1074", "0x1.00000000000008p0", "0x1.000000000000081p0", "0x0p0", "0xa.bp-3",
	"100000000000000000000.0", "3.141592653589793238462643383279", "1.0e15", "8.5", "0.5e1",
	// the spelling the model printer uses: integer mantissa below 2^53, exponent of the unit in the last place
	"0x18000000000000p-52", "0x10000000000000p-52", "0x1p-1074", "0xfffffffffffffp-1074", "0x1fffffffffffffp971", "0x10000000000000p-1074", "0x0p-1074"}

func (g *sgen) constant() *Const {
	switch g.p.intn(8) {
	case 0, 1:
		v := pick(g.p, []int64{0, 1, 2, 7, 8, 9, 10, 15, 16, 63, 64, 255, 1000, 65535, 2147483647, 2147483648, 9223372036854775807, -1, -2, -10, -255, -2147483648, -9223372036854775808, int64(g.p.intn(100000))})
		return &Const{Kind: "int", I: v}
	case 2:
		t := pick(g.p, c17FloatTexts)
		f, err := strconv.ParseFloat(t, 64)
		if err != nil {
			return &Const{Kind: "int", I: 3}
		}
		if g.p.chance(1, 4) {
			f = -f
		}
		c := &Const{Kind: "float", F: f, FBits: math.Float64bits(f)}
		g.spell[c] = t
		return c
	case 3, 4:
		return &Const{Kind: "str", S: g.strValue()}
	case 5:
		return &Const{Kind: "bool", B: g.p.chance(1, 2)}
	case 6:
		return &Const{Kind: "nil"}
	default:
		return &Const{Kind: "int", I: int64(g.p.intn(10))}
	}
}

func (g *sgen) variable(d int) *Var {
	v := vName(g.ident())
	n := g.p.intn(4)
	for i := 0; i < n; i++ {
		if d > 0 && g.p.chance(1, 3) {
			v = vSel(v, g.expr(d-1))
		} else {
			v = vMember(v, g.ident())
		}
	}
	return v
}

func (g *sgen) args(d int) []*Expr {
	n := g.p.intn(4)
	var a []*Expr
	for i := 0; i < n; i++ {
		a = append(a, g.expr(d-1))
	}
	return a
}

func (g *sgen) atom(d int) *Atom {
	var a *Atom
	isVar := false
	switch g.p.intn(6) {
	case 0, 1:
		a = &Atom{Kind: "const", C: g.constant()}
	case 2:
		if d > 0 {
			a = &Atom{Kind: "func", F: g.ident(), Args: g.args(d)}
		} else {
			a = &Atom{Kind: "func", F: g.ident()}
		}
	default:
		a = aVar(g.variable(d))
		isVar = true
	}
	n := g.p.intn(3)
	for i := 0; i < n; i++ {
		k := g.p.intn(3)
		if isVar || d <= 0 && k == 2 {
			k = 0
		}
		switch k {
		case 0:
			var ar []*Expr
			if d > 0 {
				ar = g.args(d)
			}
			a = &Atom{Kind: "method", A: a, F: g.ident(), Args: ar}
		case 1:
			a = &Atom{Kind: "member", A: a, N: g.ident()}
		default:
			a = &Atom{Kind: "sel", A: a, Sel: g.expr(d - 1)}
		}
		isVar = false
	}
	for g.p.chance(1, 7) {
		a = &Atom{Kind: "neg", A: a}
	}
	return a
}

var c17Ops = []string{"*", "/", "%", "+", "-", "&", "|", "<", "<=", ">", ">=", "==", "!=", "&&", "||"}

func (g *sgen) expr(d int) *Expr {
	if d <= 0 || g.p.chance(1, 3) {
		return eAtom(g.atom(d))
	}
	switch g.p.intn(5) {
	case 0:
		return eParen(g.p.chance(1, 2), g.expr(d-1))
	default:
		return mkBin(pick(g.p, c17Ops), g.expr(d-1), g.expr(d-1))
	}
}

func (g *sgen) stmt(d int) *Stmt {
	if g.p.chance(1, 2) {
		return assign(g.variable(d), pick(g.p, []string{"=", "+=", "-=", "*=", "/="}), g.expr(d))
	}
	return call(g.atom(d))
}

// descriptions are values: the listener unquotes them like every string literal
var c17Descs = []string{"", "plain words", "say \"hi\"", "a\\b", "it's", "x\"y", "tab\there", "new\nline", "{ when }", "// no comment", "/* nor this */", "rule R1", "\\q", "semi;colon", "\x01\x7f"}

func (g *sgen) rule(name string) *Rule {
	r := &Rule{Name: name, Desc: pick(g.p, c17Descs),
		Sal: pick(g.p, []int64{0, 1, -1, 10, 100, -100, 2147483647, -2147483648, int64(g.p.intn(1000))})}
	r.When = g.expr(1 + g.p.intn(3))
	n := 1 + g.p.intn(3)
	for i := 0; i < n; i++ {
		r.Then = append(r.Then, g.stmt(1+g.p.intn(2)))
	}
	return r
}

// ---- token printer with lexical variety ----

type lexPrinter struct {
	p     *prng
	fancy bool
	spell map[*Const]string
	out   []string
	// literal text to print instead of the quoted description, by rule name (malformed descriptions)
	rawDesc map[string]string
}

func (lp *lexPrinter) emit(t ...string) { lp.out = append(lp.out, t...) }

func (lp *lexPrinter) kw(s string) string {
	if !lp.fancy || lp.p.chance(2, 3) {
		return s
	}
	b := []byte(s)
	for i := range b {
		if lp.p.chance(1, 2) {
			b[i] = b[i] - 32
		}
	}
	return string(b)
}

func (lp *lexPrinter) intMag(u uint64) string {
	if !lp.fancy {
		return strconv.FormatUint(u, 10)
	}
	switch lp.p.intn(5) {
	case 0:
		if lp.p.chance(1, 2) {
			return "0x" + strconv.FormatUint(u, 16)
		}
		return "0X" + strings.ToUpper(strconv.FormatUint(u, 16))
	case 1:
		return "0" + strconv.FormatUint(u, 8)
	}
	return strconv.FormatUint(u, 10)
}

func (lp *lexPrinter) intTok(i int64) {
	if i < 0 {
		lp.emit("-", lp.intMag(uint64(-(i+1))+1))
		return
	}
	lp.emit(lp.intMag(uint64(i)))
}

func (lp *lexPrinter) quoteStr(s string) string {
	q := byte('"')
	if lp.fancy && lp.p.chance(1, 3) {
		q = '\''
	}
	var b strings.Builder
	b.WriteByte(q)
	for i := 0; i < len(s); i++ {
		c := s[i]
		alt := lp.fancy && lp.p.chance(1, 6)
		switch {
		case c == q:
			b.WriteByte('\\')
			b.WriteByte(c)
		case c == '\\':
			b.WriteString("\\\\")
		case alt:
			switch lp.p.intn(4) {
			case 0:
				fmt.Fprintf(&b, "\\x%02x", c)
			case 1:
				fmt.Fprintf(&b, "\\u%04X", c)
			case 2:
				fmt.Fprintf(&b, "\\%03o", c)
			default:
				fmt.Fprintf(&b, "\\U%08x", c)
			}
		case c == '\n' && !(lp.fancy && lp.p.chance(1, 3)):
			b.WriteString("\\n")
		case c == '\t' && !(lp.fancy && lp.p.chance(1, 3)):
			b.WriteString("\\t")
		case c == '\r':
			b.WriteString("\\r")
		case c == 7:
			b.WriteString("\\a")
		case c == 8:
			b.WriteString("\\b")
		case c == 11:
			b.WriteString("\\v")
		case c == 12:
			b.WriteString("\\f")
		case c < 32 && c != '\n' && c != '\t' || c == 127:
			fmt.Fprintf(&b, "\\x%02x", c)
		default:
			b.WriteByte(c) // printable, or a raw newline / tab
		}
	}
	b.WriteByte(q)
	return b.String()
}

func (lp *lexPrinter) constant(c *Const) {
	switch c.Kind {
	case "str":
		lp.emit(lp.quoteStr(c.S))
	case "int":
		lp.intTok(c.I)
	case "float":
		f := math.Float64frombits(c.FBits)
		if math.Signbit(f) {
			lp.emit("-")
			f = -f
		}
		if t, ok := lp.spell[c]; ok {
			lp.emit(t)
		} else {
			lp.emit(fmtFloat(f))
		}
	case "bool":
		if c.B {
			lp.emit(lp.kw("true"))
		} else {
			lp.emit(lp.kw("false"))
		}
	default:
		lp.emit(lp.kw("nil"))
	}
}

func (lp *lexPrinter) expr(e *Expr) {
	switch e.Kind {
	case "atom":
		lp.atom(e.A)
	case "paren":
		if e.Neg {
			lp.emit("!")
		}
		lp.emit("(")
		lp.expr(e.E)
		lp.emit(")")
	default:
		lp.expr(e.L)
		lp.emit(e.Op)
		lp.expr(e.R)
	}
}

func (lp *lexPrinter) argList(args []*Expr) {
	lp.emit("(")
	for i, a := range args {
		if i > 0 {
			lp.emit(",")
		}
		lp.expr(a)
	}
	lp.emit(")")
}

func (lp *lexPrinter) atom(a *Atom) {
	switch a.Kind {
	case "const":
		lp.constant(a.C)
	case "var":
		lp.variable(a.V)
	case "func":
		lp.emit(a.F)
		lp.argList(a.Args)
	case "method":
		lp.atom(a.A)
		lp.emit(".", a.F)
		lp.argList(a.Args)
	case "member":
		lp.atom(a.A)
		lp.emit(".", a.N)
	case "sel":
		lp.atom(a.A)
		lp.emit("[")
		lp.expr(a.Sel)
		lp.emit("]")
	default:
		lp.emit("!")
		lp.atom(a.A)
	}
}

func (lp *lexPrinter) variable(v *Var) {
	switch v.Kind {
	case "name":
		lp.emit(v.N)
	case "member":
		lp.variable(v.V)
		lp.emit(".", v.N)
	default:
		lp.variable(v.V)
		lp.emit("[")
		lp.expr(v.Sel)
		lp.emit("]")
	}
}

func (lp *lexPrinter) stmt(s *Stmt) {
	if s.Kind == "assign" {
		lp.variable(s.X)
		lp.emit(s.Op)
		lp.expr(s.E)
	} else {
		lp.atom(s.A)
	}
	lp.emit(";")
}

// omitDesc / omitSal: leave the optional part out (the caller has made the tree agree)
func (lp *lexPrinter) rule(r *Rule, omitDesc, omitSal bool, salText string) {
	lp.emit(lp.kw("rule"), r.Name)
	if !omitDesc {
		if raw, ok := lp.rawDesc[r.Name]; ok {
			lp.emit(raw)
		} else {
			lp.emit(lp.quoteStr(r.Desc))
		}
	}
	if !omitSal {
		lp.emit(lp.kw("salience"))
		if salText != "" {
			lp.emit(salText)
		} else {
			lp.intTok(r.Sal)
		}
	}
	lp.emit("{", lp.kw("when"))
	if r.When != nil {
		lp.expr(r.When)
	}
	lp.emit(lp.kw("then"))
	for _, s := range r.Then {
		lp.stmt(s)
	}
	lp.emit("}")
}

var c17Tight = map[string]bool{"(": true, ")": true, "[": true, "]": true, "{": true, "}": true, ";": true, ",": true}

func (lp *lexPrinter) join() string {
	var b strings.Builder
	for i, t := range lp.out {
		if i > 0 {
			prev := lp.out[i-1]
			if lp.fancy {
				if (c17Tight[prev] || c17Tight[t]) && lp.p.chance(1, 2) {
					// nothing
				} else {
					switch lp.p.intn(12) {
					case 0:
						b.WriteString("\n")
					case 1:
						b.WriteString("\t")
					case 2:
						b.WriteString("  ")
					case 3:
						b.WriteString(" /* c */ ")
					case 4:
						b.WriteString(" // line\n")
					case 5:
						b.WriteString("\r\n")
					case 6:
						if strings.HasSuffix(prev, "/") {
							b.WriteString(" ")
						} else {
							b.WriteString("/**/")
						}
					default:
						b.WriteString(" ")
					}
				}
			} else {
				b.WriteString(" ")
			}
		}
		b.WriteString(t)
	}
	if lp.fancy && lp.p.chance(1, 4) {
		b.WriteString(pick(lp.p, []string{"\n", " ", "// end", "/* end */", "\n\n"}))
	}
	return b.String()
}

// a syntactic document: trees, text, declared metadata
func (g *sgen) document(nrules int, fancy bool) ([]*Rule, string, []declRule) {
	lp := &lexPrinter{p: g.p, fancy: fancy, spell: g.spell}
	var rules []*Rule
	var decl []declRule
	used := map[string]bool{}
	for i := 0; i < nrules; i++ {
		name := g.ident()
		for used[name] {
			name = g.ident() + strconv.Itoa(i)
		}
		used[name] = true
		r := g.rule(name)
		omitDesc := g.p.chance(1, 5)
		omitSal := g.p.chance(1, 5)
		if omitDesc {
			r.Desc = "No Description"
		}
		if omitSal {
			r.Sal = 0
		}
		lp.rule(r, omitDesc, omitSal, "")
		rules = append(rules, r)
		decl = append(decl, declRule{Name: r.Name, Desc: r.Desc, Sal: r.Sal})
	}
	return rules, lp.join(), decl
}

// ---------------------------------------------------------------------------
// mutants

type piece struct {
	s    string
	kind byte // w white/comment, s string, i identifier/keyword, n number, o operator/punctuation, x other
}

func isIdentStart(c byte) bool { return c >= 'a' && c <= 'z' || c >= 'A' && c <= 'Z' }
func isIdentChar(c byte) bool  { return isIdentStart(c) || c >= '0' && c <= '9' || c == '_' }

// rough tokenizer, used only to choose where to mutate
func c17Pieces(t string) []piece {
	var ps []piece
	i := 0
	for i < len(t) {
		c := t[i]
		j := i + 1
		kind := byte('x')
		switch {
		case c == ' ' || c == '\t' || c == '\n' || c == '\r':
			for j < len(t) && (t[j] == ' ' || t[j] == '\t' || t[j] == '\n' || t[j] == '\r') {
				j++
			}
			kind = 'w'
		case c == '/' && j < len(t) && t[j] == '/':
			for j < len(t) && t[j] != '\n' && t[j] != '\r' {
				j++
			}
			kind = 'w'
		case c == '/' && j < len(t) && t[j] == '*' && strings.Contains(t[j+1:], "*/"):
			j = j + 1 + strings.Index(t[j+1:], "*/") + 2
			kind = 'w'
		case c == '"' || c == '\'':
			kind = 's'
			for j < len(t) {
				if t[j] == '\\' && j+1 < len(t) {
					j += 2
					continue
				}
				if t[j] == c {
					if j+1 < len(t) && t[j+1] == c {
						j += 2
						continue
					}
					j++
					break
				}
				j++
			}
		case isIdentStart(c):
			for j < len(t) && isIdentChar(t[j]) {
				j++
			}
			kind = 'i'
		case c >= '0' && c <= '9' || c == '.' && j < len(t) && t[j] >= '0' && t[j] <= '9':
			hex := strings.HasPrefix(t[i:], "0x") || strings.HasPrefix(t[i:], "0X")
			for j < len(t) && (isIdentChar(t[j]) || t[j] == '.' || (t[j] == '+' || t[j] == '-') &&
				(!hex && (t[j-1] == 'e' || t[j-1] == 'E') || hex && (t[j-1] == 'p' || t[j-1] == 'P'))) {
				j++
			}
			kind = 'n'
		default:
			kind = 'o'
			if j < len(t) {
				two := t[i : j+1]
				switch two {
				case "&&", "||", "==", "!=", "<=", ">=", "+=", "-=", "*=", "/=":
					j++
				}
			}
		}
		ps = append(ps, piece{s: t[i:j], kind: kind})
		i = j
	}
	return ps
}

func joinPieces(ps []piece) string {
	var b strings.Builder
	for _, p := range ps {
		b.WriteString(p.s)
	}
	return b.String()
}

var c17TokenPool = []string{"rule", "when", "then", "salience", "true", "false", "nil", "RULE", "Then", "NIL",
	"(", ")", "{", "}", "[", "]", ";", ",", ".", "!", "-", "+", "*", "/", "%", "&", "|", "&&", "||", "==", "!=", "<", "<=", ">", ">=", "=", "+=", "-=", "*=", "/=",
	"x", "F", "e", "1", "0", "08", "017", "0x1F", "1.5", ".5", "1e5", "1.", "0x", "9223372036854775807", "9223372036854775808", "99999999999999999999", "2147483648", "1e999", "0x1p-2",
	"\"s\"", "'s'", "\"a\\qb\"", "\"\"", "\"a\"\"b\"", "'\\\"'", "\"\\x4\"", "\"\\u00e9\"", "\"\\400\"", "\"\\377\"", "e+5", "p-1", "/* c */", "// c\n", "\"", "'"}

const c17Illegal = "#$@^~?:\\`_"
const c17CharPool = "#$@^~?:\\`_\"'(){}[];,.!-+*/%&|=<> \n\tabeEpPxXrR0189_"

// one mutant of text; expect is "reject" (with the reason) when the edit cannot yield a grammatical document
func c17Mutate(p *prng, text string) (string, string, string, string) {
	ps := c17Pieces(text)
	var toks []int
	for i, pc := range ps {
		if pc.kind != 'w' {
			toks = append(toks, i)
		}
	}
	if len(toks) < 3 {
		return text + " }", "tok-ins", "reject", "an unbalanced closing brace was appended"
	}
	cp := func() []piece { return append([]piece(nil), ps...) }
	k := toks[p.intn(len(toks))]
	switch p.intn(17) {
	case 0: // delete a token
		q := cp()
		exp, why := "", ""
		low := strings.ToLower(q[k].s)
		if q[k].kind == 'o' && (q[k].s == ";" || q[k].s == "{" || q[k].s == "}" || q[k].s == "(" || q[k].s == ")" || q[k].s == "[" || q[k].s == "]") {
			exp, why = "reject", "a terminator or bracket "+q[k].s+" was deleted"
		}
		if q[k].kind == 'i' && (low == "rule" || low == "when" || low == "then") {
			exp, why = "reject", "the keyword "+q[k].s+" was deleted"
		}
		if q[k].s == ";" {
			// `x = e; -1.M();` without the `;` is the one statement `x = e - 1.M();`: a minus sign is the only token that
			// can both start a statement (negative literal) and continue an expression
			for _, j := range toks {
				if j > k {
					if strings.HasPrefix(q[j].s, "-") {
						exp, why = "", ""
					}
					break
				}
			}
		}
		q[k].s = " "
		return joinPieces(q), "tok-del", exp, why
	case 1: // duplicate a token
		q := cp()
		exp, why := "", ""
		switch q[k].s {
		case "{", "}", "(", ")", "[", "]":
			exp, why = "reject", "a bracket "+q[k].s+" was duplicated"
		}
		q[k].s = q[k].s + " " + q[k].s
		return joinPieces(q), "tok-dup", exp, why
	case 2: // swap with the next token
		q := cp()
		for _, j := range toks {
			if j > k {
				q[k].s, q[j].s = q[j].s, q[k].s
				break
			}
		}
		return joinPieces(q), "tok-swap", "", ""
	case 3, 4: // replace a token
		q := cp()
		q[k].s = pick(p, c17TokenPool)
		return joinPieces(q), "tok-repl", "", ""
	case 5: // insert a token
		q := cp()
		q[k].s = pick(p, c17TokenPool) + " " + q[k].s
		return joinPieces(q), "tok-ins", "", ""
	case 6: // insert a bracket
		q := cp()
		br := pick(p, []string{"(", ")", "{", "}", "[", "]"})
		if p.chance(1, 2) {
			q[k].s = br + " " + q[k].s
		} else {
			q[k].s = q[k].s + " " + br
		}
		return joinPieces(q), "bracket-ins", "reject", "an unbalanced bracket " + br + " was inserted"
	case 7: // illegal character outside strings and comments
		q := cp()
		ch := string(c17Illegal[p.intn(len(c17Illegal))])
		switch p.intn(3) {
		case 0:
			q[k].s = ch + q[k].s
		case 1:
			q[k].s = q[k].s + ch
		default:
			q[k].s = ch + " " + q[k].s
		}
		if q[k].kind == 's' || ch == "_" {
			// next to a string the character may land inside a following literal; "_" glues to names
			return joinPieces(q), "illegal-char", "", ""
		}
		if strings.Contains(joinPieces(q[k+1:]), "*/") && strings.HasSuffix(q[k].s, "/") {
			return joinPieces(q), "illegal-char", "", ""
		}
		return joinPieces(q), "illegal-char", "reject", "the illegal character " + ch + " was inserted outside strings and comments"
	case 8: // reserved word instead of an identifier
		var ids []int
		for _, i := range toks {
			if ps[i].kind == 'i' && !c17Keywords[strings.ToLower(ps[i].s)] {
				ids = append(ids, i)
			}
		}
		if len(ids) == 0 {
			break
		}
		q := cp()
		w := pick(p, []string{"rule", "when", "then", "salience", "Rule", "WHEN", "tHEN", "SALIENCE"})
		q[ids[p.intn(len(ids))]].s = w
		return joinPieces(q), "reserved-word", "reject", "the reserved word " + w + " stands where an identifier was"
	case 9: // bad literal instead of a constant
		var lits []int
		for _, i := range toks {
			if ps[i].kind == 'n' || ps[i].kind == 's' {
				lits = append(lits, i)
			}
		}
		if len(lits) == 0 {
			break
		}
		q := cp()
		i := lits[p.intn(len(lits))]
		var bad string
		if q[i].kind == 'n' {
			bad = pick(p, []string{"9223372036854775809", "0xFFFFFFFFFFFFFFFFF", "1e999", "01777777777777777777777", "18446744073709551616", "0x1p99999"})
		} else {
			bad = pick(p, []string{"\"a\\qb\"", "\"\\x4\"", "\"\\u12\"", "'\\\"'", "\"a\"\"b\"", "\"\\400\"", "\"\\8\"", "'it''s'", "\"\\ud800\"", "\"\\U00110000\"", "\"\\\n\""})
		}
		q[i].s = bad
		return joinPieces(q), "bad-literal", "reject", "the literal " + bad + " is out of range or has a malformed escape"
	case 10: // delete a character
		i := p.intn(len(text))
		return text[:i] + text[i+1:], "chr-del", "", ""
	case 11: // duplicate a character
		i := p.intn(len(text))
		return text[:i+1] + text[i:], "chr-dup", "", ""
	case 12, 13: // replace a character
		i := p.intn(len(text))
		return text[:i] + string(c17CharPool[p.intn(len(c17CharPool))]) + text[i+1:], "chr-repl", "", ""
	case 14: // insert a character
		i := p.intn(len(text) + 1)
		return text[:i] + string(c17CharPool[p.intn(len(c17CharPool))]) + text[i:], "chr-ins", "", ""
	case 15: // remove one stretch of white space / a comment
		var ws []int
		for i, pc := range ps {
			if pc.kind == 'w' {
				ws = append(ws, i)
			}
		}
		if len(ws) == 0 {
			break
		}
		q := cp()
		q[ws[p.intn(len(ws))]].s = ""
		return joinPieces(q), "join", "", ""
	default: // truncate
		i := p.intn(len(text))
		return text[:i], "truncate", "", ""
	}
	i := p.intn(len(text))
	return text[:i] + text[i+1:], "chr-del", "", ""
}

// ---------------------------------------------------------------------------

func c17TypedSet(p *prng) EngScenario {
	s := genEng(p, "C17x")
	for i := 0; i < 8 && (len(s.Rules) > 4 || hasFaulty(s)); i++ {
		s = genEng(p, "C17x")
	}
	// distinct saliences and no error-returning evaluation: the run is deterministic
	for i, r := range s.Rules {
		r.Sal = int64(10*(len(s.Rules)-i)) + r.Sal%7
	}
	s.RetErr = false
	s.Removed = nil
	s.Split = nil
	s.MaxCycle = 12
	s.Listeners = 0
	return s
}

func hasFaulty(s EngScenario) bool {
	t := s.grl()
	return strings.Contains(t, "Boom") || strings.Contains(t, "Nope") || strings.Contains(t, "Missing")
}

func declOf(rs []*Rule) []declRule {
	var d []declRule
	for _, r := range rs {
		d = append(d, declRule{Name: r.Name, Desc: r.Desc, Sal: r.Sal})
	}
	return d
}

func plainDoc(rs []*Rule) string {
	var b strings.Builder
	for _, r := range rs {
		b.WriteString(r.grl())
	}
	return b.String()
}

func runC17(seed uint64, tier string, out string) error {
	p := newPrng(seed)
	rep := newReport("C17", seed, tier)
	regions := openRegions("C17")
	nDocs, nMut := 110, 5
	if tier == "thorough" {
		nDocs, nMut = 700, 14
	}
	var scen []C17Scenario
	add := func(s C17Scenario) { scen = append(scen, s) }

	// fixed regression corpus, first on every run: the witnesses of the repaired findings D10a / D10b (commit 4ed034e)
	// and D12 on the GRL side (12086c3).  Each must now pass every oracle.
	{
		good := "rule R1 \"one\" salience 1 { when F.A == 1 then F.A = 2; }"
		for _, w := range []struct{ name, text, why string }{
			{"D10a-duplicate-name", "rule R1 \"dup\" { when F.A == 3 then F.A = 4; }", "rule name R1 is already in the knowledge base"},
			{"D10a-missing-terminator", "rule R2 \"x\" { when F.A == 3 then F.A = 4 }", "the terminator ; is missing"},
			{"D10b-recovered-action", "rule R2 \"x\" { when F.B == 3 then F.B = ; }", "the assignment has no right-hand side"},
			{"D10b-trailing-illegal-character", "rule R2 \"x\" { when F.B == 3 then F.B = 5; } #", "the illegal character # follows the rule"},
			{"D10b-second-rule-truncated", "rule R2 \"x\" { when F.B == 3 then F.B = 5; } rule R3 { when F.B == ", "the second rule is cut off"},
			{"D10b-second-rule-empty-then", "rule R2 \"x\" { when F.B == 3 then F.B = 5; } rule R3 { when F.B == 1 then }", "the second rule has an empty action list"},
			{"D10b-bad-string-constant", "rule R2 \"x\" { when F.B == \"a\"\"b\" then F.B = 5; }", "the string constant has a doubled quote"},
			{"D10b-salience-range-later-rule", "rule R2 { when true then F.B = 5; } rule R3 salience 0xFFFFFFFFFFFFFFFFF { when true then F.B = 5; }", "the salience of the second rule is out of range"},
			{"D10-half-built-rule", "rule k", "the text is cut off after the rule name"},
			{"D10-half-built-description", "rule R0 \"", "the text is cut off inside the description"},
			{"D12-bad-description-escape", "rule R2 \"a\\qb\" { when true then F.B = 5; }", "the description has a malformed escape"},
			{"D12-doubled-quote-description", "rule R2 \"a\"\"b\" { when true then F.B = 5; }", "the description has a doubled quote"},
		} {
			add(C17Scenario{Kind: "regression:" + w.name, Prior: []string{good}, Text: w.text, Expect: "reject", Why: w.why})
			if w.name != "D10a-duplicate-name" {
				add(C17Scenario{Kind: "regression:" + w.name + "-empty-kb", Text: w.text, Expect: "reject", Why: w.why})
			}
		}
		add(C17Scenario{Kind: "regression:D12-escaped-description", Text: "rule R2 \"say \\\"hi\\\" \\x41\\n\" salience 3 { when true then F.B = 5; }", Expect: "accept",
			Declared: []declRule{{Name: "R2", Desc: "say \"hi\" A\n", Sal: 3}}})
	}
	for d := 0; d < nDocs; d++ {
		g := &sgen{p: p.fork(), spell: map[*Const]string{}}
		var base C17Scenario
		var eng *EngScenario
		switch {
		case d%3 == 0:
			// typed rule set: executable, so it can serve as "what was loaded before"
			es := c17TypedSet(p.fork())
			eng = &es
			base = C17Scenario{Kind: "valid-typed", Text: es.grl(), Expect: "accept", Declared: declOf(es.Rules), tree: es.Rules}
		default:
			rs, text, decl := g.document(1+g.p.intn(3), d%3 == 2)
			base = C17Scenario{Kind: "valid-syntactic", Text: text, Expect: "accept", Declared: decl, tree: rs}
			if d%3 == 2 {
				base.Kind = "valid-syntactic-fancy"
			}
		}
		add(base)
		mp := p.fork()
		for m := 0; m < nMut; m++ {
			t, kind, exp, why := c17Mutate(mp, base.Text)
			if t == base.Text {
				continue
			}
			ms := C17Scenario{Kind: "mutant:" + kind, Text: t, Expect: exp, Why: why}
			if eng != nil && m%2 == 0 {
				// the mutant arrives after a good resource (renamed rules, so that only the text decides)
				ms.Prior = []string{c17Prior(eng)}
				ms.Eng = c17PriorEng(eng)
				ms.Kind = "after-good:" + ms.Kind
			}
			add(ms)
		}
		// structural rejects built from the tree
		if len(base.tree) > 0 {
			sp := p.fork()
			r0 := *base.tree[sp.intn(len(base.tree))]
			others := func(repl *Rule, omitWhen bool, salText string) string {
				lp := &lexPrinter{p: sp, fancy: false, spell: g.spell}
				for _, r := range base.tree {
					if r.Name == repl.Name {
						lp.rule(repl, false, false, salText)
					} else {
						lp.rule(r, false, false, "")
					}
				}
				return lp.join()
			}
			switch d % 5 {
			case 0:
				e := r0
				e.Then = nil
				add(C17Scenario{Kind: "reject:empty-then", Text: others(&e, false, ""), Expect: "reject", Why: "rule " + e.Name + " has an empty action list"})
			case 1:
				bad := pick(sp, []string{"\"a\\qb\"", "\"x\"\"y\"", "'it''s'", "\"\\x4\"", "'\\\"'", "\"\\400\""})
				lpd := &lexPrinter{p: sp, fancy: false, spell: g.spell, rawDesc: map[string]string{r0.Name: bad}}
				for _, r := range base.tree {
					lpd.rule(r, false, false, "")
				}
				add(C17Scenario{Kind: "reject:bad-description", Text: lpd.join(), Expect: "reject", Why: "the description " + bad + " of rule " + r0.Name + " has a malformed escape"})
				e := r0
				e.When = nil
				add(C17Scenario{Kind: "reject:empty-when", Text: others(&e, true, ""), Expect: "reject", Why: "rule " + e.Name + " has an empty condition"})
			case 2:
				st := pick(sp, []string{"2147483648", "- 2147483649", "99999999999999999999", "0x80000000", "-0x80000001", "040000000000"})
				add(C17Scenario{Kind: "reject:salience-range", Text: others(&r0, false, st), Expect: "reject", Why: "salience " + st + " is outside the 32-bit range"})
				ok := pick(sp, []string{"2147483647", "- 2147483648", "0x7fffffff", "-0x80000000", "017777777777", "0"})
				add(C17Scenario{Kind: "valid:salience-boundary", Text: others(&r0, false, ok), Expect: "accept"})
			case 3:
				dup := r0
				dup.Desc = "the same name again"
				dup.Sal = 77
				lp := &lexPrinter{p: sp, fancy: false, spell: g.spell}
				for _, r := range base.tree {
					lp.rule(r, false, false, "")
				}
				lp.rule(&dup, false, false, "")
				add(C17Scenario{Kind: "reject:duplicate-in-document", Text: lp.join(), Expect: "reject", Why: "rule name " + dup.Name + " is declared twice in the document"})
			default:
				// a second, by itself valid, document reusing a name that is already loaded
				clash := r0
				clash.Desc = "declared again later"
				clash.Sal = r0.Sal%1000 + 1
				fresh := g.rule("Zq" + strconv.Itoa(d))
				lp := &lexPrinter{p: sp, fancy: false, spell: g.spell}
				if sp.chance(1, 2) {
					lp.rule(fresh, false, false, "")
					lp.rule(&clash, false, false, "")
				} else {
					lp.rule(&clash, false, false, "")
				}
				sc := C17Scenario{Kind: "reject:name-clash-with-loaded", Prior: []string{base.Text}, Text: lp.join(), Expect: "reject",
					Why: "rule name " + clash.Name + " is already in the knowledge base"}
				if eng != nil {
					sc.Eng = eng
				}
				add(sc)
				// and a valid second document without a clash
				lp2 := &lexPrinter{p: sp, fancy: false, spell: g.spell}
				lp2.rule(fresh, false, false, "")
				add(C17Scenario{Kind: "valid:second-resource", Prior: []string{base.Text}, Text: lp2.join(), Expect: "accept", Declared: declOf([]*Rule{fresh})})
			}
		}
	}

	var cases []string
	var index []interface{}
	distinct := map[string]bool{}
	type rec struct {
		Scenario C17Scenario `json:"scenario"`
		Obs      C17Obs      `json:"obs"`
	}
	knownSeen := map[string]string{}
	for _, s := range scen {
		if !c17InDomain(s.Text) {
			rep.count("dropped: outside the modelled character set")
			continue
		}
		o := runC17Scenario(s)
		rep.Evaluations++
		viol, known := c17Oracle(s, o)
		for _, k := range known {
			if id, ok := regions[k[0]]; ok {
				if _, seen := knownSeen[k[0]]; !seen {
					knownSeen[k[0]] = fmt.Sprintf("%s region=%s: %s; first input: prior=%q text=%q", id, k[0], k[1], s.Prior, s.Text)
				}
				rep.count("known finding " + k[0])
			} else {
				viol = append(viol, k[1])
			}
		}
		for _, v := range viol {
			rep.fail("C17: "+v, s)
		}
		verdict := "rejected"
		if o.Accepted {
			verdict = "accepted"
		}
		rep.count(s.Kind + " " + verdict)
		if o.Behaviour != "" {
			rep.count("behaviour after rejected text: " + strings.SplitN(o.Behaviour, ":", 2)[0])
		}
		if o.PriorFail != "" {
			continue
		}
		distinct[s.Text+"\x00"+strings.Join(s.Prior, "\x00")] = true
		id := len(index)
		index = append(index, rec{s, o})
		cases = append(cases, s.gallinaCase(id, o))
		if len(rep.Samples) < 5 && (id%97 == 3) {
			rep.sample(rec{s, o})
		}
	}
	var ks []string
	for _, v := range knownSeen {
		ks = append(ks, v)
	}
	sort.Strings(ks)
	rep.KnownFindings = ks
	rep.Cases = len(cases)
	rep.DistinctNontrivial = len(distinct)
	rep.Rule = "distinct (resources loaded before, text) pairs; every case is a generated document of 1-5 rules or a single-edit mutant of one and is both compared with the model parser (verdict + snapshot of every rule) and checked by the direct oracles"
	rep.Extra["documents"] = nDocs
	rep.Extra["mutants_per_document"] = nMut
	if err := writeShards(out, "From Grule Require Import Base Values Syntax Lexer Parser CorrParse.", "c17_mismatches", "c17case", cases, 16); err != nil {
		return err
	}
	return rep.write(out, index)
}

// ASCII only (DESIGN 3.2); a NUL byte cannot be written in a Coq string literal either way, it goes by code
func c17InDomain(t string) bool {
	for i := 0; i < len(t); i++ {
		if t[i] >= 128 {
			return false
		}
	}
	return true
}

// the good resource a mutant arrives after: the typed rule set under other names
func c17PriorEng(e *EngScenario) *EngScenario {
	c := *e
	c.Rules = nil
	for _, r := range e.Rules {
		rr := *r
		rr.Name = "P_" + r.Name
		c.Rules = append(c.Rules, &rr)
	}
	return &c
}

func c17Prior(e *EngScenario) string { return c17PriorEng(e).grl() }

func replayC17(path string) (bool, string, error) {
	b, err := os.ReadFile(path)
	if err != nil {
		return false, "", err
	}
	var rp struct {
		Scenario json.RawMessage `json:"scenario"`
	}
	if err := json.Unmarshal(b, &rp); err != nil {
		return false, "", err
	}
	var s C17Scenario
	// a correspondence replay wraps the scenario together with its observation
	var wrapped struct {
		Scenario *C17Scenario `json:"scenario"`
	}
	if json.Unmarshal(rp.Scenario, &wrapped) == nil && wrapped.Scenario != nil {
		s = *wrapped.Scenario
	} else if err := json.Unmarshal(rp.Scenario, &s); err != nil {
		return false, "", err
	}
	o := runC17Scenario(s)
	viol, known := c17Oracle(s, o)
	regions := openRegions("C17")
	for _, k := range known {
		if _, ok := regions[k[0]]; !ok {
			viol = append(viol, k[1])
		}
	}
	msg := fmt.Sprintf("kind=%s prior=%q\ntext=%q\naccepted=%v err=%s (%d) %s\nrules=%v inst=%q store=%q behaviour=%s\nviolations=%v known=%v",
		s.Kind, s.Prior, s.Text, o.Accepted, o.ErrKind, o.NErrors, o.ErrText, o.Meta, o.InstErr, o.StoreErr, o.Behaviour, viol, known)
	return len(viol) > 0, msg, nil
}

func init() {
	runners["C17"] = runC17
	replayers["C17"] = replayC17
}
