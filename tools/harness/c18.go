package main

// C18: JSON rule definitions translate to GRL with the same meaning.
//
// Typed operator trees (all 15 operators, set / call / obj / const, plain
// string / number / boolean operands, nested to depth 4) are turned into JSON,
// translated by pkg.ParseJSONRule, built by the real builder (through a JSON
// resource) and evaluated on generated facts with FetchMatchingRules.  Every
// case goes to the model (coq/model/JsonRule.v, CorrJson.c18_case_diff): the
// translator text must be reproduced byte for byte, the text must parse to the
// rule the tree denotes (snapshot equality with the stored rule), and the
// condition must have the value of the JSON operator tree on the same facts.
// Direct oracles: see c18Oracle (independent Go tree walker native.go).

import (
	"encoding/json"
	"fmt"
	"math"
	"os"
	"sort"
	"strconv"
	"strings"

	"github.com/hyperjumptech/grule-rule-engine/ast"
	"github.com/hyperjumptech/grule-rule-engine/builder"
	"github.com/hyperjumptech/grule-rule-engine/engine"
	"github.com/hyperjumptech/grule-rule-engine/pkg"
)

type CHead struct {
	F    string `json:"f,omitempty"`
	Recv *Atom  `json:"recv,omitempty"`
	M    string `json:"m,omitempty"`
}

type JX struct {
	K    string  `json:"k"` // plain num bool obj consts constn constb op call
	A    *Atom   `json:"a,omitempty"`
	Z    int64   `json:"z,omitempty"`
	B    bool    `json:"b,omitempty"`
	S    string  `json:"s,omitempty"`
	Op   string  `json:"op,omitempty"`
	Args []*JX   `json:"args,omitempty"`
	H    *CHead  `json:"h,omitempty"`
	Big  float64 `json:"big,omitempty"` // a constant outside the model's integers (constn only)
}

type JSt struct {
	K     string `json:"k"` // plain set call
	S     *Stmt  `json:"s,omitempty"`
	Semi  bool   `json:"semi,omitempty"`
	X     *Var   `json:"x,omitempty"`
	AsObj bool   `json:"as_obj,omitempty"`
	Rhs   *JX    `json:"rhs,omitempty"`
	H     *CHead `json:"h,omitempty"`
	Args  []*JX  `json:"args,omitempty"`
}

type TRule struct {
	Name      string `json:"name"`
	Desc      string `json:"desc"`
	Sal       int64  `json:"sal"`
	WhenPlain *Expr  `json:"when_plain,omitempty"`
	WhenTree  *JX    `json:"when_tree,omitempty"`
	Then      []*JSt `json:"then"`
}

type C18Scenario struct {
	Kind    string      `json:"kind"`
	Typed   *TRule      `json:"typed,omitempty"`
	JSON    string      `json:"json"`             // the bytes handed to ParseJSONRule
	Expect  string      `json:"expect,omitempty"` // accept | reject | ""
	Why     string      `json:"why,omitempty"`
	Regions []string    `json:"regions,omitempty"` // known-finding regions the tree lies in
	Facts   []*Fact     `json:"facts,omitempty"`
	Ns      []int64     `json:"ns,omitempty"`
	raw     interface{} // decoded JSON value (nil: not representable in the model)
}

type C18Obs struct {
	TransErr string   `json:"trans_err,omitempty"`
	Text     string   `json:"text,omitempty"`
	Accepted bool     `json:"accepted"`
	BuildErr string   `json:"build_err,omitempty"`
	Snapshot string   `json:"snapshot,omitempty"`
	Meta     declRule `json:"meta"`
	NRules   int      `json:"n_rules"`
	Evals    []string `json:"evals,omitempty"`  // true false err, per fact
	Native   []string `json:"native,omitempty"` // the independent walker on the JSON tree
	Panic    string   `json:"panic,omitempty"`
}

// ---------------------------------------------------------------------------
// text of plain GRL snippets: tokens followed by one space (GrlPrint.render)

func spText(f func(lp *lexPrinter)) string {
	lp := &lexPrinter{p: newPrng(1), fancy: false, spell: map[*Const]string{}}
	f(lp)
	return strings.Join(lp.out, " ") + " "
}

func atomSp(a *Atom) string { return spText(func(lp *lexPrinter) { lp.atom(a) }) }
func varSp(v *Var) string   { return spText(func(lp *lexPrinter) { lp.variable(v) }) }
func exprSp(e *Expr) string { return spText(func(lp *lexPrinter) { lp.expr(e) }) }
func stmtSp(s *Stmt, semi bool) string {
	return strings.TrimSuffix(spText(func(lp *lexPrinter) {
		lp.stmt(s)
		if !semi {
			lp.out = lp.out[:len(lp.out)-1]
		}
	}), " ")
}

func (h *CHead) text() string {
	if h.Recv == nil {
		return h.F + " "
	}
	return spText(func(lp *lexPrinter) { lp.atom(h.Recv); lp.emit(".", h.M) })
}

// ---------------------------------------------------------------------------
// JSON form

func (x *JX) toJSON() interface{} {
	switch x.K {
	case "plain":
		return atomSp(x.A)
	case "num":
		return float64(x.Z)
	case "bool":
		return x.B
	case "obj":
		return map[string]interface{}{"obj": atomSp(x.A)}
	case "consts":
		return map[string]interface{}{"const": x.S}
	case "constn":
		if x.Big != 0 {
			return map[string]interface{}{"const": x.Big}
		}
		return map[string]interface{}{"const": float64(x.Z)}
	case "constb":
		return map[string]interface{}{"const": x.B}
	case "op":
		return map[string]interface{}{x.Op: argsJSON(x.Args)}
	}
	return map[string]interface{}{"call": append([]interface{}{x.H.text()}, argsJSON(x.Args)...)}
}

func argsJSON(args []*JX) []interface{} {
	out := []interface{}{}
	for _, a := range args {
		out = append(out, a.toJSON())
	}
	return out
}

func (t *JSt) toJSON() interface{} {
	switch t.K {
	case "plain":
		return stmtSp(t.S, t.Semi)
	case "set":
		var l interface{} = varSp(t.X)
		if t.AsObj {
			l = map[string]interface{}{"obj": varSp(t.X)}
		}
		return map[string]interface{}{"set": []interface{}{l, t.Rhs.toJSON()}}
	}
	return map[string]interface{}{"call": append([]interface{}{t.H.text()}, argsJSON(t.Args)...)}
}

func (r *TRule) toJSON() map[string]interface{} {
	var w interface{}
	if r.WhenPlain != nil {
		w = exprSp(r.WhenPlain)
	} else {
		w = r.WhenTree.toJSON()
	}
	th := []interface{}{}
	for _, t := range r.Then {
		th = append(th, t.toJSON())
	}
	return map[string]interface{}{"name": r.Name, "desc": r.Desc, "salience": float64(r.Sal), "when": w, "then": th}
}

// ---------------------------------------------------------------------------
// Gallina

func gJval(v interface{}) (string, bool) {
	switch t := v.(type) {
	case nil:
		return "JNull", true
	case string:
		return "(JStr " + gText(t) + ")", true
	case bool:
		return "(JBool " + gBool(t) + ")", true
	case float64:
		if t != math.Trunc(t) || math.Abs(t) > 9007199254740992 {
			return "", false
		}
		// ---- C20 begin: the model prints a number by its decimal digits.  A plain operand / call argument is printed by
		// fmt.Sprint(float64), which switches to exponent notation at 10^6 (1e+06) and prints -0 for negative zero; only the
		// value of {"const": n} goes through FormatFloat 'f' (digits up to 1e21, handled by the caller).  Such numbers stay
		// with the implementation-side oracle.
		if math.Abs(t) >= 1e6 || t == 0 && math.Signbit(t) {
			return "", false
		}
		// ---- C20 end
		return "(JNum " + gZ(int64(t)) + ")", true
	case []interface{}:
		var xs []string
		for _, x := range t {
			s, ok := gJval(x)
			if !ok {
				return "", false
			}
			xs = append(xs, s)
		}
		return "(JArr " + gList(xs) + ")", true
	case map[string]interface{}:
		var ks []string
		for k := range t {
			ks = append(ks, k)
		}
		sort.Strings(ks)
		var xs []string
		for _, k := range ks {
			s, ok := gJval(t[k])
			// ---- C20 begin: the constant path prints every integral value below 2^53 by its digits
			if f, isNum := t[k].(float64); !ok && isNum && k == "const" && f == math.Trunc(f) && math.Abs(f) <= 9007199254740992 && !(f == 0 && math.Signbit(f)) {
				s, ok = "(JNum "+gZ(int64(f))+")", true
			}
			// ---- C20 end
			if !ok {
				return "", false
			}
			xs = append(xs, "("+gText(k)+", "+s+")")
		}
		return "(JObj " + gList(xs) + ")", true
	}
	return "", false
}

// the GruleJSON view of a decoded JSON object
func gJrule(m map[string]interface{}) (string, bool) {
	name, _ := m["name"].(string)
	if v, ok := m["name"]; ok && v != nil {
		if _, isStr := v.(string); !isStr {
			return "", false
		}
	}
	desc, _ := m["desc"].(string)
	if v, ok := m["desc"]; ok && v != nil {
		if _, isStr := v.(string); !isStr {
			return "", false
		}
	}
	sal := int64(0)
	if v, ok := m["salience"]; ok && v != nil {
		f, isNum := v.(float64)
		if !isNum || f != math.Trunc(f) || math.Abs(f) > 1e15 {
			return "", false
		}
		sal = int64(f)
	}
	w, ok1 := gJval(m["when"])
	t, ok2 := gJval(m["then"])
	if !ok1 || !ok2 {
		return "", false
	}
	for k := range m {
		switch k {
		case "name", "desc", "salience", "when", "then":
		default:
			return "", false
		}
	}
	return fmt.Sprintf("{| jname := %s; jdesc := %s; jsal := %s; jwhen := %s; jthen := %s |}", gText(name), gText(desc), gZ(sal), w, t), true
}

func (h *CHead) gallina() string {
	if h.Recv == nil {
		return "(HFun " + gStr(h.F) + ")"
	}
	return "(HMeth " + h.Recv.gallina() + " " + gStr(h.M) + ")"
}

var jopGallina = map[string]string{"eq": "JEq", "not": "JNe", "gt": "JGt", "gte": "JGte", "lt": "JLt", "lte": "JLte", "bor": "JBor", "band": "JBand",
	"plus": "JPlus", "minus": "JMinus", "div": "JDiv", "mul": "JMul", "mod": "JMod", "and": "JAnd", "or": "JOr"}

var jopGrl = map[string]string{"eq": "==", "not": "!=", "gt": ">", "gte": ">=", "lt": "<", "lte": "<=", "bor": "|", "band": "&",
	"plus": "+", "minus": "-", "div": "/", "mul": "*", "mod": "%", "and": "&&", "or": "||"}

func jxsGallina(args []*JX) string {
	s := "XNil"
	for i := len(args) - 1; i >= 0; i-- {
		s = "(XCons " + args[i].gallina() + " " + s + ")"
	}
	return s
}

func (x *JX) gallina() string {
	switch x.K {
	case "plain":
		return "(XPlain " + x.A.gallina() + ")"
	case "num":
		return "(XNum " + gZ(x.Z) + ")"
	case "bool":
		return "(XBool " + gBool(x.B) + ")"
	case "obj":
		return "(XObj " + x.A.gallina() + ")"
	case "consts":
		return "(XConstS " + gText(x.S) + ")"
	case "constn":
		return "(XConstN " + gZ(x.Z) + ")"
	case "constb":
		return "(XConstB " + gBool(x.B) + ")"
	case "op":
		return "(XOp " + jopGallina[x.Op] + " " + jxsGallina(x.Args) + ")"
	}
	return "(XCall " + x.H.gallina() + " " + jxsGallina(x.Args) + ")"
}

func (t *JSt) gallina() string {
	switch t.K {
	case "plain":
		return "(TPlain " + t.S.gallina() + " " + gBool(t.Semi) + ")"
	case "set":
		return "(TSet " + t.X.gallina() + " " + gBool(t.AsObj) + " " + t.Rhs.gallina() + ")"
	}
	return "(TCall " + t.H.gallina() + " " + jxsGallina(t.Args) + ")"
}

func (r *TRule) gallina() string {
	w := ""
	if r.WhenPlain != nil {
		w = "(WPlain " + r.WhenPlain.gallina() + ")"
	} else {
		w = "(WTree " + r.WhenTree.gallina() + ")"
	}
	var th []string
	for _, t := range r.Then {
		th = append(th, t.gallina())
	}
	return fmt.Sprintf("{| tname := %s; tdesc := %s; tsal := %s; twhen := %s; tthen := %s |}", gStr(r.Name), gText(r.Desc), gZ(r.Sal), w, gList(th))
}

// ---------------------------------------------------------------------------
// the JSON operator tree as an expression tree without any bracket: operands
// grouped exactly as they are nested (input of the independent walker)

func (h *CHead) callAtom(args []*Expr) *Atom {
	if h.Recv == nil {
		return &Atom{Kind: "func", F: h.F, Args: args}
	}
	return &Atom{Kind: "method", A: h.Recv, F: h.M, Args: args}
}

func (x *JX) tree() *Expr {
	switch x.K {
	case "plain", "obj":
		return eAtom(x.A)
	case "num", "constn":
		return cInt(x.Z)
	case "bool", "constb":
		return cBool(x.B)
	case "consts":
		return cStr(x.S)
	case "op":
		if x.Op == "not" && len(x.Args) == 1 {
			return eParen(true, x.Args[0].tree())
		}
		var e *Expr
		for i, a := range x.Args {
			if i == 0 {
				e = a.tree()
			} else {
				e = eBin(jopGrl[x.Op], e, a.tree())
			}
		}
		return e
	}
	var as []*Expr
	for _, a := range x.Args {
		as = append(as, a.tree())
	}
	return eAtom(x.H.callAtom(as))
}

// regions of the tree that lie outside the theorem's side condition (wf_trule): none is left
func (x *JX) regions(into map[string]bool) {
	for _, a := range x.Args {
		a.regions(into)
	}
}

func (r *TRule) regions() []string {
	m := map[string]bool{}
	if r.WhenTree != nil {
		r.WhenTree.regions(m)
	}
	for _, t := range r.Then {
		if t.Rhs != nil {
			t.Rhs.regions(m)
		}
		for _, a := range t.Args {
			a.regions(m)
		}
	}
	var out []string
	for k := range m {
		out = append(out, k)
	}
	sort.Strings(out)
	return out
}

// ---------------------------------------------------------------------------
// generator

type jgen struct{ p *prng }

var c18IntPaths = [][]string{{"F", "I64"}, {"F", "I32"}, {"F", "I"}, {"F", "U8"}, {"F", "In", "X"}, {"N"}}

func (g *jgen) intVarAtom() *Atom {
	switch g.p.intn(8) {
	case 0:
		return aVar(vSel(vPath("F", "Arr"), cInt(int64(g.p.intn(3)))))
	case 1:
		return aVar(vSel(vPath("F", "M"), cStr(pick(g.p, []string{"a", "b"}))))
	case 2:
		return &Atom{Kind: "method", A: aVar(vName("F")), F: "GetI64"}
	case 3:
		return &Atom{Kind: "method", A: aVar(vPath("F", "S")), F: "Len"}
	}
	return aVar(vPath(pick(g.p, c18IntPaths)...))
}

func (g *jgen) intLeaf() *JX {
	switch g.p.intn(7) {
	case 0:
		return &JX{K: "num", Z: int64(g.p.intn(9)) - 2}
	case 1:
		return &JX{K: "constn", Z: int64(g.p.intn(12)) - 3}
	case 2:
		return &JX{K: "obj", A: g.intVarAtom()}
	case 3:
		if g.p.chance(1, 2) {
			return &JX{K: "call", H: &CHead{Recv: aVar(vName("F")), M: "GetI64"}}
		}
		return &JX{K: "call", H: &CHead{Recv: aVar(vPath("F", "S")), M: "Len"}}
	case 4:
		return &JX{K: "plain", A: &Atom{Kind: "const", C: &Const{Kind: "int", I: int64(g.p.intn(7)) - 1}}}
	}
	return &JX{K: "plain", A: g.intVarAtom()}
}

func (g *jgen) intTree(d int) *JX {
	if d <= 0 || g.p.chance(1, 4) {
		return g.intLeaf()
	}
	op := pick(g.p, []string{"plus", "plus", "minus", "minus", "mul", "mul", "mod", "band", "bor", "div"})
	n := 2
	if g.p.chance(1, 3) {
		n = 3
	}
	x := &JX{K: "op", Op: op}
	for i := 0; i < n; i++ {
		if g.p.chance(3, 5) {
			x.Args = append(x.Args, g.intTree(d-1))
		} else {
			x.Args = append(x.Args, g.intLeaf())
		}
	}
	if op == "mod" || op == "div" {
		// keep divisors away from zero most of the time
		for i := 1; i < len(x.Args); i++ {
			if g.p.chance(4, 5) {
				x.Args[i] = &JX{K: "num", Z: int64(2 + g.p.intn(4))}
			}
		}
	}
	return x
}

var c18Strings = []string{"", "a", "Hello", "x y", "say \"hi\"", "\"hello\"", "\"a\" + \"b\"", "\"", "\"\"", "\"dir\\\"", "back\\slash", "tab\there", "line\nbreak", "'single'",
	"\\n", "\\\"", "%d %s", "(x)", "!(F.B)", "F.S", "{\"const\":1}", "// c", "/* c */", "\x01\x7f", "\r\n", "a\"", "\"b", "semi;", "rule R {", "\a\b\f\v", "\x00z",
	"(", ")", "((", "))", ")(", ") || (", "a(b", "!(", "&&", "||", "{", "}", "[", "]\"", "(\"", "\")", ";\"", "\\(", "==", "/*", "*/"}

// strings made of the characters a text-level treatment of the translator's own output would trip over (brackets, operators,
// quotes, comment marks): they are placed where the translator decides about wrapping, negation and separators
var c18SyntaxStrings = []string{"(", ")", "((", "))", ")(", ") || (", ") && (", "!(", "\"", "\")", "(\"", ";", "/*", "//", "{", "}", ","}

func (g *jgen) strValue() string {
	if g.p.chance(2, 3) {
		return pick(g.p, c18Strings)
	}
	n := g.p.intn(6)
	var b strings.Builder
	for i := 0; i < n; i++ {
		b.WriteByte(byte(g.p.intn(128)))
	}
	s := b.String()
	if g.p.chance(1, 5) {
		s = "\"" + s + "\""
	}
	return s
}

func (g *jgen) cmp(d int) *JX {
	switch g.p.intn(9) {
	case 0:
		// string constant against a string fact
		op := pick(g.p, []string{"eq", "not", "eq"})
		l := &JX{K: "plain", A: aVar(vPath("F", "S"))}
		if g.p.chance(1, 3) {
			l.A = aVar(vPath("F", "In", "S"))
		}
		return &JX{K: "op", Op: op, Args: []*JX{l, {K: "consts", S: g.strValue()}}}
	case 1:
		return &JX{K: "obj", A: aVar(vPath("F", "B"))}
	case 2:
		return &JX{K: "call", H: &CHead{Recv: aVar(vName("F")), M: "IsPos"}, Args: []*JX{{K: "obj", A: aVar(vPath("F", "F64"))}}}
	case 3:
		// a call with several arguments of all operand forms, compared with a string constant
		sv := g.strValue()
		call := &JX{K: "call", H: &CHead{Recv: aVar(vName("F")), M: "Concat"}, Args: []*JX{{K: "plain", A: aVar(vPath("F", "S"))}, {K: "consts", S: sv}, {K: "obj", A: aVar(vPath("F", "In", "S"))}}}
		return &JX{K: "op", Op: pick(g.p, []string{"eq", "not"}), Args: []*JX{call, {K: "consts", S: g.strValue()}}}
	}
	op := pick(g.p, []string{"eq", "not", "gt", "gte", "lt", "lte"})
	l, r := g.intTree(d), g.intTree(d-1)
	return &JX{K: "op", Op: op, Args: []*JX{l, r}}
}

func (g *jgen) boolTree(d int) *JX {
	if d <= 0 || g.p.chance(1, 3) {
		return g.cmp(d)
	}
	switch g.p.intn(6) {
	case 0:
		// one-operand not over an operator object: logical negation
		// (the lone operand is negated whatever its form: operator object, obj, const, call, plain)
		x := g.boolTree(d - 1)
		if g.p.chance(1, 4) {
			x = pick(g.p, []*JX{{K: "plain", A: aVar(vPath("F", "B"))}, {K: "bool", B: g.p.chance(1, 2)}, {K: "constb", B: g.p.chance(1, 2)}, {K: "obj", A: aVar(vPath("F", "In", "B"))}})
		}
		return &JX{K: "op", Op: "not", Args: []*JX{x}}
	case 1:
		// comparison of two boolean sub-trees
		return &JX{K: "op", Op: "eq", Args: []*JX{g.boolTree(d - 1), g.boolTree(d - 1)}}
	}
	x := &JX{K: "op", Op: pick(g.p, []string{"and", "or"})}
	n := 2 + g.p.intn(2)
	for i := 0; i < n; i++ {
		x.Args = append(x.Args, g.asObject(g.boolTree(d-1)))
	}
	return x
}

// elements of and / or and the operand of a one-operand not must be objects
func (g *jgen) asObject(x *JX) *JX {
	if x.K == "op" || x.K == "obj" || x.K == "call" || x.K == "constb" {
		return x
	}
	return &JX{K: "op", Op: "eq", Args: []*JX{x, {K: "constb", B: true}}}
}

func (g *jgen) thenList(name string) []*JSt {
	var th []*JSt
	n := 1 + g.p.intn(3)
	for i := 0; i < n; i++ {
		switch g.p.intn(5) {
		case 0:
			th = append(th, &JSt{K: "plain", S: assign(vPath("F", "I64"), pick(g.p, []string{"=", "+="}), cInt(int64(g.p.intn(5)))), Semi: g.p.chance(1, 2)})
		case 1:
			th = append(th, &JSt{K: "call", H: &CHead{F: "Retract"}, Args: []*JX{{K: "consts", S: name}}})
		case 2:
			th = append(th, &JSt{K: "call", H: &CHead{Recv: aVar(vName("F")), M: "AddTo"}, Args: []*JX{g.intTree(1)}})
		case 3:
			th = append(th, &JSt{K: "set", X: vPath("F", "S"), AsObj: g.p.chance(1, 2), Rhs: &JX{K: "consts", S: g.strValue()}})
		default:
			th = append(th, &JSt{K: "set", X: vPath("F", pick(g.p, []string{"I64", "I32", "F64"})), AsObj: g.p.chance(1, 2), Rhs: g.intTree(2)})
		}
	}
	return th
}

var c18Descs = []string{"", "plain words", "ten percent for big orders", "say \"hi\"", "back\\slash", "tab\there", "it's", "new\nline", "{ when }", "semi;colon"}

func (g *jgen) rule(i int) *TRule {
	r := &TRule{Name: fmt.Sprintf("J%d", i), Desc: pick(g.p, c18Descs), Sal: pick(g.p, []int64{0, 1, -1, 10, -10, 2147483647, -2147483648, int64(g.p.intn(100))})}
	if g.p.chance(2, 3) {
		r.Desc = pick(g.p, c18Descs[:3])
	}
	if g.p.chance(1, 10) {
		ge := &gen{p: g.p, ops: map[string]int{}}
		r.WhenPlain = ge.boolExpr(2)
		// no float constants (outside the printable fragment); IsPos on a float32 fact is a type error in the
		// engine that the tree walker does not model
		for strings.Contains(r.WhenPlain.gallina(), "CFloat") || strings.Contains(r.WhenPlain.gallina(), "IsPos") {
			r.WhenPlain = ge.boolExpr(2)
		}
	} else {
		r.WhenTree = g.asObject(g.boolTree(1 + g.p.intn(4)))
	}
	r.Then = g.thenList(r.Name)
	return r
}

// ---------------------------------------------------------------------------
// running the implementation

func runC18Scenario(s C18Scenario) (o C18Obs) {
	defer func() {
		if r := recover(); r != nil {
			o.Panic = fmt.Sprint(r)
		}
	}()
	text, err := pkg.ParseJSONRule([]byte(s.JSON))
	if err != nil {
		o.TransErr = err.Error()
	} else {
		o.Text = text
	}
	// the real path: JSON resource -> builder
	lib := ast.NewKnowledgeLibrary()
	rb := builder.NewRuleBuilder(lib)
	res, rerr := pkg.NewJSONResourceFromResource(pkg.NewBytesResource([]byte(s.JSON)))
	if rerr != nil {
		o.BuildErr = rerr.Error()
		return
	}
	if berr := rb.BuildRuleFromResource("K", "1", res); berr != nil {
		o.BuildErr = berr.Error()
		if rep, ok := berr.(*pkg.GruleErrorReporter); ok && len(rep.Errors) > 0 {
			o.BuildErr = rep.Errors[0].Error()
		}
		return
	}
	o.Accepted = true
	kb := lib.GetKnowledgeBase("K", "1")
	o.NRules = len(kb.RuleEntries)
	for _, e := range kb.RuleEntries {
		o.Snapshot = e.GetSnapshot()
		o.Meta = declRule{Name: e.RuleName, Desc: e.RuleDescription, Sal: int64(e.Salience)}
	}
	for i, f := range s.Facts {
		inst, ierr := lib.NewKnowledgeBaseInstance("K", "1")
		if ierr != nil {
			o.Evals = append(o.Evals, "noinstance")
			continue
		}
		dc := ast.NewDataContext()
		fc := f.clone()
		dc.Add("F", fc)
		dc.Add("N", s.Ns[i])
		eng := &engine.GruleEngine{MaxCycle: 5, ReturnErrOnFailedRuleEvaluation: true}
		got, ferr := eng.FetchMatchingRules(dc, inst)
		switch {
		case ferr != nil:
			o.Evals = append(o.Evals, "err")
		case len(got) == 1:
			o.Evals = append(o.Evals, "true")
		default:
			o.Evals = append(o.Evals, "false")
		}
		if s.Typed != nil {
			var tree *Expr
			if s.Typed.WhenPlain != nil {
				tree = s.Typed.WhenPlain
			} else {
				tree = s.Typed.WhenTree.tree()
			}
			v := nativeExpr(tree, f, s.Ns[i])
			switch {
			case v.k == "bool" && v.b:
				o.Native = append(o.Native, "true")
			case v.k == "bool":
				o.Native = append(o.Native, "false")
			default:
				o.Native = append(o.Native, "err")
			}
		}
	}
	return
}

func hasRegion(rs []string, r string) bool {
	for _, x := range rs {
		if x == r {
			return true
		}
	}
	return false
}

func c18Oracle(s C18Scenario, o C18Obs) (viol []string, known [][2]string) {
	if o.Panic != "" {
		return []string{"the JSON rule path panicked: " + o.Panic}, nil
	}
	rejected := o.TransErr != "" || !o.Accepted
	if s.Expect == "reject" && !rejected {
		msg := "a malformed JSON rule was accepted: " + s.Why + " (translated to " + strconv.Quote(o.Text) + ")"
		viol = append(viol, msg)
	}
	if s.Expect == "accept" && rejected {
		msg := fmt.Sprintf("a well-formed JSON rule was rejected (translator: %q builder: %q)", o.TransErr, o.BuildErr)
		viol = append(viol, msg+"; text "+strconv.Quote(o.Text))
	}
	if s.Typed == nil || !o.Accepted {
		return
	}
	t := s.Typed
	if o.NRules != 1 {
		viol = append(viol, fmt.Sprintf("one JSON rule produced %d rules", o.NRules))
	}
	if o.Meta.Name != t.Name || o.Meta.Sal != t.Sal {
		viol = append(viol, fmt.Sprintf("stored rule is %s salience %d, the JSON rule says %s salience %d", o.Meta.Name, o.Meta.Sal, t.Name, t.Sal))
	}
	if o.Meta.Desc != t.Desc {
		msg := fmt.Sprintf("stored description %q differs from the JSON description %q", o.Meta.Desc, t.Desc)
		viol = append(viol, msg)
	}
	for i := range o.Evals {
		// the walker answers err outside its domain (division by zero, times): then it does not decide
		if i < len(o.Native) && o.Native[i] != "err" && o.Evals[i] != o.Native[i] {
			msg := fmt.Sprintf("condition is %s on facts #%d, the JSON operator tree (operands grouped as nested) is %s; GRL: %s", o.Evals[i], i, o.Native[i], strings.TrimSpace(o.Text))
			viol = append(viol, msg)
		}
	}
	return
}

// ---------------------------------------------------------------------------

func c18FromTyped(kind string, t *TRule, p *prng) C18Scenario {
	js := t.toJSON()
	b, _ := json.Marshal(js)
	var raw interface{}
	json.Unmarshal(b, &raw)
	s := C18Scenario{Kind: kind, Typed: t, JSON: string(b), raw: raw, Regions: t.regions()}
	for i := 0; i < 2; i++ {
		f := genFact(p)
		if f.In == nil {
			f.In = &Inner{X: 1, S: "in"}
		}
		s.Facts = append(s.Facts, f)
		s.Ns = append(s.Ns, int64(p.intn(4)))
	}
	// make string comparisons meaningful: the first fact carries the first string constant of the condition
	if t.WhenTree != nil {
		if c := firstStrConst(t.WhenTree); c != nil {
			s.Facts[0].S = *c
			s.Facts[0].In.S = *c
		}
	}
	if t.Sal >= math.MinInt32 && t.Sal <= math.MaxInt32 {
		s.Expect = "accept"
	}
	return s
}

func firstStrConst(x *JX) *string {
	if x.K == "consts" {
		return &x.S
	}
	for _, a := range x.Args {
		if c := firstStrConst(a); c != nil {
			return c
		}
	}
	return nil
}

type c18Malformed struct {
	why  string
	json string
	reg  string
}

func c18MalformedList(p *prng) []c18Malformed {
	ok := `"then":["F.I64 = 1;"]`
	w := `"when":{"eq":["F.I64",1]}`
	ms := []c18Malformed{
		{"empty input", ``, ""},
		{"blank input", `   `, ""},
		{"empty object", `{}`, ""},
		{"null", `null`, ""},
		{"missing name", `{` + w + `,` + ok + `}`, ""},
		{"empty name", `{"name":"",` + w + `,` + ok + `}`, ""},
		{"missing when", `{"name":"R",` + ok + `}`, ""},
		{"null when", `{"name":"R","when":null,` + ok + `}`, ""},
		{"missing then", `{"name":"R",` + w + `}`, ""},
		{"null then", `{"name":"R",` + w + `,"then":null}`, ""},
		{"then is not an array", `{"name":"R",` + w + `,"then":"F.I64 = 1;"}`, ""},
		{"empty then", `{"name":"R",` + w + `,"then":[]}`, ""},
		{"when is a number", `{"name":"R","when":5,` + ok + `}`, ""},
		{"when is an array", `{"name":"R","when":[{"eq":[1,1]}],` + ok + `}`, ""},
		{"empty when object", `{"name":"R","when":{},` + ok + `}`, ""},
		{"unknown operator", `{"name":"R","when":{"xor":[true,false]},` + ok + `}`, ""},
		{"unknown operator nested", `{"name":"R","when":{"and":[{"eq":[1,1]},{"nand":[1,1]}]},` + ok + `}`, ""},
		{"two operators in one object", `{"name":"R","when":{"eq":[1,1],"lt":[1,2]},` + ok + `}`, ""},
		{"operator without operands", `{"name":"R","when":{"eq":[]},` + ok + `}`, ""},
		{"operands not an array", `{"name":"R","when":{"eq":"F.I64 == 1"},` + ok + `}`, ""},
		{"and with one operand", `{"name":"R","when":{"and":[{"eq":[1,1]}]},` + ok + `}`, ""},
		{"and over plain operands", `{"name":"R","when":{"and":["F.B","F.B"]},` + ok + `}`, ""},
		{"null operand", `{"name":"R","when":{"eq":[null,1]},` + ok + `}`, ""},
		{"array operand", `{"name":"R","when":{"eq":[[1],1]},` + ok + `}`, ""},
		{"const is an array", `{"name":"R","when":{"eq":[{"const":[1]},1]},` + ok + `}`, ""},
		{"const is null", `{"name":"R","when":{"eq":[{"const":null},1]},` + ok + `}`, ""},
		{"obj is not a string", `{"name":"R","when":{"eq":[{"obj":5},1]},` + ok + `}`, ""},
		{"set with one operand", `{"name":"R",` + w + `,"then":[{"set":["F.I64"]}]}`, ""},
		{"set with three operands", `{"name":"R",` + w + `,"then":[{"set":["F.I64",1,2]}]}`, ""},
		{"call without a head", `{"name":"R",` + w + `,"then":[{"call":[]}]}`, ""},
		{"call head is not a string", `{"name":"R",` + w + `,"then":[{"call":[5]}]}`, ""},
		{"call with an empty string argument", `{"name":"R",` + w + `,"then":[{"call":["Log",""]}]}`, ""},
		{"then item is a number", `{"name":"R",` + w + `,"then":[5]}`, ""},
		{"not JSON", `{"name":"R",`, ""},
		{"name is a reserved word", `{"name":"then",` + w + `,` + ok + `}`, ""},
		{"salience out of range", `{"name":"R","salience":2147483648,` + w + `,` + ok + `}`, ""},
	}
	for _, op := range []string{"eq", "gt", "gte", "lt", "lte", "plus", "minus", "mul", "div", "mod", "band", "bor"} {
		ms = append(ms, c18Malformed{"binary operator " + op + " with one operand", `{"name":"R","when":{"` + op + `":[true]},` + ok + `}`, ""})
		ms = append(ms, c18Malformed{"binary operator " + op + " with one operator-object operand", `{"name":"R","when":{"` + op + `":[{"eq":[1,1]}]},` + ok + `}`, ""})
	}
	return ms
}

func runC18(seed uint64, tier string, out string) error {
	p := newPrng(seed)
	rep := newReport("C18", seed, tier)
	regions := openRegions("C18")
	n := 420
	if tier == "thorough" {
		n = 6000
	}
	var scen []C18Scenario
	g := &jgen{p: p.fork()}
	// fixed regression corpus, first on every run: the witnesses of the repaired findings
	// D12 (12086c3), D13 (2cd0fef), D14 (e1f41de) must now pass every oracle
	{
		one := &JX{K: "op", Op: "eq", Args: []*JX{{K: "num", Z: 1}, {K: "num", Z: 1}}}
		done := []*JSt{{K: "call", H: &CHead{F: "Complete"}}}
		t13 := &TRule{Name: "W13", Desc: "", Sal: 0, WhenTree: &JX{K: "op", Op: "not", Args: []*JX{one, {K: "bool", B: true}}}, Then: done}
		scen = append(scen, c18FromTyped("regression:D13-not-with-operator-operand", t13, p.fork()))
		t13b := &TRule{Name: "W13b", Desc: "", Sal: 0, WhenTree: &JX{K: "op", Op: "not", Args: []*JX{{K: "bool", B: false}, one, one}}, Then: done}
		scen = append(scen, c18FromTyped("regression:D13-three-operands", t13b, p.fork()))
		t12 := &TRule{Name: "W12", Desc: "say \"hi\"\n\\ \x01", Sal: 0, WhenTree: one, Then: done}
		scen = append(scen, c18FromTyped("regression:D12-description", t12, p.fork()))
		s14 := C18Scenario{Kind: "regression:D14-arity-one", JSON: `{"name":"R","when":{"eq":[true]},"then":["F.I64 = 1;"]}`, Expect: "reject", Why: "binary operator eq with one operand"}
		var raw interface{}
		json.Unmarshal([]byte(s14.JSON), &raw)
		s14.raw = raw
		scen = append(scen, s14)
		// D13b (eb4ea8e): the lone operand of "not" is negated whatever its form
		for i, a := range []*JX{{K: "constb", B: true}, {K: "bool", B: false}, {K: "plain", A: aVar(vPath("F", "B"))}, {K: "obj", A: aVar(vPath("F", "B"))},
			{K: "call", H: &CHead{Recv: aVar(vName("F")), M: "IsPos"}, Args: []*JX{{K: "obj", A: aVar(vPath("F", "F64"))}}}, {K: "num", Z: 5}, one} {
			tl := &TRule{Name: fmt.Sprintf("WL%d", i), Desc: "", Sal: 0, WhenTree: &JX{K: "op", Op: "not", Args: []*JX{a}}, Then: done}
			scen = append(scen, c18FromTyped("regression:D13b-lone-not", tl, p.fork()))
		}
	}
	for i := 0; i < n; i++ {
		t := g.rule(i)
		scen = append(scen, c18FromTyped("typed", t, p.fork()))
	}
	// string constants: every string of the table and random ones, in a condition that must hold
	for i, sv := range c18Strings {
		t := &TRule{Name: fmt.Sprintf("S%d", i), Desc: "string constant round trip", Sal: 1,
			WhenTree: &JX{K: "op", Op: "eq", Args: []*JX{{K: "plain", A: aVar(vPath("F", "S"))}, {K: "consts", S: sv}}},
			Then:     []*JSt{{K: "set", X: vPath("F", "S"), Rhs: &JX{K: "consts", S: sv}}}}
		scen = append(scen, c18FromTyped("string-constant", t, p.fork()))
	}
	// syntax characters inside string constants at every position of a negated / nested and-or tree (first group, last group,
	// both), and of a call argument list: the GRL text must not depend on what a string constant contains
	for i, sv := range c18SyntaxStrings {
		sp := p.fork()
		gg := &jgen{p: sp}
		strEq := func(x string) *JX {
			return &JX{K: "op", Op: pick(sp, []string{"eq", "not"}), Args: []*JX{{K: "plain", A: aVar(vPath("F", "S"))}, {K: "consts", S: x}}}
		}
		fb := func() *JX { return gg.asObject(gg.cmp(0)) }
		for j, pos := range []string{"first", "last", "both", "call"} {
			g1 := &JX{K: "op", Op: pick(sp, []string{"and", "or"}), Args: []*JX{fb(), fb()}}
			g2 := &JX{K: "op", Op: pick(sp, []string{"and", "or"}), Args: []*JX{fb(), fb()}}
			switch pos {
			case "first":
				g1.Args[0] = strEq(sv)
			case "last":
				g2.Args[1] = strEq(sv)
			case "both":
				g1.Args[0], g2.Args[1] = strEq(sv), strEq(pick(sp, c18SyntaxStrings))
			case "call":
				call := &JX{K: "call", H: &CHead{Recv: aVar(vName("F")), M: "Concat"}, Args: []*JX{{K: "consts", S: sv}, {K: "plain", A: aVar(vPath("F", "S"))}, {K: "consts", S: pick(sp, c18SyntaxStrings)}}}
				g1.Args[0] = &JX{K: "op", Op: "eq", Args: []*JX{call, {K: "consts", S: sv + "a" + sv}}}
			}
			var tree *JX = &JX{K: "op", Op: pick(sp, []string{"and", "or"}), Args: []*JX{g1, g2}}
			switch sp.intn(3) {
			case 0:
				tree = &JX{K: "op", Op: "not", Args: []*JX{tree}}
			case 1:
				tree = &JX{K: "op", Op: pick(sp, []string{"and", "or"}), Args: []*JX{{K: "op", Op: "not", Args: []*JX{tree}}, fb()}}
			}
			t := &TRule{Name: fmt.Sprintf("Y%d_%d", i, j), Desc: "syntax characters in a string constant (" + pos + ")", Sal: 1, WhenTree: tree,
				Then: []*JSt{{K: "set", X: vPath("F", "S"), Rhs: &JX{K: "consts", S: sv}}}}
			scen = append(scen, c18FromTyped("syntax-in-string", t, sp.fork()))
		}
	}
	// nesting shapes: an operator over an operand whose own first and last operands are nested
	for i := 0; i < n/6; i++ {
		sp := p.fork()
		gg := &jgen{p: sp}
		inner := &JX{K: "op", Op: pick(sp, []string{"plus", "minus", "mul"}), Args: []*JX{gg.intTree(1), gg.intLeaf(), gg.intTree(1)}}
		inner.Args[0] = &JX{K: "op", Op: pick(sp, []string{"plus", "minus"}), Args: []*JX{gg.intLeaf(), gg.intLeaf()}}
		inner.Args[2] = &JX{K: "op", Op: pick(sp, []string{"plus", "minus"}), Args: []*JX{gg.intLeaf(), gg.intLeaf()}}
		outer := &JX{K: "op", Op: pick(sp, []string{"mul", "minus", "div", "mod", "plus"}), Args: []*JX{gg.intLeaf(), inner}}
		if sp.chance(1, 2) {
			outer.Args[0], outer.Args[1] = outer.Args[1], outer.Args[0]
		}
		t := &TRule{Name: fmt.Sprintf("N%d", i), Desc: "nested grouping", Sal: int64(i % 7),
			WhenTree: &JX{K: "op", Op: pick(sp, []string{"eq", "lt", "gte"}), Args: []*JX{outer, gg.intLeaf()}},
			Then:     []*JSt{{K: "set", X: vPath("F", "I64"), AsObj: sp.chance(1, 2), Rhs: outer}}}
		scen = append(scen, c18FromTyped("nested-shape", t, sp))
	}
	// constants that are not integer literals
	for i, big := range []float64{1e21, 1e22, 1.5, 0.1, 1e-7, 123456789012345678} {
		t := &TRule{Name: fmt.Sprintf("B%d", i), Desc: "numeric constant", Sal: 0,
			WhenTree: &JX{K: "op", Op: "lt", Args: []*JX{{K: "plain", A: aVar(vPath("F", "F64"))}, {K: "constn", Big: big}}},
			Then:     []*JSt{{K: "call", H: &CHead{F: "Retract"}, Args: []*JX{{K: "consts", S: fmt.Sprintf("B%d", i)}}}}}
		s := c18FromTyped("numeric-constant", t, p.fork())
		s.raw = nil
		s.Facts, s.Ns = nil, nil
		s.Expect = "accept"
		scen = append(scen, s)
	}
	for _, m := range c18MalformedList(p) {
		s := C18Scenario{Kind: "malformed", JSON: m.json, Expect: "reject", Why: m.why}
		if m.reg != "" {
			s.Regions = []string{m.reg}
		}
		var raw interface{}
		if json.Unmarshal([]byte(m.json), &raw) == nil {
			s.raw = raw
		}
		f := genFact(p)
		s.Facts, s.Ns = []*Fact{f}, []int64{1}
		scen = append(scen, s)
	}

	var cases []string
	var index []interface{}
	distinct := map[string]bool{}
	type rec struct {
		Scenario C18Scenario `json:"scenario"`
		Obs      C18Obs      `json:"obs"`
	}
	knownSeen := map[string]string{}
	for _, s := range scen {
		if !c17InDomain(s.JSON) {
			rep.count("dropped: outside the modelled character set")
			continue
		}
		o := runC18Scenario(s)
		rep.Evaluations++
		viol, known := c18Oracle(s, o)
		for _, k := range known {
			if id, ok := regions[k[0]]; ok {
				if _, seen := knownSeen[k[0]]; !seen {
					knownSeen[k[0]] = fmt.Sprintf("%s region=%s: %s; input: %s", id, k[0], k[1], s.JSON)
				}
				rep.count("known finding " + k[0])
			} else {
				viol = append(viol, k[1])
			}
		}
		for _, v := range viol {
			rep.fail("C18: "+v, s)
		}
		verdict := "rejected"
		if o.Accepted {
			verdict = "accepted"
		}
		rep.count(s.Kind + " " + verdict)
		for _, r := range s.Regions {
			rep.count("region " + r)
		}
		for _, e := range o.Evals {
			rep.count("condition " + e)
		}
		distinct[s.JSON] = true
		// the model's view of the case
		m, isObj := s.raw.(map[string]interface{})
		if !isObj {
			continue
		}
		jr, ok := gJrule(m)
		if !ok {
			rep.count("not sent to the model: number outside the modelled integers")
			continue
		}
		typed := "None"
		wfreg := false
		if s.Typed != nil {
			typed = "(Some " + s.Typed.gallina() + ")"
			wfreg = true
		}
		otext := "None"
		if o.TransErr == "" {
			otext = "(Some " + gText(o.Text) + ")"
		}
		var evs []string
		for i, e := range o.Evals {
			c := map[string]string{"true": "CTrue", "false": "CFalse", "err": "CErr"}[e]
			if c == "" {
				continue
			}
			evs = append(evs, fmt.Sprintf("([(\"F\"%%string, %s); (\"N\"%%string, (FV (VInt I64 %s)))], %s)", s.Facts[i].gallina(), gZ(s.Ns[i]), c))
		}
		id := len(index)
		index = append(index, rec{s, o})
		cases = append(cases, fmt.Sprintf("(%d, %s, %s, %s, %s, %s, %s, %s)", id, jr, typed, gBool(wfreg), otext, gBool(o.Accepted), gText(o.Snapshot), gList(evs)))
		if len(rep.Samples) < 5 && id%131 == 7 {
			rep.sample(rec{s, o})
		}
	}
	var ks []string
	for _, v := range knownSeen {
		ks = append(ks, v)
	}
	sort.Strings(ks)
	rep.KnownFindings = ks
	rep.Cases = len(cases)
	rep.DistinctNontrivial = len(distinct)
	rep.Rule = "distinct JSON documents; every typed case is a rule over 1-4 levels of operator objects evaluated on two generated fact states, compared with the model translator / parser / evaluator and with the independent tree walker"
	if err := writeShards(out, "From Grule Require Import Base Values Syntax Lexer Parser EngineAbs Facts Methods CorrParse JsonRule CorrJson.", "c18_mismatches", "c18case", cases, 16); err != nil {
		return err
	}
	return rep.write(out, index)
}

func replayC18(path string) (bool, string, error) {
	b, err := os.ReadFile(path)
	if err != nil {
		return false, "", err
	}
	var rp struct {
		Scenario json.RawMessage `json:"scenario"`
	}
	if err := json.Unmarshal(b, &rp); err != nil {
		return false, "", err
	}
	var s C18Scenario
	var wrapped struct {
		Scenario *C18Scenario `json:"scenario"`
	}
	if json.Unmarshal(rp.Scenario, &wrapped) == nil && wrapped.Scenario != nil {
		s = *wrapped.Scenario
	} else if err := json.Unmarshal(rp.Scenario, &s); err != nil {
		return false, "", err
	}
	o := runC18Scenario(s)
	viol, known := c18Oracle(s, o)
	regions := openRegions("C18")
	for _, k := range known {
		if _, ok := regions[k[0]]; !ok {
			viol = append(viol, k[1])
		}
	}
	msg := fmt.Sprintf("kind=%s json=%s\ntranslator error=%q text=%q\naccepted=%v build error=%q stored=%v\nconditions=%v tree walker=%v\nviolations=%v known=%v",
		s.Kind, s.JSON, o.TransErr, o.Text, o.Accepted, o.BuildErr, o.Meta, o.Evals, o.Native, viol, known)
	return len(viol) > 0, msg, nil
}

func init() {
	runners["C18"] = runC18
	replayers["C18"] = replayC18
}
