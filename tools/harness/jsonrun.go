package main

// C01 / C02 on JSON facts (DataContext.AddJSON): rule sets whose conditions read and whose actions assign members, nested
// members and array elements of a JSON document.  Implementation-side oracle only (the Coq fact model has Go structs,
// pointers, slices and maps): at every ExecuteRuleEntry the fired rule is built alone, on a fresh instance, and asked with
// FetchMatchingRules on a copy of the JSON document of that moment - it must match; when Execute returns nil and no rule
// called Complete, no rule may match on the final document.

import (
	"context"
	"encoding/json"
	"fmt"
	"sort"
	"strings"

	"github.com/hyperjumptech/grule-rule-engine/ast"
	"github.com/hyperjumptech/grule-rule-engine/engine"
)

type jsonRun struct {
	Kind     string   `json:"kind"` // "jsonrun"
	Doc      string   `json:"doc"`
	Rules    []string `json:"rules"` // one GRL rule each
	Names    []string `json:"names"`
	MaxCycle uint64   `json:"max_cycle"`
}

func genJSONRun(p *prng) jsonRun {
	doc := map[string]interface{}{
		"n": float64(p.intn(3)), "m": float64(p.intn(3)), "s": pick(p, []string{"a", "go", ""}), "b": false,
		"o":   map[string]interface{}{"k": float64(p.intn(3)), "j": float64(p.intn(3)), "deep": map[string]interface{}{"z": float64(p.intn(2))}},
		"arr": []interface{}{float64(p.intn(3)), float64(p.intn(3)), float64(7)},
		"oa":  []interface{}{map[string]interface{}{"q": float64(p.intn(3))}},
	}
	b, _ := json.Marshal(doc)
	// a member of a JSON object has two spellings, o.k and o["k"]; an element can be reached by a literal or a computed
	// selector, with members below it (D25, repaired): all of them are used side by side
	nums := []string{"J.n", "J.m", "J.o.k", "J.o[\"k\"]", "J.o.deep.z", "J[\"o\"].deep[\"z\"]", "J.arr[0]", "J.arr[1]", "J.oa[0].q", "J.oa[I].q", "J.o[\"j\"]", "J.arr[I]"}
	pickNum := func() string { return pick(p, nums) }
	sals := []int{5, 3, 1, 0, -2, 9}
	for i := len(sals) - 1; i > 0; i-- {
		j := p.intn(i + 1)
		sals[i], sals[j] = sals[j], sals[i]
	}
	r := jsonRun{Kind: "jsonrun", Doc: string(b), MaxCycle: uint64(pick(p, []int{5, 12, 40}))}
	add := func(name, when, then string) {
		r.Names = append(r.Names, name)
		r.Rules = append(r.Rules, fmt.Sprintf("rule %s \"json run\" salience %d {\n  when %s\n  then\n    %s\n}\n", name, sals[len(r.Names)-1], when, then))
	}
	k := 1 + p.intn(3)
	for i := 0; i < k; i++ {
		x := pickNum()
		lim := 2 + p.intn(3)
		switch p.intn(3) {
		case 0:
			add(fmt.Sprintf("Up%d", i), fmt.Sprintf("%s < %d", x, lim), fmt.Sprintf("%s = %s + 1;", x, x))
		case 1:
			add(fmt.Sprintf("Up%d", i), fmt.Sprintf("%s + %s < %d", x, pickNum(), lim+2), fmt.Sprintf("%s += 1;", x))
		default:
			// a computed selector next to a literal one on the same array (the element reset of D3's repair)
			add(fmt.Sprintf("Up%d", i), fmt.Sprintf("J.arr[0] < %d", lim), "J.arr[I] = J.arr[0] + 1;")
		}
	}
	if p.chance(1, 2) {
		add("Mark", fmt.Sprintf("%s >= 2 && !J.b", pickNum()), "J.b = true;")
	}
	if p.chance(1, 2) {
		add("Word", fmt.Sprintf("J.s != \"done\" && %s + %s >= 3", pickNum(), pickNum()), "J.s = \"done\";")
	}
	if p.chance(1, 4) {
		add("End", fmt.Sprintf("J.b && %s >= 1", pickNum()), "Complete();")
	}
	return r
}

type jsonRunListener struct {
	dc     ast.IDataContext
	states map[uint64]string // cycle -> document when the rule of that cycle was about to execute
	fired  []string
	cycles []uint64
}

func (l *jsonRunListener) EvaluateRuleEntry(ctx context.Context, cycle uint64, entry *ast.RuleEntry, candidate bool) {
}
func (l *jsonRunListener) BeginCycle(ctx context.Context, cycle uint64) {}
func (l *jsonRunListener) ExecuteRuleEntry(ctx context.Context, cycle uint64, entry *ast.RuleEntry) {
	l.fired = append(l.fired, entry.RuleName)
	l.cycles = append(l.cycles, cycle)
	l.states[cycle] = jsonDocOf(l.dc)
}

func jsonDocOf(dc ast.IDataContext) string {
	v, err := dc.Get("J").GetValue()
	if err != nil {
		return "null"
	}
	b, _ := json.Marshal(normJSON(v.Interface()))
	return string(b)
}

// does the rule, built alone on a fresh instance, match on the document?
func jsonFreshMatch(rule string, doc string) (bool, error) {
	lib, err := buildRules(rule, "One")
	if err != nil {
		return false, err
	}
	kb, err := lib.NewKnowledgeBaseInstance("One", "1")
	if err != nil {
		return false, err
	}
	dc := ast.NewDataContext()
	if err := dc.AddJSON("J", []byte(doc)); err != nil {
		return false, err
	}
	dc.Add("I", int64(0))
	res, err := (&engine.GruleEngine{MaxCycle: 5}).FetchMatchingRules(dc, kb)
	return len(res) > 0, err
}

// runs one scenario on the real engine; "" when C01 and C02 hold on it
func runJSONRun(r jsonRun) string {
	lib, err := buildRules(strings.Join(r.Rules, "\n"), "Eng")
	if err != nil {
		return "" // not a scenario (the generator only emits grammatical rules; a build error would be C17's business)
	}
	kb, err := lib.NewKnowledgeBaseInstance("Eng", "1")
	if err != nil {
		return "C01 (JSON facts): instance: " + err.Error()
	}
	dc := ast.NewDataContext()
	if err := dc.AddJSON("J", []byte(r.Doc)); err != nil {
		return "C01 (JSON facts): the JSON fact is rejected: " + err.Error()
	}
	dc.Add("I", int64(0)) // a Go integer for computed selectors (JSON numbers are float64 and cannot index)
	l := &jsonRunListener{dc: dc, states: map[uint64]string{}}
	eng := &engine.GruleEngine{MaxCycle: r.MaxCycle, Listeners: []engine.GruleEngineListener{l}}
	runErr := eng.Execute(dc, kb)
	byName := map[string]string{}
	for i, n := range r.Names {
		byName[n] = r.Rules[i]
	}
	for i, n := range l.fired {
		doc := l.states[l.cycles[i]]
		ok, err := jsonFreshMatch(byName[n], doc)
		if err != nil {
			continue // the condition cannot be evaluated alone on this document: not the staleness question
		}
		if !ok {
			return fmt.Sprintf("C01 (JSON facts): cycle %d fires %s, but its condition evaluated from scratch on the JSON fact of that moment %s is false\n%s", l.cycles[i], n, doc, byName[n])
		}
	}
	if runErr == nil {
		completed := false
		for _, n := range l.fired {
			if n == "End" {
				completed = true
			}
		}
		if !completed {
			final := jsonDocOf(dc)
			var still []string
			for _, n := range r.Names {
				if ok, err := jsonFreshMatch(byName[n], final); err == nil && ok {
					still = append(still, n)
				}
			}
			sort.Strings(still)
			if len(still) > 0 {
				return fmt.Sprintf("C02 (JSON facts): Execute returned nil after %d firings, but on the final JSON fact %s the conditions of %v hold when evaluated from scratch", len(l.fired), final, still)
			}
		}
	}
	return ""
}

// former witnesses of D25 (repaired by engine commit 74f90dc): two spellings of one member of a JSON object; a member
// below an element reached through a computed selector.  They run first on every check and must pass.
func d25Witnesses() []jsonRun {
	return []jsonRun{
		{Kind: "jsonrun", Doc: `{"o":{"k":0}}`, MaxCycle: 8, Names: []string{"Up"},
			Rules: []string{"rule Up \"two spellings of one member\" salience 0 {\n  when J.o[\"k\"] < 2\n  then\n    J.o.k = J.o.k + 1;\n}\n"}},
		{Kind: "jsonrun", Doc: `{"o":{"k":0}}`, MaxCycle: 8, Names: []string{"Up"},
			Rules: []string{"rule Up \"two spellings of the container\" salience 0 {\n  when J[\"o\"][\"k\"] < 2\n  then\n    J.o.k = J.o.k + 1;\n}\n"}},
		{Kind: "jsonrun", Doc: `{"oa":[{"q":0}]}`, MaxCycle: 8, Names: []string{"Up"},
			Rules: []string{"rule Up \"computed element, member below\" salience 0 {\n  when J.oa[0].q < 2\n  then\n    J.oa[I].q = J.oa[I].q + 1;\n}\n"}},
	}
}
