package main

// Typed generator of GRL rule sets over the fact library (factlib.go):
// conditions and actions are built from a typed path environment so that
// most are well-typed and flip during a run (counters moving towards
// thresholds); a separate stream adds ill-typed / failing pieces.

import (
	"fmt"
	"strings"
)

type gen struct {
	p      *prng
	faulty bool
	// statistics
	ops map[string]int
}

// wrap operands so that the printed text parses back to exactly this tree
func mkBin(op string, l, r *Expr) *Expr {
	lv := opLevel[op]
	if l.Kind == "bin" && opLevel[l.Op] > lv {
		l = eParen(false, l)
	}
	if r.Kind == "bin" && opLevel[r.Op] >= lv {
		r = eParen(false, r)
	}
	return eBin(op, l, r)
}

func method(recv *Atom, f string, args ...*Expr) *Expr {
	return eAtom(&Atom{Kind: "method", A: recv, F: f, Args: args})
}
func fn(f string, args ...*Expr) *Atom { return &Atom{Kind: "func", F: f, Args: args} }

// the nested object is reached through the pointer field In or through the interface-typed field Any
// or as an element of the slice of struct pointers Items (constant or computed index: F.Items[0].X and F.Items[F.U % 2].X)
func (g *gen) inner() *Var {
	switch g.p.intn(6) {
	case 0, 1:
		g.ops["path.through-interface-field"]++
		return vPath("F", "Any")
	case 2:
		g.ops["path.struct-in-slice"]++
		return vSel(vPath("F", "Items"), cInt(int64(g.p.intn(2))))
	case 3:
		g.ops["path.struct-in-slice"]++
		if g.p.chance(1, 2) {
			g.ops["path.struct-in-slice.computed-index"]++
			return vSel(vPath("F", "Items"), mkBin("%", eVar(vPath("F", pick(g.p, []string{"U", "U8", "I64"}))), cInt(2)))
		}
		return vSel(vPath("F", "Items"), cInt(0))
	}
	return vPath("F", "In")
}

var intFields = []string{"I", "I8", "I16", "I32", "I64", "U", "U8", "U16", "U32", "U64"}

// an int64-typed readable path (as Var)
func (g *gen) intVar() *Var {
	switch g.p.intn(9) {
	case 0, 1, 2:
		return vPath("F", pick(g.p, intFields))
	case 3:
		return vMember(g.inner(), "X")
	case 4:
		return vSel(vPath("F", "Arr"), cInt(int64(g.p.intn(3))))
	case 5:
		return vSel(vPath("F", "M"), cStr(pick(g.p, []string{"a", "b"})))
	case 6:
		return vName("N")
	default:
		return vPath("F", "I64")
	}
}

func (g *gen) floatVar() *Var {
	switch g.p.intn(5) {
	case 0:
		return vPath("F", "F32")
	case 1:
		return vMember(g.inner(), "Y")
	case 2:
		return vSel(vPath("F", "FArr"), cInt(int64(g.p.intn(3))))
	default:
		return vPath("F", "F64")
	}
}

func (g *gen) strVar() *Var {
	switch g.p.intn(5) {
	case 0:
		return vMember(g.inner(), "S")
	case 1:
		return vSel(vPath("F", "SArr"), cInt(int64(g.p.intn(3))))
	case 2:
		return vSel(vPath("F", "MS"), cStr(pick(g.p, []string{"k", "l"})))
	default:
		return vPath("F", "S")
	}
}

func (g *gen) intExpr(depth int) *Expr {
	if depth <= 0 || g.p.chance(2, 5) {
		switch g.p.intn(8) {
		case 0, 1:
			return cInt(int64(g.p.intn(6)))
		case 2:
			if g.p.chance(1, 3) {
				return method(aVar(vName("F")), "Sum", g.intExpr(0), cInt(int64(g.p.intn(3))))
			}
			return eVar(g.intVar())
		case 3:
			switch g.p.intn(4) {
			case 0:
				g.ops["str.Index/LastIndex/Count"]++
				return method(aVar(g.strVar()), pick(g.p, []string{"Index", "LastIndex", "Count"}), cStr(pick(g.p, []string{"a", "l", "", "lo", "ll", "-"})))
			case 1:
				g.ops["str.Compare"]++
				return method(aVar(g.strVar()), "Compare", g.strExpr(0))
			}
			return method(aVar(g.strVar()), "Len")
		case 4:
			if g.p.chance(1, 2) {
				return method(aVar(vPath("F", pick(g.p, []string{"Arr", "SArr", "M"}))), "Len")
			}
			return eVar(g.intVar())
		default:
			return eVar(g.intVar())
		}
	}
	op := pick(g.p, []string{"+", "+", "-", "*", "%", "&", "|"})
	l, r := g.intExpr(depth-1), g.intExpr(depth-1)
	if op == "%" {
		r = cInt(int64(2 + g.p.intn(3)))
		if g.p.chance(1, 3) {
			r = eVar(vPath("F", pick(g.p, []string{"U8", "U16", "U32", "I16"})))
		}
	}
	g.ops[op]++
	return mkBin(op, l, r)
}

func (g *gen) floatExpr(depth int) *Expr {
	if depth <= 0 || g.p.chance(1, 2) {
		switch g.p.intn(5) {
		case 0:
			return cFloat(float64(g.p.intn(8)) / 4)
		case 1:
			return eAtom(fn(pick(g.p, []string{"Max", "Min"}), eVar(g.floatVar()), cFloat(float64(g.p.intn(4)))))
		default:
			return eVar(g.floatVar())
		}
	}
	switch g.p.intn(4) {
	case 0:
		g.ops["/"]++
		return mkBin("/", g.intExpr(depth-1), cInt(int64(1+g.p.intn(4)))) // real quotient of integers
	case 1:
		g.ops["+f"]++
		return mkBin("+", g.floatExpr(depth-1), g.intExpr(0)) // int -> float promotion
	default:
		op := pick(g.p, []string{"+", "-", "*"})
		g.ops[op+"f"]++
		return mkBin(op, g.floatExpr(depth-1), g.floatExpr(depth-1))
	}
}

func (g *gen) strExpr(depth int) *Expr {
	if depth <= 0 || g.p.chance(1, 2) {
		switch g.p.intn(5) {
		case 0:
			return cStr(pick(g.p, []string{"a", "ab", "", "Hello", "x"}))
		case 1:
			switch g.p.intn(6) {
			case 0:
				g.ops["str.Trim"]++
				return method(aVar(g.strVar()), "Trim")
			case 1:
				g.ops["str.Replace"]++
				return method(aVar(g.strVar()), "Replace", cStr(pick(g.p, []string{"l", "a", "", "lo", "-"})), cStr(pick(g.p, []string{"", "L", "xy"})))
			case 2:
				g.ops["str.Repeat"]++
				n := int64(g.p.intn(4))
				if g.p.chance(1, 12) {
					n = -1 // strings.Repeat panics
				}
				return method(aVar(g.strVar()), "Repeat", cInt(n))
			}
			return method(aVar(g.strVar()), pick(g.p, []string{"ToUpper", "ToLower"}))
		case 2:
			return method(aVar(vName("F")), "Concat", eVar(g.strVar()), cStr("-"), eVar(g.strVar()))
		default:
			return eVar(g.strVar())
		}
	}
	g.ops["+s"]++
	r := g.strExpr(depth - 1)
	if g.p.chance(1, 4) {
		r = g.intExpr(0) // string + int concatenates
	}
	return mkBin("+", g.strExpr(depth-1), r)
}

func (g *gen) boolExpr(depth int) *Expr {
	if depth <= 0 || g.p.chance(1, 3) {
		return g.cmp()
	}
	switch g.p.intn(7) {
	case 6:
		// the same sub-expression parenthesised plain and negated
		b := g.boolExpr(depth - 1)
		g.ops["(e) vs !(e)"]++
		if g.p.chance(1, 2) {
			return mkBin(pick(g.p, []string{"&&", "||", "==", "!="}), eParen(false, b), eParen(true, b))
		}
		return mkBin(pick(g.p, []string{"&&", "||", "==", "!="}), eParen(true, b), eParen(false, b))
	case 0:
		g.ops["&&"]++
		return mkBin("&&", g.boolExpr(depth-1), g.boolExpr(depth-1))
	case 1:
		g.ops["||"]++
		return mkBin("||", g.boolExpr(depth-1), g.boolExpr(depth-1))
	case 2:
		g.ops["!()"]++
		return eParen(true, g.boolExpr(depth-1))
	case 3:
		g.ops["!atom"]++
		return eAtom(&Atom{Kind: "neg", A: aVar(pick(g.p, []*Var{vPath("F", "B"), vMember(g.inner(), "B")}))})
	default:
		return g.cmp()
	}
}

func (g *gen) cmp() *Expr {
	op := pick(g.p, []string{"<", "<", "<=", ">", ">=", "==", "!="})
	g.ops[op]++
	switch g.p.intn(12) {
	case 0, 1, 2, 3, 4:
		// a counter below a threshold: flips as actions increment it
		return mkBin(pick(g.p, []string{"<", "<", "<="}), eVar(g.intVar()), cInt(int64(1+g.p.intn(5))))
	case 5:
		return mkBin(op, g.intExpr(1), g.intExpr(1))
	case 6:
		return mkBin(op, g.floatExpr(1), g.floatExpr(1))
	case 7:
		return mkBin(op, g.intExpr(1), g.floatExpr(0)) // mixed int/float comparison
	case 8:
		return mkBin(pick(g.p, []string{"==", "!=", "<", ">"}), g.strExpr(1), g.strExpr(0))
	case 9:
		switch g.p.intn(4) {
		case 0:
			if g.p.chance(1, 4) {
				g.ops["str.In"]++
				var args []*Expr
				for i := g.p.intn(4); i > 0; i-- {
					args = append(args, g.strExpr(0))
				}
				if g.p.chance(1, 6) {
					args = append(args, cInt(1)) // no string: an error unless an earlier argument already matched
					if g.p.chance(1, 2) {
						args = append([]*Expr{eVar(g.strVar())}, args...)
					}
				}
				return method(aVar(g.strVar()), "In", args...)
			}
			return method(aVar(g.strVar()), pick(g.p, []string{"Contains", "HasPrefix", "HasSuffix"}), cStr(pick(g.p, []string{"a", "H", "", "lo"})))
		case 1:
			return method(aVar(vName("F")), "IsPos", g.floatExpr(0))
		case 2:
			return mkBin("<", method(aVar(vName("F")), "GetI64"), cInt(int64(1+g.p.intn(4))))
		default:
			return eVar(pick(g.p, []*Var{vPath("F", "B"), vMember(g.inner(), "B")}))
		}
	case 10:
		return mkBin(pick(g.p, []string{"<", ">", "==", "<=", ">=", "!="}), eVar(vPath("F", "T")), eVar(vPath("F", "T")))
	default:
		return mkBin(op, eVar(g.intVar()), cInt(int64(g.p.intn(5))))
	}
}

// a condition that fails to evaluate, one way or another
func (g *gen) badCond() *Expr {
	switch g.p.intn(11) {
	case 9, 10:
		// a read through a moving index: fine until F.I leaves the slice, then an (ordinary) error
		return mkBin("<", eVar(vSel(vPath("F", "FArr"), eVar(vPath("F", "I")))), cFloat(100))
	case 7, 8:
		// evaluates fine at first and fails once a counter has reached k (integer division by zero)
		x := g.intVar()
		return mkBin(">=", mkBin("%", cInt(100), eParen(false, mkBin("-", cInt(int64(2+g.p.intn(3))), eVar(x)))), cInt(0))
	case 0:
		return mkBin("==", eVar(vPath("Nope", "X")), cInt(1)) // missing fact
	case 1:
		return mkBin("<", eVar(vSel(vPath("F", "Arr"), cInt(9))), cInt(3)) // index out of range
	case 2:
		return mkBin("==", eVar(vSel(vPath("F", "M"), cStr("zz"))), cInt(1)) // missing key
	case 3:
		return mkBin("<", eVar(vPath("F", "S")), cInt(3)) // kind mismatch
	case 4:
		return mkBin("==", mkBin("%", eVar(vPath("F", "I64")), cInt(0)), cInt(0)) // integer division by zero
	case 5:
		return method(aVar(vName("F")), "Boom") // panicking method
	default:
		return mkBin("+", eVar(vPath("F", "I64")), cInt(1)) // not boolean
	}
}

func assign(x *Var, op string, e *Expr) *Stmt { return &Stmt{Kind: "assign", X: x, Op: op, E: e} }
func call(a *Atom) *Stmt                      { return &Stmt{Kind: "atom", A: a} }

// an action making progress on the variable a threshold condition reads
func (g *gen) progress(x *Var) *Stmt {
	switch g.p.intn(4) {
	case 0:
		return assign(x, "+=", cInt(1))
	default:
		return assign(x, "=", mkBin("+", eVar(x), cInt(int64(1+g.p.intn(2)))))
	}
}

func (g *gen) action() []*Stmt {
	switch g.p.intn(14) {
	case 0, 1, 2:
		return []*Stmt{g.progress(g.intVar())}
	case 3:
		x := g.floatVar()
		return []*Stmt{assign(x, pick(g.p, []string{"=", "+=", "-=", "*=", "/="}), g.floatExpr(1))}
	case 4:
		// numeric conversion between kinds on a struct field
		return []*Stmt{assign(vPath("F", pick(g.p, intFields)), "=", pick(g.p, []*Expr{g.intExpr(1), cFloat(float64(g.p.intn(5))), eVar(g.floatVar())}))}
	case 5:
		return []*Stmt{assign(vPath("F", pick(g.p, []string{"F32", "F64"})), "=", pick(g.p, []*Expr{g.intExpr(1), g.floatExpr(1)}))}
	case 6:
		x := g.strVar()
		return []*Stmt{assign(x, "=", mkBin("+", eVar(x), cStr("x")))}
	case 7:
		return []*Stmt{assign(pick(g.p, []*Var{vPath("F", "B"), vMember(g.inner(), "B")}), "=", g.boolExpr(0))}
	case 8:
		// a mutating method announced with Forget / Changed
		return []*Stmt{call(&Atom{Kind: "method", A: aVar(vName("F")), F: "AddTo", Args: []*Expr{cInt(int64(1 + g.p.intn(2)))}}),
			call(fn(pick(g.p, []string{"Forget", "Changed"}), cStr("F.I64")))}
	case 9:
		return []*Stmt{call(fn("Retract", cStr(fmt.Sprintf("R%d", g.p.intn(5)))))}
	case 10:
		if g.p.chance(1, 3) {
			return []*Stmt{call(fn("Complete"))}
		}
		return []*Stmt{g.progress(g.intVar())}
	case 11:
		return []*Stmt{assign(vPath("F", "I64"), pick(g.p, []string{"+=", "-=", "*="}), cInt(int64(1+g.p.intn(2))))}
	default:
		return []*Stmt{g.progress(g.intVar())}
	}
}

func (g *gen) badAction() *Stmt {
	switch g.p.intn(6) {
	case 0:
		return assign(vPath("F", "Missing"), "=", cInt(1))
	case 1:
		return assign(vSel(vPath("F", "Arr"), cInt(7)), "=", cInt(1))
	case 2:
		return assign(vPath("F", "S"), "=", cInt(1)) // kind mismatch
	case 3:
		return assign(vPath("F", "I64"), "=", method(aVar(vName("F")), "Boom"))
	case 4:
		return assign(vSel(vPath("F", "M"), cStr("a")), "=", cFloat(1.5)) // wrong map element type
	default:
		return assign(vPath("Nope", "X"), "=", cInt(1))
	}
}

// the first threshold variable of a condition (to make the rule progress)
func thresholdVar(e *Expr) *Var {
	if e == nil {
		return nil
	}
	if e.Kind == "bin" && (e.Op == "<" || e.Op == "<=") && e.L.Kind == "atom" && e.L.A.Kind == "var" && e.R.Kind == "atom" && e.R.A.Kind == "const" {
		return e.L.A.V
	}
	if e.Kind == "bin" {
		if v := thresholdVar(e.L); v != nil {
			return v
		}
		return thresholdVar(e.R)
	}
	if e.Kind == "paren" && !e.Neg {
		return thresholdVar(e.E)
	}
	return nil
}

func (g *gen) rule(i int, n int) *Rule {
	r := &Rule{Name: fmt.Sprintf("R%d", i), Desc: fmt.Sprintf("rule %d", i),
		Sal: pick(g.p, []int64{0, 0, 0, 1, -1, 5, 5, 10, -10, 2147483647, -2147483648})}
	r.When = g.boolExpr(2)
	if g.faulty && g.p.chance(1, 5) {
		r.When = g.badCond()
		if g.p.chance(1, 2) {
			r.When = mkBin("&&", g.boolExpr(1), r.When)
		}
	}
	if v := thresholdVar(r.When); v != nil && g.p.chance(5, 6) {
		r.Then = append(r.Then, g.progress(v))
	}
	if strings.Contains(noSpace(r.When.grl()), "F.FArr[F.I]") {
		r.Then = append(r.Then, assign(vPath("F", "I"), "=", mkBin("+", eVar(vPath("F", "I")), cInt(1))))
	}
	na := g.p.intn(3)
	for j := 0; j < na; j++ {
		r.Then = append(r.Then, g.action()...)
	}
	if g.faulty && g.p.chance(1, 6) {
		pos := g.p.intn(len(r.Then) + 1)
		r.Then = append(r.Then[:pos], append([]*Stmt{g.badAction()}, r.Then[pos:]...)...)
	}
	if len(r.Then) == 0 || g.p.chance(1, 6) {
		r.Then = append(r.Then, call(fn("Retract", cStr(r.Name))))
	}
	return r
}
