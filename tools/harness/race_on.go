//go:build race

package main

// set when the harness is built with -race (tools/harness/c09.go builds such a copy for the concurrency evidence)
const raceEnabled = true
