package main

// C16: rule names stay unique and removed rules never fire again.
//
// Random operation histories (3-14 operations over 1-3 (name,version) keys) are run on the
// real KnowledgeLibrary / RuleBuilder / GruleEngine:
//
//	Build       a resource of 1-3 generated rules (duplicates of active names, in the same or a later resource, included)
//	RemoveLib   KnowledgeLibrary.RemoveRuleEntry
//	RemoveInst  KnowledgeBase.RemoveRuleEntry on a live instance
//	NewInst     KnowledgeLibrary.NewKnowledgeBaseInstance (kept alive for the rest of the history)
//	StoreLoad   StoreKnowledgeBaseToWriter + LoadKnowledgeBaseFromReader(overwrite) of a library knowledge base
//	Exec        Execute on a live instance (a rule's action may remove another rule from the running instance)
//
// Every rule marks its firing in the fact (F.S gets "#<payload>;"), so which text fired is observable:
//
//	rule <name> "p<id>" salience <s> { when F.I64 >= <thr> then F.S = F.S + "#<id>;"; Retract("<name>"); [F.Zap("<other>");] }
//
// After every step every key is probed (fresh instance: Execute with a listener on fresh facts, FetchMatchingRules on a
// second fresh instance) and every live instance is probed (FetchMatchingRules on fresh facts).
//
//	correspondence  the history with everything observed is written as a Gallina term; coq/model/CorrLibrary.v
//	                (c16_case_diff) replays it on coq/model/Library.v and compares, per step, accept/reject of builds,
//	                success of NewKnowledgeBaseInstance, and per cycle the set of rules evaluated (with candidate flag),
//	                the rule fired with the payload it wrote, and the set of rules fetched.
//	oracle          (implementation only) a shadow map in Go (key -> name -> rule text, or absent = removed) predicts the
//	                same observables independently of the Coq model.
//
// No known-finding region is left.  A removed rule stays removed across store+load since the fix of D8 (engine commit
// 01c7ce8: BuildKnowledgeBase reads the Deleted flag off the tombstone name "Deleted_<uuid>"): the generated histories
// store knowledge bases that hold removed rules, store and load them repeatedly and build the removed name again after
// loading; the former witness of D8 is a fixed regression history that runs first and must pass.
//
// Builds are transactional since the fix of D10 (KnowledgeBase.Checkpoint, engine commit 4ed034e): a rejected resource
// adds none of its rules and leaves no node in the working memory.  The generated duplicates therefore carry any
// payload, new expressions included, and the former witnesses of D10a / D10b are fixed regression histories that run
// first and must pass.
//
// Bounded testing: the oracle is a test; the theorems are in coq/props/C16.v.

import (
	"bytes"
	"context"
	"encoding/json"
	"fmt"
	"os"
	"sort"
	"strconv"
	"strings"

	"github.com/hyperjumptech/grule-rule-engine/ast"
	"github.com/hyperjumptech/grule-rule-engine/builder"
	"github.com/hyperjumptech/grule-rule-engine/engine"
	"github.com/hyperjumptech/grule-rule-engine/pkg"
)

const (
	c16MaxCycle = 40
)

type C16Body struct {
	ID  int64  `json:"id"`
	Thr int64  `json:"thr"`
	Zap string `json:"zap,omitempty"`
}

type C16Rule struct {
	Name string  `json:"name"`
	Sal  int64   `json:"sal"`
	Body C16Body `json:"body"`
}

type C16Op struct {
	Kind  string    `json:"kind"` // build removelib removeinst newinst storeload exec
	KB    int       `json:"kb"`
	Rules []C16Rule `json:"rules,omitempty"`
	Name  string    `json:"name,omitempty"`
	Inst  int       `json:"inst"`
	Fact  int64     `json:"fact"` // exec: the fact value; every op: the fact value of the probes after it
	ViaKB bool      `json:"via_kb,omitempty"` // removelib through KnowledgeBase.RemoveRuleEntry on the library's own knowledge base (same meaning)
}

type C16Hist struct {
	Ops []C16Op `json:"ops"`
}

var c16Keys = [][2]string{{"K0", "1"}, {"K0", "2"}, {"K1", "1"}}
var c16Names = []string{"R0", "R1", "R2", "R3"}

// payload id -> condition threshold and the rule the action removes from the running instance
var c16Payloads = []C16Body{{0, 0, ""}, {1, 0, ""}, {2, 5, ""}, {3, 0, "R1"}, {4, 5, "R0"}, {5, 0, "R2"}, {6, 0, ""}, {7, 5, "R3"}}

func c16Key(i int) string { return c16Keys[i][0] + ":" + c16Keys[i][1] }

func (r C16Rule) grl() string {
	z := ""
	if r.Body.Zap != "" {
		z = fmt.Sprintf(" F.Zap(\"%s\");", r.Body.Zap)
	}
	return fmt.Sprintf("rule %s \"p%d\" salience %d { when F.I64 >= %d then F.S = F.S + \"#%d;\"; Retract(\"%s\");%s }\n",
		r.Name, r.Body.ID, r.Sal, r.Body.Thr, r.Body.ID, r.Name, z)
}

// LFact is the fact of the C16 / C09 histories.  Zap removes a rule from the instance that is being executed.
type LFact struct {
	I64 int64
	S   string
	kb  *ast.KnowledgeBase
}

func (f *LFact) Zap(n string) {
	if f.kb != nil {
		f.kb.RemoveRuleEntry(n)
	}
}

// ---- observation of one Execute ----
type C16Eval struct {
	Rule string `json:"rule"`
	Can  bool   `json:"can"`
}
type C16Cyc struct {
	Evals   []C16Eval `json:"evals"`
	Fired   string    `json:"fired,omitempty"`
	FiredID int64     `json:"fired_id"`
}
type C16Trace struct {
	Cycles   []C16Cyc `json:"cycles"`
	Finished bool     `json:"finished"`
	Err      string   `json:"err,omitempty"`
}

type c16Listener struct{ t *C16Trace }

func (l *c16Listener) BeginCycle(ctx context.Context, cycle uint64) {
	l.t.Cycles = append(l.t.Cycles, C16Cyc{FiredID: -1})
}
func (l *c16Listener) EvaluateRuleEntry(ctx context.Context, cycle uint64, e *ast.RuleEntry, can bool) {
	if n := len(l.t.Cycles); n > 0 {
		l.t.Cycles[n-1].Evals = append(l.t.Cycles[n-1].Evals, C16Eval{e.RuleName, can})
	}
}
func (l *c16Listener) ExecuteRuleEntry(ctx context.Context, cycle uint64, e *ast.RuleEntry) {
	if n := len(l.t.Cycles); n > 0 {
		l.t.Cycles[n-1].Fired = e.RuleName
	}
}

func c16Exec(kb *ast.KnowledgeBase, fact int64) (tr C16Trace) {
	f := &LFact{I64: fact, kb: kb}
	dc := ast.NewDataContext()
	dc.Add("F", f)
	eng := &engine.GruleEngine{MaxCycle: c16MaxCycle, Listeners: []engine.GruleEngineListener{&c16Listener{&tr}}}
	func() {
		defer func() {
			if r := recover(); r != nil {
				tr.Err = fmt.Sprintf("panic: %v", r)
			}
		}()
		if err := eng.Execute(dc, kb); err != nil {
			tr.Err = err.Error()
		}
	}()
	tr.Finished = tr.Err == ""
	// the markers written by the actions, in firing order
	var ids []int64
	for _, m := range strings.Split(f.S, ";") {
		if strings.HasPrefix(m, "#") {
			if v, err := strconv.ParseInt(m[1:], 10, 64); err == nil {
				ids = append(ids, v)
			}
		}
	}
	k := 0
	for i := range tr.Cycles {
		if tr.Cycles[i].Fired != "" {
			if k < len(ids) {
				tr.Cycles[i].FiredID = ids[k]
			}
			k++
		}
	}
	if k != len(ids) && tr.Err == "" {
		tr.Err = fmt.Sprintf("markers %q do not match %d reported executions", f.S, k)
	}
	return
}

func c16Fetch(kb *ast.KnowledgeBase, fact int64) ([]string, error) {
	f := &LFact{I64: fact, kb: kb}
	dc := ast.NewDataContext()
	dc.Add("F", f)
	eng := &engine.GruleEngine{MaxCycle: c16MaxCycle}
	res, err := eng.FetchMatchingRules(dc, kb)
	if err != nil {
		return nil, err
	}
	var ns []string
	for _, r := range res {
		ns = append(ns, r.RuleName)
	}
	sort.Strings(ns)
	if f.S != "" {
		return ns, fmt.Errorf("FetchMatchingRules executed an action (F.S=%q)", f.S)
	}
	return ns, nil
}

type C16Probe struct {
	Key     string   `json:"key"`
	Exists  bool     `json:"exists"`
	Trace   C16Trace `json:"trace"`
	Fetched []string `json:"fetched"`
}

type C16Step struct {
	Op      C16Op      `json:"op"`
	Err     bool       `json:"err"`  // build: an error was returned
	OK      bool       `json:"ok"`   // newinst: an instance was returned
	Trace   *C16Trace  `json:"trace,omitempty"`
	Lib     []C16Probe `json:"lib"`
	Insts   [][]string `json:"insts"`
}

// ---- the shadow: what C16 says must be there ----
type shKB struct {
	active map[string]C16Rule
	tombs  int // removed entries still held by the knowledge base
}

func newShKB() *shKB { return &shKB{active: map[string]C16Rule{}} }

type shadow struct {
	kbs   map[int]*shKB
	insts []map[string]C16Rule
}

func copyRules(m map[string]C16Rule) map[string]C16Rule {
	o := map[string]C16Rule{}
	for k, v := range m {
		o[k] = v
	}
	return o
}

// independent prediction of one Execute on a set of active rules (distinct saliences): cycles with evaluated
// rules / candidate flags and the rule fired; removes zapped rules from the set it is given
func predictExec(active map[string]C16Rule, fact int64) (tr C16Trace) {
	retracted := map[string]bool{}
	for n := 0; n <= c16MaxCycle+1; n++ {
		var c C16Cyc
		c.FiredID = -1
		var best *C16Rule
		var names []string
		for k := range active {
			names = append(names, k)
		}
		sort.Strings(names)
		for _, k := range names {
			r := active[k]
			if retracted[k] {
				continue
			}
			can := fact >= r.Body.Thr
			c.Evals = append(c.Evals, C16Eval{k, can})
			if can && (best == nil || r.Sal > best.Sal) {
				rr := r
				best = &rr
			}
		}
		if best == nil {
			tr.Cycles = append(tr.Cycles, c)
			tr.Finished = true
			return
		}
		if n >= c16MaxCycle {
			tr.Cycles = append(tr.Cycles, c)
			tr.Err = "cycle limit"
			return
		}
		c.Fired, c.FiredID = best.Name, best.Body.ID
		tr.Cycles = append(tr.Cycles, c)
		retracted[best.Name] = true
		if best.Body.Zap != "" {
			delete(active, best.Body.Zap)
		}
	}
	return
}

func predictFetch(active map[string]C16Rule, fact int64) []string {
	var ns []string
	for k, r := range active {
		if fact >= r.Body.Thr {
			ns = append(ns, k)
		}
	}
	sort.Strings(ns)
	return ns
}

func evalSet(c C16Cyc) string {
	var s []string
	for _, e := range c.Evals {
		s = append(s, fmt.Sprintf("%s=%v", e.Rule, e.Can))
	}
	sort.Strings(s)
	return strings.Join(s, ",")
}

func diffTrace(want, got C16Trace) string {
	for i := 0; i < len(want.Cycles) || i < len(got.Cycles); i++ {
		if i >= len(got.Cycles) {
			return fmt.Sprintf("cycle %d missing (expected evaluations {%s})", i+1, evalSet(want.Cycles[i]))
		}
		if i >= len(want.Cycles) {
			return fmt.Sprintf("unexpected cycle %d: evaluated {%s} fired %q", i+1, evalSet(got.Cycles[i]), got.Cycles[i].Fired)
		}
		w, g := want.Cycles[i], got.Cycles[i]
		if evalSet(w) != evalSet(g) {
			return fmt.Sprintf("cycle %d evaluated {%s}, the rules in force are {%s}", i+1, evalSet(g), evalSet(w))
		}
		if w.Fired != g.Fired || w.FiredID != g.FiredID {
			return fmt.Sprintf("cycle %d fired %q writing payload %d, expected %q with payload %d", i+1, g.Fired, g.FiredID, w.Fired, w.FiredID)
		}
	}
	if got.Err != "" && want.Err == "" {
		return "Execute failed: " + got.Err
	}
	return ""
}

// ---- running a history ----
type c16Runner struct {
	lib   *ast.KnowledgeLibrary
	rb    *builder.RuleBuilder
	insts []*ast.KnowledgeBase
	sh    *shadow
	steps []C16Step
	fails []string
	stats map[string]int
	strict bool // false for the regression scenarios: region checks are not applied
}

func newC16Runner() *c16Runner {
	lib := ast.NewKnowledgeLibrary()
	return &c16Runner{lib: lib, rb: builder.NewRuleBuilder(lib), sh: &shadow{kbs: map[int]*shKB{}}, stats: map[string]int{}}
}

func (r *c16Runner) failf(step int, format string, a ...interface{}) {
	r.fails = append(r.fails, fmt.Sprintf("C16 step %d: ", step)+fmt.Sprintf(format, a...))
}

func (r *c16Runner) apply(op C16Op) {
	si := len(r.steps)
	st := C16Step{Op: op}
	name, ver := c16Keys[op.KB][0], c16Keys[op.KB][1]
	sk := r.sh.kbs[op.KB]
	switch op.Kind {
	case "build":
		var b strings.Builder
		for _, ru := range op.Rules {
			b.WriteString(ru.grl())
		}
		var err error
		func() {
			defer func() {
				if x := recover(); x != nil {
					err = fmt.Errorf("panic: %v", x)
					r.failf(si, "BuildRuleFromResource panicked: %v", x)
				}
			}()
			err = r.rb.BuildRuleFromResource(name, ver, pkg.NewBytesResource([]byte(b.String())))
		}()
		st.Err = err != nil
		if sk == nil {
			sk = newShKB()
			r.sh.kbs[op.KB] = sk
		}
		expectErr := false
		inRes := map[string]bool{}
		var fresh []C16Rule
		for _, ru := range op.Rules {
			if inRes[ru.Name] {
				expectErr = true
				r.stats["duplicate inside one resource"]++
				continue
			}
			inRes[ru.Name] = true
			if _, ok := sk.active[ru.Name]; ok {
				expectErr = true
				r.stats["duplicate of a rule of an earlier resource"]++
				continue
			}
			fresh = append(fresh, ru)
		}
		if st.Err != expectErr {
			r.failf(si, "BuildRuleFromResource(%s) returned error=%v (%v); a rule name that is already in force: %v\n%s", c16Key(op.KB), st.Err, err, expectErr, b.String())
		}
		// a resource is loaded completely or not at all
		if !expectErr {
			for _, ru := range fresh {
				sk.active[ru.Name] = ru
			}
		} else if len(fresh) > 0 {
			r.stats["rejected resources holding acceptable rules"]++
		}
		if expectErr {
			r.stats["rejected builds"]++
		} else {
			r.stats["accepted builds"]++
		}
	case "removelib":
		if kb, ok := r.lib.Library[ast.GetKnowledgeBaseKey(name, ver)]; ok && op.ViaKB {
			kb.RemoveRuleEntry(op.Name)
			r.stats["library removals through the knowledge base's own method"]++
		} else {
			r.lib.RemoveRuleEntry(op.Name, name, ver)
		}
		if sk != nil {
			if _, ok := sk.active[op.Name]; ok {
				delete(sk.active, op.Name)
				sk.tombs++
				r.stats["library removals that hit"]++
			}
		}
	case "removeinst":
		if op.Inst < len(r.insts) {
			r.insts[op.Inst].RemoveRuleEntry(op.Name)
			if _, ok := r.sh.insts[op.Inst][op.Name]; ok {
				delete(r.sh.insts[op.Inst], op.Name)
				r.stats["instance removals that hit"]++
			}
		}
	case "newinst":
		kb, err := r.lib.NewKnowledgeBaseInstance(name, ver)
		st.OK = err == nil && kb != nil
		if st.OK {
			r.insts = append(r.insts, kb)
			var m map[string]C16Rule
			if sk != nil {
				m = copyRules(sk.active)
			} else {
				m = map[string]C16Rule{}
			}
			r.sh.insts = append(r.sh.insts, m)
		}
		if st.OK != (sk != nil) {
			r.failf(si, "NewKnowledgeBaseInstance(%s) success=%v (%v), knowledge base was built: %v", c16Key(op.KB), st.OK, err, sk != nil)
		}
	case "storeload":
		if sk != nil && sk.tombs > 0 {
			r.stats["store/load of a knowledge base holding removed rules"]++
		}
		var buf bytes.Buffer
		err := r.lib.StoreKnowledgeBaseToWriter(&buf, name, ver)
		if err != nil {
			r.failf(si, "StoreKnowledgeBaseToWriter(%s): %v", c16Key(op.KB), err)
		} else if _, err := r.lib.LoadKnowledgeBaseFromReader(bytes.NewReader(buf.Bytes()), true); err != nil {
			r.failf(si, "LoadKnowledgeBaseFromReader(%s): %v", c16Key(op.KB), err)
		}
		if sk == nil {
			r.sh.kbs[op.KB] = newShKB()
		}
		r.stats["store/load"]++
	case "exec":
		if op.Inst < len(r.insts) {
			tr := c16Exec(r.insts[op.Inst], op.Fact)
			st.Trace = &tr
			want := predictExec(r.sh.insts[op.Inst], op.Fact)
			if d := diffTrace(want, tr); d != "" {
				r.failf(si, "Execute on instance %d: %s", op.Inst, d)
			}
			for _, c := range want.Cycles {
				for _, ru := range c16Payloads {
					if c.FiredID == ru.ID && ru.Zap != "" {
						r.stats["actions removing a rule from the running instance"]++
					}
				}
			}
		}
	}
	// probes
	for ki := range c16Keys {
		pr := C16Probe{Key: c16Key(ki)}
		k := r.sh.kbs[ki]
		a, errA := r.lib.NewKnowledgeBaseInstance(c16Keys[ki][0], c16Keys[ki][1])
		b, errB := r.lib.NewKnowledgeBaseInstance(c16Keys[ki][0], c16Keys[ki][1])
		if errA != nil || errB != nil {
			if k != nil {
				r.failf(si, "NewKnowledgeBaseInstance(%s) failed after %s: %v", pr.Key, op.Kind, errA)
			}
			st.Lib = append(st.Lib, pr)
			continue
		}
		pr.Exists = true
		pr.Trace = c16Exec(a, op.Fact)
		var ferr error
		pr.Fetched, ferr = c16Fetch(b, op.Fact)
		if k == nil {
			r.failf(si, "NewKnowledgeBaseInstance(%s) succeeded although nothing was ever built or stored under that key", pr.Key)
		} else {
			if d := diffTrace(predictExec(copyRules(k.active), op.Fact), pr.Trace); d != "" {
				r.failf(si, "fresh instance of %s after %s: %s", pr.Key, op.Kind, d)
			}
			if ferr != nil {
				r.failf(si, "FetchMatchingRules on a fresh instance of %s: %v", pr.Key, ferr)
			} else if w := predictFetch(k.active, op.Fact); strings.Join(w, ",") != strings.Join(pr.Fetched, ",") {
				r.failf(si, "FetchMatchingRules on a fresh instance of %s returned %v, the matching rules in force are %v", pr.Key, pr.Fetched, w)
			}
		}
		st.Lib = append(st.Lib, pr)
	}
	for ii, kb := range r.insts {
		got, err := c16Fetch(kb, op.Fact)
		if err != nil {
			r.failf(si, "FetchMatchingRules on instance %d: %v", ii, err)
		}
		if w := predictFetch(r.sh.insts[ii], op.Fact); strings.Join(w, ",") != strings.Join(got, ",") {
			r.failf(si, "FetchMatchingRules on instance %d after %s returned %v, the matching rules in force there are %v", ii, op.Kind, got, w)
		}
		if got == nil {
			got = []string{}
		}
		st.Insts = append(st.Insts, got)
	}
	r.steps = append(r.steps, st)
}

// ---- generation (inside the regions; every choice from the prng) ----
type c16Gen struct {
	p    *prng
	sals []int64
}

func newC16Gen(p *prng) *c16Gen {
	g := &c16Gen{p: p}
	for i := int64(-24); i < 24; i++ {
		g.sals = append(g.sals, i)
	}
	for i := len(g.sals) - 1; i > 0; i-- {
		j := p.intn(i + 1)
		g.sals[i], g.sals[j] = g.sals[j], g.sals[i]
	}
	return g
}

func (g *c16Gen) sal() int64 {
	s := g.sals[0]
	g.sals = g.sals[1:]
	return s
}

func (g *c16Gen) buildOp(sh *shadow, nKeys int) C16Op {
	p := g.p
	op := C16Op{Kind: "build", KB: p.intn(nKeys)}
	sk := sh.kbs[op.KB]
	n := 1 + p.intn(3)
	inRes := map[string]int64{} // name -> payload of the first rule of that name in this resource
	for i := 0; i < n; i++ {
		name := pick(p, c16Names)
		if len(inRes) > 0 && p.chance(1, 6) {
			// a second rule of a name of this resource
			var ks []string
			for k := range inRes {
				ks = append(ks, k)
			}
			sort.Strings(ks)
			name = pick(p, ks)
		} else if sk != nil && len(sk.active) > 0 && p.chance(1, 5) {
			var ks []string
			for k := range sk.active {
				ks = append(ks, k)
			}
			sort.Strings(ks)
			name = pick(p, ks)
		}
		_, dupRes := inRes[name]
		dupKB := false
		if sk != nil {
			_, dupKB = sk.active[name]
		}
		// duplicates carry any payload: the expressions of a rejected rule may be new to the working memory
		body := pick(p, c16Payloads)
		if !dupRes && !dupKB {
			inRes[name] = body.ID
		}
		op.Rules = append(op.Rules, C16Rule{Name: name, Sal: g.sal(), Body: body})
	}
	return op
}

func (g *c16Gen) next(sh *shadow, nInsts int, nKeys int, i int) C16Op {
	p := g.p
	fact := pick(p, []int64{7, 7, 0, 5, 4})
	for {
		var op C16Op
		switch w := p.intn(100); {
		case i == 0 || w < 34:
			op = g.buildOp(sh, nKeys)
		case w < 50:
			op = C16Op{Kind: "removelib", KB: p.intn(nKeys), Name: pick(p, c16Names), ViaKB: p.chance(1, 2)}
			if sk := sh.kbs[op.KB]; sk != nil && len(sk.active) > 0 && p.chance(2, 3) {
				var ks []string
				for k := range sk.active {
					ks = append(ks, k)
				}
				sort.Strings(ks)
				op.Name = pick(p, ks)
			}
		case w < 60:
			if nInsts == 0 {
				continue
			}
			op = C16Op{Kind: "removeinst", Inst: p.intn(nInsts), Name: pick(p, c16Names)}
		case w < 76:
			op = C16Op{Kind: "newinst", KB: p.intn(nKeys)}
		case w < 86:
			op = C16Op{Kind: "storeload", KB: p.intn(nKeys)}
		default:
			if nInsts == 0 {
				continue
			}
			op = C16Op{Kind: "exec", Inst: p.intn(nInsts)}
		}
		op.Fact = fact
		return op
	}
}

// the pattern of seeded defect class "removal during a run": a high-salience rule removes a lower one that matches
func (g *c16Gen) zapPattern(kb int) []C16Op {
	lo, hi := g.sal(), g.sal()
	if lo > hi {
		lo, hi = hi, lo
	}
	return []C16Op{
		{Kind: "build", KB: kb, Fact: 7, Rules: []C16Rule{{Name: "R1", Sal: lo, Body: c16Payloads[0]}, {Name: "R0", Sal: hi, Body: c16Payloads[3]}}},
		{Kind: "newinst", KB: kb, Fact: 7},
		{Kind: "exec", Inst: 0, Fact: 7},
	}
}

// the pattern of the former finding D8: a removed rule crosses store+load twice, then its name is built again
func (g *c16Gen) tombPattern(kb int) []C16Op {
	a, b, c := g.sal(), g.sal(), g.sal()
	return []C16Op{
		{Kind: "build", KB: kb, Fact: 7, Rules: []C16Rule{{Name: "R2", Sal: a, Body: pick(g.p, c16Payloads)}, {Name: "R3", Sal: b, Body: pick(g.p, c16Payloads)}}},
		{Kind: "removelib", KB: kb, Name: pick(g.p, []string{"R2", "R3"}), Fact: 7},
		{Kind: "storeload", KB: kb, Fact: 7},
		{Kind: "storeload", KB: kb, Fact: 5},
		{Kind: "build", KB: kb, Fact: 7, Rules: []C16Rule{{Name: pick(g.p, []string{"R2", "R3"}), Sal: c, Body: pick(g.p, c16Payloads)}}},
		{Kind: "newinst", KB: kb, Fact: 7},
	}
}

func genAndRunC16(p *prng, rep *Report) *c16Runner {
	r := newC16Runner()
	r.strict = true
	g := newC16Gen(p)
	nKeys := 1 + p.intn(3)
	nOps := 3 + p.intn(12)
	var pre []C16Op
	if p.chance(1, 6) {
		pre = g.zapPattern(p.intn(nKeys))
	} else if p.chance(1, 6) {
		pre = g.tombPattern(p.intn(nKeys))
		if nOps < len(pre) {
			nOps = len(pre)
		}
	}
	for i := 0; i < nOps; i++ {
		var op C16Op
		if i < len(pre) {
			op = pre[i]
		} else {
			op = g.next(r.sh, len(r.insts), nKeys, i)
		}
		r.apply(op)
	}
	return r
}

func (r *c16Runner) hist() C16Hist {
	var h C16Hist
	for _, s := range r.steps {
		h.Ops = append(h.Ops, s.Op)
	}
	return h
}

func runC16Hist(h C16Hist) *c16Runner {
	r := newC16Runner()
	for _, op := range h.Ops {
		r.apply(op)
	}
	return r
}

// ---- Gallina ----
func (b C16Body) gallina(self string) string {
	z := "None"
	if b.Zap != "" {
		z = "(Some " + gStr(b.Zap) + ")"
	}
	return fmt.Sprintf("{| b_id := %d; b_thr := %d; b_zap := %s; b_self := %s |}", b.ID, b.Thr, z, gStr(self))
}

func (op C16Op) gallina() string {
	switch op.Kind {
	case "build":
		var rs []string
		for _, r := range op.Rules {
			rs = append(rs, fmt.Sprintf("{| r_name := %s; r_sal := %s; r_body := %s |}", gStr(r.Name), gZ(r.Sal), r.Body.gallina(r.Name)))
		}
		return fmt.Sprintf("OBuild %s %s", gStr(c16Key(op.KB)), gList(rs))
	case "removelib":
		return fmt.Sprintf("ORemoveLib %s %s", gStr(c16Key(op.KB)), gStr(op.Name))
	case "removeinst":
		return fmt.Sprintf("ORemoveInst %d%%nat %s", op.Inst, gStr(op.Name))
	case "newinst":
		return fmt.Sprintf("ONewInst %s", gStr(c16Key(op.KB)))
	case "storeload":
		return fmt.Sprintf("OStoreLoad %s", gStr(c16Key(op.KB)))
	}
	return fmt.Sprintf("OExec %d%%nat %d%%nat %s", op.Inst, c16MaxCycle+1, gZ(op.Fact))
}

func (t C16Trace) gallina() string {
	var cs []string
	for _, c := range t.Cycles {
		var es []string
		for _, e := range c.Evals {
			es = append(es, fmt.Sprintf("(%s, %s)", gStr(e.Rule), gBool(e.Can)))
		}
		f := "None"
		if c.Fired != "" {
			f = fmt.Sprintf("(Some (%s, %s))", gStr(c.Fired), gZ(c.FiredID))
		}
		cs = append(cs, fmt.Sprintf("{| oc_evals := %s; oc_fired := %s |}", gList(es), f))
	}
	return gList(cs)
}

func gStrList(xs []string) string {
	var o []string
	for _, x := range xs {
		o = append(o, gStr(x))
	}
	return gList(o)
}

func (s C16Step) gallina() string {
	res := "ONone"
	switch s.Op.Kind {
	case "build":
		res = "OBuildRes " + gBool(s.Err)
	case "newinst":
		res = "OInstRes " + gBool(s.OK)
	case "exec":
		if s.Trace != nil {
			res = fmt.Sprintf("OExecRes %s %s", s.Trace.gallina(), gBool(s.Trace.Finished))
		}
	}
	var lib []string
	for _, p := range s.Lib {
		if !p.Exists {
			lib = append(lib, fmt.Sprintf("(%s, None)", gStr(p.Key)))
		} else {
			lib = append(lib, fmt.Sprintf("(%s, Some {| pb_trace := %s; pb_finished := %s; pb_fetched := %s |})", gStr(p.Key), p.Trace.gallina(), gBool(p.Trace.Finished), gStrList(p.Fetched)))
		}
	}
	var insts []string
	for _, i := range s.Insts {
		insts = append(insts, gStrList(i))
	}
	return fmt.Sprintf("{| so_op := %s;\n   so_res := %s; so_fact := %s;\n   so_lib := %s;\n   so_insts := %s |}",
		s.Op.gallina(), res, gZ(s.Op.Fact), gList(lib), gList(insts))
}

func c16GallinaCase(id int, steps []C16Step) string {
	var ss []string
	for _, s := range steps {
		ss = append(ss, s.gallina())
	}
	return fmt.Sprintf("{| c16_id := %d; c16_fuel := %d%%nat; c16_steps := [\n  %s\n ] |}", id, c16MaxCycle+1, strings.Join(ss, ";\n  "))
}

// former witnesses of D8 (fixed by engine commit 01c7ce8), D9 (b987a8c) and D10 (4ed034e): they run first on every check and must pass
func c16FixedRegressions() []C16Hist {
	r0 := C16Rule{Name: "R0", Sal: 1, Body: c16Payloads[0]}
	r1 := C16Rule{Name: "R1", Sal: 5, Body: c16Payloads[1]}
	return []C16Hist{
		// D8: remove, store, load: the removed rule stays removed, also after a second store+load, on instances created
		// afterwards; its name is built again after loading and denotes the new rule; a third store+load keeps both facts
		{Ops: []C16Op{
			{Kind: "build", KB: 0, Fact: 7, Rules: []C16Rule{r0, r1}},
			{Kind: "removelib", KB: 0, Name: "R1", Fact: 7},
			{Kind: "storeload", KB: 0, Fact: 7},
			{Kind: "newinst", KB: 0, Fact: 7},
			{Kind: "storeload", KB: 0, Fact: 7},
			{Kind: "build", KB: 0, Fact: 7, Rules: []C16Rule{{Name: "R1", Sal: 9, Body: c16Payloads[2]}}},
			{Kind: "storeload", KB: 0, Fact: 7},
			{Kind: "newinst", KB: 0, Fact: 5},
			{Kind: "exec", Inst: 1, Fact: 7}}},
		// D9 (b987a8c): a name removed, built again and removed again on the library's knowledge base itself: instances must
		// still be created, and neither R1 may fire
		{Ops: []C16Op{
			{Kind: "build", KB: 0, Fact: 7, Rules: []C16Rule{r0, r1}},
			{Kind: "removelib", KB: 0, Name: "R1", Fact: 7, ViaKB: true},
			{Kind: "build", KB: 0, Fact: 7, Rules: []C16Rule{{Name: "R1", Sal: 9, Body: c16Payloads[2]}}},
			{Kind: "removelib", KB: 0, Name: "R1", Fact: 7, ViaKB: true},
			{Kind: "newinst", KB: 0, Fact: 7},
			{Kind: "exec", Inst: 0, Fact: 7}}},
		// D10a: a rejected duplicate with expressions of its own; instances must still be created, R0 (payload 0) stays in force
		{Ops: []C16Op{
			{Kind: "build", KB: 0, Fact: 7, Rules: []C16Rule{r0}},
			{Kind: "build", KB: 0, Fact: 7, Rules: []C16Rule{{Name: "R0", Sal: 9, Body: c16Payloads[2]}}},
			{Kind: "newinst", KB: 0, Fact: 7},
			{Kind: "exec", Inst: 0, Fact: 7}}},
		// D10b: a rejected resource holding a new rule R1 and a duplicate of R0, then one defining R2 twice: neither R1 nor R2 may appear
		{Ops: []C16Op{
			{Kind: "build", KB: 0, Fact: 7, Rules: []C16Rule{r0}},
			{Kind: "build", KB: 0, Fact: 7, Rules: []C16Rule{{Name: "R1", Sal: 7, Body: c16Payloads[1]}, {Name: "R0", Sal: 9, Body: c16Payloads[3]}}},
			{Kind: "build", KB: 0, Fact: 7, Rules: []C16Rule{{Name: "R2", Sal: 4, Body: c16Payloads[5]}, {Name: "R2", Sal: 3, Body: c16Payloads[6]}}},
			{Kind: "newinst", KB: 0, Fact: 7},
			// a rejected resource on a key that does not exist yet
			{Kind: "build", KB: 1, Fact: 7, Rules: []C16Rule{{Name: "R3", Sal: 2, Body: c16Payloads[4]}, {Name: "R3", Sal: -2, Body: c16Payloads[7]}}},
			{Kind: "newinst", KB: 1, Fact: 7},
			{Kind: "build", KB: 0, Fact: 5, Rules: []C16Rule{{Name: "R1", Sal: 6, Body: c16Payloads[2]}}}}},
	}
}

type c16CaseRec struct {
	Hist  C16Hist   `json:"hist"`
	Steps []C16Step `json:"steps,omitempty"`
}

func runC16Prop(seed uint64, tier string, out string) error {
	p := newPrng(seed ^ 0xC16C16)
	rep := newReport("C16", seed, tier)
	n := 300
	if tier == "thorough" {
		n = 10000
	}
	var cases []string
	var index []interface{}
	distinct := map[string]bool{}
	for _, h := range c16FixedRegressions() {
		r := runC16Hist(h)
		rep.Evaluations++
		rep.count("regression scenarios of fixed findings")
		if len(r.fails) > 0 {
			rep.fail(r.fails[0], c16CaseRec{Hist: h})
		}
		id := len(index)
		index = append(index, c16CaseRec{Hist: h})
		cases = append(cases, c16GallinaCase(id, r.steps))
	}
	for i := 0; i < n; i++ {
		r := genAndRunC16(p.fork(), rep)
		rep.Evaluations++
		h := r.hist()
		rep.count(fmt.Sprintf("operations %s", bucket(len(h.Ops))))
		for _, o := range h.Ops {
			rep.count("op " + o.Kind)
		}
		for k, v := range r.stats {
			rep.Distribution[k] += v
		}
		if len(r.fails) > 0 {
			rep.fail(r.fails[0], c16CaseRec{Hist: h})
		}
		if r.stats["rejected builds"] > 0 && (r.stats["library removals that hit"]+r.stats["instance removals that hit"]) > 0 {
			b, _ := json.Marshal(h)
			distinct[string(b)] = true
		}
		id := len(index)
		index = append(index, c16CaseRec{Hist: h})
		cases = append(cases, c16GallinaCase(id, r.steps))
		if i < 3 {
			rep.sample(h)
		}
	}
	rep.Cases = len(cases)
	rep.DistinctNontrivial = len(distinct)
	rep.Rule = "random histories of 3-14 operations (build of 1-3 rules incl. duplicates inside a resource and of earlier resources with expressions new to the working memory (rejected resources are rolled back), library / instance removal, new instance, store+load (also of knowledge bases holding removed rules, repeatedly, with the removed name built again afterwards), execute with actions that remove rules from the running instance) over 1-3 (name,version) keys, 4 rule names, 8 payloads, distinct saliences; after every step every key is probed through two fresh instances (Execute with listener, FetchMatchingRules) and every live instance through FetchMatchingRules; non-trivial = at least one rejected build and one removal that hit; distinct by history"
	if err := writeShards(out, "From Grule Require Import Base EngineGen EngineAbs Library CorrLibrary.", "c16_mismatches", "c16_case", cases, 16); err != nil {
		return err
	}
	return rep.write(out, index)
}

func replayC16(path string) (bool, string, error) {
	b, err := os.ReadFile(path)
	if err != nil {
		return false, "", err
	}
	var rp struct {
		Scenario c16CaseRec `json:"scenario"`
	}
	if err := json.Unmarshal(b, &rp); err != nil {
		return false, "", err
	}
	r := runC16Hist(rp.Scenario.Hist)
	hb, _ := json.Marshal(rp.Scenario.Hist)
	if len(r.fails) > 0 {
		return true, strings.Join(r.fails, "\n") + "\n" + string(hb), nil
	}
	return false, string(hb), nil
}

func init() {
	runners["C16"] = runC16Prop
	replayers["C16"] = replayC16
}
