module harness

go 1.24.4

require (
	github.com/hyperjumptech/grule-rule-engine v0.0.0
	github.com/sirupsen/logrus v1.9.3
)

require (
	dario.cat/mergo v1.0.2 // indirect
	github.com/ProtonMail/go-crypto v1.3.0 // indirect
	github.com/antlr4-go/antlr/v4 v4.13.1 // indirect
	github.com/bmatcuk/doublestar v1.3.4 // indirect
	github.com/cloudflare/circl v1.6.1 // indirect
	github.com/cyphar/filepath-securejoin v0.4.1 // indirect
	github.com/emirpasic/gods v1.18.1 // indirect
	github.com/go-git/gcfg v1.5.1-0.20230307220236-3a3c6141e376 // indirect
	github.com/go-git/go-billy/v5 v5.6.2 // indirect
	github.com/go-git/go-git/v5 v5.16.2 // indirect
	github.com/golang/groupcache v0.0.0-20241129210726-2c02b8208cf8 // indirect
	github.com/google/uuid v1.6.0 // indirect
	github.com/jbenet/go-context v0.0.0-20150711004518-d14ea06fba99 // indirect
	github.com/kevinburke/ssh_config v1.2.0 // indirect
	github.com/mattn/go-colorable v0.1.14 // indirect
	github.com/mattn/go-isatty v0.0.20 // indirect
	github.com/pjbgf/sha1cd v0.3.2 // indirect
	github.com/rs/zerolog v1.34.0 // indirect
	github.com/sergi/go-diff v1.4.0 // indirect
	github.com/skeema/knownhosts v1.3.1 // indirect
	github.com/xanzy/ssh-agent v0.3.3 // indirect
	go.uber.org/multierr v1.11.0 // indirect
	go.uber.org/zap v1.27.0 // indirect
	golang.org/x/crypto v0.39.0 // indirect
	golang.org/x/exp v0.0.0-20240719175910-8a7402abbf56 // indirect
	golang.org/x/net v0.41.0 // indirect
	golang.org/x/sys v0.33.0 // indirect
	gopkg.in/warnings.v0 v0.1.2 // indirect
)

replace github.com/hyperjumptech/grule-rule-engine => /repo
