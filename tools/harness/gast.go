package main

// Go mirror of coq/model/Syntax.v with a GRL printer (canonical spelling:
// decimal integers, double-quoted strings without escapes) and a Gallina printer.

import (
	"fmt"
	"math"
	"strconv"
	"strings"
)

type Const struct {
	Kind string  `json:"k"` // str int float bool nil
	S    string  `json:"s,omitempty"`
	I    int64   `json:"i,omitempty"`
	F    float64 `json:"-"`
	FBits uint64 `json:"fb,omitempty"`
	B    bool    `json:"b,omitempty"`
}

type Expr struct {
	Kind string `json:"k"` // atom paren bin
	A    *Atom  `json:"a,omitempty"`
	Neg  bool   `json:"neg,omitempty"`
	E    *Expr  `json:"e,omitempty"`
	Op   string `json:"op,omitempty"`
	L    *Expr  `json:"l,omitempty"`
	R    *Expr  `json:"r,omitempty"`
}

type Atom struct {
	Kind string  `json:"k"` // const var func method member sel neg
	C    *Const  `json:"c,omitempty"`
	V    *Var    `json:"v,omitempty"`
	F    string  `json:"f,omitempty"`
	Args []*Expr `json:"args,omitempty"`
	A    *Atom   `json:"a,omitempty"`
	N    string  `json:"n,omitempty"`
	Sel  *Expr   `json:"sel,omitempty"`
}

type Var struct {
	Kind string `json:"k"` // name member sel
	N    string `json:"n,omitempty"`
	V    *Var   `json:"v,omitempty"`
	Sel  *Expr  `json:"sel,omitempty"`
}

type Stmt struct {
	Kind string `json:"k"` // assign atom
	X    *Var   `json:"x,omitempty"`
	Op   string `json:"op,omitempty"` // = += -= *= /=
	E    *Expr  `json:"e,omitempty"`
	A    *Atom  `json:"a,omitempty"`
}

type Rule struct {
	Name string  `json:"name"`
	Desc string  `json:"desc"`
	Sal  int64   `json:"sal"`
	When *Expr   `json:"when"`
	Then []*Stmt `json:"then"`
	Raw  string  `json:"raw,omitempty"` // text to hand to the builder instead of the printed tree (precedence probes)
}

// ---- constructors ----
func cInt(i int64) *Expr     { return eAtom(&Atom{Kind: "const", C: &Const{Kind: "int", I: i}}) }
func cFloat(f float64) *Expr {
	return eAtom(&Atom{Kind: "const", C: &Const{Kind: "float", F: f, FBits: math.Float64bits(f)}})
}
func cStr(s string) *Expr    { return eAtom(&Atom{Kind: "const", C: &Const{Kind: "str", S: s}}) }
func cBool(b bool) *Expr     { return eAtom(&Atom{Kind: "const", C: &Const{Kind: "bool", B: b}}) }
func eAtom(a *Atom) *Expr    { return &Expr{Kind: "atom", A: a} }
func eBin(op string, l, r *Expr) *Expr { return &Expr{Kind: "bin", Op: op, L: l, R: r} }
func eParen(neg bool, e *Expr) *Expr   { return &Expr{Kind: "paren", Neg: neg, E: e} }
func vName(n string) *Var              { return &Var{Kind: "name", N: n} }
func vMember(v *Var, n string) *Var    { return &Var{Kind: "member", V: v, N: n} }
func vSel(v *Var, sel *Expr) *Var      { return &Var{Kind: "sel", V: v, Sel: sel} }
func aVar(v *Var) *Atom                { return &Atom{Kind: "var", V: v} }
func eVar(v *Var) *Expr                { return eAtom(aVar(v)) }

// path "F.In.X" / "F.Arr[0]" / `F.M["a"]` helpers
func vPath(parts ...string) *Var {
	v := vName(parts[0])
	for _, p := range parts[1:] {
		v = vMember(v, p)
	}
	return v
}

// ---- precedence of the grammar (tightest first) ----
var opLevel = map[string]int{"*": 0, "/": 0, "%": 0, "+": 1, "-": 1, "&": 1, "|": 1,
	"<": 2, "<=": 2, ">": 2, ">=": 2, "==": 2, "!=": 2, "&&": 3, "||": 4}

// ---- GRL printing ----
func fmtFloat(f float64) string {
	s := strconv.FormatFloat(f, 'f', -1, 64)
	if !strings.ContainsAny(s, ".") {
		s += ".0"
	}
	return s
}

func (c *Const) grl() string {
	switch c.Kind {
	case "str":
		return "\"" + c.S + "\""
	case "int":
		return fmt.Sprintf("%d", c.I)
	case "float":
		return fmtFloat(math.Float64frombits(c.FBits))
	case "bool":
		return fmt.Sprintf("%v", c.B)
	}
	return "nil"
}

func (e *Expr) grl() string {
	switch e.Kind {
	case "atom":
		return e.A.grl()
	case "paren":
		if e.Neg {
			return "!(" + e.E.grl() + ")"
		}
		return "(" + e.E.grl() + ")"
	}
	return e.L.grl() + " " + e.Op + " " + e.R.grl()
}

func argsGrl(args []*Expr) string {
	var s []string
	for _, a := range args {
		s = append(s, a.grl())
	}
	return strings.Join(s, ", ")
}

func (a *Atom) grl() string {
	switch a.Kind {
	case "const":
		return a.C.grl()
	case "var":
		return a.V.grl()
	case "func":
		return a.F + "(" + argsGrl(a.Args) + ")"
	case "method":
		return a.A.grl() + "." + a.F + "(" + argsGrl(a.Args) + ")"
	case "member":
		return a.A.grl() + "." + a.N
	case "sel":
		return a.A.grl() + "[" + a.Sel.grl() + "]"
	}
	return "!" + a.A.grl()
}

func (v *Var) grl() string {
	switch v.Kind {
	case "name":
		return v.N
	case "member":
		return v.V.grl() + "." + v.N
	}
	return v.V.grl() + "[" + v.Sel.grl() + "]"
}

func (s *Stmt) grl() string {
	if s.Kind == "assign" {
		return s.X.grl() + " " + s.Op + " " + s.E.grl() + ";"
	}
	return s.A.grl() + ";"
}

func (r *Rule) grl() string {
	if r.Raw != "" {
		return r.Raw
	}
	var b strings.Builder
	fmt.Fprintf(&b, "rule %s \"%s\" salience %d {\n  when %s\n  then\n", r.Name, r.Desc, r.Sal, r.When.grl())
	for _, s := range r.Then {
		b.WriteString("    " + s.grl() + "\n")
	}
	b.WriteString("}\n")
	return b.String()
}

// token text without white space (the GrlText the listener stores)
func noSpace(s string) string {
	var b strings.Builder
	inStr := false
	for i := 0; i < len(s); i++ {
		c := s[i]
		if c == '"' {
			inStr = !inStr
		}
		if !inStr && (c == ' ' || c == '\n' || c == '\t') {
			continue
		}
		b.WriteByte(c)
	}
	return b.String()
}

// ---- Gallina printing ----
var opGallina = map[string]string{"*": "OMul", "/": "ODiv", "%": "OMod", "+": "OAdd", "-": "OSub", "&": "OBitAnd", "|": "OBitOr",
	">": "OGT", "<": "OLT", ">=": "OGTE", "<=": "OLTE", "==": "OEq", "!=": "ONEq", "&&": "OAnd", "||": "OOr"}

func (c *Const) gallina() string {
	switch c.Kind {
	case "str":
		return "(CStr " + gStr(c.S) + ")"
	case "int":
		return "(CInt " + gZ(c.I) + ")"
	case "float":
		return fmt.Sprintf("(CFloat %d)", c.FBits)
	case "bool":
		return "(CBool " + gBool(c.B) + ")"
	}
	return "CNil"
}

func (e *Expr) gallina() string {
	switch e.Kind {
	case "atom":
		return "(EAtom " + e.A.gallina() + ")"
	case "paren":
		return "(EParen " + gBool(e.Neg) + " " + e.E.gallina() + ")"
	}
	return "(EBin " + opGallina[e.Op] + " " + e.L.gallina() + " " + e.R.gallina() + ")"
}

func elistGallina(args []*Expr) string {
	s := "ENil"
	for i := len(args) - 1; i >= 0; i-- {
		s = "(ECons " + args[i].gallina() + " " + s + ")"
	}
	return s
}

func (a *Atom) gallina() string {
	switch a.Kind {
	case "const":
		return "(AConst " + a.C.gallina() + ")"
	case "var":
		return "(AVar " + a.V.gallina() + ")"
	case "func":
		return "(AFunc " + gStr(a.F) + " " + elistGallina(a.Args) + ")"
	case "method":
		return "(AMethod " + a.A.gallina() + " " + gStr(a.F) + " " + elistGallina(a.Args) + ")"
	case "member":
		return "(AMember " + a.A.gallina() + " " + gStr(a.N) + ")"
	case "sel":
		return "(ASel " + a.A.gallina() + " " + a.Sel.gallina() + ")"
	}
	return "(ANeg " + a.A.gallina() + ")"
}

func (v *Var) gallina() string {
	switch v.Kind {
	case "name":
		return "(VName " + gStr(v.N) + ")"
	case "member":
		return "(VMember " + v.V.gallina() + " " + gStr(v.N) + ")"
	}
	return "(VSel " + v.V.gallina() + " " + v.Sel.gallina() + ")"
}

var asgGallina = map[string]string{"=": "AsSet", "+=": "AsAdd", "-=": "AsSub", "*=": "AsMul", "/=": "AsDiv"}

func (s *Stmt) gallina() string {
	if s.Kind == "assign" {
		return "(SAssign " + s.X.gallina() + " " + asgGallina[s.Op] + " " + s.E.gallina() + ")"
	}
	return "(SAtom " + s.A.gallina() + ")"
}

func (r *Rule) gallina() string {
	var st []string
	for _, s := range r.Then {
		st = append(st, s.gallina())
	}
	return fmt.Sprintf("{| rname := %s; rdesc := %s; rsal := %s; rwhen := %s; rthen := %s |}", gStr(r.Name), gStr(r.Desc), gZ(r.Sal), r.When.gallina(), gList(st))
}

func mathFromBits(b uint64) float64 { return math.Float64frombits(b) }
func mathBits(f float64) uint64     { return math.Float64bits(f) }
