package main

// Engine scenarios over the fact library: run on the real engine (counting
// context, recording listener), observed and handed to coq/model/Engine.v;
// direct oracles for C01, C02, C04, C07, C08, C13, C14 evaluate the properties
// on the implementation's own observations.

import (
	"context"
	"encoding/json"
	"fmt"
	"os"
	"sort"
	"strings"

	"github.com/hyperjumptech/grule-rule-engine/ast"
	"github.com/hyperjumptech/grule-rule-engine/builder"
	"github.com/hyperjumptech/grule-rule-engine/engine"
	"github.com/hyperjumptech/grule-rule-engine/pkg"
)

type EngScenario struct {
	Rules     []*Rule  `json:"rules"`
	Removed   []string `json:"removed,omitempty"`
	Fact      *Fact    `json:"fact"`
	N         int64    `json:"n"`
	MaxCycle  uint64   `json:"max_cycle"`
	RetErr    bool     `json:"ret_err"`
	CancelAt  int      `json:"cancel_at"`
	Listeners int      `json:"listeners"`
	Split     []int    `json:"split,omitempty"` // rule i is built from resource Split[i] (resources are built in order)
}

type EngObs struct {
	Events   []MiniEvent       `json:"events"`
	Outcome  string            `json:"outcome"`
	Fact     *Fact             `json:"fact"`
	N        int64             `json:"n"`
	NKind    string            `json:"n_kind"`
	Calls    map[string]int64  `json:"calls"`
	Orders   [][]string        `json:"orders"`
	Snaps    map[string]string `json:"snaps"`
	ErrCalls int               `json:"err_calls"`
	Retracted []string         `json:"retracted"`
	Inactive  [][]string       `json:"inactive"`
	Completed bool             `json:"completed"`
	OracleMsg string           `json:"oracle_msg,omitempty"`
}

func (s EngScenario) grl() string {
	var b strings.Builder
	for _, r := range s.Rules {
		b.WriteString(r.grl())
	}
	return b.String()
}

func (s EngScenario) names() []string {
	var n []string
	for _, r := range s.Rules {
		n = append(n, r.Name)
	}
	return n
}

func (s EngScenario) isRemoved(n string) bool {
	for _, r := range s.Removed {
		if r == n {
			return true
		}
	}
	return false
}

func buildRules(text string, kbName string) (*ast.KnowledgeLibrary, error) {
	lib := ast.NewKnowledgeLibrary()
	rb := builder.NewRuleBuilder(lib)
	if err := rb.BuildRuleFromResource(kbName, "1", pkg.NewBytesResource([]byte(text))); err != nil {
		return nil, fmt.Errorf("build: %v\n%s", err, text)
	}
	return lib, nil
}

func classifyEngErr(err error, names []string) string {
	if err == nil {
		return "nil"
	}
	m := MiniScenario{}
	for _, n := range names {
		m.Rules = append(m.Rules, MRule{Name: n})
	}
	return classifyErr(err, m)
}

// fresh evaluation of one rule, alone, on a deep copy of the facts
type freshEval struct {
	kbs map[string]*ast.KnowledgeBase
}

func newFreshEval(s EngScenario) *freshEval {
	fe := &freshEval{kbs: map[string]*ast.KnowledgeBase{}}
	for _, r := range s.Rules {
		lib, err := buildRules(r.grl(), "Single")
		if err != nil {
			continue
		}
		kb, err := lib.NewKnowledgeBaseInstance("Single", "1")
		if err == nil {
			fe.kbs[r.Name] = kb
		}
	}
	return fe
}

func (fe *freshEval) holds(rule string, f *Fact, n interface{}) (bool, bool) {
	kb, ok := fe.kbs[rule]
	if !ok {
		return false, false
	}
	dc := ast.NewDataContext()
	dc.Add("F", f.clone())
	dc.Add("N", n)
	eng := &engine.GruleEngine{MaxCycle: 10}
	res, err := eng.FetchMatchingRules(dc, kb)
	if err != nil {
		return false, true
	}
	return len(res) == 1, true
}

type engListener struct {
	recListener
	s        EngScenario
	fe       *freshEval
	dc       ast.IDataContext
	oracle   *string
	calls    *int
	cancelAt int
}

func (l *engListener) topN() interface{} {
	if vn := l.dc.Get("N"); vn != nil {
		return pkg.ValueToInterface(vn.Value())
	}
	return int64(0)
}

func (l *engListener) EvaluateRuleEntry(ctx context.Context, cycle uint64, entry *ast.RuleEntry, candidate bool) {
	l.recListener.EvaluateRuleEntry(ctx, cycle, entry, candidate)
	if l.fe == nil || *l.oracle != "" || (l.cancelAt >= 0 && *l.calls > l.cancelAt) {
		return
	}
	want, ok := l.fe.holds(entry.RuleName, l.fact2(), l.topN())
	if ok && want != candidate {
		*l.oracle = fmt.Sprintf("C02: cycle %d reports rule %s candidate=%v, but its condition evaluated from scratch on the current facts is %v", cycle, entry.RuleName, candidate, want)
	}
}

func (l *engListener) ExecuteRuleEntry(ctx context.Context, cycle uint64, entry *ast.RuleEntry) {
	l.recListener.ExecuteRuleEntry(ctx, cycle, entry)
	if l.fe == nil || *l.oracle != "" {
		return
	}
	want, ok := l.fe.holds(entry.RuleName, l.fact2(), l.topN())
	if ok && !want {
		*l.oracle = fmt.Sprintf("C01: cycle %d fires rule %s although its condition evaluated from scratch on the current facts is false", cycle, entry.RuleName)
	}
	if entry.Retracted || entry.Deleted {
		*l.oracle = fmt.Sprintf("C01: cycle %d fires rule %s which is retracted or removed", cycle, entry.RuleName)
	}
}

var curFact *Fact

func (l *engListener) fact2() *Fact { return curFact }

func runEngOn(kb *ast.KnowledgeBase, s EngScenario, fact *Fact, withOracle bool, fe *freshEval) (obs EngObs) {
	var log []string
	calls := 0
	ctx := cctx{Context: context.Background(), calls: &calls, cancelAt: s.CancelAt, log: &log}
	eng := &engine.GruleEngine{MaxCycle: s.MaxCycle, ReturnErrOnFailedRuleEvaluation: s.RetErr}
	dc := ast.NewDataContext()
	dc.Add("F", fact)
	dc.Add("N", s.N)
	curFact = fact
	oracle := ""
	for i := 0; i < s.Listeners; i++ {
		l := &engListener{recListener: recListener{log: &log, id: i, kb: kb}, s: s, dc: dc, oracle: &oracle, calls: &calls, cancelAt: s.CancelAt}
		if i == 0 && withOracle {
			l.fe = fe
		}
		eng.Listeners = append(eng.Listeners, l)
	}
	func() {
		defer func() {
			if r := recover(); r != nil {
				obs.Outcome = fmt.Sprintf("panic:%v", r)
			}
		}()
		err := eng.ExecuteWithContext(ctx, dc, kb)
		obs.Outcome = classifyEngErr(err, s.names())
	}()
	obs.OracleMsg = oracle
	obs.Fact = fact
	obs.Calls = fact.calls
	obs.ErrCalls = calls
	obs.Completed = dc.IsComplete()
	if vn := dc.Get("N"); vn != nil {
		v := vn.Value()
		obs.NKind = v.Kind().String()
		if v.CanInt() {
			obs.N = v.Int()
		}
	}
	for _, e := range kb.RuleEntries {
		if e.Retracted && !e.Deleted {
			obs.Retracted = append(obs.Retracted, e.RuleName)
		}
	}
	sort.Strings(obs.Retracted)
	// reuse the log parser of the mini harness
	m := MiniScenario{Listeners: s.Listeners, CancelAt: s.CancelAt}
	mo := parseLog(log, m, obs.Outcome)
	obs.Events, obs.Orders, obs.Inactive = mo.Events, mo.Orders, mo.Inactive
	if !mo.ListenersAgree && obs.OracleMsg == "" {
		obs.OracleMsg = "C06: registered listeners did not receive the same callback sequence"
	}
	return
}

func (s EngScenario) gallinaCase(id int, obs EngObs) string {
	var rules, entries []string
	for _, r := range s.Rules {
		rules = append(rules, r.gallina())
		name := r.Name
		rem := s.isRemoved(r.Name)
		if rem {
			name = "Deleted_" + r.Name
		}
		entries = append(entries, fmt.Sprintf("{| e_key := %s; e_name := %s; e_sal := %s; e_retracted := false; e_deleted := %s |}",
			gStr(r.Name), gStr(name), gZ(r.Sal), gBool(rem)))
	}
	cancel := "None"
	if s.CancelAt >= 0 {
		cancel = fmt.Sprintf("(Some %d%%nat)", s.CancelAt)
	}
	var orders []string
	for _, pass := range obs.Orders {
		var ks []string
		for _, k := range pass {
			if k == "" {
				ks = append(ks, "None")
			} else {
				ks = append(ks, "Some "+gStr(k))
			}
		}
		orders = append(orders, gList(ks))
	}
	var evs []string
	for _, e := range obs.Events {
		switch e.Kind {
		case "B":
			evs = append(evs, fmt.Sprintf("EvBegin %d", e.Cycle))
		case "V":
			evs = append(evs, fmt.Sprintf("EvEval %d %s %s", e.Cycle, gStr(e.Rule), gBool(e.Can)))
		case "X":
			evs = append(evs, fmt.Sprintf("EvExec %d %s", e.Cycle, gStr(e.Rule)))
		}
	}
	out := "BOther"
	switch {
	case obs.Outcome == "nil":
		out = "BNil"
	case obs.Outcome == "cyclelimit":
		out = "BCycleLimit"
	case obs.Outcome == "ctx":
		out = "BCtx"
	case strings.HasPrefix(obs.Outcome, "conderr:"):
		out = "(BCondErr " + gStr(obs.Outcome[8:]) + ")"
	case strings.HasPrefix(obs.Outcome, "acterr:"):
		out = "(BActErr " + gStr(obs.Outcome[7:]) + ")"
	}
	var calls []string
	var ck []string
	for k := range obs.Calls {
		ck = append(ck, k)
	}
	sort.Strings(ck)
	for _, k := range ck {
		calls = append(calls, fmt.Sprintf("(%s, %d)", gStr(k), obs.Calls[k]))
	}
	var snaps []string
	var sk []string
	for k := range obs.Snaps {
		sk = append(sk, k)
	}
	sort.Strings(sk)
	for _, k := range sk {
		snaps = append(snaps, fmt.Sprintf("(%s, %s)", gStr(k), gStr(obs.Snaps[k])))
	}
	nval := fmt.Sprintf("(FV (VInt I64 %s))", gZ(obs.N))
	facts0 := fmt.Sprintf("[(\"F\"%%string, %s); (\"N\"%%string, (FV (VInt I64 %s)))]", s.Fact.gallina(), gZ(s.N))
	facts1 := fmt.Sprintf("[(\"F\"%%string, %s); (\"N\"%%string, %s)]", obs.Fact.gallina(), nval)
	return fmt.Sprintf("{| ec_id := %d; ec_rules := %s;\n ec_entries := %s;\n ec_facts := %s;\n ec_config := {| c_max := %d; c_reterr := %s; c_cancel := %s |};\n ec_orders := %s;\n ec_obs_events := %s; ec_obs_outcome := %s;\n ec_obs_facts := %s;\n ec_obs_calls := %s;\n ec_obs_snaps := %s |}",
		id, gList(rules), gList(entries), facts0, s.MaxCycle, gBool(s.RetErr), cancel, gList(orders), gList(evs), out, facts1, gList(calls), gList(snaps))
}

// ---- scenario generation ----
// containers (text of the parent variable) indexed by a non-literal selector anywhere in the rules
func computedContainers(rs []*Rule) map[string]bool {
	out := map[string]bool{}
	var walkE func(e *Expr)
	var walkA func(a *Atom)
	var walkV func(v *Var)
	walkV = func(v *Var) {
		if v == nil {
			return
		}
		if v.Kind == "sel" {
			if !(v.Sel.Kind == "atom" && v.Sel.A.Kind == "const") {
				out[noSpace(v.V.grl())] = true
			}
			walkE(v.Sel)
		}
		walkV(v.V)
	}
	walkA = func(a *Atom) {
		if a == nil {
			return
		}
		walkV(a.V)
		walkA(a.A)
		walkE(a.Sel)
		for _, x := range a.Args {
			walkE(x)
		}
	}
	walkE = func(e *Expr) {
		if e == nil {
			return
		}
		walkA(e.A)
		walkE(e.E)
		walkE(e.L)
		walkE(e.R)
	}
	for _, r := range rs {
		walkE(r.When)
		for _, st := range r.Then {
			walkV(st.X)
			walkE(st.E)
			walkA(st.A)
		}
	}
	return out
}

func avoidD3(rs []*Rule) {
	cc := computedContainers(rs)
	if len(cc) == 0 {
		return
	}
	for _, r := range rs {
		for _, st := range r.Then {
			if st.Kind == "assign" && st.X.Kind == "sel" && cc[noSpace(st.X.V.grl())] {
				switch noSpace(st.X.V.grl()) {
				case "F.FArr":
					st.X = vPath("F", "F64")
				case "F.Arr":
					st.X = vPath("F", "I64")
				case "F.SArr", "F.MS":
					st.X = vPath("F", "S")
				default:
					st.X = vPath("F", "I64")
				}
			}
		}
	}
}

func usesGetI64(rs []*Rule) bool {
	b, _ := json.Marshal(rs)
	return strings.Contains(string(b), `"f":"GetI64"`)
}

func writesI64(st *Stmt) bool {
	if st.Kind == "assign" {
		return st.X.grl() == "F.I64"
	}
	return st.A.Kind == "method" && (st.A.F == "AddTo" || st.A.F == "Inc")
}

func genEng(p *prng, prop string) EngScenario {
	g := &gen{p: p, faulty: prop == "C14" || p.chance(1, 5), ops: map[string]int{}}
	n := 1 + p.intn(5)
	var s EngScenario
	for i := 0; i < n; i++ {
		s.Rules = append(s.Rules, g.rule(i, n))
	}
	// chained activation through one addressed location: A pushes x over a threshold, B waits for it
	if p.chance(1, 2) {
		x := g.intVar()
		k := int64(2 + p.intn(3))
		a := &Rule{Name: fmt.Sprintf("R%d", len(s.Rules)), Desc: "push", Sal: pick(p, []int64{0, 3, -3}),
			When: mkBin("<", eVar(x), cInt(k)), Then: []*Stmt{g.progress(x)}}
		b := &Rule{Name: fmt.Sprintf("R%d", len(s.Rules)+1), Desc: "wait", Sal: pick(p, []int64{0, 3, -3}),
			When: mkBin(">=", eVar(x), cInt(k)), Then: []*Stmt{assign(vPath("F", "S"), "=", mkBin("+", eVar(vPath("F", "S")), cStr("!")))}}
		b.Then = append(b.Then, call(fn("Retract", cStr(b.Name))))
		s.Rules = append(s.Rules, a, b)
		n = len(s.Rules)
	}
	// stay outside the known-finding region D2: a method reading F.I64 through its receiver is
	// announced with Forget whenever an action changes F.I64
	if usesGetI64(s.Rules) {
		for _, r := range s.Rules {
			var out []*Stmt
			for _, st := range r.Then {
				out = append(out, st)
				if writesI64(st) {
					out = append(out, call(fn("Forget", cStr("F.GetI64()"))))
				}
			}
			r.Then = out
		}
	}
	s.Fact = genFact(p)
	s.N = int64(p.intn(3))
	s.MaxCycle = uint64(pick(p, []int{1, 2, 3, 5, 10, 25, 25, 25}))
	s.RetErr = p.chance(1, 4)
	s.CancelAt = -1
	s.Listeners = pick(p, []int{1, 1, 2})
	if p.chance(1, 8) && n > 1 {
		s.Removed = []string{s.Rules[p.intn(n)].Name}
	}
	if n > 1 && p.chance(1, 2) {
		// the rules arrive in several resources
		for i := 0; i < n; i++ {
			s.Split = append(s.Split, p.intn(3))
		}
	}
	return s
}

func buildSplit(s EngScenario) (*ast.KnowledgeLibrary, error) {
	if len(s.Split) != len(s.Rules) {
		return buildRules(s.grl(), "Eng")
	}
	lib := ast.NewKnowledgeLibrary()
	rb := builder.NewRuleBuilder(lib)
	maxRes := 0
	for _, k := range s.Split {
		if k > maxRes {
			maxRes = k
		}
	}
	for res := 0; res <= maxRes; res++ {
		var b strings.Builder
		for i, r := range s.Rules {
			if s.Split[i] == res {
				b.WriteString(r.grl())
			}
		}
		if b.Len() == 0 {
			continue
		}
		if err := rb.BuildRuleFromResource("Eng", "1", pkg.NewBytesResource([]byte(b.String()))); err != nil {
			return nil, fmt.Errorf("build: %v\n%s", err, b.String())
		}
	}
	return lib, nil
}

func runEngScenario(s EngScenario, withOracle bool) (EngObs, error) {
	lib, err := buildSplit(s)
	if err != nil {
		return EngObs{}, err
	}
	kb, err := lib.NewKnowledgeBaseInstance("Eng", "1")
	if err != nil {
		return EngObs{}, fmt.Errorf("instance: %v\n%s", err, s.grl())
	}
	snaps := map[string]string{}
	for k, e := range kb.RuleEntries {
		snaps[k] = e.GetSnapshot()
	}
	for _, r := range s.Removed {
		kb.RemoveRuleEntry(r)
	}
	var fe *freshEval
	if withOracle {
		fe = newFreshEval(s)
	}
	f := s.Fact.clone()
	obs := runEngOn(kb, s, f, withOracle, fe)
	obs.Snaps = snaps
	// C02(b): nil without Complete means no active rule's condition holds on the final facts
	if withOracle && obs.OracleMsg == "" && obs.Outcome == "nil" && !obs.Completed {
		for _, r := range s.Rules {
			if s.isRemoved(r.Name) {
				continue
			}
			ret := false
			for _, x := range obs.Retracted {
				if x == r.Name {
					ret = true
				}
			}
			if ret {
				continue
			}
			var n interface{} = obs.N
			if h, ok := fe.holds(r.Name, obs.Fact, n); ok && h {
				obs.OracleMsg = fmt.Sprintf("C02: Execute returned nil without Complete although the condition of active rule %s holds on the final facts", r.Name)
			}
		}
	}
	if withOracle && obs.OracleMsg == "" {
		obs.OracleMsg = engProtocolOracle(s, obs)
	}
	// C14 on the implementation alone: the library's Boom() panics with a string value; once it has been entered with
	// ReturnErrOnFailedRuleEvaluation set the run must end with an error naming a rule
	if withOracle && obs.OracleMsg == "" && obs.Calls["Boom"] > 0 && s.CancelAt < 0 && s.RetErr && (obs.Outcome == "nil" || obs.Outcome == "cyclelimit") {
		obs.OracleMsg = fmt.Sprintf("C14: the panicking method Boom was entered %d time(s) with ReturnErrOnFailedRuleEvaluation set, yet Execute reported %q: the failure was swallowed", obs.Calls["Boom"], obs.Outcome)
	}
	if strings.HasPrefix(obs.Outcome, "panic:") && obs.OracleMsg == "" {
		obs.OracleMsg = "C14: a panic escaped Execute: " + obs.Outcome
	}
	if strings.HasPrefix(obs.Outcome, "other:") && obs.OracleMsg == "" {
		obs.OracleMsg = "C14: Execute returned an error that does not name a rule: " + obs.Outcome
	}
	return obs, nil
}

type engCaseRec struct {
	Scenario EngScenario `json:"scenario"`
	Obs      EngObs      `json:"obs"`
}

func oracleFor(prop string, msg string) bool {
	if msg == "" {
		return false
	}
	// every engine property check reports any violated clause it sees on its own runs, labelled with the clause
	return true
}

func runEngProp(prop string) runner {
	return func(seed uint64, tier string, out string) error {
		p := newPrng(seed ^ uint64(prop[1])<<16 ^ uint64(prop[2])<<8 ^ 0xE6)
		rep := newReport(prop, seed, tier)
		n := 260
		if tier == "thorough" {
			n = 8000
		}
		var cases []string
		var index []interface{}
		distinct := map[string]bool{}
		for _, rg := range regressionScenarios(prop) {
			obs, err := runEngScenario(rg.S, true)
			if err != nil {
				return err
			}
			rep.Evaluations++
			rep.count("regression scenarios")
			if obs.OracleMsg != "" {
				rep.failKey(rg.Key, obs.OracleMsg, engCaseRec{rg.S, obs})
			}
			index = append(index, engCaseRec{rg.S, obs})
			cases = append(cases, rg.S.gallinaCase(len(index)-1, obs))
		}
		for i := 0; i < n; i++ {
			s := genEng(p.fork(), prop)
			obs, err := runEngScenario(s, true)
			if err != nil {
				return err
			}
			rep.Evaluations++
			rep.count("outcome " + strings.SplitN(obs.Outcome, ":", 2)[0])
			rep.count(fmt.Sprintf("rules %d", len(s.Rules)))
			passes := 0
			fired := 0
			for _, e := range obs.Events {
				if e.Kind == "B" {
					passes++
				}
				if e.Kind == "X" {
					fired++
				}
			}
			rep.count(fmt.Sprintf("cycles %s", bucket(passes)))
			if passes >= 2 && fired >= 1 {
				distinct[s.grl()+s.Fact.dump()] = true
			}
			if oracleFor(prop, obs.OracleMsg) {
				rep.fail(obs.OracleMsg, engCaseRec{s, obs})
			}
			id := len(index)
			index = append(index, engCaseRec{s, obs})
			cases = append(cases, s.gallinaCase(id, obs))
			if i < 3 {
				rep.sample(map[string]interface{}{"grl": s.grl(), "outcome": obs.Outcome, "cycles": passes, "fired": fired})
			}
		}
		if prop == "C01" || prop == "C02" {
			// rule sets over JSON facts (implementation-side oracle: fired => true from scratch; nil => nothing left to fire)
			np := 60
			if tier == "thorough" {
				np = 3000
			}
			for _, w := range d25Witnesses() {
				rep.Evaluations++
				rep.count("json fact runs: regression scenarios of D25")
				if msg := runJSONRun(w); msg != "" {
					rep.fail(msg, w)
				}
			}
			for i := 0; i < np; i++ {
				jr := genJSONRun(p.fork())
				rep.Evaluations++
				rep.count("json fact runs")
				if msg := runJSONRun(jr); msg != "" {
					rep.fail(msg, jr)
				}
			}
		}
		rep.Cases = len(cases)
		rep.DistinctNontrivial = len(distinct)
		rep.Rule = "random typed rule sets over the fact library (1-5 rules; int/uint/float widths, strings, bools, time, nested pointer, slices, maps, top-level variable; arithmetic / bitwise / comparison / logical / negation operators, string and array/map functions, pure, variadic and mutating methods with Forget/Changed, five assignment forms, Retract, Complete; a faulty stream with missing facts, out-of-range selectors, kind mismatches, division by zero and panicking methods); non-trivial = at least two cycles and one firing; distinct by rule text and facts"
		if err := writeShards(out, "From Grule Require Import Base Values Syntax EngineGen EngineAbs MiniEngine Facts Eval Engine.", "eng_mismatches", "eng_case", cases, 16); err != nil {
			return err
		}
		return rep.write(out, index)
	}
}

func bucket(n int) string {
	switch {
	case n <= 1:
		return "1"
	case n <= 3:
		return "2-3"
	case n <= 8:
		return "4-8"
	}
	return "9+"
}

func replayEng(prop string) func(path string) (bool, string, error) {
	return func(path string) (bool, string, error) {
		b, err := os.ReadFile(path)
		if err != nil {
			return false, "", err
		}
		var jr struct {
			Scenario jsonRun `json:"scenario"`
		}
		if json.Unmarshal(b, &jr) == nil && jr.Scenario.Kind == "jsonrun" {
			msg := runJSONRun(jr.Scenario)
			return msg != "", msg + "\n" + jr.Scenario.Doc + "\n" + strings.Join(jr.Scenario.Rules, "\n"), nil
		}
		var rp struct {
			Scenario engCaseRec `json:"scenario"`
		}
		if err := json.Unmarshal(b, &rp); err != nil {
			return false, "", err
		}
		s := rp.Scenario.Scenario
		for i := 0; i < 20; i++ {
			obs, err := runEngScenario(s, true)
			if err != nil {
				return false, "", err
			}
			if obs.OracleMsg != "" {
				return true, obs.OracleMsg + "\n" + s.grl(), nil
			}
		}
		return false, s.grl(), nil
	}
}

func init() {
	for _, p := range []string{"C01", "C02"} {
		runners[p] = runEngProp(p)
		replayers[p] = replayEng(p)
	}
}

// trace-level clauses (C02a, C03, C06): every active rule is evaluated exactly once in every complete pass,
// the fired rule is a candidate of maximal salience, cycles are numbered from 1
func engProtocolOracle(s EngScenario, obs EngObs) string {
	sal := map[string]int64{}
	for _, r := range s.Rules {
		sal[r.Name] = r.Sal
	}
	pass := -1
	var seen map[string]bool
	var cands []string
	complete := func(pi int, last bool) string {
		if pi < 0 {
			return ""
		}
		if last && (obs.Outcome == "ctx" || strings.HasPrefix(obs.Outcome, "conderr:")) {
			return ""
		}
		inact := map[string]bool{}
		if pi < len(obs.Inactive) {
			for _, k := range obs.Inactive[pi] {
				inact[k] = true
			}
		}
		for _, r := range s.Rules {
			if s.isRemoved(r.Name) || inact[r.Name] {
				continue
			}
			if !seen[r.Name] {
				return fmt.Sprintf("C02: active rule %s was not evaluated in cycle %d", r.Name, pi+1)
			}
		}
		return ""
	}
	for i, e := range obs.Events {
		switch e.Kind {
		case "B":
			if msg := complete(pass, false); msg != "" {
				return msg
			}
			pass++
			seen = map[string]bool{}
			cands = nil
			if e.Cycle != uint64(pass+1) {
				return fmt.Sprintf("C06: pass %d announced as cycle %d", pass+1, e.Cycle)
			}
		case "V":
			if seen[e.Rule] {
				return fmt.Sprintf("C06: rule %s evaluated twice in cycle %d", e.Rule, e.Cycle)
			}
			seen[e.Rule] = true
			if e.Can {
				cands = append(cands, e.Rule)
			}
		case "X":
			isCand := false
			for _, c := range cands {
				if c == e.Rule {
					isCand = true
				}
				if sal[c] > sal[e.Rule] {
					return fmt.Sprintf("C03: cycle %d fired %s (salience %d) although candidate %s has salience %d", e.Cycle, e.Rule, sal[e.Rule], c, sal[c])
				}
			}
			if !isCand {
				return fmt.Sprintf("C06: cycle %d fired %s which was not reported as candidate", e.Cycle, e.Rule)
			}
		}
		_ = i
	}
	return complete(pass, true)
}
