package main

// C09: instances are faithful copies, mutually isolated, and safe to run concurrently.
//
//	(a) pointer graphs   the object graph of the blueprint and of every instance is walked by reflection (every AST node
//	                     reachable from KnowledgeBase.RuleEntries and from the five unexported maps of the working
//	                     memory, read through reflect + unsafe).  Each graph is numbered by one canonical traversal
//	                     (rule entries by key, children in field order, post-order; then the working-memory maps by
//	                     key).  A faithful clone has the SAME numbered graph (kinds, scalar fields, children, sharing,
//	                     working-memory targets) - that is the isomorphism along the traversal bijection - and shares no
//	                     pointer with the blueprint or another instance.
//	    correspondence   blueprint graph and instance graph are written as Gallina terms; coq/model/CorrClone.v runs the
//	                     model's clone_kb on the blueprint graph and compares: success / failure of the clone, the closedness
//	                     predicate, and the observed instance graph with the model's clone along the model's clone table.
//	(b) behaviour        an instance, a second instance and the blueprint of a second library built from the same
//	                     resources give the same observation on generated facts; executing (incl. Retract) and removing
//	                     rules in instance A leaves the dump of all mutable state of instance B and of the blueprint
//	                     unchanged, and B then behaves like a fresh instance; library histories (build / remove / new
//	                     instance / store+load, rejected resources with new expressions included) never make NewKnowledgeBaseInstance
//	                     fail for a built or loaded knowledge base; a rejected resource leaves the blueprint's graph as it was.
//	(c) concurrency      SUPPORTING EVIDENCE ONLY, not a proof obligation: N goroutines create instances from one library and
//	                     execute them on their own facts, every result is compared with its sequential run; the part runs
//	                     in a child process built with `go build -race` when that works in this sandbox.
//
// What the pointer walk excepts, and why: strings (immutable in Go); reflect.Value fields (Constant.Value holds the immutable
// literal and is copied by value - the box it points to is never written; the Value fields of the other nodes are memo results,
// zero in a fresh clone); interface fields DataContext / ValueNode (nil until an Execute binds them; checked to be nil or
// different); the mutex.  Everything else reachable - AST nodes, the RuleEntries map, the five working-memory maps, the
// Arguments / ThenExpressions slices and the index slices - must be pairwise different objects.
//
// Bounded testing: oracles are tests; the theorems are in coq/props/C09.v.

import (
	"encoding/json"
	"fmt"
	"hash/fnv"
	"os"
	"os/exec"
	"path/filepath"
	"reflect"
	"sort"
	"strings"
	"sync"
	"time"
	"unsafe"

	"context"

	"github.com/hyperjumptech/grule-rule-engine/ast"
	"github.com/hyperjumptech/grule-rule-engine/builder"
	"github.com/hyperjumptech/grule-rule-engine/engine"
	"github.com/hyperjumptech/grule-rule-engine/pkg"
)

// first differing line of two canonical dumps: expected (blueprint / library / before) against observed
func diff09(a, b string) string {
	d := firstDiff(a, b)
	d = strings.Replace(d, "stored: ", "expected: ", 1)
	return strings.Replace(d, " | loaded: ", " | observed: ", 1)
}

func newBuilderFor(lib *ast.KnowledgeLibrary) *builder.RuleBuilder { return builder.NewRuleBuilder(lib) }
func bytesResource(text string) pkg.Resource                       { return pkg.NewBytesResource([]byte(text)) }

// runEngOn without the package-level state of engrun.go (safe to call from several goroutines)
func runEngOnLocal(kb *ast.KnowledgeBase, s EngScenario, fact *Fact) (obs EngObs) {
	var log []string
	calls := 0
	ctx := cctx{Context: context.Background(), calls: &calls, cancelAt: -1, log: &log}
	eng := &engine.GruleEngine{MaxCycle: s.MaxCycle, ReturnErrOnFailedRuleEvaluation: s.RetErr}
	dc := ast.NewDataContext()
	dc.Add("F", fact)
	dc.Add("N", s.N)
	eng.Listeners = append(eng.Listeners, &recListener{log: &log, id: 0, kb: kb})
	func() {
		defer func() {
			if r := recover(); r != nil {
				obs.Outcome = fmt.Sprintf("panic:%v", r)
			}
		}()
		err := eng.ExecuteWithContext(ctx, dc, kb)
		obs.Outcome = classifyEngErr(err, s.names())
	}()
	obs.Fact = fact
	obs.Calls = fact.calls
	obs.Completed = dc.IsComplete()
	if vn := dc.Get("N"); vn != nil {
		v := vn.Value()
		obs.NKind = v.Kind().String()
		if v.CanInt() {
			obs.N = v.Int()
		}
	}
	for _, e := range kb.RuleEntries {
		if e.Retracted && !e.Deleted {
			obs.Retracted = append(obs.Retracted, e.RuleName)
		}
	}
	sort.Strings(obs.Retracted)
	mo := parseLog(log, MiniScenario{Listeners: 1, CancelAt: -1}, obs.Outcome)
	obs.Events, obs.Orders, obs.Inactive = mo.Events, mo.Orders, mo.Inactive
	return
}


var c09AstTypes = map[string]bool{"RuleEntry": true, "WhenScope": true, "ThenScope": true, "ThenExpressionList": true, "ThenExpression": true,
	"Assignment": true, "Expression": true, "ExpressionAtom": true, "Variable": true, "Constant": true, "FunctionCall": true,
	"ArgumentList": true, "ArrayMapSelector": true}

// scalar fields that are not part of the (immutable) shape of a node
var c09SkipScalar = map[string]bool{"AstID": true, "Evaluated": true, "Retracted": true, "Snapshot": true, "IsNil": true}

type gNode struct {
	ID    int
	Kind  string
	Label string
	Kids  []int
	Ptr   uintptr
	Mut   string // mutable flags (Evaluated, Retracted, Deleted, RuleName), for the isolation dump
}

type kbGraph struct {
	Nodes  []*gNode
	byPtr  map[uintptr]int
	Roots  [][2]interface{} // key, id
	WMExpr [][2]interface{}
	WMAtom [][2]interface{}
	WMVar  [][2]interface{}
	XIdx   []idxEntry
	AIdx   []idxEntry
	Aux    map[uintptr]string // non-node objects that must not be shared: maps, slice arrays, the working memory
	Bad    []string           // interface / pointer fields that should be nil in a knowledge base at rest
}

type idxEntry struct {
	Key int
	Ids []int
}

func accessible(v reflect.Value) reflect.Value {
	if v.CanInterface() || !v.CanAddr() {
		return v
	}
	return reflect.NewAt(v.Type(), unsafe.Pointer(v.UnsafeAddr())).Elem()
}

func (g *kbGraph) visit(v reflect.Value) int {
	if v.Kind() != reflect.Ptr || v.IsNil() {
		return -1
	}
	ptr := v.Pointer()
	if id, ok := g.byPtr[ptr]; ok {
		return id
	}
	s := v.Elem()
	t := s.Type()
	n := &gNode{Kind: t.Name(), Ptr: ptr}
	var label, mut []string
	for i := 0; i < s.NumField(); i++ {
		f := accessible(s.Field(i))
		name := t.Field(i).Name
		switch f.Kind() {
		case reflect.Ptr:
			if f.Type().Elem().Kind() == reflect.Struct && c09AstTypes[f.Type().Elem().Name()] {
				if k := g.visit(f); k >= 0 {
					n.Kids = append(n.Kids, k)
					label = append(label, name+"->")
				}
			} else if !f.IsNil() {
				g.Bad = append(g.Bad, fmt.Sprintf("%s.%s is a non-nil %s", t.Name(), name, f.Type()))
				g.Aux[f.Pointer()] = t.Name() + "." + name
			}
		case reflect.Slice:
			if f.Len() > 0 {
				g.Aux[f.Pointer()] = t.Name() + "." + name + " (slice)"
			}
			label = append(label, fmt.Sprintf("%s[%d]", name, f.Len()))
			for j := 0; j < f.Len(); j++ {
				if k := g.visit(f.Index(j)); k >= 0 {
					n.Kids = append(n.Kids, k)
				}
			}
		case reflect.Interface:
			if !f.IsNil() {
				g.Bad = append(g.Bad, fmt.Sprintf("%s.%s is a non-nil interface", t.Name(), name))
			}
		case reflect.String, reflect.Bool, reflect.Int, reflect.Int64, reflect.Int32, reflect.Uint64:
			if name == "Evaluated" || name == "Retracted" || name == "Deleted" || name == "RuleName" {
				mut = append(mut, fmt.Sprintf("%s=%v", name, f.Interface()))
			}
			if !c09SkipScalar[name] {
				label = append(label, fmt.Sprintf("%s=%v", name, f.Interface()))
			}
		case reflect.Struct:
			if f.Type() == reflect.TypeOf(reflect.Value{}) {
				if t.Name() == "Constant" && name == "Value" {
					rv := f.Interface().(reflect.Value)
					if rv.IsValid() {
						label = append(label, fmt.Sprintf("const=%s:%v", rv.Kind(), rv.Interface()))
					} else {
						label = append(label, "const=invalid")
					}
				}
			}
		}
	}
	n.Label = strings.Join(label, "|")
	n.Mut = strings.Join(mut, ",")
	n.ID = len(g.Nodes)
	g.Nodes = append(g.Nodes, n)
	g.byPtr[ptr] = n.ID
	return n.ID
}

func exportKB(kb *ast.KnowledgeBase) *kbGraph {
	g := &kbGraph{byPtr: map[uintptr]int{}, Aux: map[uintptr]string{}}
	var keys []string
	for k := range kb.RuleEntries {
		keys = append(keys, k)
	}
	sort.Strings(keys)
	g.Aux[reflect.ValueOf(kb.RuleEntries).Pointer()] = "KnowledgeBase.RuleEntries (map)"
	for _, k := range keys {
		g.Roots = append(g.Roots, [2]interface{}{k, g.visit(reflect.ValueOf(kb.RuleEntries[k]))})
	}
	if kb.WorkingMemory == nil {
		return g
	}
	g.Aux[reflect.ValueOf(kb.WorkingMemory).Pointer()] = "KnowledgeBase.WorkingMemory"
	wm := reflect.ValueOf(kb.WorkingMemory).Elem()
	snapMap := func(field string) [][2]interface{} {
		m := accessible(wm.FieldByName(field))
		if m.Len() > 0 || !m.IsNil() {
			g.Aux[m.Pointer()] = "WorkingMemory." + field + " (map)"
		}
		var ks []string
		vals := map[string]reflect.Value{}
		it := m.MapRange()
		for it.Next() {
			ks = append(ks, it.Key().String())
			vals[it.Key().String()] = it.Value()
		}
		sort.Strings(ks)
		var out [][2]interface{}
		for _, k := range ks {
			out = append(out, [2]interface{}{k, g.visit(vals[k])})
		}
		return out
	}
	g.WMExpr = snapMap("expressionSnapshotMap")
	g.WMAtom = snapMap("expressionAtomSnapshotMap")
	g.WMVar = snapMap("variableSnapshotMap")
	idxMap := func(field string) []idxEntry {
		m := accessible(wm.FieldByName(field))
		if !m.IsNil() {
			g.Aux[m.Pointer()] = "WorkingMemory." + field + " (map)"
		}
		var out []idxEntry
		it := m.MapRange()
		for it.Next() {
			e := idxEntry{Key: g.visit(it.Key())}
			if it.Value().Len() > 0 {
				g.Aux[it.Value().Pointer()] = "WorkingMemory." + field + " (slice)"
			}
			for j := 0; j < it.Value().Len(); j++ {
				e.Ids = append(e.Ids, g.visit(it.Value().Index(j)))
			}
			out = append(out, e)
		}
		sort.Slice(out, func(i, j int) bool { return out[i].Key < out[j].Key })
		return out
	}
	g.XIdx = idxMap("expressionVariableMap")
	g.AIdx = idxMap("expressionAtomVariableMap")
	return g
}

// canonical text of the numbered graph (shape only) and of the mutable state
func (g *kbGraph) shape() string {
	var b strings.Builder
	for _, n := range g.Nodes {
		fmt.Fprintf(&b, "%d %s {%s} %v\n", n.ID, n.Kind, n.Label, n.Kids)
	}
	fmt.Fprintf(&b, "roots %v\nexpr %v\natom %v\nvar %v\nxidx %v\naidx %v\n", g.Roots, g.WMExpr, g.WMAtom, g.WMVar, g.XIdx, g.AIdx)
	return b.String()
}

// shape with the index lists read as sets (IndexVariables rebuilds them in map order)
func (g *kbGraph) shapeSets() string {
	var b strings.Builder
	for _, n := range g.Nodes {
		fmt.Fprintf(&b, "%d %s {%s} %v\n", n.ID, n.Kind, n.Label, n.Kids)
	}
	norm := func(es []idxEntry) []idxEntry {
		var o []idxEntry
		for _, e := range es {
			ids := append([]int(nil), e.Ids...)
			sort.Ints(ids)
			o = append(o, idxEntry{e.Key, ids})
		}
		return o
	}
	fmt.Fprintf(&b, "roots %v\nexpr %v\natom %v\nvar %v\nxidx %v\naidx %v\n", g.Roots, g.WMExpr, g.WMAtom, g.WMVar, norm(g.XIdx), norm(g.AIdx))
	return b.String()
}

func (g *kbGraph) mutable() string {
	var b strings.Builder
	for _, n := range g.Nodes {
		if n.Mut != "" {
			fmt.Fprintf(&b, "%d:%s ", n.ID, n.Mut)
		}
	}
	return b.String() + "\n" + g.shape()
}

func sharedPointers(a, b *kbGraph, an, bn string) string {
	for p, id := range a.byPtr {
		if id2, ok := b.byPtr[p]; ok {
			return fmt.Sprintf("%s node %d (%s) and %s node %d are the same object", an, id, a.Nodes[id].Kind, bn, id2)
		}
	}
	for p, what := range a.Aux {
		if w2, ok := b.Aux[p]; ok {
			return fmt.Sprintf("%s %s and %s %s are the same object", an, what, bn, w2)
		}
	}
	return ""
}

// ---- Gallina ----
func labelHash(kind, label string) string {
	h := fnv.New32a()
	h.Write([]byte(label))
	return fmt.Sprintf("%08x", h.Sum32())
}

func gNats(xs []int, off int) string {
	var o []string
	for _, x := range xs {
		o = append(o, fmt.Sprintf("%d", x+off))
	}
	return gList(o)
}

func (g *kbGraph) gallina(off int) string {
	var ns []string
	for _, n := range g.Nodes {
		ns = append(ns, fmt.Sprintf("(%d, {| n_kind := %s; n_label := %s; n_kids := %s |})", n.ID+off, gStr(n.Kind), gStr(labelHash(n.Kind, n.Label)), gNats(n.Kids, off)))
	}
	pairs := func(ps [][2]interface{}) string {
		var o []string
		for _, p := range ps {
			o = append(o, fmt.Sprintf("(%s, %d)", gStr(labelHash("", p[0].(string))), p[1].(int)+off))
		}
		return gList(o)
	}
	rootPairs := func(ps [][2]interface{}) string {
		var o []string
		for _, p := range ps {
			o = append(o, fmt.Sprintf("(%s, %d)", gStr(p[0].(string)), p[1].(int)+off))
		}
		return gList(o)
	}
	idx := func(es []idxEntry) string {
		var o []string
		for _, e := range es {
			o = append(o, fmt.Sprintf("(%d, %s)", e.Key+off, gNats(e.Ids, off)))
		}
		return gList(o)
	}
	return fmt.Sprintf("{| g_nodes := %s;\n  g_roots := %s;\n  g_wm := {| wm_expr := %s; wm_atom := %s; wm_var := %s; wm_xidx := %s; wm_aidx := %s |} |}",
		gList(ns), rootPairs(g.Roots), pairs(g.WMExpr), pairs(g.WMAtom), pairs(g.WMVar), idx(g.XIdx), idx(g.AIdx))
}

func c09GallinaCase(id int, bp *kbGraph, ok bool, inst *kbGraph) string {
	off := len(bp.Nodes)
	instTerm := "{| g_nodes := []; g_roots := []; g_wm := {| wm_expr := []; wm_atom := []; wm_var := []; wm_xidx := []; wm_aidx := [] |} |}"
	if inst != nil {
		instTerm = inst.gallina(off)
	}
	return fmt.Sprintf("({| cc_id := (%d)%%Z; cc_kb := %s;\n cc_ok := %s; cc_off := %d;\n cc_inst := %s |})%%nat", id, bp.gallina(0), gBool(ok), off, instTerm)
}

// ---- scenarios ----
type C09Scenario struct {
	C12   C12Scenario `json:"c12"`
	Extra string      `json:"extra,omitempty"` // name of the bracket template that was added
	Rejected []*Rule  `json:"rejected,omitempty"` // a resource built after the rules that must be rejected (it holds a duplicate name) and rolled back
}

// expressions used bare and, later in clone order, inside brackets (the clone table must keep them one node)
func c09BracketTemplates(p *prng) ([]*Rule, string) {
	I64, I, S := eVar(vPath("F", "I64")), eVar(vPath("F", "I")), eVar(vPath("F", "S"))
	switch p.intn(4) {
	case 0:
		x := mkBin("-", I64, I)
		return []*Rule{{Name: "Settle", Desc: "bare then bracketed", When: mkBin(">", x, cInt(0)),
			Then: []*Stmt{assign(vPath("F", "U8"), "=", mkBin("+", eVar(vPath("F", "U8")), cInt(1))), assign(vPath("F", "I"), "=", &Expr{Kind: "bin", Op: "+", L: I, R: eParen(false, mkBin("-", I64, I))})}}}, "settle"
	case 1:
		x := mkBin("<", I64, cInt(3))
		return []*Rule{
			{Name: "Up", Desc: "bare", When: x, Then: []*Stmt{assign(vPath("F", "I64"), "=", mkBin("+", I64, cInt(1)))}},
			{Name: "Done", Desc: "negated bracket", When: mkBin("&&", eParen(true, mkBin("<", I64, cInt(3))), mkBin("!=", S, cStr("done"))), Then: []*Stmt{assign(vPath("F", "S"), "=", cStr("done"))}}}, "negated"
	case 2:
		x := mkBin("+", I64, cInt(1))
		return []*Rule{{Name: "Twice", Desc: "left bare right bracketed", When: mkBin("<", &Expr{Kind: "bin", Op: "*", L: x, R: eParen(false, mkBin("+", I64, cInt(1)))}, cInt(30)),
			Then: []*Stmt{assign(vPath("F", "I64"), "=", mkBin("+", I64, cInt(2)))}}}, "square"
	}
	x := mkBin("==", S, cStr("a"))
	return []*Rule{
		{Name: "A1", Desc: "bare", When: x, Then: []*Stmt{assign(vPath("F", "S"), "=", cStr("b"))}},
		{Name: "A2", Desc: "bracket", When: mkBin("&&", eParen(false, mkBin("==", S, cStr("a"))), mkBin("<", I64, cInt(100))), Then: []*Stmt{assign(vPath("F", "I64"), "=", cInt(100))}}}, "strings"
}

func genC09(p *prng, i int) C09Scenario {
	s := C09Scenario{C12: genC12(p.fork(), i)}
	s.C12.Remove = nil
	s.C12.KBName, s.C12.Version = "KB", "1"
	if i%3 == 0 {
		rs, name := c09BracketTemplates(p)
		s.Extra = name
		taken := map[string]bool{}
		for _, r := range s.C12.Eng.Rules {
			taken[r.Name] = true
		}
		for _, r := range rs {
			if !taken[r.Name] {
				s.C12.Eng.Rules = append(s.C12.Eng.Rules, r)
				if s.C12.Eng.Split != nil {
					s.C12.Eng.Split = append(s.C12.Eng.Split, p.intn(3))
				}
			}
		}
		if len(s.C12.Eng.Rules) > len(c12Saliences) {
			s.C12.Eng.Rules = s.C12.Eng.Rules[len(s.C12.Eng.Rules)-len(c12Saliences):]
			s.C12.Eng.Split = nil
		}
		distinctSaliences(p, s.C12.Eng.Rules)
	}
	if i%2 == 1 && len(s.C12.Eng.Rules) > 0 {
		// a resource that will be rejected: a rule of its own with new expressions, then a duplicate of an existing name
		I64, U16 := eVar(vPath("F", "I64")), eVar(vPath("F", "U16"))
		k := int64(40 + p.intn(50))
		fresh := &Rule{Name: "ZzNew", Desc: "never stored", Sal: 77, When: mkBin("<", mkBin("+", I64, U16), cInt(k)),
			Then: []*Stmt{assign(vPath("F", "U16"), "=", mkBin("+", U16, cInt(k)))}}
		dup := &Rule{Name: pick(p, s.C12.Eng.Rules).Name, Desc: "dup", Sal: 78, When: mkBin(">", mkBin("*", I64, cInt(k)), cInt(k+1)),
			Then: []*Stmt{assign(vPath("F", "I64"), "=", cInt(k))}}
		s.Rejected = []*Rule{fresh, dup}
		if p.chance(1, 3) {
			s.Rejected = []*Rule{dup}
		}
	}
	return s
}

type c09Result struct {
	Fails   []string
	Stats   map[string]int
	BP      *kbGraph
	Inst    *kbGraph
	InstOK  bool
	Skipped bool
}

func runOnKB(kb *ast.KnowledgeBase, s C12Scenario, f *Fact) string {
	return normObs(runEngOn(kb, s.Eng, f.clone(), false, nil))
}

func runC09(s C09Scenario) (res c09Result) {
	res.Stats = map[string]int{}
	fail := func(format string, a ...interface{}) {
		res.Fails = append(res.Fails, "C09: "+fmt.Sprintf(format, a...))
	}
	lib, err := s.C12.build()
	if err != nil {
		res.Skipped = true
		return
	}
	libRef, err := s.C12.build()
	if err != nil {
		res.Skipped = true
		return
	}
	bp := lib.GetKnowledgeBase(s.C12.KBName, s.C12.Version)
	if len(s.Rejected) > 0 {
		// a rejected resource (new expressions, a new rule, a duplicate name) must leave the blueprint as it was: same rules,
		// same working memory, no orphan node - instances are created from it below exactly as from a library that never saw it
		before := exportKB(bp).shapeSets()
		var txt strings.Builder
		for _, r := range s.Rejected {
			txt.WriteString(r.grl())
		}
		rb := newBuilderFor(lib)
		if err := rb.BuildRuleFromResource(s.C12.KBName, s.C12.Version, bytesResource(txt.String())); err == nil {
			fail("a resource with a duplicate rule name was accepted:\n%s", txt.String())
		}
		bp = lib.GetKnowledgeBase(s.C12.KBName, s.C12.Version)
		if d := diff09(before, exportKB(bp).shapeSets()); d != "" {
			fail("a rejected resource changed the library's knowledge base (rule entries / working memory): %s", d)
		}
		res.Stats["rejected resource built after the rules"]++
	}
	res.BP = exportKB(bp)
	bpBefore := res.BP.mutable()
	for _, b := range res.BP.Bad {
		fail("blueprint at rest: %s", b)
	}
	// ---- (a) instances: success, isomorphism, disjointness ----
	nInst := 3
	var insts []*ast.KnowledgeBase
	var graphs []*kbGraph
	for i := 0; i < nInst; i++ {
		kb, err := lib.NewKnowledgeBaseInstance(s.C12.KBName, s.C12.Version)
		if err != nil || kb == nil {
			fail("NewKnowledgeBaseInstance failed for a successfully built knowledge base: %v", err)
			return
		}
		insts = append(insts, kb)
		g := exportKB(kb)
		graphs = append(graphs, g)
		if d := diff09(res.BP.shape(), g.shape()); d != "" {
			fail("instance %d is not isomorphic to the blueprint along the traversal bijection (kinds, scalar fields, children, sharing, working-memory targets): %s", i, d)
		}
		for _, b := range g.Bad {
			fail("fresh instance %d: %s", i, b)
		}
		if sh := sharedPointers(res.BP, g, "blueprint", fmt.Sprintf("instance %d", i)); sh != "" {
			fail("shared mutable object: %s", sh)
		}
		for j := 0; j < i; j++ {
			if sh := sharedPointers(graphs[j], g, fmt.Sprintf("instance %d", j), fmt.Sprintf("instance %d", i)); sh != "" {
				fail("shared mutable object: %s", sh)
			}
		}
	}
	res.Inst, res.InstOK = graphs[0], true
	res.Stats[fmt.Sprintf("graph nodes (tens) %s", bucket(len(res.BP.Nodes)/10))]++
	if len(res.Fails) > 0 {
		return
	}
	// ---- (b) behaviour: instance = second instance = blueprint of an identically built library ----
	A, Bi, C := insts[0], insts[1], insts[2]
	bRef := libRef.GetKnowledgeBase(s.C12.KBName, s.C12.Version)
	for fi, f := range s.C12.Facts {
		want := runOnKB(bRef, s.C12, f)
		for ii, kb := range []*ast.KnowledgeBase{A, C} {
			if got := runOnKB(kb, s.C12, f); got != want {
				fail("facts %d: instance %d does not behave like the library's knowledge base: %s", fi, ii*2, diff09(want, got))
			}
		}
		if strings.Contains(want, "~fire:") {
			res.Stats["behaviour comparisons with at least one firing"]++
		}
	}
	// ---- isolation: B and the blueprint are not changed by what happens in A ----
	bBefore := exportKB(Bi).mutable()
	f0 := s.C12.Facts[0]
	runOnKB(A, s.C12, f0)
	for _, r := range s.C12.Eng.Rules {
		A.RetractRule(r.Name)
	}
	if len(s.C12.Eng.Rules) > 0 {
		A.RemoveRuleEntry(s.C12.Eng.Rules[0].Name)
	}
	runOnKB(A, s.C12, f0)
	if d := diff09(bBefore, exportKB(Bi).mutable()); d != "" {
		fail("executing / retracting / removing in instance A changed instance B: %s", d)
	}
	if d := diff09(bpBefore, exportKB(bp).mutable()); d != "" {
		fail("executing / retracting / removing in instance A changed the blueprint: %s", d)
	}
	want := runOnKB(bRef, s.C12, f0)
	if got := runOnKB(Bi, s.C12, f0); got != want {
		fail("instance B does not behave like the library's knowledge base after instance A was executed and edited: %s", diff09(want, got))
	}
	// an instance created after A was edited is a copy of the blueprint, not of A
	if kb, err := lib.NewKnowledgeBaseInstance(s.C12.KBName, s.C12.Version); err != nil {
		fail("NewKnowledgeBaseInstance failed after an instance was edited: %v", err)
	} else if got := runOnKB(kb, s.C12, f0); got != want {
		fail("an instance created after instance A was edited does not behave like the library's knowledge base: %s", diff09(want, got))
	}
	return
}

// ---- (c) concurrency: supporting evidence ----
type c09RaceReport struct {
	Goroutines int      `json:"goroutines"`
	Runs       int      `json:"runs"`
	Mismatches []string `json:"mismatches"`
	Race       bool     `json:"race_detector"`
	Note       string   `json:"note,omitempty"`
}

func c09Stress(seed uint64, tier string) c09RaceReport {
	p := newPrng(seed ^ 0xC09ACE)
	rep := c09RaceReport{Goroutines: 12}
	nScen, perG := 4, 6
	if tier == "thorough" {
		nScen, perG = 30, 20
	}
	for si := 0; si < nScen; si++ {
		s := genC09(p.fork(), si*3)
		lib, err := s.C12.build()
		if err != nil {
			continue
		}
		// sequential reference: one fresh instance per fact
		var want []string
		for _, f := range s.C12.Facts {
			o, err := runInstance(lib, s.C12, f)
			if err != nil {
				want = nil
				break
			}
			want = append(want, o)
		}
		if want == nil {
			continue
		}
		var wg sync.WaitGroup
		var mu sync.Mutex
		for gi := 0; gi < rep.Goroutines; gi++ {
			wg.Add(1)
			go func(gi int) {
				defer wg.Done()
				for k := 0; k < perG; k++ {
					fi := (gi + k) % len(s.C12.Facts)
					kb, err := lib.NewKnowledgeBaseInstance(s.C12.KBName, s.C12.Version)
					var got string
					if err != nil {
						got = "instance: " + err.Error()
					} else {
						got = normObs(runEngOnLocal(kb, s.C12.Eng, s.C12.Facts[fi].clone()))
					}
					mu.Lock()
					rep.Runs++
					if got != want[fi] && len(rep.Mismatches) < 5 {
						rep.Mismatches = append(rep.Mismatches, fmt.Sprintf("scenario %d goroutine %d facts %d: %s", si, gi, fi, diff09(want[fi], got)))
					}
					mu.Unlock()
				}
			}(gi)
		}
		wg.Wait()
	}
	return rep
}

func runC09Race(seed uint64, tier string, out string) error {
	rep := c09Stress(seed, tier)
	rep.Race = raceEnabled
	b, _ := json.Marshal(rep)
	os.MkdirAll(out, 0o755)
	return os.WriteFile(filepath.Join(out, "race.json"), b, 0o644)
}

// builds a race-enabled copy of this harness and runs the stress part in it; falls back to an in-process run
func c09Concurrency(seed uint64, tier string, out string) (rep c09RaceReport, raceOutput string) {
	src := filepath.Join(verifRoot(), "tools", "harness")
	if a, err := filepath.Abs(out); err == nil {
		out = a
	}
	bin := filepath.Join(out, "harness_race")
	os.MkdirAll(out, 0o755)
	build := exec.Command("go", "build", "-race", "-o", bin, ".")
	build.Dir = src
	build.Env = os.Environ()
	done := make(chan error, 1)
	var bout []byte
	go func() {
		var err error
		bout, err = build.CombinedOutput()
		done <- err
	}()
	var berr error
	select {
	case berr = <-done:
	case <-time.After(240 * time.Second):
		if build.Process != nil {
			build.Process.Kill()
		}
		berr = fmt.Errorf("timeout")
	}
	if berr != nil {
		rep = c09Stress(seed, tier)
		rep.Note = "go build -race is not available here (" + berr.Error() + " " + strings.TrimSpace(string(bout)) + "): the concurrent runs were made without the race detector"
		return
	}
	cmd := exec.Command(bin, "C09RACE", "-seed", fmt.Sprint(seed), "-tier", tier, "-out", out)
	cmd.Env = append(os.Environ(), "GORACE=halt_on_error=0 exitcode=66")
	o, err := cmd.CombinedOutput()
	raceOutput = string(o)
	b, rerr := os.ReadFile(filepath.Join(out, "race.json"))
	if rerr == nil {
		json.Unmarshal(b, &rep)
	}
	if err != nil && !strings.Contains(raceOutput, "DATA RACE") {
		rep.Note = "race-enabled child failed: " + err.Error()
	}
	os.Remove(bin)
	return
}

type c09CaseRec struct {
	Scenario C09Scenario `json:"scenario"`
	Hist     *C16Hist    `json:"hist,omitempty"`
}

func c09D10aRegression() C09Scenario {
	s := C09Scenario{}
	s.C12 = C12Scenario{Kind: "regression", KBName: "KB", Version: "1"}
	I64 := eVar(vPath("F", "I64"))
	s.C12.Eng = EngScenario{MaxCycle: 10, CancelAt: -1, Listeners: 1, Fact: baseFact(), Rules: []*Rule{
		{Name: "R1", Desc: "one", Sal: 1, When: mkBin("<", I64, cInt(2)), Then: []*Stmt{assign(vPath("F", "I64"), "+=", cInt(1))}}}}
	s.C12.Facts = []*Fact{baseFact()}
	s.Rejected = []*Rule{{Name: "R1", Desc: "dup", Sal: 2, When: mkBin("<", I64, cInt(7)), Then: []*Stmt{assign(vPath("F", "I64"), "+=", cInt(3))}}}
	return s
}

func runC09Prop(seed uint64, tier string, out string) error {
	p := newPrng(seed ^ 0xC09C09)
	rep := newReport("C09", seed, tier)
	n, nCoq, nHist := 120, 32, 100
	if tier == "thorough" {
		n, nCoq, nHist = 5000, 600, 4000
	}
	var cases []string
	var index []interface{}
	distinct := map[string]bool{}
	// former witness of D10a (fixed by engine commit 4ed034e: the rejected rule's nodes no longer stay in the working memory):
	// runs first on every check and must pass; its graph goes to the model like any other
	{
		s := c09D10aRegression()
		r := runC09(s)
		rep.Evaluations++
		rep.count("regression scenarios of fixed findings")
		if len(r.Fails) > 0 {
			rep.fail(r.Fails[0], c09CaseRec{Scenario: s})
		}
		if r.BP != nil {
			index = append(index, c09CaseRec{Scenario: s})
			cases = append(cases, c09GallinaCase(len(index)-1, r.BP, r.InstOK, r.Inst))
		}
	}
	for i := 0; i < n; i++ {
		s := genC09(p.fork(), i)
		r := runC09(s)
		if r.Skipped {
			rep.count("scenario not built")
			continue
		}
		rep.Evaluations++
		rep.count("kind " + s.C12.Kind)
		if s.Extra != "" {
			rep.count("bracket template " + s.Extra)
		}
		for k, v := range r.Stats {
			rep.Distribution[k] += v
		}
		if len(r.Fails) > 0 {
			rep.fail(r.Fails[0], c09CaseRec{Scenario: s})
		}
		if len(s.C12.Eng.Rules) >= 2 {
			distinct[s.C12.Eng.grl()] = true
		}
		if len(cases) < nCoq && r.BP != nil && len(r.BP.Nodes) <= 400 {
			index = append(index, c09CaseRec{Scenario: s})
			cases = append(cases, c09GallinaCase(len(index)-1, r.BP, r.InstOK, r.Inst))
		}
		if i < 3 {
			rep.sample(map[string]interface{}{"grl": s.C12.Eng.grl(), "nodes": len(r.BP.Nodes)})
		}
	}
	// library histories (the C16 generator): NewKnowledgeBaseInstance succeeds for every built or loaded knowledge base,
	// instances stay copies of the library and are isolated from it (the shadow oracle of c16.go)
	hp := newPrng(seed ^ 0xC09161)
	for i := 0; i < nHist; i++ {
		r := genAndRunC16(hp.fork(), rep)
		rep.Evaluations++
		rep.count("library histories")
		if len(r.fails) > 0 {
			h := r.hist()
			rep.fail("C09 (library history): "+r.fails[0], c09CaseRec{Hist: &h})
		}
	}
	// (c) supporting evidence
	rr, raceOut := c09Concurrency(seed, tier, out)
	rep.Extra["concurrency_supporting_evidence"] = rr
	if strings.Contains(raceOut, "DATA RACE") {
		i := strings.Index(raceOut, "DATA RACE")
		end := i + 1500
		if end > len(raceOut) {
			end = len(raceOut)
		}
		rep.fail("C09 (supporting evidence, race detector): data race while goroutines create and execute their own instances:\n"+raceOut[i:end], c09CaseRec{})
	}
	for _, m := range rr.Mismatches {
		rep.fail("C09 (supporting evidence, concurrent runs): "+m, c09CaseRec{})
	}
	rep.Notes = append(rep.Notes, fmt.Sprintf("concurrency (supporting evidence, not an obligation): %d goroutines, %d concurrent create+execute runs compared with their sequential runs, race detector=%v %s", rr.Goroutines, rr.Runs, rr.Race, rr.Note))
	rep.Cases = len(cases)
	rep.DistinctNontrivial = len(distinct)
	rep.Rule = "generated knowledge bases (the C12 generator: random typed rule sets and templates with every node kind, in one or several resources, plus templates using an expression bare and bracketed; every second knowledge base then receives a resource that is rejected - a new rule and a duplicate name, all expressions new - and must be left exactly as it was); per knowledge base three instances: reflection walk of blueprint and instances (isomorphism along the canonical traversal, no shared mutable object), behaviour of instances against the blueprint of an identically built library on 2-3 fact sets, isolation dumps around execute / retract / remove in one instance; library histories of the C16 generator; non-trivial = at least two rules, distinct by rule text"
	if err := writeShards(out, "From Grule Require Import Base Clone CorrClone.", "c09_mismatches", "c09_case", cases, 16); err != nil {
		return err
	}
	return rep.write(out, index)
}

func replayC09(path string) (bool, string, error) {
	b, err := os.ReadFile(path)
	if err != nil {
		return false, "", err
	}
	var rp struct {
		Scenario c09CaseRec `json:"scenario"`
	}
	if err := json.Unmarshal(b, &rp); err != nil {
		return false, "", err
	}
	if rp.Scenario.Hist != nil {
		r := runC16Hist(*rp.Scenario.Hist)
		hb, _ := json.Marshal(rp.Scenario.Hist)
		if len(r.fails) > 0 {
			return true, strings.Join(r.fails, "\n") + "\n" + string(hb), nil
		}
		return false, string(hb), nil
	}
	s := rp.Scenario.Scenario
	fixScenarioFloats(&s.C12)
	for i := 0; i < 10; i++ {
		r := runC09(s)
		if len(r.Fails) > 0 {
			return true, strings.Join(r.Fails, "\n") + "\n" + s.C12.Eng.grl(), nil
		}
	}
	return false, s.C12.Eng.grl(), nil
}

func init() {
	runners["C09"] = runC09Prop
	runners["C09RACE"] = runC09Race
	replayers["C09"] = replayC09
}
