package main

// C20 generators: valid inputs of the four loaders, structure-aware mutators, the fixed
// battery of small edge cases, and the static predicates that delimit the known-finding
// regions (so that whatever the main stream reports is a different defect).

import (
	"bytes"
	"encoding/binary"
	"encoding/json"
	"fmt"
	"math"
	"strconv"
	"strings"

	"github.com/hyperjumptech/grule-rule-engine/ast"
)

// ---------------------------------------------------------------------------
// structural size of a text: the number of lexical elements a GRL parser (or the JSON
// rule translator + GRL parser) can turn into tree nodes.  White space, comments, quote
// characters, control bytes and characters no GRL token starts with do not count; a run
// of letters / digits / '_' / '.'-free non-ASCII bytes counts once whatever its length.
func c20Tokens(b []byte) int {
	n := 0
	i := 0
	for i < len(b) {
		c := b[i]
		switch {
		case c == '/' && i+1 < len(b) && b[i+1] == '/':
			for i < len(b) && b[i] != '\n' && b[i] != '\r' {
				i++
			}
		case c == '/' && i+1 < len(b) && b[i+1] == '*':
			j := strings.Index(string(b[i+2:]), "*/")
			if j < 0 {
				n++ // a '/' and a '*' follow as tokens; counted roughly
				i += 2
			} else {
				i += 2 + j + 2
			}
		case c >= '0' && c <= '9' || c >= 'a' && c <= 'z' || c >= 'A' && c <= 'Z' || c == '_' || c >= 0x80:
			n++
			for i < len(b) && (b[i] >= '0' && b[i] <= '9' || b[i] >= 'a' && b[i] <= 'z' || b[i] >= 'A' && b[i] <= 'Z' || b[i] == '_' || b[i] >= 0x80) {
				i++
			}
		case strings.IndexByte("(){}[];,.!-+*/%&|=<>:", c) >= 0:
			n++
			i++
		default:
			i++
		}
	}
	return n
}

// Region D23 (known finding): the GRL builder is super-linear in the number of lexical
// elements (every listener callback calls ctx.GetText(), which re-concatenates the whole
// sub-tree; the AST receivers recompute snapshots per level): cubic in nesting / chain
// depth, quadratic in the number of siblings.  Inputs of the GRL and JSON-rule loaders with
// more than c20RegionTokens elements are inside the region: the linear allocation / time
// bounds are not evaluated there, and they are loaded only up to c20LoadTokens elements.
const c20RegionTokens = 48
const c20LoadTokensQuick = 400
const c20LoadTokensThorough = 800

func inRegionD23(in *c20In, b []byte) bool {
	switch in.Loader {
	case ldGRL, ldJRule:
		return c20Tokens(b) > c20RegionTokens
	case ldJXlate:
		return c20JSONDepth(b) > c20RegionDepth
	}
	return false
}

// The translation stage alone re-concatenates the text of an operand at every nesting level ("(" + expr + ")"):
// quadratic in the nesting depth, which encoding/json caps at 10 000.  Part of D23; region: bracket depth above this.
const c20RegionDepth = 64

// largest bracket nesting depth of a JSON text (strings skipped)
func c20JSONDepth(b []byte) int {
	d, max := 0, 0
	inStr := false
	for i := 0; i < len(b); i++ {
		c := b[i]
		if inStr {
			if c == '\\' {
				i++
			} else if c == '"' {
				inStr = false
			}
			continue
		}
		switch c {
		case '"':
			inStr = true
		case '[', '{':
			d++
			if d > max {
				max = d
			}
		case ']', '}':
			if d > 0 {
				d--
			}
		}
	}
	return max
}

// ---------------------------------------------------------------------------
// valid inputs

func c20ValidGRL(p *prng) string {
	if p.chance(1, 4) {
		es := c17TypedSet(p.fork())
		return es.grl()
	}
	g := &sgen{p: p.fork(), spell: map[*Const]string{}}
	_, text, _ := g.document(1+p.intn(3), p.chance(1, 2))
	return text
}

func c20ValidJSONRule(p *prng) string {
	g := &jgen{p: p.fork()}
	n := 1
	array := p.chance(1, 2)
	if array {
		n = 1 + p.intn(3)
	}
	var rules []interface{}
	for i := 0; i < n; i++ {
		rules = append(rules, g.rule(i).toJSON())
	}
	var v interface{} = rules[0]
	if array {
		v = rules
	}
	var b []byte
	if p.chance(1, 3) {
		b, _ = json.MarshalIndent(v, "", "  ")
	} else {
		b, _ = json.Marshal(v)
	}
	return string(b)
}

var c20JSONStrings = []string{"", "a", "key", "Ünï", "tab\there", "quote\"inside", "back\\slash", "nul\x00byte", "emoji \U0001F600", "line\nbreak", "2006-01-02T15:04:05Z", "1e5", "true", "null", " ", "/"}
var c20JSONNumbers = []string{"0", "-0", "1", "-1", "7", "255", "2147483647", "2147483648", "-2147483649", "9007199254740992", "9007199254740993", "9223372036854775807", "9223372036854775808",
	"18446744073709551616", "1e308", "1e309", "-1e309", "1e-400", "4.9e-324", "0.1", "1.5", "1E+2", "1e21", "1e22", "123456789012345678901234567890", "0.000000000000000000000000000001", "1.7976931348623157e308"}

// literals that are not JSON numbers but look like numbers
var c20JSONBadNumbers = []string{"01", "+1", ".5", "1.", "0x10", "1e", "1e+", "-", "--1", "Infinity", "NaN", "1_000", "1,5", "0b1", "1f"}

func c20RandJSON(p *prng, d int) string {
	k := p.intn(9)
	if d <= 0 && k >= 6 {
		k = p.intn(6)
	}
	switch k {
	case 0:
		return "null"
	case 1:
		return pick(p, []string{"true", "false"})
	case 2, 3:
		return pick(p, c20JSONNumbers[:18])
	case 4, 5:
		b, _ := json.Marshal(pick(p, c20JSONStrings))
		return string(b)
	case 6, 7:
		n := p.intn(5)
		var xs []string
		for i := 0; i < n; i++ {
			xs = append(xs, c20RandJSON(p, d-1))
		}
		sep := pick(p, []string{",", ", ", " ,\n "})
		return "[" + strings.Join(xs, sep) + "]"
	default:
		n := p.intn(5)
		var xs []string
		for i := 0; i < n; i++ {
			kb, _ := json.Marshal(pick(p, c20JSONStrings))
			xs = append(xs, string(kb)+pick(p, []string{":", ": "})+c20RandJSON(p, d-1))
		}
		return "{" + strings.Join(xs, ",") + "}"
	}
}

func c20ValidJSONFact(p *prng) string {
	n := 1 + p.intn(5)
	var xs []string
	for i := 0; i < n; i++ {
		xs = append(xs, fmt.Sprintf("%q:%s", pick(p, []string{"name", "age", "tags", "addr", "ok", "score", "when", "x"})+strconv.Itoa(i), c20RandJSON(p, 1+p.intn(4))))
	}
	if p.chance(1, 6) {
		return c20RandJSON(p, 3) // any JSON value is a fact
	}
	return "{" + strings.Join(xs, ",") + "}"
}

// ---------------------------------------------------------------------------
// mutators

var c20NastyBytes = [][]byte{{0}, {0xff}, {0xfe, 0xff}, {0xef, 0xbb, 0xbf}, {0xc3, 0xa9}, {0xe2, 0x82, 0xac}, {0xf0, 0x9f, 0x98, 0x80}, {0xc0, 0x80}, {0xed, 0xa0, 0x80}, {0x80}, {0x1b}, {0x7f}, {'\r'}, {0x0b}, {0x0c}, {0xc2}, {0xe2, 0x80, 0xa8}}

// byte-level mutation of any input
func c20ByteMutate(p *prng, base, other []byte) ([]byte, string) {
	b := append([]byte(nil), base...)
	if len(b) == 0 {
		return []byte{byte(p.intn(256))}, "byte into empty"
	}
	switch p.intn(12) {
	case 0:
		for k := 1 + p.intn(3); k > 0; k-- {
			b[p.intn(len(b))] ^= 1 << uint(p.intn(8))
		}
		return b, "bit flip"
	case 1:
		b[p.intn(len(b))] = byte(p.intn(256))
		return b, "byte"
	case 2:
		return b[:p.intn(len(b))], "truncate"
	case 3:
		return b[p.intn(len(b)):], "drop head"
	case 4:
		if len(other) > 0 {
			return append(b[:p.intn(len(b))], other[p.intn(len(other)):]...), "splice"
		}
		return b[:len(b)/2], "truncate"
	case 5:
		i := p.intn(len(b))
		j := i + p.intn(len(b)-i)
		return append(append(append([]byte(nil), b[:j]...), b[i:j]...), b[j:]...), "duplicate"
	case 6:
		i := p.intn(len(b))
		j := i + p.intn(len(b)-i)
		return append(b[:i], b[j:]...), "delete"
	case 7, 8:
		i := p.intn(len(b) + 1)
		ins := pick(p, c20NastyBytes)
		return append(append(append([]byte(nil), b[:i]...), ins...), b[i:]...), "insert NUL / non-ASCII"
	case 9:
		// a short range repeated many times
		i := p.intn(len(b))
		w := 1 + p.intn(4)
		if i+w > len(b) {
			w = len(b) - i
		}
		k := pick(p, []int{8, 16, 64, 256, 1024})
		var out []byte
		out = append(out, b[:i]...)
		for ; k > 0; k-- {
			out = append(out, b[i:i+w]...)
		}
		return append(out, b[i+w:]...), "repeat range"
	case 10:
		i := p.intn(len(b) + 1)
		n := 1 + p.intn(6)
		ins := make([]byte, n)
		for k := range ins {
			ins[k] = byte(p.intn(256))
		}
		return append(append(append([]byte(nil), b[:i]...), ins...), b[i:]...), "insert random bytes"
	default:
		i, j := p.intn(len(b)), p.intn(len(b))
		b[i], b[j] = b[j], b[i]
		return b, "swap bytes"
	}
}

// boundary number literals of GRL (integers in three bases, floats, hex floats, exponents)
var c20GRLNumbers = []string{"0", "1", "2147483647", "2147483648", "4294967295", "4294967296", "9223372036854775807", "9223372036854775808", "18446744073709551615", "18446744073709551616",
	"99999999999999999999999", "0x7fffffff", "0x80000000", "0xFFFFFFFF", "0x7FFFFFFFFFFFFFFF", "0x8000000000000000", "0xFFFFFFFFFFFFFFFF", "0x10000000000000000", "017777777777", "020000000000",
	"0777777777777777777777", "01777777777777777777777", "07777777777777777777777777", "00", "08", "09", "0x", "1e5", "1e308", "1e309", "1e-400", "1e999999999", "1.7976931348623157e308", "4.9e-324", ".5", "5.", "0x1p-2", "0x1p1024", "0x1p-1075",
	"0x.p1", "1e", "1e+", "0e0", "1_000", "1__0", "0b101", "0o17", "1.2.3", "1e5e5", "00000000000000000000000000000000000000001", "0.00000000000000000000000000000000000000000000001"}

// GRL text: token-level edits, boundary numbers, truncation at every kind of boundary
func c20GRLMutate(p *prng, text string, other string) (string, string) {
	ps := c17Pieces(text)
	if len(ps) == 0 {
		return text, "none"
	}
	idx := func(kind byte) []int {
		var r []int
		for i, pc := range ps {
			if pc.kind == kind {
				r = append(r, i)
			}
		}
		return r
	}
	cp := func() []piece { return append([]piece(nil), ps...) }
	switch p.intn(12) {
	case 0, 1, 2:
		t, kind, _, _ := c17Mutate(p, text)
		return t, "token edit (" + kind + ")"
	case 3, 4:
		// a number literal (salience included) becomes a boundary number
		ns := idx('n')
		if len(ns) == 0 {
			return text + " " + pick(p, c20GRLNumbers), "append number"
		}
		q := cp()
		k := ns[p.intn(len(ns))]
		lit := pick(p, c20GRLNumbers)
		if p.chance(1, 4) {
			lit = "-" + lit
		}
		q[k].s = lit
		return joinPieces(q), "boundary number"
	case 5:
		// the number after `salience`
		q := cp()
		for i, pc := range q {
			if pc.kind == 'i' && strings.EqualFold(pc.s, "salience") {
				for j := i + 1; j < len(q); j++ {
					if q[j].kind == 'n' {
						lit := pick(p, c20GRLNumbers)
						q[j].s = lit
						return joinPieces(q), "boundary salience"
					}
					if q[j].kind != 'w' && q[j].s != "-" {
						break
					}
				}
			}
		}
		return text, "none"
	case 6:
		// truncation at a boundary: after a piece of a chosen kind, or inside it
		kinds := []byte{'w', 's', 'i', 'n', 'o'}
		ks := idx(kinds[p.intn(len(kinds))])
		if len(ks) == 0 {
			return text[:p.intn(len(text)+1)], "truncate"
		}
		k := ks[p.intn(len(ks))]
		var sb strings.Builder
		for i := 0; i < k; i++ {
			sb.WriteString(ps[i].s)
		}
		switch p.intn(3) {
		case 0:
			return sb.String(), "truncate before a " + string(ps[k].kind) + " piece"
		case 1:
			return sb.String() + ps[k].s, "truncate after a " + string(ps[k].kind) + " piece"
		default:
			return sb.String() + ps[k].s[:p.intn(len(ps[k].s)+1)], "truncate inside a " + string(ps[k].kind) + " piece"
		}
	case 7:
		// unterminated string or comment from some point on
		k := p.intn(len(ps))
		var sb strings.Builder
		for i := 0; i < k; i++ {
			sb.WriteString(ps[i].s)
		}
		sb.WriteString(pick(p, []string{"\"", "'", "/*", "//", "\"\\", "'\\\\"}))
		for i := k; i < len(ps); i++ {
			sb.WriteString(strings.NewReplacer("\"", " ", "'", " ", "*/", " ", "\n", " ", "\r", " ").Replace(ps[i].s))
		}
		return sb.String(), "unterminated string / comment"
	case 8:
		// a string literal with a boundary escape
		ss := idx('s')
		if len(ss) == 0 {
			return text, "none"
		}
		q := cp()
		q[ss[p.intn(len(ss))]].s = pick(p, []string{"\"\\x\"", "\"\\xZZ\"", "\"\\u12\"", "\"\\U0011FFFF\"", "\"\\ud800\"", "\"\\400\"", "\"\\8\"", "\"\\\"", "\"\\q\"", "'\\''", "\"\x00\"", "\"\xff\"", "\"\\\n\"", "\"\\u0000\"", "''", "\"\"\"\""})
		return joinPieces(q), "boundary string escape"
	case 9:
		// an identifier becomes a long / odd one
		is := idx('i')
		if len(is) == 0 {
			return text, "none"
		}
		q := cp()
		q[is[p.intn(len(is))]].s = pick(p, []string{strings.Repeat("a", 300), strings.Repeat("Z9_", 100), "é", "a\x00b", "_a", "a.b.c.d.e.f.g.h", "RULE", "When", "THEN", "Salience", "NIL", "True", "e1", "E", "p", "x0"})
		return joinPieces(q), "odd identifier"
	case 10:
		b, m := c20ByteMutate(p, []byte(text), []byte(other))
		return string(b), m
	default:
		// a small well-nested group around a token (stays below the region threshold on small documents)
		k := p.intn(len(ps))
		q := cp()
		d := 1 + p.intn(6)
		br := pick(p, [][2]string{{"(", ")"}, {"!(", ")"}, {"[", "]"}, {"{", "}"}, {"f(", ")"}})
		q[k].s = strings.Repeat(br[0], d) + q[k].s + strings.Repeat(br[1], d-p.intn(2))
		return joinPieces(q), "nesting"
	}
}

// JSON text: structure-aware edits on the token sequence
type jtok struct {
	s    string
	kind byte // s string, n number, l literal (true false null), p punctuation, w white, x other
}

func c20JSONTokens(t string) []jtok {
	var ts []jtok
	i := 0
	for i < len(t) {
		c := t[i]
		j := i + 1
		kind := byte('x')
		switch {
		case c == ' ' || c == '\t' || c == '\n' || c == '\r':
			for j < len(t) && (t[j] == ' ' || t[j] == '\t' || t[j] == '\n' || t[j] == '\r') {
				j++
			}
			kind = 'w'
		case c == '"':
			kind = 's'
			for j < len(t) {
				if t[j] == '\\' && j+1 < len(t) {
					j += 2
					continue
				}
				if t[j] == '"' {
					j++
					break
				}
				j++
			}
		case c == '-' || c >= '0' && c <= '9':
			for j < len(t) && (t[j] >= '0' && t[j] <= '9' || t[j] == '.' || t[j] == 'e' || t[j] == 'E' || t[j] == '+' || t[j] == '-') {
				j++
			}
			kind = 'n'
		case c >= 'a' && c <= 'z':
			for j < len(t) && t[j] >= 'a' && t[j] <= 'z' {
				j++
			}
			kind = 'l'
		case strings.IndexByte("{}[],:", c) >= 0:
			kind = 'p'
		}
		ts = append(ts, jtok{t[i:j], kind})
		i = j
	}
	return ts
}

func joinJ(ts []jtok) string {
	var b strings.Builder
	for _, t := range ts {
		b.WriteString(t.s)
	}
	return b.String()
}

// the token range [i, j) of the value that starts at token i
func jValueEnd(ts []jtok, i int) int {
	if i >= len(ts) {
		return i
	}
	if ts[i].kind == 'p' && (ts[i].s == "{" || ts[i].s == "[") {
		d := 0
		for j := i; j < len(ts); j++ {
			if ts[j].kind == 'p' {
				switch ts[j].s {
				case "{", "[":
					d++
				case "}", "]":
					d--
					if d == 0 {
						return j + 1
					}
				}
			}
		}
		return len(ts)
	}
	return i + 1
}

// start positions of values with their nesting depth
func jValueStarts(ts []jtok) (pos []int, depth []int) {
	d := 0
	prev := byte(0) // last non-white punctuation: 0 start, '[' ',' ':' '{'
	inObj := []bool{}
	expectKey := false
	for i, t := range ts {
		if t.kind == 'w' {
			continue
		}
		isVal := false
		switch {
		case prev == 0 || prev == '[' || prev == ':':
			isVal = true
		case prev == ',':
			isVal = !(len(inObj) > 0 && inObj[len(inObj)-1]) // after a comma inside an object comes a key
		}
		if expectKey {
			isVal = false
		}
		if isVal && !(t.kind == 'p' && (t.s == "]" || t.s == "}" || t.s == "," || t.s == ":")) {
			pos = append(pos, i)
			depth = append(depth, d)
		}
		expectKey = false
		if t.kind == 'p' {
			switch t.s {
			case "{":
				d++
				inObj = append(inObj, true)
				expectKey = false
				prev = '{'
			case "[":
				d++
				inObj = append(inObj, false)
				prev = '['
			case "}", "]":
				if d > 0 {
					d--
				}
				if len(inObj) > 0 {
					inObj = inObj[:len(inObj)-1]
				}
				prev = 'v'
			case ",":
				prev = ','
			case ":":
				prev = ':'
			}
		} else {
			prev = 'v'
		}
	}
	return
}

var c20JSONValuePool = []string{"null", "true", "false", "0", "-1", "1.5", "1e999", "\"\"", "\"x\"", "[]", "{}", "[null]", "[[]]", "[{}]", "{\"a\":null}", "{\"\":{}}", "[1,2,3]",
	"\"\\u0000\"", "\"\\ud800\"", "{\"and\":[]}", "{\"eq\":[1]}", "{\"const\":null}", "{\"obj\":1}", "{\"call\":[]}", "{\"call\":[1]}", "{\"set\":[1]}", "{\"not\":[]}", "{\"or\":[{},{}]}",
	"{\"and\":null}", "{\"eq\":null}", "{\"eq\":{}}", "{\"eq\":\"x\"}", "{\"plus\":[null,null]}", "{\"const\":[]}", "{\"const\":{}}", "{\"a\":1,\"b\":2}", "123456789012345678901234567890"}

func c20JSONMutate(p *prng, text string, other string) (string, string) {
	ts := c20JSONTokens(text)
	if len(ts) == 0 {
		return pick(p, c20JSONValuePool), "value into empty"
	}
	cp := func() []jtok { return append([]jtok(nil), ts...) }
	idx := func(kind byte) []int {
		var r []int
		for i, t := range ts {
			if t.kind == kind {
				r = append(r, i)
			}
		}
		return r
	}
	switch p.intn(14) {
	case 0, 1, 2:
		// a value (chosen by nesting depth first, so that shallow positions are as likely as leaves) is replaced
		pos, depth := jValueStarts(ts)
		if len(pos) == 0 {
			return text, "none"
		}
		maxd := 0
		for _, d := range depth {
			if d > maxd {
				maxd = d
			}
		}
		want := p.intn(maxd + 1)
		var cand []int
		for k, d := range depth {
			if d == want {
				cand = append(cand, pos[k])
			}
		}
		if len(cand) == 0 {
			cand = pos
		}
		i := cand[p.intn(len(cand))]
		j := jValueEnd(ts, i)
		v := pick(p, c20JSONValuePool)
		if p.chance(1, 4) {
			v = "null"
		}
		out := joinJ(ts[:i]) + v + joinJ(ts[j:])
		return out, "value replaced"
	case 3:
		// an element is inserted into an array / a member into an object
		var opens, odepth []int
		{
			d := 0
			for i, t := range ts {
				if t.kind != 'p' {
					continue
				}
				switch t.s {
				case "[", "{":
					opens = append(opens, i)
					odepth = append(odepth, d)
					d++
				case "]", "}":
					if d > 0 {
						d--
					}
				}
			}
		}
		if len(opens) == 0 {
			return "[" + text + "," + pick(p, c20JSONValuePool) + "]", "wrapped in array"
		}
		// the container is chosen by its depth first: the outermost array is as likely as the innermost ones together
		{
			maxd := 0
			for _, d := range odepth {
				if d > maxd {
					maxd = d
				}
			}
			want := p.intn(maxd + 1)
			var cand []int
			for k, d := range odepth {
				if d == want {
					cand = append(cand, opens[k])
				}
			}
			if len(cand) > 0 {
				opens = cand
			}
		}
		i := opens[p.intn(len(opens))]
		v := pick(p, c20JSONValuePool)
		if p.chance(1, 3) {
			v = "null"
		}
		if ts[i].s == "{" {
			v = pick(p, []string{"\"name\"", "\"when\"", "\"then\"", "\"salience\"", "\"desc\"", "\"x\"", "\"\"", "\"and\"", "\"Name\""}) + ":" + v
		}
		empty := i+1 < len(ts) && ts[i+1].kind == 'p' && (ts[i+1].s == "]" || ts[i+1].s == "}")
		if !empty {
			v += ","
		}
		return joinJ(ts[:i+1]) + v + joinJ(ts[i+1:]), "element inserted"
	case 4:
		ns := idx('n')
		if len(ns) == 0 {
			return text, "none"
		}
		q := cp()
		if p.chance(1, 4) {
			q[ns[p.intn(len(ns))]].s = pick(p, c20JSONBadNumbers)
			return joinJ(q), "malformed number"
		}
		q[ns[p.intn(len(ns))]].s = pick(p, c20JSONNumbers)
		return joinJ(q), "boundary number"
	case 5:
		ss := idx('s')
		if len(ss) == 0 {
			return text, "none"
		}
		q := cp()
		q[ss[p.intn(len(ss))]].s = pick(p, []string{"\"\\u12\"", "\"\\x41\"", "\"\\ud800\"", "\"\\udc00\\ud800\"", "\"\\\"", "\"a\nb\"", "\"\x00\"", "\"\xff\xfe\"", "\"\\u0000\"", "\"" + strings.Repeat("\\\\", 200) + "\"",
			"\"" + strings.Repeat("a", 2000) + "\"", "\"!!!!!!!!true\"", "\"((((1))))\"", "\"F.X = 1\"", "\"\"", "\"\\/\"", "'single'", "\"unterminated"})
		return joinJ(q), "boundary string"
	case 6:
		// truncation at a structural boundary
		kinds := []byte{'p', 's', 'n', 'l', 'w'}
		ks := idx(kinds[p.intn(len(kinds))])
		if len(ks) == 0 {
			return text[:p.intn(len(text)+1)], "truncate"
		}
		k := ks[p.intn(len(ks))]
		switch p.intn(3) {
		case 0:
			return joinJ(ts[:k]), "truncate before a " + string(ts[k].kind) + " token"
		case 1:
			return joinJ(ts[:k+1]), "truncate after a " + string(ts[k].kind) + " token"
		default:
			return joinJ(ts[:k]) + ts[k].s[:p.intn(len(ts[k].s)+1)], "truncate inside a " + string(ts[k].kind) + " token"
		}
	case 7:
		// punctuation edits: delete / swap bracket kind / duplicate
		ps := idx('p')
		if len(ps) == 0 {
			return text, "none"
		}
		q := cp()
		k := ps[p.intn(len(ps))]
		switch p.intn(3) {
		case 0:
			q[k].s = ""
		case 1:
			q[k].s = map[string]string{"{": "[", "[": "{", "}": "]", "]": "}", ",": ":", ":": ","}[q[k].s]
		default:
			q[k].s = q[k].s + q[k].s
		}
		return joinJ(q), "punctuation edit"
	case 8:
		// a key is renamed / duplicated
		ss := idx('s')
		if len(ss) == 0 {
			return text, "none"
		}
		q := cp()
		q[ss[p.intn(len(ss))]].s = pick(p, []string{"\"name\"", "\"when\"", "\"then\"", "\"salience\"", "\"desc\"", "\"NAME\"", "\"When\"", "\"and\"", "\"or\"", "\"eq\"", "\"not\"", "\"set\"", "\"call\"", "\"obj\"", "\"const\"", "\"plus\"", "\"\""})
		return joinJ(q), "key / string renamed"
	case 9:
		ls := idx('l')
		if len(ls) == 0 {
			return text, "none"
		}
		q := cp()
		q[ls[p.intn(len(ls))]].s = pick(p, []string{"nul", "True", "FALSE", "nil", "undefined", "NaN", "tru", "nulll"})
		return joinJ(q), "literal misspelt"
	case 10:
		// a moderately deep nest around / instead of a value
		pos, _ := jValueStarts(ts)
		if len(pos) == 0 {
			return text, "none"
		}
		i := pos[p.intn(len(pos))]
		j := jValueEnd(ts, i)
		d := pick(p, []int{2, 5, 10})
		br := pick(p, [][2]string{{"[", "]"}, {"{\"a\":", "}"}, {"{\"and\":[", "]}"}, {"{\"eq\":[", ",1]}"}, {"{\"not\":[", "]}"}})
		return joinJ(ts[:i]) + strings.Repeat(br[0], d) + joinJ(ts[i:j]) + strings.Repeat(br[1], d) + joinJ(ts[j:]), "nesting"
	case 11:
		return pick(p, []string{"\xef\xbb\xbf", " ", "\n", "\x00", "//c\n", "/**/"}) + text, "prefix"
	default:
		b, m := c20ByteMutate(p, []byte(text), []byte(other))
		return string(b), m
	}
}

// ---------------------------------------------------------------------------
// the fixed battery: small edge cases, the same on every run and for every seed

func c20Battery() []*c20In {
	var ins []*c20In
	add := func(loader, kind, s string) { ins = append(ins, rawIn(loader, "battery: "+kind, []byte(s))) }
	// every loader: nothing, white space, single bytes
	for _, ld := range c20Loaders {
		for _, s := range []string{"", " ", "\n", "\x00", "\xff", "\xef\xbb\xbf", "{", "}", "[", "]", "\"", "'", "/", "/*", "//", "0", "-", "null", "true", "rule", "{}", "[]", "\"\"", "[[", "{{", "}{", "][", ",", ":", ";", "\\"} {
			add(ld, "tiny", s)
		}
	}
	// GRL: boundary numbers in every literal position
	for _, lit := range c20GRLNumbers {
		for _, sign := range []string{"", "-"} {
			add(ldGRL, "number as salience", "rule R \"d\" salience "+sign+lit+" { when true then F.X = 1; }")
			add(ldGRL, "number in condition", "rule R \"d\" { when F.X == "+sign+lit+" then F.X = 1; }")
			add(ldGRL, "number in action", "rule R \"d\" { when true then F.X = "+sign+lit+"; }")
		}
		add(ldGRL, "number as selector", "rule R \"d\" { when F.A["+lit+"] == 1 then F.A["+lit+"] = 1; }")
		add(ldGRL, "number as argument", "rule R \"d\" { when F.M("+lit+") then F.M("+lit+", "+lit+"); }")
	}
	for _, s := range []string{
		"rule", "rule R", "rule R {", "rule R { when", "rule R { when true", "rule R { when true then", "rule R { when true then }", "rule R { when then F.X = 1; }", "rule R { when true then F.X = 1 }",
		"rule R \"d\" salience { when true then F.X = 1; }", "rule R \"d\" salience - { when true then F.X = 1; }", "rule R \"d\" salience -- 1 { when true then F.X = 1; }",
		"rule R \"d\" salience 1.5 { when true then F.X = 1; }", "rule R \"d\" salience \"1\" { when true then F.X = 1; }", "rule R \"d\" salience true { when true then F.X = 1; }",
		"rule R \"d\" salience 1 salience 2 { when true then F.X = 1; }", "rule R \"d\" \"e\" { when true then F.X = 1; }", "rule \"R\" { when true then F.X = 1; }", "rule 1 { when true then F.X = 1; }",
		"rule R 'd' { when true then F.X = 1; }", "rule R \"d { when true then F.X = 1; }", "rule R \"\\\" { when true then F.X = 1; }", "rule R \"\\q\" { when true then F.X = 1; }",
		"rule R { when \"\\q\" == F.S then F.X = 1; }", "rule R { when \"\\x\" == F.S then F.X = 1; }", "rule R { when '' == F.S then F.X = ''''; }", "rule R { when \"\\U0011FFFF\" == F.S then F.X = 1; }",
		"rule R { when nil then F.X = nil; }", "rule R { when -nil then F.X = -true; }", "rule R { when !!!!true then !F.X; }", "rule R { when ((((((true)))))) then ((F.X)) = 1; }", "rule R { when F.X() then F.X()(); }",
		"rule R { when F..X then F.X = 1; }", "rule R { when .X then F.X = 1; }", "rule R { when F. then F.X = 1; }", "rule R { when F[1 then F.X = 1; }", "rule R { when F[] then F.X = 1; }", "rule R { when F.X( then F.X = 1; }",
		"rule R { when f(,) then F.X = 1; }", "rule R { when f(1,) then F.X = 1; }", "rule R { when 1 + then F.X = 1; }", "rule R { when + 1 then F.X = 1; }", "rule R { when 1 = 1 then F.X = 1; }", "rule R { when F.X += 1 then F.X = 1; }",
		"rule R { when true then 1 = F.X; }", "rule R { when true then F.X = ; }", "rule R { when true then = 1; }", "rule R { when true then ; }", "rule R { when true then F.X == 1; }", "rule R { when true then F.X = 1;; }",
		"rule R { when true then F.X = 1; } }", "{ rule R { when true then F.X = 1; }", "rule R { when true then F.X = 1; } rule", "rule R { when true then F.X = 1; } rule R { when true then F.X = 1; }",
		"rule R { when true then F.X = 1; } garbage", "garbage rule R { when true then F.X = 1; }", "RULE R { WHEN TRUE THEN F.X = 1; }", "rule rule { when true then F.X = 1; }", "rule when { when true then F.X = 1; }",
		"rule R { when when then then; }", "rule R { when true then then = 1; }", "rule R { when e+5 then F.X = p-1; }", "rule R { when 1e+5 then F.X = 0x1p-1; }", "rule R { when F.e+5 then F.X = 1; }",
		"/* rule R { when true then F.X = 1; }", "// rule R { when true then F.X = 1; }", "rule R /* c */ { when /* c */ true then F.X = 1; /* */ }", "rule R { when true then F.X = 1; } /*", "rule R { when true then F.X = 1; } //",
		"rule R { when true then F.X = 1; }\x00", "\x00rule R { when true then F.X = 1; }", "rule R { when t\x00rue then F.X = 1; }", "rule R\xff { when true then F.X = 1; }", "rule é { when true then F.X = 1; }",
		"rule R { when \"é\" == 'ü' then F.X = \"\xff\"; }", "rule R { when F.é then F.X = 1; }", "\xef\xbb\xbfrule R { when true then F.X = 1; }", "rule R { when true then F.X = 1; }\r\n", "rule\tR\t{\twhen\ttrue\tthen\tF.X\t=\t1;\t}",
		"rule R { when true then Retract(\"R\"); Complete(); Forget(\"F.X\"); Changed(\"F.X\"); Log(\"x\"); }", "rule R { when Now().Unix() > 0 && MakeTime(1,2,3,4,5,6).IsZero() then F.X = Max(1,2,3); }",
		"rule R { when true then F.X = \"a\" + 1 - true * nil / 2.5 % 'x'; }", "rule R { when 1 < 2 < 3 == 4 != 5 >= 6 <= 7 then F.X = 1 & 2 | 3; }", "rule R { when a && b || c && !d || !(e) then x.y.z = 1; }",
	} {
		add(ldGRL, "small document", s)
	}
	// JSON rules: every small value at every position of a rule
	vals := []string{"null", "true", "false", "0", "1", "-1", "1.5", "1e999", "2147483648", "1e21", "\"\"", "\"x\"", "\"true\"", "\"F.X = 1\"", "[]", "{}", "[null]", "[[]]", "[{}]", "[\"x\"]", "[1]", "{\"a\":1}",
		"{\"and\":[]}", "{\"and\":[{},{}]}", "{\"and\":[null,null]}", "{\"eq\":[]}", "{\"eq\":[null]}", "{\"eq\":[1,2]}", "{\"eq\":[[],{}]}", "{\"not\":[true]}", "{\"const\":null}", "{\"const\":1}", "{\"obj\":null}", "{\"call\":[]}",
		"{\"call\":[null]}", "{\"call\":[\"f\",null]}", "{\"call\":[\"f\",[]]}", "{\"set\":[]}", "{\"set\":[null,null]}", "{\"set\":[\"F.X\",{}]}", "{\"plus\":[{\"plus\":[{}]}]}"}
	for _, v := range vals {
		add(ldJRule, "value at top level", v)
		add(ldJRule, "value as array element", "["+v+"]")
		add(ldJRule, "value after a good rule", "[{\"name\":\"R\",\"when\":\"true\",\"then\":[\"F.X = 1\"]},"+v+"]")
		add(ldJRule, "value before a good rule", "["+v+",{\"name\":\"R\",\"when\":\"true\",\"then\":[\"F.X = 1\"]}]")
		add(ldJRule, "value as name", "{\"name\":"+v+",\"when\":\"true\",\"then\":[\"F.X = 1\"]}")
		add(ldJRule, "value as desc", "{\"name\":\"R\",\"desc\":"+v+",\"when\":\"true\",\"then\":[\"F.X = 1\"]}")
		add(ldJRule, "value as salience", "{\"name\":\"R\",\"salience\":"+v+",\"when\":\"true\",\"then\":[\"F.X = 1\"]}")
		add(ldJRule, "value as when", "{\"name\":\"R\",\"when\":"+v+",\"then\":[\"F.X = 1\"]}")
		add(ldJRule, "value as then", "{\"name\":\"R\",\"when\":\"true\",\"then\":"+v+"}")
		add(ldJRule, "value as action", "{\"name\":\"R\",\"when\":\"true\",\"then\":["+v+"]}")
		add(ldJRule, "value as operand", "{\"name\":\"R\",\"when\":{\"eq\":["+v+","+v+"]},\"then\":[{\"set\":["+v+","+v+"]}]}")
		add(ldJRule, "value as compound operand", "{\"name\":\"R\",\"when\":{\"and\":["+v+","+v+"]},\"then\":[{\"call\":[\"f\","+v+"]}]}")
		add(ldJFact, "small value", v)
		add(ldJFact, "small value in object", "{\"a\":"+v+",\"a\":"+v+"}")
	}
	for _, s := range []string{"{\"name\":\"R\"}", "{\"name\":\"R\",\"when\":\"true\"}", "{\"name\":\"R\",\"then\":[]}", "{\"when\":\"true\",\"then\":[\"F.X = 1\"]}", "{\"name\":\"\",\"when\":\"true\",\"then\":[\"x\"]}",
		"{\"name\":\"R\",\"when\":\"true\",\"then\":[]}", "{\"name\":\"R S\",\"when\":\"true\",\"then\":[\"F.X = 1\"]}", "{\"name\":\"R\",\"when\":\"\",\"then\":[\"\"]}", "{\"name\":\"R\",\"when\":\"(((\",\"then\":[\";;;\"]}",
		"{\"name\":\"R\",\"desc\":\"\\u0000\\\"\\\\\",\"when\":\"true\",\"then\":[\"F.X = 1\"]}", "{\"name\":\"R\\\"\",\"when\":\"true\",\"then\":[\"F.X = 1\"]}", "{\"name\":\"R { when true then X(); } rule Q\",\"when\":\"true\",\"then\":[\"F.X = 1\"]}",
		"{\"name\":\"R\",\"salience\":1e400,\"when\":\"true\",\"then\":[\"F.X = 1\"]}", "{\"name\":\"R\",\"salience\":99999999999,\"when\":\"true\",\"then\":[\"F.X = 1\"]}", "{\"name\":\"R\",\"salience\":-2147483649,\"when\":\"true\",\"then\":[\"F.X = 1\"]}",
		"{\"name\":\"R\",\"salience\":9223372036854775807,\"when\":\"true\",\"then\":[\"F.X = 1\"]}", "{\"name\":\"R\",\"salience\":9223372036854775808,\"when\":\"true\",\"then\":[\"F.X = 1\"]}",
		"{\"NAME\":\"R\",\"WHEN\":\"true\",\"THEN\":[\"F.X = 1\"]}", "{\"name\":\"R\",\"name\":\"S\",\"when\":\"true\",\"then\":[\"F.X = 1\"]}", "{\"name\":\"R\",\"when\":\"true\",\"then\":[\"F.X = 1\"]}{}", "{\"name\":\"R\",\"when\":\"true\",\"then\":[\"F.X = 1\"]} x",
		"[{\"name\":\"R\",\"when\":\"true\",\"then\":[\"F.X = 1\"]},{\"name\":\"R\",\"when\":\"true\",\"then\":[\"F.X = 1\"]}]", " \n\t[ ]", "\xef\xbb\xbf{}", "{\"name\":\"R\",\"when\":{\"const\":1e21},\"then\":[{\"const\":1e-7}]}",
		"{\"name\":\"R\",\"when\":{\"eq\":[{\"const\":\"\\ud800\"},{\"const\":\"\\u0000\"}]},\"then\":[\"F.X = 1\"]}", "{\"name\":\"R\",\"when\":{\"and\":[{\"or\":[{\"eq\":[1,1]},{\"eq\":[1,1]}]},{\"not\":[{\"eq\":[1,1]}]}]},\"then\":[\"F.X = 1\"]}"} {
		add(ldJRule, "small document", s)
	}
	for _, n := range c20JSONNumbers {
		add(ldJFact, "number", n)
		add(ldJFact, "number in array", "["+n+",-"+n+"]")
		add(ldJRule, "number as salience", "{\"name\":\"R\",\"salience\":"+n+",\"when\":\"true\",\"then\":[\"F.X = 1\"]}")
		add(ldJRule, "number as constant", "{\"name\":\"R\",\"when\":{\"eq\":[{\"const\":"+n+"},"+n+"]},\"then\":[{\"set\":[\"F.X\","+n+"]}]}")
	}
	for _, n := range c20JSONBadNumbers {
		add(ldJFact, "malformed number", "["+n+"]")
		add(ldJRule, "malformed number", "{\"name\":\"R\",\"salience\":"+n+",\"when\":\"true\",\"then\":[\"F.X = 1\"]}")
	}
	for _, s := range []string{"\"\\u12\"", "\"\\x41\"", "\"\\ud800\"", "\"\\udc00\"", "\"\\ud83d\\ude00\"", "\"a\nb\"", "\"\x00\"", "\"\xff\"", "\"\\\"", "\"\\", "\"abc", "'a'", "{\"a\"}", "{\"a\":}", "{:1}", "{\"a\":1,}", "[1,]", "[,1]", "[1 2]",
		"{\"a\":1 \"b\":2}", "{\"a\" 1}", "{1:1}", "{null:1}", "[1]]", "{}}", "[1][2]", "{} {}", "nul", "tru", "truee", "nullnull", "- 1", "1 .5", "/*c*/1", "//c\n1", "{\"a\":{\"a\":{\"a\":{\"a\":{\"a\":{\"a\":{\"a\":{}}}}}}}}",
		"{\"t\":\"2006-01-02T15:04:05Z\",\"n\":null,\"b\":false,\"f\":1.5,\"i\":7,\"s\":\"x\",\"a\":[1,\"x\",null,{}],\"o\":{\"k\":[]}}"} {
		add(ldJFact, "small document", s)
	}
	for _, b := range c20HostileConstStreams() {
		ins = append(ins, rawIn(ldBin, "battery: string constant with a hostile / short inner length", b))
	}
	return ins
}

// ---------------------------------------------------------------------------
// random bytes

func c20RandomBytes(p *prng, loader string) *c20In {
	n := pick(p, []int{1, 2, 3, 5, 8, 13, 21, 40, 80, 150, 300, 1000, 4000})
	n = 1 + p.intn(n)
	b := make([]byte, n)
	kind := "random bytes"
	switch p.intn(4) {
	case 0:
		for i := range b {
			b[i] = byte(p.intn(256))
		}
	case 1:
		kind = "random printable ASCII"
		for i := range b {
			b[i] = byte(32 + p.intn(95))
		}
	case 2:
		kind = "random bytes of the loader's alphabet"
		alpha := map[string]string{
			ldGRL:   "rulewhenthensalience RF.X=1;(){}[]\"'!&|<>+-*/%,\n\t0123456789eExXpP_\\",
			ldJRule: "{}[]\":,namewhenthensalienceandoreqnotsetcallobjconst 0123456789.-eE\\truefalsenull\n",
			ldJFact: "{}[]\":, 0123456789.-eE\\truefalsenullabc\n\t",
			ldBin:   "\x00\x01\x02\x03\x04\x07\x08\x0c\xff1.8",
		}[loader]
		for i := range b {
			b[i] = alpha[p.intn(len(alpha))]
		}
	default:
		kind = "random bytes, mostly small values"
		for i := range b {
			b[i] = byte(p.intn(256) * p.intn(2) * p.intn(2))
		}
	}
	return rawIn(loader, kind, b)
}

func c20IsFinite(f float64) bool { return !math.IsInf(f, 0) && !math.IsNaN(f) }

// Regression inputs for the repaired length-prefix handling of the constant rebuild (engine commit 2f18ef4,
// BuildKnowledgeBase: the 8-byte length inside ConstantMeta.ValueBytes): a catalog holding one string constant
// whose value block is vb.  A block shorter than 8 bytes is read as if padded with zeros.
func c20ConstStream(vb []byte) []byte {
	cat := &ast.Catalog{KnowledgeBaseName: "KB", KnowledgeBaseVersion: "1", MemoryName: "KB", MemoryVersion: "1"}
	cat.Data = map[string]ast.Meta{"c": &ast.ConstantMeta{NodeMeta: ast.NodeMeta{AstID: "c"}, ValueType: ast.TypeString, ValueBytes: vb}}
	cat.MemoryVariableSnapshotMap = map[string]string{}
	cat.MemoryExpressionSnapshotMap = map[string]string{}
	cat.MemoryExpressionAtomSnapshotMap = map[string]string{}
	cat.MemoryExpressionVariableMap = map[string][]string{}
	cat.MemoryExpressionAtomVariableMap = map[string][]string{}
	var buf bytes.Buffer
	if err := cat.WriteCatalogToWriter(&buf); err != nil {
		return nil
	}
	return buf.Bytes()
}

func c20HostileConstStreams() [][]byte {
	le := func(n uint64, k int) []byte {
		x := make([]byte, 8)
		binary.LittleEndian.PutUint64(x, n)
		return x[:k]
	}
	var out [][]byte
	for _, vb := range [][]byte{le(1<<40, 8), le(0x6be8f6975ad6, 6), le(0, 6), le(1<<63, 8), le(1<<64-1, 8), le(3, 8), append(le(3, 8), 'a', 'b'), append(le(2, 8), 'a', 'b'), le(255, 1), {}} {
		if b := c20ConstStream(vb); b != nil {
			out = append(out, b)
		}
	}
	return out
}
