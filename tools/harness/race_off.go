//go:build !race

package main

const raceEnabled = false
