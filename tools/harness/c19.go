package main

// C19: comparison operators across operand kinds.
// Direct calls of pkg.Evaluate* on reflect values of every numeric kind pair
// over a boundary-rich value domain, strings, bools and times (equal instants
// in different locations, with and without monotonic reading), plain, behind a
// pointer and inside an interface.

import (
	"encoding/json"
	"fmt"
	"math"
	"os"
	"reflect"
	"time"

	"github.com/hyperjumptech/grule-rule-engine/pkg"
)

type Operand struct {
	Kind  string `json:"kind"` // int int8 … uint … uintptr float32 float64 string bool time nil
	I     int64  `json:"i,omitempty"`
	U     uint64 `json:"u,omitempty"`
	FBits uint64 `json:"fbits,omitempty"`
	S     string `json:"s,omitempty"`
	B     bool   `json:"b,omitempty"`
	TOff  int64  `json:"toff,omitempty"` // ns relative to the run's base instant
	TLoc  int    `json:"tloc,omitempty"` // 0 local(+mono allowed) 1 utc 2 fixed+1h 3 fixed-2h
	TMono bool   `json:"tmono,omitempty"`
	Wrap  string `json:"wrap,omitempty"` // "", ptr, iface, ptrptr, nilptr
}

var c19Base = time.Now()
var c19Locs = []*time.Location{time.Local, time.UTC, time.FixedZone("P1", 3600), time.FixedZone("M2", -7200)}

func (o Operand) timeValue() time.Time {
	t := c19Base.Add(time.Duration(o.TOff))
	if !o.TMono {
		t = t.Round(0)
	}
	if o.TLoc != 0 {
		t = t.In(c19Locs[o.TLoc])
	}
	return t
}

func (o Operand) base() reflect.Value {
	switch o.Kind {
	case "int":
		return reflect.ValueOf(int(o.I))
	case "int8":
		return reflect.ValueOf(int8(o.I))
	case "int16":
		return reflect.ValueOf(int16(o.I))
	case "int32":
		return reflect.ValueOf(int32(o.I))
	case "int64":
		return reflect.ValueOf(int64(o.I))
	case "uint":
		return reflect.ValueOf(uint(o.U))
	case "uint8":
		return reflect.ValueOf(uint8(o.U))
	case "uint16":
		return reflect.ValueOf(uint16(o.U))
	case "uint32":
		return reflect.ValueOf(uint32(o.U))
	case "uint64":
		return reflect.ValueOf(uint64(o.U))
	case "uintptr":
		return reflect.ValueOf(uintptr(o.U))
	case "float32":
		return reflect.ValueOf(float32(math.Float64frombits(o.FBits)))
	case "float64":
		return reflect.ValueOf(math.Float64frombits(o.FBits))
	case "string":
		return reflect.ValueOf(o.S)
	case "bool":
		return reflect.ValueOf(o.B)
	case "time":
		return reflect.ValueOf(o.timeValue())
	}
	return reflect.Value{}
}

func (o Operand) value() reflect.Value {
	v := o.base()
	switch o.Wrap {
	case "ptr":
		p := reflect.New(v.Type())
		p.Elem().Set(v)
		return p
	case "ptrptr":
		p := reflect.New(v.Type())
		p.Elem().Set(v)
		pp := reflect.New(p.Type())
		pp.Elem().Set(p)
		return pp
	case "iface":
		var x interface{} = v.Interface()
		return reflect.ValueOf(&x).Elem()
	case "ifaceptr":
		// an interface value holding a pointer to the operand
		p := reflect.New(v.Type())
		p.Elem().Set(v)
		var x interface{} = p.Interface()
		return reflect.ValueOf(&x).Elem()
	case "nilptr":
		return reflect.Zero(reflect.PointerTo(v.Type()))
	}
	return v
}

func (o Operand) gallina() string {
	var b string
	ik := map[string]string{"int": "Iw", "int8": "I8", "int16": "I16", "int32": "I32", "int64": "I64"}
	uk := map[string]string{"uint": "Uw", "uint8": "U8", "uint16": "U16", "uint32": "U32", "uint64": "U64", "uintptr": "Uptr"}
	switch o.Kind {
	case "int", "int8", "int16", "int32", "int64":
		b = fmt.Sprintf("(VInt %s %s)", ik[o.Kind], gZ(o.I))
	case "uint", "uint8", "uint16", "uint32", "uint64", "uintptr":
		b = fmt.Sprintf("(VUint %s %s)", uk[o.Kind], gU(o.U))
	case "float32":
		b = fmt.Sprintf("(VFloat F32 %s)", gFloat(float64(float32(math.Float64frombits(o.FBits)))))
	case "float64":
		b = fmt.Sprintf("(VFloat F64 %s)", gFloat(math.Float64frombits(o.FBits)))
	case "string":
		b = fmt.Sprintf("(VStr %s)", gStr(o.S))
	case "bool":
		b = fmt.Sprintf("(VBool %s)", gBool(o.B))
	case "time":
		t := o.timeValue()
		b = fmt.Sprintf("(VTime {| t_inst := %s; t_loc := %d; t_mono := %s |})", gZ(t.UnixNano()), o.TLoc, gBool(o.TMono && o.TLoc == 0))
	}
	switch o.Wrap {
	case "ptr":
		return "(VPtr (Some " + b + "))"
	case "ptrptr":
		return "(VPtr (Some (VPtr (Some " + b + "))))"
	case "iface":
		return "(VIface (Some " + b + "))"
	case "ifaceptr":
		return "(VIface (Some (VPtr (Some " + b + "))))"
	case "nilptr":
		return "(VPtr None)"
	}
	return b
}

// family / denoted value for the direct oracle
func (o Operand) family() string {
	if o.Wrap == "nilptr" {
		return "none"
	}
	switch o.Kind {
	case "int", "int8", "int16", "int32", "int64", "uint", "uint8", "uint16", "uint32", "uint64", "float32", "float64":
		return "num"
	case "string", "bool", "time":
		return o.Kind
	}
	return "none"
}

type cmpOutcome struct {
	Class string // ok err panic
	B     bool
}

func (c cmpOutcome) gallina() string {
	switch c.Class {
	case "ok":
		return "(Ok (VBool " + gBool(c.B) + "))"
	case "err":
		return "Err"
	}
	return "Panic"
}

var c19Ops = []struct {
	Name string
	F    func(l, r reflect.Value) (reflect.Value, error)
}{
	{"lt", pkg.EvaluateLesserThan}, {"eq", pkg.EvaluateEqual}, {"gt", pkg.EvaluateGreaterThan},
	{"le", pkg.EvaluateLesserThanEqual}, {"ge", pkg.EvaluateGreaterThanEqual}, {"ne", pkg.EvaluateNotEqual},
}

func evalCmp(f func(l, r reflect.Value) (reflect.Value, error), l, r reflect.Value) (out cmpOutcome) {
	defer func() {
		if rec := recover(); rec != nil {
			out = cmpOutcome{Class: "panic"}
		}
	}()
	v, err := f(l, r)
	if err != nil {
		return cmpOutcome{Class: "err"}
	}
	if v.IsValid() && v.Kind() == reflect.Bool {
		return cmpOutcome{Class: "ok", B: v.Bool()}
	}
	return cmpOutcome{Class: "other"}
}

func c19Operands(p *prng, tier string) []Operand {
	var ops []Operand
	type rng struct {
		kind     string
		min, max int64
	}
	ints := []rng{{"int", math.MinInt64, math.MaxInt64}, {"int8", math.MinInt8, math.MaxInt8}, {"int16", math.MinInt16, math.MaxInt16},
		{"int32", math.MinInt32, math.MaxInt32}, {"int64", math.MinInt64, math.MaxInt64}}
	for _, r := range ints {
		vals := []int64{0, 1, -1, 2, r.min, r.max, r.min + 1, r.max - 1, 100, -100}
		if r.max > 1<<53 {
			vals = append(vals, 1<<53, 1<<53+1, -(1<<53 + 1))
		}
		for _, v := range vals {
			if v >= r.min && v <= r.max {
				ops = append(ops, Operand{Kind: r.kind, I: v})
			}
		}
	}
	uints := []struct {
		kind string
		max  uint64
	}{{"uint", math.MaxInt64}, {"uint8", math.MaxUint8}, {"uint16", math.MaxUint16}, {"uint32", math.MaxUint32}, {"uint64", math.MaxInt64}}
	for _, r := range uints {
		vals := []uint64{0, 1, 2, 100, r.max, r.max - 1, 127, 128, 1 << 53, 1<<53 + 1}
		for _, v := range vals {
			if v <= r.max {
				ops = append(ops, Operand{Kind: r.kind, U: v})
			}
		}
	}
	f64 := []float64{0, math.Copysign(0, -1), 1, -1, 0.5, -0.5, 1.5, 100, -100, 127, 128, 1e18, -1e18, 9007199254740992, 9007199254740993, 9223372036854775807,
		-9223372036854775808, math.Inf(1), math.Inf(-1), math.SmallestNonzeroFloat64, math.MaxFloat64, 0.1, 2147483647, 2147483648, 4294967295, 65535, 32767}
	for _, f := range f64 {
		ops = append(ops, Operand{Kind: "float64", FBits: math.Float64bits(f)})
	}
	f32 := []float32{0, 1, -1, 0.5, -0.5, 1.5, 100, 127, 16777216, 16777217, math.MaxFloat32, math.SmallestNonzeroFloat32, 0.1, float32(math.Inf(1))}
	for _, f := range f32 {
		ops = append(ops, Operand{Kind: "float32", FBits: math.Float64bits(float64(f))})
	}
	for _, s := range []string{"", "a", "A", "ab", "b", "aa", "a\x00", "\xff", "\xc3\xa9", "Z", "a b", "10", "9"} {
		ops = append(ops, Operand{Kind: "string", S: s})
	}
	ops = append(ops, Operand{Kind: "bool", B: true}, Operand{Kind: "bool", B: false})
	for _, off := range []int64{0, 1, -1, 3600e9, -7200e9} {
		for loc := 0; loc < 4; loc++ {
			ops = append(ops, Operand{Kind: "time", TOff: off, TLoc: loc})
		}
		ops = append(ops, Operand{Kind: "time", TOff: off, TLoc: 0, TMono: true})
	}
	// mixed-family extras for the correspondence only
	ops = append(ops, Operand{Kind: "uintptr", U: 5}, Operand{Kind: "uint64", U: math.MaxUint64}, Operand{Kind: "uint64", U: 1 << 63},
		Operand{Kind: "float64", FBits: math.Float64bits(math.NaN())}, Operand{Kind: "int", I: 3, Wrap: "nilptr"})
	// wrapped variants of a sample
	n := len(ops)
	wraps := []string{"ptr", "iface", "ptrptr", "ifaceptr"}
	stride := 7
	if tier == "thorough" {
		stride = 2
	}
	for i := p.intn(stride); i < n; i += stride {
		o := ops[i]
		if o.Wrap != "" {
			continue
		}
		o.Wrap = wraps[p.intn(len(wraps))]
		ops = append(ops, o)
	}
	return ops
}

type c19Case struct {
	L   Operand      `json:"l"`
	R   Operand      `json:"r"`
	Out []cmpOutcome `json:"out"`
}

// relations of the property, on the implementation's own results
func c19Oracle(l, r Operand, out, mirror []cmpOutcome) string {
	fam := l.family()
	if fam == "none" || fam != r.family() {
		return ""
	}
	inDomain := func(o Operand) bool {
		switch o.Kind {
		case "uint", "uint8", "uint16", "uint32", "uint64":
			return o.U <= math.MaxInt64
		case "float32", "float64":
			f := math.Float64frombits(o.FBits)
			return f == f
		}
		return true
	}
	if !inDomain(l) || !inDomain(r) {
		return ""
	}
	lt, eq, gt, le, ge, ne := out[0], out[1], out[2], out[3], out[4], out[5]
	if fam == "bool" {
		if eq.Class != "ok" || ne.Class != "ok" {
			return "== or != of two booleans did not yield a boolean"
		}
		if ne.B == eq.B {
			return "!= is not the negation of =="
		}
		if mirror[1] != eq || mirror[5] != ne {
			return "swapping boolean operands changes == or !="
		}
		return ""
	}
	for i, o := range out {
		if o.Class != "ok" {
			return fmt.Sprintf("operator %s did not yield a boolean (%s)", c19Ops[i].Name, o.Class)
		}
	}
	n := 0
	for _, b := range []bool{lt.B, eq.B, gt.B} {
		if b {
			n++
		}
	}
	if n != 1 {
		return fmt.Sprintf("not exactly one of <,==,> holds (lt=%v eq=%v gt=%v)", lt.B, eq.B, gt.B)
	}
	if le.B != (lt.B || eq.B) {
		return "<= differs from (< or ==)"
	}
	if ge.B != (gt.B || eq.B) {
		return ">= differs from (> or ==)"
	}
	if ne.B == eq.B {
		return "!= is not the negation of =="
	}
	if mirror[2] != lt || mirror[0] != gt || mirror[1] != eq || mirror[4] != le || mirror[3] != ge || mirror[5] != ne {
		return "swapping the operands does not mirror the outcome"
	}
	return ""
}

// the denoted value, for the "value only" oracle: operands denoting the same
// value must give the same outcomes against every partner
func (o Operand) denot() string {
	switch o.family() {
	case "num":
		switch o.Kind {
		case "float32", "float64":
			f := math.Float64frombits(o.FBits)
			if f == math.Trunc(f) && math.Abs(f) < 1<<62 {
				return fmt.Sprintf("n:%d", int64(f))
			}
			return fmt.Sprintf("f:%x", math.Float64bits(f))
		case "int", "int8", "int16", "int32", "int64":
			return fmt.Sprintf("n:%d", o.I)
		default:
			return fmt.Sprintf("n:%d", o.U)
		}
	case "string":
		return "s:" + o.S
	case "bool":
		return fmt.Sprintf("b:%v", o.B)
	case "time":
		return fmt.Sprintf("t:%d", o.TOff)
	}
	return ""
}

func runC19(seed uint64, tier string, out string) error {
	p := newPrng(seed)
	rep := newReport("C19", seed, tier)
	ops := c19Operands(p, tier)
	vals := make([]reflect.Value, len(ops))
	for i, o := range ops {
		vals[i] = o.value()
	}
	results := make([][][]cmpOutcome, len(ops))
	for i := range ops {
		results[i] = make([][]cmpOutcome, len(ops))
		for j := range ops {
			res := make([]cmpOutcome, len(c19Ops))
			for k, op := range c19Ops {
				res[k] = evalCmp(op.F, vals[i], vals[j])
				rep.Evaluations++
			}
			results[i][j] = res
		}
	}
	var cases []string
	var index []interface{}
	distinct := map[string]bool{}
	// value-only oracle: group operands by denotation (exact integer-valued floats
	// count as the integer only when the float conversion of the integer is exact)
	byDen := map[string][]int{}
	for i, o := range ops {
		d := o.denot()
		if d != "" {
			byDen[d] = append(byDen[d], i)
		}
	}
	for i, l := range ops {
		for j, r := range ops {
			c := c19Case{L: l, R: r, Out: results[i][j]}
			if what := c19Oracle(l, r, results[i][j], results[j][i]); what != "" {
				rep.fail(what, c)
			}
			fam := l.family() + "/" + r.family()
			rep.count("family " + fam)
			if l.family() == r.family() && l.family() != "none" {
				distinct[l.Kind+l.Wrap+"|"+r.Kind+r.Wrap+"|"+l.denot()+"|"+r.denot()] = true
			}
			outs := make([]string, len(c.Out))
			ok := true
			for k, o := range c.Out {
				if o.Class == "other" {
					ok = false
				}
				outs[k] = o.gallina()
			}
			if !ok {
				rep.count("dropped: non-boolean result")
				continue
			}
			if (l.Kind == "string" && r.Kind == "time") || (l.Kind == "time" && r.Kind == "string") {
				// only + formats times; comparisons are fine
			}
			id := len(index)
			index = append(index, c)
			cases = append(cases, fmt.Sprintf("(%d, %s, %s, %s)", id, l.gallina(), r.gallina(), gList(outs)))
			if i*len(ops)+j == 1234 || len(rep.Samples) == 0 {
				rep.sample(c)
			}
		}
	}
	// value-only: same denotation on both sides => identical outcome vectors
	for _, grp := range byDen {
		for _, a := range grp[1:] {
			a0 := grp[0]
			if math.IsNaN(math.Float64frombits(ops[a].FBits)) && (ops[a].Kind == "float64" || ops[a].Kind == "float32") {
				continue
			}
			for j, r := range ops {
				if r.family() != ops[a].family() {
					continue
				}
				if r.Kind == "uint64" && r.U > math.MaxInt64 {
					continue
				}
				if (r.Kind == "float64" || r.Kind == "float32") && math.IsNaN(math.Float64frombits(r.FBits)) {
					continue
				}
				if !c19ExactPair(ops[a0], ops[a], r) {
					continue
				}
				for k := range c19Ops {
					if results[a0][j][k] != results[a][j][k] || results[j][a0][k] != results[j][a][k] {
						rep.fail(fmt.Sprintf("outcome of %s depends on more than the operand values: %s %s vs %s %s", c19Ops[k].Name, ops[a0].Kind, ops[a0].Wrap, ops[a].Kind, ops[a].Wrap),
							map[string]interface{}{"a": ops[a0], "a2": ops[a], "partner": r})
					}
				}
			}
		}
	}
	rep.Cases = len(cases)
	rep.DistinctNontrivial = len(distinct)
	rep.Exhaustive = true
	rep.Rule = "every ordered pair of the operand table (all numeric kinds x boundary values within int64, strings, bools, times in 4 locations with/without monotonic reading, plus pointer/interface-wrapped and out-of-domain extras) x 6 operators; non-trivial = same-family pair; distinct by (kind, wrapping, denoted value) of both sides"
	rep.Extra["operands"] = len(ops)
	if err := writeShards(out, "From Grule Require Import Base Values CmpGen Corr.", "c19_mismatches", "c19case", cases, 16); err != nil {
		return err
	}
	return rep.write(out, index)
}

// integers above 2^53 are not exactly representable: an int and the float it
// rounds to are different values, so they are only grouped when exact.
func c19ExactPair(a, b, partner Operand) bool {
	exact := func(o Operand) bool {
		switch o.Kind {
		case "int", "int8", "int16", "int32", "int64":
			return o.I > -(1<<53) && o.I < 1<<53
		case "uint", "uint8", "uint16", "uint32", "uint64":
			return o.U < 1<<53
		}
		return true
	}
	isF := func(o Operand) bool { return o.Kind == "float32" || o.Kind == "float64" }
	if isF(a) != isF(b) || isF(partner) {
		return exact(a) && exact(b) && exact(partner)
	}
	return true
}

func replayC19(path string) (bool, string, error) {
	b, err := os.ReadFile(path)
	if err != nil {
		return false, "", err
	}
	var rp struct {
		Scenario c19Case `json:"scenario"`
	}
	if err := json.Unmarshal(b, &rp); err != nil {
		return false, "", err
	}
	l, r := rp.Scenario.L, rp.Scenario.R
	lv, rv := l.value(), r.value()
	out := make([]cmpOutcome, len(c19Ops))
	mir := make([]cmpOutcome, len(c19Ops))
	for k, op := range c19Ops {
		out[k] = evalCmp(op.F, lv, rv)
		mir[k] = evalCmp(op.F, rv, lv)
	}
	what := c19Oracle(l, r, out, mir)
	return what != "", fmt.Sprintf("%s %v vs %s %v: %v (mirrored %v) %s", l.Kind, l, r.Kind, r, out, mir, what), nil
}

func init() {
	runners["C19"] = runC19
	replayers["C19"] = replayC19
}
