#!/usr/bin/env python3
"""mutcampaign.py <scratchdir> <N> <seed> [only-file-substring]

A mutation campaign on a scratch copy: <scratchdir>/repo is a git worktree of /repo's HEAD,
<scratchdir>/verif a copy of /verif (VERIF_REPO points the checks at the scratch worktree).
Nothing here touches /repo or /verif except the result file seeded/own/campaign.jsonl.

For each sampled one-token / one-statement mutant (tools/mutate): build; run the quick checks of
the properties the file is mapped to until one reports a VIOLATION; if none does, run the pinned
test suite (the 157 stable tests) to see whether the mutant is one the tests already kill.
Result per mutant: no-compile | reported (by which check) | killed-by-tests | SURVIVED.
"""
import json, os, random, subprocess, sys, time

SCR = sys.argv[1]; N = int(sys.argv[2]); SEED = int(sys.argv[3])
ONLY = sys.argv[4] if len(sys.argv) > 4 else None
REPO = os.path.join(SCR, "repo"); VERIF = os.path.join(SCR, "verif")
OUT = "/verif/seeded/own/campaign.jsonl"
ENV = dict(os.environ, GOFLAGS="-mod=mod", GOPROXY="off", VERIF_REPO=REPO, VERIF_SEED="1")

FILES = {  # file -> (weight, checks in the order they are tried)
 "engine/GruleEngine.go": (14, "C03 C06 C10 C15 C11 C02 C14 C08 C01"),
 "ast/RuleEntry.go": (6, "C01 C14 C15 C10 C07 C09 C12"),
 "ast/WorkingMemory.go": (10, "C13 C01 C07 C08 C09 C02"),
 "ast/Expression.go": (8, "C05 C01 C13 C07 C14 C09 C12"),
 "ast/ExpressionAtom.go": (8, "C05 C01 C13 C04 C07 C14 C09 C12"),
 "ast/Variable.go": (6, "C04 C01 C13 C05 C07 C09 C12"),
 "ast/Assignment.go": (5, "C04 C01 C14 C09 C12"),
 "ast/ArrayMapSelector.go": (3, "C04 C05 C13 C01 C09 C12"),
 "ast/FunctionCall.go": (3, "C05 C13 C14 C01 C09 C12"),
 "ast/ArgumentList.go": (2, "C05 C13 C09 C12"),
 "ast/Constant.go": (2, "C05 C09 C12 C17"),
 "ast/ThenExpression.go": (3, "C04 C14 C01 C09 C12"),
 "ast/ThenExpressionList.go": (3, "C04 C14 C01 C09 C12"),
 "ast/ThenScope.go": (2, "C04 C14 C09 C12"),
 "ast/WhenScope.go": (2, "C01 C14 C09 C12"),
 "ast/BuiltInFunctions.go": (3, "C10 C05 C14"),
 "ast/KnowledgeBase.go": (8, "C16 C09 C12 C08 C17"),
 "ast/Serializer.go": (8, "C12 C20 C16"),
 "ast/DataContext.go": (2, "C04 C10 C14 C09"),
 "pkg/reflectmath.go": (6, "C19 C05"),
 "pkg/JsonResource.go": (6, "C18 C20"),
 "model/GoDataAccessLayer.go": (6, "C04 C05 C14 C13"),
 "model/JsonDataAccessLayer.go": (3, "C04 C01 C20 C05"),
 "model/DataAccessLayer.go": (4, "C04 C05 C14 C13"),
 "builder/RuleBuilder.go": (3, "C17 C16 C20 C09"),
 "antlr/GruleParserV3Listener.go": (8, "C17 C18 C05 C20 C09"),
 "pkg/reflectools.go": (8, "C04 C05 C19 C14 C13"),
 "antlr/ParserCommon.go": (4, "C17 C05 C18 C20"),
 "ast/Salience.go": (1, "C12 C09 C17"),
}

def sh(cmd, cwd=None, timeout=1800):
    try:
        p = subprocess.run(cmd, shell=isinstance(cmd, str), cwd=cwd, env=ENV, stdout=subprocess.PIPE, stderr=subprocess.STDOUT, timeout=timeout)
        return p.returncode, p.stdout.decode("utf-8", "replace")
    except subprocess.TimeoutExpired:
        return 124, "timeout"

def setup():
    if not os.path.isdir(REPO):
        os.makedirs(SCR, exist_ok=True)
        rc, out = sh(["git", "-C", "/repo", "worktree", "add", "--detach", REPO, "HEAD"]); assert rc == 0, out
    if not os.path.isdir(VERIF):
        rc, out = sh("rsync -a --exclude .git --exclude 'run/*' --exclude 'seeded' /verif/ %s/" % VERIF); assert rc == 0, out
        os.makedirs(os.path.join(VERIF, "run"), exist_ok=True)
        gm = os.path.join(VERIF, "tools/harness/go.mod")
        s = open(gm).read().replace("=> /repo", "=> " + REPO); open(gm, "w").write(s)
        for d in ("tools/go2coq",):
            pass

def stable():
    return set(json.load(open("/root/.vp/BASELINE.json"))["stable_pass"])

def run_tests():
    rc, out = sh("go test -json -vet=off -count=1 -timeout 25m ./...", cwd=REPO, timeout=1800)
    passed = set()
    for l in out.splitlines():
        try:
            e = json.loads(l)
        except Exception:
            continue
        if e.get("Action") == "pass" and e.get("Test"):
            passed.add(e["Package"] + "::" + e["Test"])
    missing = sorted(stable() - passed)
    return missing

def main():
    setup()
    rnd = random.Random(SEED)
    pool = []
    for f, (w, checks) in FILES.items():
        if ONLY and ONLY not in f:
            continue
        rc, out = sh(["/verif/tools/bin/mutate", "-list", os.path.join(REPO, f)])
        pts = [l.split("\t") for l in out.splitlines() if l.strip()]
        for p in pts:
            pool.append((w / max(1, len(pts)), f, int(p[0]), int(p[1]), p[2], p[3]))
    # weighted sampling without replacement
    chosen = []
    items = pool[:]
    for _ in range(min(N, len(items))):
        tot = sum(i[0] for i in items); r = rnd.random() * tot; acc = 0
        for k, it in enumerate(items):
            acc += it[0]
            if acc >= r:
                chosen.append(it); items.pop(k); break
    done = set()
    if os.path.exists(OUT):
        for l in open(OUT):
            try:
                e = json.loads(l); done.add((e["file"], e["index"]))
            except Exception:
                pass
    for (_, f, idx, line, op, desc) in chosen:
        if (f, idx) in done:
            continue
        rec = {"file": f, "index": idx, "line": line, "op": op, "desc": desc, "head": subprocess.check_output(["git", "-C", REPO, "rev-parse", "--short", "HEAD"]).decode().strip()}
        t0 = time.time()
        sh(["git", "-C", REPO, "checkout", "--", "."])
        rc, out = sh(["/verif/tools/bin/mutate", "-apply", str(idx), os.path.join(REPO, f)])
        rc, diff = sh(["git", "-C", REPO, "diff", "-U0"]); rec["diff"] = diff[-1500:]
        rc, out = sh("go build ./... && go vet ./" + os.path.dirname(f) + "/ 2>&1 | grep -v '^#' | head -0; go build ./...", cwd=REPO)
        if rc != 0:
            rec["result"] = "no-compile"
        else:
            rec["result"] = "SURVIVED"; rec["checks"] = {}
            for c in FILES[f][1].split():
                rc, out = sh(["nice", "-n", "15", "./check", c, "quick"], cwd=VERIF, timeout=2400)
                v = [l for l in out.splitlines() if l.startswith("VIOLATION")]
                rec["checks"][c] = "VIOLATION" if v else ("ok" if rc == 0 else "rc=%d" % rc)
                if v or rc != 0:
                    rec["result"] = "reported"; rec["by"] = c
                    rec["line_out"] = (v[0] if v else out[-300:])
                    det = [l for l in out.splitlines() if l.startswith(("oracle:", "prove:", "correspondence:", "translate:", "anchors:"))]
                    rec["layers"] = det[:6]
                    break
            if rec["result"] == "SURVIVED":
                missing = run_tests()
                if missing:
                    rec["result"] = "killed-by-tests"; rec["tests"] = missing[:5]
        rec["secs"] = round(time.time() - t0)
        sh(["git", "-C", REPO, "checkout", "--", "."])
        with open(OUT, "a") as o:
            o.write(json.dumps(rec) + "\n")
        print(rec["result"], f, line, op, desc, rec.get("by", ""), rec["secs"], flush=True)

main()
