#!/usr/bin/env python3
"""Regenerates MANIFEST.json from tools/props_config.py (run after editing the config)."""
import json, os, sys
ROOT = os.path.dirname(os.path.dirname(os.path.abspath(__file__)))
sys.path.insert(0, os.path.join(ROOT, "tools"))
from props_config import PROPS, MANIFEST_TEXT, NOT_APPLICABLE

ids = [json.loads(l)["id"] for l in open(os.path.join(ROOT, "properties.jsonl"))]
checks = []
for pid in ids:
    if pid not in PROPS or pid not in MANIFEST_TEXT:
        continue
    t = MANIFEST_TEXT[pid]
    checks.append({
        "property_id": pid,
        "quick_cmd": "./check %s quick" % pid,
        "thorough_cmd": "./check %s thorough" % pid,
        "evidence_file": "/verif/evidence/%s.json" % pid,
        "replay_cmd_template": "./check %s --replay {path}" % pid,
        "engine": "coq-proof",
        "level_claimed": {"category": "proof", "text": t["text"], "design_ref": t.get("design_ref", "DESIGN.md §7 " + pid)},
        "level_note": t["note"],
        "technique": t["technique"],
    })
man = {
    "version": 1,
    "setup_cmd": "./setup.sh",
    "hooks": {
        "guard": "verif",
        "enable": "no hooks are needed: the harness uses the public API plus reflect/unsafe reads; checks build /repo as it is",
        "baseline_off_cmd": "cd /repo && GOFLAGS=-mod=mod GOPROXY=off go test -vet=off -count=1 -timeout 25m ./...",
        "source_commits": [],
        "add_only": True,
    },
    "engines": [{
        "name": "coq-proof", "path": "/verif/coq",
        "serves_properties": [c["property_id"] for c in checks],
        "kind_free_text": "Coq 8.16.1 development: executable Gallina model of the engine (partly regenerated from /repo by tools/go2coq on every run), theorems in coq/props, correspondence harness tools/harness comparing model and implementation on generated cases via vm_compute",
    }],
    "checks": checks,
    "not_applicable": [{"property_id": p, "reason": NOT_APPLICABLE.get(p, "not yet covered by the Coq development (work in progress, see DESIGN.md §10)")} for p in ids if p not in PROPS or p not in MANIFEST_TEXT],
    "notes": "All checks share one driver (./check) and one Coq build directory (flock-serialised). fix: commits in /repo are listed in known_findings.json under 'fixed'.",
}
json.dump(man, open(os.path.join(ROOT, "MANIFEST.json"), "w"), indent=1)
print("MANIFEST.json: %d checks, %d not_applicable" % (len(checks), len(man["not_applicable"])))
