#!/usr/bin/env python3
"""verify_seed.py <seed_dir> : confirm a seeded change in a scratch worktree of /repo.
  - patch applies and builds
  - demonstration fails with the change and passes without it
  - the pinned baseline tests all still pass with the change
Writes <seed_dir>/verified.json and removes the worktree."""
import json, os, subprocess, sys, shutil, tempfile
seed = os.path.abspath(sys.argv[1])
meta = json.load(open(os.path.join(seed, "meta.json")))
env = dict(os.environ, GOFLAGS="-mod=mod", GOPROXY="off")
wt = tempfile.mkdtemp(prefix="vs-", dir="/tmp")
os.rmdir(wt)
def sh(cmd, cwd, timeout=2400):
    p = subprocess.run(cmd, cwd=cwd, env=env, shell=True, stdout=subprocess.PIPE, stderr=subprocess.STDOUT, timeout=timeout)
    return p.returncode, p.stdout.decode("utf-8", "replace")
res = {"seed": seed}
try:
    rc, out = sh("git -C /repo worktree add -q --detach %s HEAD" % wt, "/")
    assert rc == 0, out
    rc, out = sh("git apply %s/patch.diff" % seed, wt)
    res["applies"] = rc == 0
    assert rc == 0, out
    rc, out = sh("go build ./...", wt)
    res["builds"] = rc == 0
    assert rc == 0, out
    demo_dir = os.path.join(wt, meta["demo_pkg_dir"].strip("./") or ".")
    demo_dst = os.path.join(demo_dir, "zz_seed_demo_test.go")
    shutil.copy(os.path.join(seed, "demo_test.go"), demo_dst)
    pkg = "./" + (meta["demo_pkg_dir"].strip("./") or ".")
    rc, out = sh("go test -vet=off -count=1 %s -run 'Seed|C[0-9][0-9]' 2>&1 | tail -30" % pkg, wt)
    # run only the tests defined in the demo file
    import re
    names = re.findall(r"^func (Test\w+)\(", open(demo_dst).read(), re.M)
    runpat = "^(" + "|".join(names) + ")$"
    rc, out = sh("go test -vet=off -count=1 %s -run '%s'" % (pkg, runpat), wt)
    res["demo_fails_with_patch"] = rc != 0
    res["demo_with_patch_tail"] = out[-600:]
    os.remove(demo_dst)
    rc, out = sh("go test -mod=mod -json -vet=off -count=1 -timeout 25m ./...", wt, timeout=3000)
    passed = set()
    for l in out.splitlines():
        try:
            e = json.loads(l)
        except Exception:
            continue
        if e.get("Action") == "pass" and e.get("Test"):
            passed.add(e["Package"] + "::" + e["Test"])
    base = json.load(open("/root/.vp/BASELINE.json"))["stable_pass"]
    missing = [t for t in base if t not in passed]
    res["suite_missing"] = missing
    res["suite_passes_with_patch"] = not missing
    sh("git checkout -- .", wt)
    shutil.copy(os.path.join(seed, "demo_test.go"), demo_dst)
    rc, out = sh("go test -vet=off -count=1 %s -run '%s'" % (pkg, runpat), wt)
    res["demo_passes_without_patch"] = rc == 0
    res["demo_without_patch_tail"] = out[-300:]
    res["ok"] = bool(res["demo_fails_with_patch"] and res["demo_passes_without_patch"] and res["suite_passes_with_patch"])
except Exception as e:
    res["ok"] = False
    res["error"] = str(e)[-1500:]
finally:
    subprocess.run("git -C /repo worktree remove --force %s" % wt, shell=True, stdout=subprocess.DEVNULL, stderr=subprocess.DEVNULL)
    shutil.rmtree(wt, ignore_errors=True)
json.dump(res, open(os.path.join(seed, "verified.json"), "w"), indent=1)
print(seed, "OK" if res.get("ok") else "NOT-OK", {k: v for k, v in res.items() if k in ("applies", "builds", "demo_fails_with_patch", "demo_passes_without_patch", "suite_passes_with_patch", "error")})
