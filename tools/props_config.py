"""Per-property configuration of the check driver.

proof_files : .v files (relative to coq/) whose lemmas are this property's proof obligations
props_files : files holding only the final theorems + Print Assumptions
harness     : harness subcommand that produces the correspondence cases and the direct oracle
"""

COMMON_TRUST = [
    "translator tools/go2coq (Go source -> Gallina) and the shape checks it performs",
    "correspondence harness tools/harness (scenario -> Gallina printer, canonical observation of the implementation)",
    "reading of the property text into the formal statement in coq/props (kept next to the theorem)",
]

PROPS = {
    "C19": dict(
        proof_files=["gen/ValuesGen.v", "gen/CmpGen.v", "proofs/AnchorsValues.v", "proofs/C19Proof.v", "props/C19.v"],
        props_files=["props/C19.v"],
        harness="C19",
        theorems=["C19_ordered", "C19_bool", "C19_value_only"],
        trusted=COMMON_TRUST + ["model of reflect values in coq/model/Values.v (kinds, get_value_elem, time record)"],
        assumptions=[
            "operands inside the int64 range, NaN excluded (as the property states); uintptr is not a numeric width",
            "time.Time modelled as (instant, location id, has-monotonic); After/Before/Equal compare instants",
            "float64(int64)/float64(uint64) modelled by of_uint63 (RNE); validated bit-for-bit by the correspondence sweep",
        ],
        explanation="Theorems C19_ordered/C19_bool/C19_value_only are stated over the six comparison functions of ArithGen.v, "
                    "regenerated from pkg/reflectmath.go on every run and re-proved; the exhaustive operand-table sweep compares "
                    "pkg.Evaluate* with the generated functions (tie) and evaluates the algebraic relations on the implementation (oracle).",
    ),
}

ENGINE_FILES = ["gen/EngineGen.v", "proofs/AnchorsEngine.v", "proofs/EngineProofs.v", "proofs/EngineTheorems.v", "proofs/EngineExamples.v"]
ENGINE_TRUST = COMMON_TRUST + [
    "abstract engine coq/model/EngineAbs.v (hand-written control skeleton of ExecuteWithContext / FetchMatchingRules / RuleEntry entry checks), "
    "tied to the source by the extracted comparison anchors (EngineGen.v), the site inventories (SitesGen.v) and the trace correspondence",
    "mini rule language coq/model/MiniEngine.v used to run the abstract engine against the real one (integer counters only)",
]
ENGINE_ASSUME = [
    "conditions do not change Retracted/Deleted flags; an action's Retract/Complete effects are applied when its list ends (they commute with the rest of the list)",
    "one goroutine per knowledge-base instance; cancellation is represented by the index of the first ctx.Err() call that observes it",
]

def engine_prop(pid, sites, theorem, expl):
    return dict(
        proof_files=ENGINE_FILES + sites + ["props/%s.v" % pid],
        props_files=["props/%s.v" % pid],
        harness=pid,
        theorems=[theorem],
        trusted=ENGINE_TRUST,
        assumptions=ENGINE_ASSUME,
        explanation=expl,
    )

PROPS["C03"] = engine_prop("C03", [], "C03",
    "C03 is proved for every condition/action semantics, salience assignment, budget, cancellation point and map iteration order over the abstract "
    "engine whose salience comparison is extracted from GruleEngine.go; the mini-engine harness replays generated rule sets on the real engine and "
    "on the model (listener trace, outcome, facts) and checks maximal-salience firing on the implementation's own trace.")
PROPS["C06"] = engine_prop("C06", ["proofs/AnchorsSitesNotify.v"], "C06",
    "termination within MaxCycle+1 passes, firing bound, exact cycle-limit condition and the listener protocol are proved over the abstract engine "
    "(budget comparison and notification numbers extracted from the source); budgets around the natural run length are replayed on the real engine.")
PROPS["C10"] = engine_prop("C10", ["proofs/AnchorsSitesFlags.v"], "C10",
    "Retract/Complete control effects proved over the abstract engine (retraction flags are a function of the Retract calls made so far); rule sets "
    "retracting self/other/unknown names and completing at any action position are replayed on the real engine.")
PROPS["C11"] = dict(
    proof_files=ENGINE_FILES + ["props/C11.v"], props_files=["props/C11.v"], harness="C11", theorems=["C11"],
    trusted=ENGINE_TRUST, assumptions=ENGINE_ASSUME,
    explanation="C11 (exact set, no duplicates, non-increasing salience for any stable-sort comparison satisfying the extracted anchor, no action parameter) "
                "is proved over the abstract FetchMatchingRules; generated rule sets are fetched on the real engine, also after an Execute on the same instance.")
PROPS["C15"] = engine_prop("C15", ["proofs/AnchorsSitesCtx.v"], "C15",
    "for every index of the first ctx.Err() call that sees the cancellation: no action list starts after a check saw it, a pre-cancelled context fires "
    "nothing, nil is returned only if no check (including the exit-path check) saw it; every cancellation position of generated runs is replayed on the "
    "real engine through a call-counting context.")

EVAL_MODEL = ["gen/CmpGen.v", "gen/ArithGen.v", "gen/OpsGen.v", "gen/EngineGen.v"]
REFINE_FILES = EVAL_MODEL + ["proofs/AnchorsEngine.v", "proofs/EngineProofs.v", "proofs/EngineTheorems.v", "proofs/FactsProofs.v",
                             "proofs/ActionTheorems.v", "proofs/SnapInj.v", "proofs/C05Proof.v", "proofs/MemoProofs.v", "proofs/MemoKeep.v",
                             "proofs/StateTrack.v", "proofs/Refinement.v", "proofs/RefineTheorems.v", "proofs/MemoTheorems.v", "proofs/Findings.v"]
EVAL_TRUST = ENGINE_TRUST + [
    "memoising evaluator coq/model/Eval.v (hand-written twin of ast/*.go Evaluate/Assign/Execute + WorkingMemory: values remembered per tree, "
    "reset by snapshot substring), fact store coq/model/Facts.v, method table coq/model/Methods.v (twin of the harness fact library) - validated against "
    "the real engine by the scenario correspondence (listener trace, outcome, final facts, method call counts, rule snapshots), not verified against Go",
    "SPEC evaluator coq/model/Fresh.v (from-scratch semantics; no memory) - it is the reference the theorems are stated against",
    "operators: coq/gen/CmpGen.v, ArithGen.v, OpsGen.v regenerated from pkg/reflectmath.go and antlr/grulev3.g4 on every run",
]
EVAL_ASSUME = ENGINE_ASSUME + [
    "rules_ok: conditions are side-effect free; actions are assignments over side-effect free expressions, control built-ins and side-effect free calls "
    "(mutating fact methods are covered by the correspondence only)",
    "dependency_hypothesis (explicit in every theorem that needs it): a successful assignment to x changes the from-scratch value only of nodes whose "
    "snapshot contains x's snapshot; proofs/Findings.v proves it cannot be dropped (D2, D3: recorded findings, reproduced on the real engine on every run)",
    "facts form a tree (no aliasing between fact objects); ASCII strings",
]

def eval_prop(pid, extra, theorems, expl):
    return dict(proof_files=REFINE_FILES + extra + ["props/%s.v" % pid], props_files=["props/%s.v" % pid], harness=pid, theorems=theorems,
                trusted=EVAL_TRUST, assumptions=EVAL_ASSUME, explanation=expl)

PROPS["C01"] = eval_prop("C01", ["proofs/AnchorsSitesMemo.v"], ["C01", "C01_hypothesis_needed"],
    "C01 is proved for the engine model WITH its working memory started from arbitrary memory contents, for every budget, flag, cancellation point and "
    "map order: engine_refines_spec (the memoising run equals the run that evaluates everything from scratch) + state tracking of the from-scratch run "
    "+ the protocol theorem C06. The hypothesis on invalidation is explicit and shown necessary by the D3 witness. Generated rule sets run on the real "
    "engine and the model; at every ExecuteRuleEntry the harness re-evaluates the rule alone on a deep copy of the facts.")
PROPS["C02"] = eval_prop("C02", ["proofs/AnchorsSitesMemo.v"], ["C02"],
    "C02: every active rule whose from-scratch condition is true is reported as candidate in each firing cycle, and at the quiescent exit no active rule's "
    "condition holds on the final facts; proved via the refinement theorem. Harness as for C01 plus multi-resource knowledge bases and chained activations.")
PROPS["C04"] = eval_prop("C04", [], ["C04"],
    "C04: the action list with the working memory equals the in-order from-scratch list; each successful assignment computes its value on the current facts "
    "and write_target stores it (converted to the destination kind) at exactly the addressed path, every diverging path unchanged (lens laws). The harness "
    "compares all addressed locations and the frame on the caller's own Go objects.")
PROPS["C05"] = eval_prop("C05", ["proofs/AnchorsValues.v"], ["C05_operators", "C05_binary", "C05_and_short_circuit", "C05_or_short_circuit", "C05_parentheses",
                                                          "C05_negation", "C05_arguments", "C05_grammar_levels", "C05_published_table_partial", "C05_published_table_refuted"],
    "C05: the operator functions regenerated from pkg/reflectmath.go compute the independently written documented semantics (doc_bin) for operands of "
    "every width; short-circuit, negation, parentheses, argument order proved on the SPEC evaluator; the grammar's operator levels (regenerated) match the "
    "model and the published table except for `&` (finding D4, refuted lemma + regression probes). Harness: operator x kind x kind grid, random typed "
    "trees against an independent documented-semantics evaluator, re-renderings, precedence probes.")
PROPS["C07"] = eval_prop("C07", ["proofs/AnchorsSitesMemo.v"], ["C07"],
    "C07: snapshots are injective on well-formed trees (sharing by snapshot = sharing of equal trees) and, inside any knowledge base and any sound memory, "
    "a rule's condition and actions compute what its own text computes on the facts. Harness: rule + generated near-sibling built together vs alone.")
PROPS["C08"] = eval_prop("C08", ["proofs/AnchorsSitesMemo.v", "proofs/AnchorsSitesFlags.v"], ["C08"],
    "C08: Execute and FetchMatchingRules from arbitrary memory contents and arbitrary Retracted flags equal the call on a fresh instance; site inventory of "
    "every memo/flag mutation (incl. range-over-map resets) anchors ResetAll/Reset. Harness: histories of calls on one instance vs fresh instances.")
PROPS["C13"] = eval_prop("C13", ["proofs/AnchorsSitesMemo.v"], ["C13"],
    "C13: a successful method call / field read is remembered; a remembered node is answered without touching facts, counters or memory; evaluating "
    "side-effect free nodes never drops an entry; assignment / Forget drop only nodes whose snapshot/text contains the argument. Harness: call counters "
    "of the fact library against the bound 1 + number of invalidation events.")
PROPS["C14"] = eval_prop("C14", ["proofs/AnchorsSitesRecover.v"], ["C14"],
    "C14: a failing condition leaves facts and memory sound and is the from-scratch verdict; without the flag no condition error is returned; with it the "
    "error names a rule whose condition fails on that cycle's facts; an action failure names the executing rule, is last, and keeps the completed prefix. "
    "Harness: faulty rule stream (missing facts, nil, ranges, kinds, division by zero, panicking methods).")

NOT_APPLICABLE = {}

def _eng_text(what):
    return dict(
        text="Machine-checked proof (Coq 8.16.1) over an abstract model of the engine loop, for every condition/action semantics, rule set, budget, "
             "cancellation point and map iteration order: " + what + " Tied to the code by comparison anchors and site inventories regenerated from "
             "the source on every run and by replaying generated rule sets on the real engine and on the model (listener trace, outcome, final facts).",
        note="Trust: Coq kernel; hand-written control skeleton EngineAbs.v (validated by the trace correspondence, not verified against Go); translator; "
             "harness; conditions are assumed not to change rule flags; single goroutine per instance. No axioms (closed under the global context).",
        technique="Rocq/Coq proof over an abstract engine automaton + source-extracted anchors + trace correspondence (vm_compute)",
    )

def _eval_text(what):
    return dict(
        text="Machine-checked proof (Coq 8.16.1) over a model of the engine WITH its working memory (memoising evaluator, fact store, engine loop): " + what +
             " Tied to the code by operator/anchor tables regenerated from the source on every run and by replaying generated rule sets on the real engine "
             "and the model (listener trace, outcome, final facts, call counts, snapshots), plus direct oracles on the implementation.",
        note="Trust: Coq kernel (+vm_compute), hand-written evaluator/engine models validated by correspondence, translator, harness. Hypotheses explicit in the "
             "theorems: side-effect free conditions/expressions (rules_ok) and the dependency hypothesis on invalidation (shown necessary; D2/D3 are recorded "
             "findings). Only primitive int/float operations appear under Print Assumptions.",
        technique="Rocq/Coq proof: refinement of a from-scratch spec engine by the memoising engine + differential correspondence (vm_compute)",
    )

MANIFEST_TEXT = {
    "C01": _eval_text("every execution is of an active rule whose condition, evaluated from scratch on the facts of that moment, is true (from any memory contents)."),
    "C02": _eval_text("each active rule whose from-scratch condition is true is a candidate of its cycle; at a quiescent exit no active rule's condition holds on the final facts."),
    "C04": _eval_text("actions run in textual order on the facts left by the previous one; an assignment stores exactly the computed (converted) value at exactly the addressed path, all diverging paths unchanged."),
    "C05": _eval_text("the operators regenerated from reflectmath.go compute the documented semantics for every operand width; short-circuit, negation, parentheses, argument order; grammar levels match the published table except `&` (recorded finding D4)."),
    "C07": _eval_text("snapshot sharing is injective on trees, and a rule inside any knowledge base decides and does what its own text does on the facts."),
    "C08": _eval_text("Execute/FetchMatchingRules on an instance with arbitrary remembered values and Retracted flags equal the call on a fresh instance; Fetch leaves the facts alone."),
    "C13": _eval_text("a computed method call / field read is remembered and answered without re-evaluation until an assignment or Forget whose text occurs in it."),
    "C14": _eval_text("failing conditions/actions are contained: facts and memory stay sound, errors name the failing rule, completed statements keep their effect, nothing fires afterwards."),
    "C03": _eng_text("at most one firing per cycle, of a candidate with maximal salience; each rule evaluated at most once per cycle."),
    "C06": _eng_text("termination within MaxCycle+1 passes, at most MaxCycle firings, cycle-limit error exactly when one more firing is needed, nil only at quiescence/Complete, consecutive cycle numbers and a faithful evaluation/execution protocol."),
    "C10": _eng_text("a retracted name is neither evaluated nor fired again in the call, all other active rules keep being evaluated, Complete ends the run after the whole action list."),
    "C11": _eng_text("FetchMatchingRules returns exactly the non-removed rules whose condition is true, once each, in non-increasing salience order, and cannot execute an action."),
    "C15": _eng_text("no action list starts once a ctx.Err() check has seen the cancellation, a pre-cancelled context fires nothing, nil is never returned when a check saw the cancellation."),
    "C19": dict(
        text="Machine-checked proof (Coq 8.16.1) that the six comparison functions, as regenerated from pkg/reflectmath.go on every run, "
             "are mutually consistent (trichotomy, <=/>=/!= derived, mirrored under swap) and depend on denoted values only, for all "
             "operands of all widths/wrappings in the stated domain; tied to the code by the translator and an exhaustive operand-table sweep.",
        note="Trust: Coq kernel, stdlib float/real axioms listed in the evidence (FloatAxioms, classical reals via Flocq), the Go->Gallina "
             "translator, the model of reflect values (Values.v), the harness. uintptr and values outside int64 are outside the domain.",
        technique="Rocq/Coq proof over a model regenerated from source + differential correspondence (vm_compute)",
    ),
}
