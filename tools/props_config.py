"""Per-property configuration of the check driver.

proof_files : .v files (relative to coq/) whose lemmas are this property's proof obligations
props_files : files holding only the final theorems + Print Assumptions
harness     : harness subcommand that produces the correspondence cases and the direct oracle
"""

COMMON_TRUST = [
    "translator tools/go2coq (Go source -> Gallina) and the shape checks it performs",
    "correspondence harness tools/harness (scenario -> Gallina printer, canonical observation of the implementation)",
    "reading of the property text into the formal statement in coq/props (kept next to the theorem)",
]

PROPS = {
    "C19": dict(
        proof_files=["gen/ValuesGen.v", "gen/CmpGen.v", "proofs/AnchorsValues.v", "proofs/C19Proof.v", "props/C19.v"],
        props_files=["props/C19.v"],
        harness="C19",
        theorems=["C19_ordered", "C19_bool", "C19_value_only"],
        trusted=COMMON_TRUST + ["model of reflect values in coq/model/Values.v (kinds, get_value_elem, time record)"],
        assumptions=[
            "operands inside the int64 range, NaN excluded (as the property states); uintptr is not a numeric width",
            "time.Time modelled as (instant, location id, has-monotonic); After/Before/Equal compare instants",
            "float64(int64)/float64(uint64) modelled by of_uint63 (RNE); validated bit-for-bit by the correspondence sweep",
        ],
        explanation="Theorems C19_ordered/C19_bool/C19_value_only are stated over the six comparison functions of ArithGen.v, "
                    "regenerated from pkg/reflectmath.go on every run and re-proved; the exhaustive operand-table sweep compares "
                    "pkg.Evaluate* with the generated functions (tie) and evaluates the algebraic relations on the implementation (oracle).",
    ),
}

ENGINE_FILES = ["gen/EngineGen.v", "proofs/AnchorsEngine.v", "proofs/EngineProofs.v", "proofs/EngineTheorems.v", "proofs/EngineExamples.v"]
ENGINE_TRUST = COMMON_TRUST + [
    "abstract engine coq/model/EngineAbs.v (hand-written control skeleton of ExecuteWithContext / FetchMatchingRules / RuleEntry entry checks), "
    "tied to the source by the extracted comparison anchors (EngineGen.v), the site inventories (SitesGen.v) and the trace correspondence",
    "mini rule language coq/model/MiniEngine.v used to run the abstract engine against the real one (integer counters only)",
]
ENGINE_ASSUME = [
    "conditions do not change Retracted/Deleted flags; an action's Retract/Complete effects are applied when its list ends (they commute with the rest of the list)",
    "one goroutine per knowledge-base instance; cancellation is represented by the index of the first ctx.Err() call that observes it",
]

def engine_prop(pid, sites, theorem, expl):
    return dict(
        proof_files=ENGINE_FILES + sites + ["props/%s.v" % pid],
        props_files=["props/%s.v" % pid],
        harness=pid,
        theorems=[theorem],
        trusted=ENGINE_TRUST,
        assumptions=ENGINE_ASSUME,
        explanation=expl,
    )

PROPS["C03"] = engine_prop("C03", [], "C03",
    "C03 is proved for every condition/action semantics, salience assignment, budget, cancellation point and map iteration order over the abstract "
    "engine whose salience comparison is extracted from GruleEngine.go; the mini-engine harness replays generated rule sets on the real engine and "
    "on the model (listener trace, outcome, facts) and checks maximal-salience firing on the implementation's own trace.")
PROPS["C06"] = engine_prop("C06", ["proofs/AnchorsSitesNotify.v"], "C06",
    "termination within MaxCycle+1 passes, firing bound, exact cycle-limit condition and the listener protocol are proved over the abstract engine "
    "(budget comparison and notification numbers extracted from the source); budgets around the natural run length are replayed on the real engine.")
PROPS["C10"] = engine_prop("C10", ["proofs/AnchorsSitesFlags.v"], "C10",
    "Retract/Complete control effects proved over the abstract engine (retraction flags are a function of the Retract calls made so far); rule sets "
    "retracting self/other/unknown names and completing at any action position are replayed on the real engine.")
PROPS["C11"] = dict(
    proof_files=ENGINE_FILES + ["props/C11.v"], props_files=["props/C11.v"], harness="C11", theorems=["C11"],
    trusted=ENGINE_TRUST, assumptions=ENGINE_ASSUME,
    explanation="C11 (exact set, no duplicates, non-increasing salience for any stable-sort comparison satisfying the extracted anchor, no action parameter) "
                "is proved over the abstract FetchMatchingRules; generated rule sets are fetched on the real engine, also after an Execute on the same instance.")
PROPS["C15"] = engine_prop("C15", ["proofs/AnchorsSitesCtx.v"], "C15",
    "for every index of the first ctx.Err() call that sees the cancellation: no action list starts after a check saw it, a pre-cancelled context fires "
    "nothing, nil is returned only if no check (including the exit-path check) saw it; every cancellation position of generated runs is replayed on the "
    "real engine through a call-counting context.")

EVAL_MODEL = ["gen/CmpGen.v", "gen/ArithGen.v", "gen/OpsGen.v", "gen/EngineGen.v"]
PROPS["C01"] = dict(proof_files=EVAL_MODEL, props_files=[], harness="C01", theorems=[], trusted=ENGINE_TRUST, assumptions=ENGINE_ASSUME, explanation="(in progress)")
PROPS["C02"] = dict(proof_files=EVAL_MODEL, props_files=[], harness="C02", theorems=[], trusted=ENGINE_TRUST, assumptions=ENGINE_ASSUME, explanation="(in progress)")
for _p in ["C04", "C05", "C07", "C08", "C13", "C14"]:
    PROPS[_p] = dict(proof_files=EVAL_MODEL, props_files=[], harness=_p, theorems=[], trusted=ENGINE_TRUST, assumptions=ENGINE_ASSUME, explanation="(in progress)")

NOT_APPLICABLE = {}

def _eng_text(what):
    return dict(
        text="Machine-checked proof (Coq 8.16.1) over an abstract model of the engine loop, for every condition/action semantics, rule set, budget, "
             "cancellation point and map iteration order: " + what + " Tied to the code by comparison anchors and site inventories regenerated from "
             "the source on every run and by replaying generated rule sets on the real engine and on the model (listener trace, outcome, final facts).",
        note="Trust: Coq kernel; hand-written control skeleton EngineAbs.v (validated by the trace correspondence, not verified against Go); translator; "
             "harness; conditions are assumed not to change rule flags; single goroutine per instance. No axioms (closed under the global context).",
        technique="Rocq/Coq proof over an abstract engine automaton + source-extracted anchors + trace correspondence (vm_compute)",
    )

MANIFEST_TEXT = {
    "C03": _eng_text("at most one firing per cycle, of a candidate with maximal salience; each rule evaluated at most once per cycle."),
    "C06": _eng_text("termination within MaxCycle+1 passes, at most MaxCycle firings, cycle-limit error exactly when one more firing is needed, nil only at quiescence/Complete, consecutive cycle numbers and a faithful evaluation/execution protocol."),
    "C10": _eng_text("a retracted name is neither evaluated nor fired again in the call, all other active rules keep being evaluated, Complete ends the run after the whole action list."),
    "C11": _eng_text("FetchMatchingRules returns exactly the non-removed rules whose condition is true, once each, in non-increasing salience order, and cannot execute an action."),
    "C15": _eng_text("no action list starts once a ctx.Err() check has seen the cancellation, a pre-cancelled context fires nothing, nil is never returned when a check saw the cancellation."),
    "C19": dict(
        text="Machine-checked proof (Coq 8.16.1) that the six comparison functions, as regenerated from pkg/reflectmath.go on every run, "
             "are mutually consistent (trichotomy, <=/>=/!= derived, mirrored under swap) and depend on denoted values only, for all "
             "operands of all widths/wrappings in the stated domain; tied to the code by the translator and an exhaustive operand-table sweep.",
        note="Trust: Coq kernel, stdlib float/real axioms listed in the evidence (FloatAxioms, classical reals via Flocq), the Go->Gallina "
             "translator, the model of reflect values (Values.v), the harness. uintptr and values outside int64 are outside the domain.",
        technique="Rocq/Coq proof over a model regenerated from source + differential correspondence (vm_compute)",
    ),
}
