"""Per-property configuration of the check driver.

proof_files : .v files (relative to coq/) whose lemmas are this property's proof obligations
props_files : files holding only the final theorems + Print Assumptions
harness     : harness subcommand that produces the correspondence cases and the direct oracle
"""

COMMON_TRUST = [
    "translator tools/go2coq (Go source -> Gallina) and the shape checks it performs",
    "correspondence harness tools/harness (scenario -> Gallina printer, canonical observation of the implementation)",
    "reading of the property text into the formal statement in coq/props (kept next to the theorem)",
]

PROPS = {
    "C19": dict(
        proof_files=["gen/ValuesGen.v", "gen/CmpGen.v", "proofs/AnchorsValues.v", "proofs/C19Proof.v", "props/C19.v"],
        props_files=["props/C19.v"],
        harness="C19",
        theorems=["C19_ordered", "C19_bool", "C19_value_only"],
        trusted=COMMON_TRUST + ["model of reflect values in coq/model/Values.v (kinds, get_value_elem, time record)"],
        assumptions=[
            "operands inside the int64 range, NaN excluded (as the property states); uintptr is not a numeric width",
            "time.Time modelled as (instant, location id, has-monotonic); After/Before/Equal compare instants",
            "float64(int64)/float64(uint64) modelled by of_uint63 (RNE); validated bit-for-bit by the correspondence sweep",
        ],
        explanation="Theorems C19_ordered/C19_bool/C19_value_only are stated over the six comparison functions of ArithGen.v, "
                    "regenerated from pkg/reflectmath.go on every run and re-proved; the exhaustive operand-table sweep compares "
                    "pkg.Evaluate* with the generated functions (tie) and evaluates the algebraic relations on the implementation (oracle).",
    ),
}

ENGINE_FILES = ["gen/EngineGen.v", "proofs/AnchorsEngine.v", "proofs/EngineProofs.v", "proofs/EngineTheorems.v", "proofs/EngineExamples.v"]
ENGINE_TRUST = COMMON_TRUST + [
    "abstract engine coq/model/EngineAbs.v (hand-written control skeleton of ExecuteWithContext / FetchMatchingRules / RuleEntry entry checks), "
    "tied to the source by the extracted comparison anchors (EngineGen.v), the site inventories (SitesGen.v) and the trace correspondence",
    "mini rule language coq/model/MiniEngine.v used to run the abstract engine against the real one (integer counters only)",
]
ENGINE_ASSUME = [
    "conditions do not change Retracted/Deleted flags; an action's Retract/Complete effects are applied when its list ends (they commute with the rest of the list)",
    "one goroutine per knowledge-base instance; cancellation is represented by the index of the first ctx.Err() call that observes it",
]

def engine_prop(pid, sites, theorem, expl):
    return dict(
        proof_files=ENGINE_FILES + sites + ["props/%s.v" % pid],
        props_files=["props/%s.v" % pid],
        harness=pid,
        theorems=[theorem],
        trusted=ENGINE_TRUST,
        assumptions=ENGINE_ASSUME,
        explanation=expl,
    )

PROPS["C03"] = engine_prop("C03", [], "C03",
    "C03 is proved for every condition/action semantics, salience assignment, budget, cancellation point and map iteration order over the abstract "
    "engine whose salience comparison is extracted from GruleEngine.go; the mini-engine harness replays generated rule sets on the real engine and "
    "on the model (listener trace, outcome, facts) and checks maximal-salience firing on the implementation's own trace.")
PROPS["C06"] = engine_prop("C06", ["proofs/AnchorsSitesNotify.v"], "C06",
    "termination within MaxCycle+1 passes, firing bound, exact cycle-limit condition and the listener protocol are proved over the abstract engine "
    "(budget comparison and notification numbers extracted from the source); budgets around the natural run length are replayed on the real engine.")
PROPS["C10"] = engine_prop("C10", ["proofs/AnchorsSitesFlags.v"], "C10",
    "Retract/Complete control effects proved over the abstract engine (retraction flags are a function of the Retract calls made so far); rule sets "
    "retracting self/other/unknown names and completing at any action position are replayed on the real engine.")
PROPS["C11"] = dict(
    proof_files=ENGINE_FILES + ["props/C11.v"], props_files=["props/C11.v"], harness="C11", theorems=["C11", "C11_semantic"],
    trusted=ENGINE_TRUST, assumptions=ENGINE_ASSUME,
    explanation="C11 (exact set, no duplicates, non-increasing salience for any stable-sort comparison satisfying the extracted anchor, no action parameter) "
                "is proved over the abstract FetchMatchingRules; C11_semantic transports it to the engine with its working memory from any memory contents: the result is "
                "exactly the non-removed rules whose condition evaluated from scratch on the given facts is true (side-effect free conditions). Generated rule sets are "
                "fetched on the real engine, also after an Execute on the same instance.")
PROPS["C15"] = engine_prop("C15", ["proofs/AnchorsSitesCtx.v"], "C15",
    "for every index of the first ctx.Err() call that sees the cancellation: no action list starts after a check saw it, a pre-cancelled context fires "
    "nothing, nil is returned only if no check (including the exit-path check) saw it; every cancellation position of generated runs is replayed on the "
    "real engine through a call-counting context.")

EVAL_MODEL = ["gen/CmpGen.v", "gen/ArithGen.v", "gen/OpsGen.v", "gen/EngineGen.v"]
REFINE_FILES = EVAL_MODEL + ["proofs/AnchorsEngine.v", "proofs/EngineProofs.v", "proofs/EngineTheorems.v", "proofs/FactsProofs.v",
                             "proofs/ActionTheorems.v", "proofs/SnapInj.v", "proofs/C05Proof.v", "proofs/MemoProofs.v", "proofs/MemoKeep.v",
                             "proofs/StateTrack.v", "proofs/Refinement.v", "proofs/RefineTheorems.v", "proofs/MemoTheorems.v", "proofs/SnapContain.v", "proofs/Frame.v",
                             "proofs/FrameTheorems.v", "proofs/EndToEnd.v", "proofs/Findings.v"]
EVAL_TRUST = ENGINE_TRUST + [
    "memoising evaluator coq/model/Eval.v (hand-written twin of ast/*.go Evaluate/Assign/Execute + WorkingMemory: values remembered per tree, "
    "reset by snapshot substring), fact store coq/model/Facts.v, method table coq/model/Methods.v (twin of the harness fact library) - validated against "
    "the real engine by the scenario correspondence (listener trace, outcome, final facts, method call counts, rule snapshots), not verified against Go",
    "SPEC evaluator coq/model/Fresh.v (from-scratch semantics; no memory) - it is the reference the theorems are stated against",
    "operators: coq/gen/CmpGen.v, ArithGen.v, OpsGen.v regenerated from pkg/reflectmath.go and antlr/grulev3.g4 on every run",
]
EVAL_ASSUME = ENGINE_ASSUME + [
    "rules_ok: conditions are side-effect free; actions are assignments over side-effect free expressions, control built-ins and side-effect free calls "
    "(mutating fact methods are covered by the correspondence only)",
    "dependency_hypothesis (explicit in every theorem that needs it): a successful assignment to x changes the from-scratch value only of nodes whose "
    "snapshot contains the snapshot of x or - for a slice element / map entry - of a may-alias element variable of the same container (Eval.reset_set, the engine's ResetElement); proofs/Findings.v proves it cannot be dropped (D2: recorded finding, reproduced on the real engine on every run; D3 was repaired in the engine); "
    "for FLAT rule sets (proofs/Frame.v: variables are top-level names, field chains and literal selectors such as F.X, F.In.X, F.Arr[2], F.M[\"k\"] - no computed selectors or functions; expressions from constants, negation, parentheses, the binary operators, the value built-ins (Max, Min, Abs, IsZero, IsNil) and calls of admitted methods (side-effect free, independent of the receiver's state, not the built-in Len) on such variables, "
    "actions are assignments and control built-ins) both hypotheses are proved (Cxx_flat theorems) - there the theorems carry no assumption on the rules",
    "facts form a tree (no aliasing between fact objects); ASCII strings",
]

def eval_prop(pid, extra, theorems, expl):
    return dict(proof_files=REFINE_FILES + extra + ["props/%s.v" % pid], props_files=["props/%s.v" % pid], harness=pid, theorems=theorems,
                trusted=EVAL_TRUST, assumptions=EVAL_ASSUME, explanation=expl)

PROPS["C11"]["proof_files"] = REFINE_FILES + ["props/C11.v"]
PROPS["C03"]["proof_files"] = REFINE_FILES + ["props/C03.v"]
PROPS["C03"]["theorems"] = ["C03", "C03_semantic"]
PROPS["C01"] = eval_prop("C01", ["proofs/AnchorsSitesMemo.v"], ["C01", "C01_flat", "C01_sample", "C01_hypothesis_needed"],
    "C01 is proved for the engine model WITH its working memory started from arbitrary memory contents, for every budget, flag, cancellation point and "
    "map order: engine_refines_spec (the memoising run equals the run that evaluates everything from scratch) + state tracking of the from-scratch run "
    "+ the protocol theorem C06. The hypothesis on invalidation is explicit and shown necessary by the D2 witness. Generated rule sets run on the real "
    "engine and the model; at every ExecuteRuleEntry the harness re-evaluates the rule alone on a deep copy of the facts.")
PROPS["C02"] = eval_prop("C02", ["proofs/AnchorsSitesMemo.v"], ["C02", "C02_flat"],
    "C02: every active rule whose from-scratch condition is true is reported as candidate in each firing cycle, and at the quiescent exit no active rule's "
    "condition holds on the final facts; proved via the refinement theorem. Harness as for C01 plus multi-resource knowledge bases and chained activations.")
PROPS["C04"] = eval_prop("C04", ["proofs/StoreExact.v"], ["C04", "C04_flat", "C04_integer_store_exact_signed", "C04_integer_store_exact_unsigned"],
    "C04: the action list with the working memory equals the in-order from-scratch list; each successful assignment computes its value on the current facts "
    "and write_target stores it (converted to the destination kind) at exactly the addressed path, every diverging path unchanged (lens laws). The harness "
    "compares all addressed locations and the frame on the caller's own Go objects; integers in range of an integer destination of either family arrive "
    "bit for bit (StoreExact.v; probes with magnitudes above 2^53).")
PROPS["C05"] = eval_prop("C05", ["proofs/AnchorsValues.v", "proofs/StringBuiltins.v"], ["C05_string_builtins", "C05_operators", "C05_binary", "C05_and_short_circuit", "C05_or_short_circuit", "C05_parentheses",
                                                          "C05_negation", "C05_arguments", "C05_grammar_levels", "C05_published_table_partial", "C05_published_table_refuted"],
    "C05: the operator functions regenerated from pkg/reflectmath.go compute the independently written documented semantics (doc_bin) for operands of "
    "every width; short-circuit, negation, parentheses, argument order proved on the SPEC evaluator; the grammar's operator levels (regenerated) match the "
    "model and the published table except for `&` (finding D4, refuted lemma + regression probes). Harness: operator x kind x kind grid, random typed "
    "trees against an independent documented-semantics evaluator, re-renderings, precedence probes.")
PROPS["C07"] = eval_prop("C07", ["proofs/AnchorsSitesMemo.v"], ["C07", "C07_flat"],
    "C07: snapshots are injective on well-formed trees (sharing by snapshot = sharing of equal trees) and, inside any knowledge base and any sound memory, "
    "a rule's condition and actions compute what its own text computes on the facts. Harness: rule + generated near-sibling built together vs alone.")
PROPS["C08"] = eval_prop("C08", ["proofs/AnchorsSitesMemo.v", "proofs/AnchorsSitesFlags.v"], ["C08", "C08_flat"],
    "C08: Execute and FetchMatchingRules from arbitrary memory contents and arbitrary Retracted flags equal the call on a fresh instance; site inventory of "
    "every memo/flag mutation (incl. range-over-map resets) anchors ResetAll/Reset. Harness: histories of calls on one instance vs fresh instances.")
PROPS["C13"] = eval_prop("C13", ["proofs/AnchorsSitesMemo.v", "proofs/Potential.v", "proofs/CallCount.v", "proofs/CallCountExamples.v", "proofs/AliasExact.v"], ["C13", "C13_run", "C13_run_example", "C13_alias_exact"],
    "C13_run: over a whole Execute call (any instance state, entries, budget, cancellation point, iteration order) a counted method that occurs with one text "
    "runs at most once plus once per invalidation event among the executed statements (potential argument over the abstract engine); tight on a parsed example. "
    "C13: a successful method call / field read is remembered; a remembered node is answered without touching facts, counters or memory; evaluating "
    "side-effect free nodes never drops an entry; assignment / Forget drop only nodes whose snapshot/text contains the argument. Harness: call counters "
    "of the fact library against the bound 1 + number of invalidation events.")
PROPS["C14"] = eval_prop("C14", ["proofs/AnchorsSitesRecover.v"], ["C14", "C14_flat"],
    "C14: a failing condition leaves facts and memory sound and is the from-scratch verdict; without the flag no condition error is returned; with it the "
    "error names a rule whose condition fails on that cycle's facts; an action failure names the executing rule, is last, and keeps the completed prefix. "
    "Harness: faulty rule stream (missing facts, nil, ranges, kinds, division by zero, panicking methods).")

# ---- C12 (binary store/load) -- begin ----
CODEC_FILES = ["gen/CodecGen.v", "proofs/AnchorsCodec.v", "proofs/CodecProofs.v"]
CODEC_TRUST = COMMON_TRUST + [
    "hand-written model of the catalog stream coq/model/CodecPrim.v, Codec.v (byte-level readers/writers, 13 meta records, catalog frame, "
    "Write-call sequence, library map with the overwrite flag) and of BuildKnowledgeBase read as trees coq/model/Catalog.v; tied to the source by "
    "the extracted tag constants / version string / field orders (CodecGen.v, AnchorsCodec.v) and by decoding real streams inside Coq on every run",
]
PROPS["C12"] = dict(
    proof_files=CODEC_FILES + ["proofs/CatalogProofs.v", "props/C12.v"],
    props_files=["props/C12.v"],
    harness="C12", corr_files=["model/CorrCodec.v"], harness_timeout=3000,
    theorems=["C12_roundtrip", "C12_truncation", "C12_writer_fault", "C12_no_overwrite", "C12_kb_roundtrip", "C12_removed_preserved"],
    trusted=CODEC_TRUST,
    assumptions=[
        "a Go map is written in its iteration order: the model keeps every map as an association list in stream order, the theorems hold for every order",
        "wf_catalog: all lengths and counts < 2^64, int fields inside int64 (true of every catalog MakeCatalog builds)",
        "the model reads from a byte list; readers that return short reads without error are handled by the engine since commit 2f18ef4 (io.ReadFull / io.CopyN at every read, formerly D19) and are exercised by the harness (1-byte and 1..7-byte readers must load the same knowledge base)",
        "behavioural equivalence of instances is obtained from equality of the whole catalog (every node meta, both snapshot maps, the invalidation index); "
        "BuildKnowledgeBase is modelled as Catalog.kb_of_catalog (graph read as trees the way the evaluator reads it) and compared with the implementation on every run; "
        "kb_of_catalog (catalog_of_kb rs) = Ok rs is proved for a catalog_of_kb without node sharing and without working-memory maps (the real MakeCatalog shares equal "
        "sub-expressions; its output is what the correspondence decodes and unfolds)",
        "removed rules: the Deleted flag is not a field of the stream; the model derives it from the rule name exactly as BuildKnowledgeBase does since engine commit 01c7ce8 "
        "(tombstone name = Deleted_ + uuid, anchored to the source); C12_removed_preserved assumes that flag and name agree in the stored knowledge base, which building "
        "(rule names have no '-') and RemoveRuleEntry maintain; generated knowledge bases have rules removed before the store and a regression scenario (formerly D8) runs first",
    ],
    explanation="Round trip decode(encode c) = Ok c for every well-formed catalog and every map order, error on every strict prefix, store error for every failing "
                "Write call, and the overwrite=false / failed-load library invariants are proved over the executable stream model; the streams written by the real "
                "StoreKnowledgeBaseToWriter for generated knowledge bases are decoded by the model inside Coq (re-encoding reproduces the bytes, unfolded rules equal "
                "the rules built, working-memory maps and invalidation index as IndexVariables computes them, Write-call count), and the implementation is checked "
                "directly: load(store) and load(store(load(store))) equal in metadata, snapshots, working memory and instance behaviour; every truncation offset of "
                "small streams and all field boundaries of large ones fail to load; every / sampled failing Write index; overwrite semantics.",
)
# ---- C12 -- end ----

# ---- C20: see the block after C17 / C18 (it uses PARSER_FILES / PARSER_TRUST) ----

# ---- C17 / C18: GRL acceptance and the JSON translator (parser model) ----
PARSER_TRUST = COMMON_TRUST + [
    "lexer / parser / builder model coq/model/Lexer.v, Parser.v (hand-written from antlr/grulev3.g4, the listener and RuleBuilder.go; "
    "that ANTLR's generated parser accepts the same language and builds the same trees is the correspondence, not a theorem)",
]
PARSER_FILES = ["model/Lexer.v", "model/Parser.v", "model/GrlPrint.v", "model/CorrParse.v", "proofs/FloatLit.v", "proofs/LexProofs.v", "proofs/ParserProofs.v"]
PROPS["C17"] = dict(
    proof_files=PARSER_FILES + ["proofs/ParserWf.v", "proofs/C17Proof.v", "props/C17.v"],
    props_files=["props/C17.v"],
    harness="C17",
    theorems=["C17_roundtrip_partial", "C17_roundtrip_spacing_partial", "C17_expr_roundtrip", "C17_accept", "C17_reject", "C17_string_literal", "C17_snapshot_link"],
    trusted=PARSER_TRUST,
    assumptions=[
        "ASCII input (bytes >= 128 outside string literals are outside the modelled domain and never generated)",
        "C17_roundtrip_partial / C17_roundtrip_spacing_partial: print_rules is one canonical spelling of the tokens (lower-case keywords, decimal integers, exact hexadecimal "
        "floats, double-quoted strings) with arbitrary white space; keyword case, comments and the other literal notations (octal / hex integers, decimal floats incl. correct "
        "rounding, single quotes) are covered by the correspondence only; the converse (every accepted text is the spelling of a well-formed tree) is not proved",
        "third clause of the property (a rejected text does not damage what was loaded): holds of the builder model by construction (C17_reject) and is checked on the "
        "implementation by the rollback oracles of the harness (rule set, snapshots, NewKnowledgeBaseInstance, StoreKnowledgeBaseToWriter and the run of the earlier rules after "
        "every rejected text; no tolerated region since the fix 4ed034e; the former witnesses are a regression corpus that runs first)",
        "the description of a rule is the unquoted text of its string literal (fix 12086c3); a malformed escape in it is a syntax error",
    ],
    explanation="The lexer/parser/builder model is proved to invert the printer on every well-formed rule list of any size (C17_roundtrip_partial, C17_expr_roundtrip), "
                "to accept exactly the grammatical texts with new names and to store every rule as declared (C17_accept), to answer Err - never Panic - otherwise with the "
                "knowledge base unchanged, and to reject empty conditions / action lists, out-of-range saliences, duplicate names, illegal characters and reserved words "
                "(C17_reject); string escapes round-trip for every byte string (C17_string_literal). Generated valid documents (typed and purely syntactic, all lexical "
                "varieties) and single-edit mutants are loaded with the real builder; verdict and the snapshot of every stored rule are compared with the model parser "
                "(vm_compute), and direct oracles check error reporting, by-construction rejects, stored metadata and the survival of earlier rules.",
)

PROPS["C18"] = dict(
    proof_files=PARSER_FILES + ["model/JsonRule.v", "model/CorrJson.v", "proofs/JsonProofs.v", "proofs/JsonParse.v", "proofs/C18Proof.v", "props/C18.v"],
    props_files=["props/C18.v"],
    harness="C18",
    theorems=["C18", "C18_malformed", "C18_string"],
    trusted=PARSER_TRUST + [
        "translator model coq/model/JsonRule.v (hand-written from pkg/JsonResource.go; its output is compared byte for byte with ParseJSONRule on every generated case)",
        "from-scratch evaluator coq/model/Fresh.v and the harness fact library twin Methods.v (shared with C01/C05)",
    ],
    assumptions=[
        "ASCII input; JSON numbers in the model are integers: below 2^53 in magnitude as the value of {\"const\": n} (FormatFloat 'f' prints their digits), below 10^6 as plain operands / call arguments "
        "(fmt.Sprint(float64) switches to exponent notation at 10^6 and prints -0 for negative zero: the harness keeps such operands out of the model comparison); other numbers are exercised on the implementation only",
        "theorem C18 quantifies over the typed JSON rules satisfying the decidable predicate wf_trule, which demands only: the shape every accepted rule has (identifier name, "
        "non-empty action list, 'when' an operator object or a plain string, join operators with two or more operands, 'not' with one or more, and/or over two or more objects - the "
        "translator or the builder reject anything else: C18_malformed, C17_reject); plain strings spelled canonically (operand = text of a well-formed atom, condition = of a "
        "well-formed expression, action = of a well-formed statement ending in ';'); salience within 32 bits, integer constants within 64; and/or nested at most 1000 deep (the "
        "translator stops at 1024). Name, description and salience are equal. D12, D13, D13b, D14, D15 are repaired in the engine (12086c3, 2cd0fef, eb4ea8e, e1f41de, e582254): no refutation remains",
        "encoding/json is outside the model: the harness hands the decoded JSON value to the model",
    ],
    explanation="For every well-formed typed JSON rule of any size and nesting the model translator's text is proved to be accepted by the parser model and to denote exactly the expected rule "
                "(name, salience, description, action list), whose condition has, on every fact state and for every method table, the value of the JSON operator tree with operands "
                "grouped as nested (brackets are transparent, a lone operand of 'not' is negated, several are compared) - theorem C18; string constants round-trip for every byte string (C18_string); missing name/when/"
                "then, unknown operators, empty or multi-key objects, one-operand binary operators and wrong set/call/compound arity are rejected (C18_malformed). Generated typed trees (all 15 operators, set/call/obj/const, plain operands, depth <= 4) go through pkg.ParseJSONRule, a JSON resource, the "
                "real builder and FetchMatchingRules on two fact states; text, stored rule and verdicts are compared with the model and with an independent Go tree walker.",
)

# ---- C16 (library state machine) -- begin ----
LIBRARY_TRUST = COMMON_TRUST + [
    "hand-written state machine of the knowledge library coq/model/Library.v (KnowledgeLibrary map, Grl duplicate test, AddRuleEntry, both RemoveRuleEntry, "
    "Clone of the entry flags, store+load of the entry flags, the part of ExecuteWithContext / FetchMatchingRules that reads Retracted / Deleted through the guards "
    "regenerated in EngineGen.v) - validated against the real library by the history correspondence, not verified against Go",
    "uuid.New() is modelled by a counter: tombstone names are 'Deleted_' + n marks; rule names given to the builder are assumed not to start with 'Deleted_' (ops_user)",
]
PROPS["C16"] = dict(
    proof_files=["gen/EngineGen.v", "proofs/AnchorsEngine.v", "proofs/LibraryProofs.v", "props/C16.v"],
    props_files=["props/C16.v"],
    harness="C16", corr_files=["model/Library.v", "model/CorrLibrary.v"],
    theorems=["C16_unique_names", "C16_build", "C16_failed_build_unchanged", "C16_removed_from_instance",
              "C16_only_rules_in_force", "C16_removed_from_library", "C16_removed_rules", "C16_rebuild", "C16_frame"],
    trusted=LIBRARY_TRUST,
    assumptions=[
        "rule bodies are abstract (any type B, any condition semantics holds : B -> F -> bool, any iteration order of the entry map): what a rule computes is the subject of C01-C07; "
        "here a fired rule is identified with the body stored under its name",
        "syntactically valid resources only (acceptance of texts is C17); a build is all-or-nothing (KnowledgeBase.Checkpoint / restore, engine commit 4ed034e): a rejected "
        "resource leaves every knowledge base entry, every instance and the tombstone supply as they were (C16_failed_build_unchanged, full); the one trace it can leave is "
        "the EMPTY knowledge base that GetKnowledgeBase creates for a key that did not exist before (modelled, and observed: NewKnowledgeBaseInstance then succeeds on it)",
        "store+load: the Deleted flag is not in the stream; BuildKnowledgeBase reads it off the stored rule name (isTombstoneName: 'Deleted_' + a UUID, engine commit 01c7ce8). "
        "The model reads it off the prefix 'Deleted_' of its counter-made tombstone names. With that the removed RULE (its entry, renamed to a tombstone) stays out of force in "
        "every reachable state, across any number of store+load round trips (C16_removed_rules, full; it also proves that store+load of a reachable knowledge base equals Clone "
        "on the flags), and the removed NAME stays out of force until it is built again (C16_removed_from_library)",
        "ops_user (explicit hypothesis of the theorems about histories): rule names given to the builder do not start with 'Deleted_'. This is the engine's own naming convention "
        "for removed rules: a user rule whose name literally is a tombstone name ('Deleted_' + a well-formed UUID) WOULD be read as removed when its knowledge base is loaded, and "
        "a UUID is assumed never to collide with a chosen name; the generated histories use the names R0..R3",
        "NewKnowledgeBaseInstance is modelled as always succeeding on an existing key; the generated histories build rejected resources whose expressions are new to the "
        "working memory (the former region D10a) and the former witnesses of D10a / D10b run first on every check as fixed regression histories that must pass",
        "one goroutine; a removal during a run is a fact method called from an action (between two passes), never concurrent with the engine's range over the entry map",
    ],
    explanation="Invariants of the library state machine are proved by induction over arbitrary operation histories (build / remove on library and instance / new instance / "
                "store+load / execute, any number of keys, instances, rules): unique active names in every reachable state, exact build verdict with the existing rule left in "
                "place, removal permanent on the instance and on all later instances (name level, also across store+load), evaluated / fired / fetched rules are rules in force "
                "(also for a removal during the run), re-use of a removed name denotes the new rule, a rejected build changes nothing, removed rules stay removed across store+load, frame - all at full "
                "strength. Random histories of 3-14 operations run on the real library; (knowledge bases holding removed rules are stored and loaded repeatedly and the removed name is built again afterwards); after every step every key (fresh instances: Execute with listener, "
                "FetchMatchingRules) and every live instance are probed; the model replays each history inside Coq (c16_case_diff: build verdicts, instance creation, per-cycle "
                "evaluated sets with candidate flags, fired rule + payload written, fetched sets) and an independent shadow map in Go predicts the same observables.",
)
# ---- C16 -- end ----

# ---- C09 (clone graph, isolation) -- begin ----
PROPS["C09"] = dict(
    proof_files=["gen/EngineGen.v", "proofs/AnchorsEngine.v", "proofs/LibraryProofs.v", "proofs/CloneProofs.v", "proofs/BuildGraphProofs.v", "props/C09.v"],
    props_files=["props/C09.v"],
    harness="C09", corr_files=["model/Clone.v", "model/CorrClone.v", "model/BuildGraph.v", "model/Library.v", "model/CorrLibrary.v"],
    theorems=["C09_clone", "C09_accepted_build", "C09_build_history", "C09_orphan", "C09_disjoint", "C09_instance", "C09_frame", "C09_isolation"],
    trusted=LIBRARY_TRUST + [
        "hand-written pointer-graph model of KnowledgeBase.Clone coq/model/Clone.v (nodes = kind, scalar label, children in field order; clone table; the five "
        "working-memory maps re-targeted through the table) - validated on every run against the object graphs of blueprint and instance read by reflection",
        "reflection walker of tools/harness/c09.go (which fields are children / scalars / excepted: strings, reflect.Value fields, nil interfaces, the mutex)",
    ],
    assumptions=[
        "PARTIAL: data-race freedom of the Go objects (maps, uuid generator, loggers) under the Go memory model is not a statement about any Gallina model; "
        "the concurrency clause is proved only as: for every interleaving of ATOMIC steps of k instances with disjoint cells (sequential consistency: a schedule is a list) "
        "each instance ends with the result of its own sequential run (C09_isolation). The harness runs N goroutines x M instances under `go build -race` and compares "
        "with sequential runs: supporting evidence, never counted as an obligation",
        "closed graphs: no node of the working memory is an orphan. C09_orphan proves an orphan makes the clone fail - what the roll-back of a rejected resource prevents "
        "(former finding D10a, fixed by engine commit 4ed034e; its witness runs first on every check and must pass). C09_build_history proves that the graph a bottom-up builder "
        "with interning by tree (coq/model/BuildGraph.v: the listener + WorkingMemory.Add*, snapshots taken as injective - C07; a rejected resource is walked and then restored to "
        "the checkpoint: rule entries and snapshot maps as before, the walk's nodes stay as unreferenced garbage) makes from ANY sequence of accepted and rejected resources is well "
        "formed and closed; that builder is a hand-written model of the listener's construction order and of Checkpoint/restore, tied to the code through closedb on every exported "
        "graph (proved sound) - half of the exported knowledge bases have received a rejected resource with new expressions",
        "'behave exactly like the library's': the clone unfolds to the same trees under the same rule keys with the working-memory maps re-targeted (C09_clone); "
        "behaviour then follows from the evaluator theorems (C01-C08), which are stated over trees; on the library machine Execute / FetchMatchingRules of a new "
        "instance are those of the library's entries (C09_instance)",
        "graph ids: children are numbered before parents (post-order export); the copy's ids come from a counter standing for unique.NewID()",
    ],
    explanation="KnowledgeBase.Clone is modelled on pointer graphs with a clone table; for every well-formed closed graph the clone succeeds, is a copy along the table "
                "(sharing preserved both ways), unfolds to the same trees, re-targets the working-memory maps and uses only fresh ids, so blueprint / instance / later "
                "instances are pairwise disjoint; an orphan in the working memory makes it fail, and the graph built by any sequence of accepted and rejected (rolled back) resources has "
                "none. Isolation is proved as a frame theorem on the library machine and as "
                "commutation / interleaving theorems for steps local to disjoint cell sets. The harness walks the object graphs of blueprint and three instances by "
                "reflection (isomorphism along the canonical traversal, no shared mutable object), hands blueprint and instance graphs to the model inside Coq (clone "
                "success, closedness, instance = model clone along the model's table), compares instance behaviour with the library's knowledge base, dumps all mutable "
                "state of a second instance and of the blueprint around execute / retract / remove in the first, builds a rejected resource with new expressions into every second "
                "knowledge base (which must stay exactly as it was), runs library histories, and runs goroutines under the "
                "race detector as supporting evidence.",
)
# ---- C09 -- end ----

# ---- C20 (all four loaders) -- begin ----
PROPS["C20"] = dict(
    proof_files=CODEC_FILES + PARSER_FILES + ["model/JsonRule.v", "proofs/LoaderProofs.v", "props/C20.v"],
    props_files=["props/C20.v"],
    harness="C20", corr_files=["model/CorrCodec.v", "model/CorrParse.v", "model/CorrJson.v"],
    harness_timeout=3000,
    theorems=["C20_binary", "C20_grl_model", "C20_grl_stored_text_refuted", "C20_jsonrule_model", "C20_jsonfact_model"],
    trusted=CODEC_TRUST + PARSER_TRUST[len(COMMON_TRUST):] + [
        "translator model coq/model/JsonRule.v (hand-written from pkg/JsonResource.go; compared with ParseJSONRule on the generated objects inside its domain)",
        "mirror decoder of the harness (tools/harness/c20bin.go walkStream), compared with Catalog.ReadCatalogFromReader (acceptance) "
        "and with the model (acceptance, requested bytes) on every generated input",
        "sandbox of the harness (tools/harness/c20sandbox.go): child process under ulimit -v, wall-clock timeout, runtime.MemStats.TotalAlloc and getrusage CPU time around the load",
        "static region predicates of the harness (c20gen.go: more than 48 lexical elements for the GRL / JSON-rule loaders, bracket depth above 64 for the translation stage) - "
        "they only decide where the linear bounds are evaluated; the class oracle (no panic / kill / timeout) applies to every loaded input",
    ],
    assumptions=[
        "the theorems are about the loader MODELS: Lexer.v / Parser.v (GRL text, ASCII), JsonRule.v translate (JSON rule, over the decoded value, integer numbers), the small value-tree model of "
        "JSON facts in LoaderProofs.v, Codec.v decode / alloc_decode (binary stream). The generated ANTLR lexer / parser and its runtime, encoding/json, the Go runtime, time and resident "
        "memory are NOT modelled: they are covered only by the sandboxed fuzz / differential runs (supporting evidence, not proof)",
        "model-side 'memory' is a count: tokens and tree nodes (GRL), characters of the translated text (JSON rules), nodes of the fact tree (JSON facts), bytes the stream makes the reader "
        "request (binary: fixed buffers, min(announced, remaining) per byte block, 16 per appended string); implementation-side memory is the TotalAlloc delta of the load in a child process, "
        "time is its CPU time (getrusage) with a wall-clock timeout as hang detector; the growth policy of bytes.Buffer / append and the nodes built per meta are not modelled",
        "termination of the models is by construction (total Coq functions); the lexer fuel and the parser's nesting fuel are proved never to run out; the translator has no fuel",
        "the linear bounds are REFUTED for GRL text (and JSON rule text, which is built through it), two open known findings with witnesses replayed on every run: D23 (GRL builder super-linear in "
        "time and memory: cubic in nesting depth, quadratic in the number of siblings; also refuted on the model for the text stored per node), D24 (ANTLR recursion overflows the goroutine stack "
        "from about 250 000 nested negations on: process abort). Inside region D23 (more than 48 lexical elements) only the class oracle and a cubic envelope are evaluated, inputs above 400 (quick) / 800 "
        "(thorough) lexical elements are not loaded, and a timeout above 250 elements is reported under the D23 key",
        "time-based verdicts (absolute CPU bound; growth exponent of the CPU time over a chain of at least two doublings above 1.7, where linear is 1 and quadratic 2) are reported only after a "
        "re-measurement in a separate sandbox (smallest CPU time of all runs); allocation-based verdicts are deterministic",
    ],
    explanation="Theorems: the binary allocation clause holds for every byte string (C20_binary: alloc_decode bs <= 3*length bs + 8, repaired reader); the GRL lexer / parser / builder model never panics, "
                "its two fuels never run out, tokens <= characters and tree nodes <= tokens (C20_grl_model), while the text the listener stores per node admits no linear bound "
                "(C20_grl_stored_text_refuted, finding D23); the JSON rule translator model never panics, has no fuel and emits at most 16*size+64 characters (C20_jsonrule_model); the JSON fact tree "
                "is size-preserving (C20_jsonfact_model). Harness: for each of the four loaders (plus the translation stage of the JSON rule loader alone) a fixed battery of small edge cases, random "
                "bytes, structure-aware mutants of generated valid inputs and 130 shape families (doubling series, depth probes 10..100 000) are loaded in sandboxed child processes; oracle: class in "
                "{ok, error}, TotalAlloc <= A*len+B, CPU <= C*len+D, allocation ratio of a doubling <= 3, CPU growth exponent <= 1.7, outside the known-finding region; correspondence: the same GRL "
                "texts through parse_grl / build (verdict + snapshots), JSON rule objects through translate (text), binary streams through decode / alloc_decode (c20bin.go, incl. the corpus of hostile length prefixes).",
)
# ---- C20 -- end ----

NOT_APPLICABLE = {}

def _eng_text(what):
    return dict(
        text="Machine-checked proof (Coq 8.16.1) over an abstract model of the engine loop, for every condition/action semantics, rule set, budget, "
             "cancellation point and map iteration order: " + what + " Tied to the code by comparison anchors and site inventories regenerated from "
             "the source on every run and by replaying generated rule sets on the real engine and on the model (listener trace, outcome, final facts).",
        note="Trust: Coq kernel; hand-written control skeleton EngineAbs.v (validated by the trace correspondence, not verified against Go); translator; "
             "harness; conditions are assumed not to change rule flags; single goroutine per instance. No axioms (closed under the global context).",
        technique="Rocq/Coq proof over an abstract engine automaton + source-extracted anchors + trace correspondence (vm_compute)",
    )

def _eval_text(what):
    return dict(
        text="Machine-checked proof (Coq 8.16.1) over a model of the engine WITH its working memory (memoising evaluator, fact store, engine loop): " + what +
             " Tied to the code by operator/anchor tables regenerated from the source on every run and by replaying generated rule sets on the real engine "
             "and the model (listener trace, outcome, final facts, call counts, snapshots), plus direct oracles on the implementation.",
        note="Trust: Coq kernel (+vm_compute), hand-written evaluator/engine models validated by correspondence, translator, harness. Hypotheses explicit in the "
             "theorems: side-effect free conditions/expressions (rules_ok) and the dependency hypothesis on invalidation (shown necessary; D2 is a recorded "
             "finding, D3 was repaired); both are PROVED for flat rule sets (top-level names, field chains, literal selectors, constants, !, parentheses, binary operators, receiver-independent method calls; assignments and control built-ins). Only primitive int/float operations appear under Print Assumptions.",
        technique="Rocq/Coq proof: refinement of a from-scratch spec engine by the memoising engine + differential correspondence (vm_compute)",
    )

MANIFEST_TEXT = {
    "C18": dict(
        text="Machine-checked proof (Coq 8.16.1) over a function-by-function model of pkg/JsonResource.go: for every well-formed typed JSON rule, of any size and nesting, the "
             "translated text is accepted by the parser model and denotes the rule with the same name, salience, action list and a condition whose from-scratch value equals that "
             "of the JSON operator tree grouped as nested; string constants round-trip for every byte string; malformed rules are rejected. Tied to the code by comparing the "
             "translator text byte for byte, the stored rule and FetchMatchingRules verdicts on generated trees, plus an independent Go tree walker.",
        note="Trust: Coq kernel; hand-written translator / parser / evaluator models (validated by correspondence, not verified against Go); encoding/json; harness. The theorem "
             "quantifies over typed rules whose plain strings are canonically spelled well-formed GRL snippets, with and/or nesting <= 1000 and numbers in range (wf_trule). ASCII; integer JSON numbers. Axioms: Coq's primitive float / int63 operations only (the evaluator computes with them).",
        technique="Rocq/Coq proof over an executable translator + parser model (induction over JSON trees, all sizes) + differential correspondence (vm_compute) + independent tree walker",
    ),
    "C17": dict(
        text="Machine-checked proof (Coq 8.16.1) over an executable lexer / parser / builder model of the GRL grammar: the parser inverts the printer on every "
             "well-formed rule list of any size and nesting depth (precedence, postfix chains, literals, string escapes), accepts exactly the grammatical texts "
             "with new names, stores every rule as declared and answers an error (never a panic) otherwise. Tied to the code by loading generated documents and "
             "single-edit mutants with the real builder and comparing verdict and the snapshot of every stored rule with the model, plus direct oracles.",
        note="Trust: Coq kernel; hand-written model of grulev3.g4 + listener + RuleBuilder (that ANTLR accepts the same language is correspondence, not proof); "
             "harness. Partial: non-canonical spellings (keyword case, comments, other literal notations incl. rounding of decimal floats) are covered by correspondence only; the converse of the round trip is not proved; ASCII only. "
             "The rollback clause holds of the model by construction and is checked on the implementation by the rollback oracles. No axioms (closed under the global context).",
        technique="Rocq/Coq proof over an executable parser model (round trip by induction, all sizes) + mutant-based differential correspondence (vm_compute)",
    ),
    "C01": _eval_text("every execution is of an active rule whose condition, evaluated from scratch on the facts of that moment, is true (from any memory contents)."),
    "C02": _eval_text("each active rule whose from-scratch condition is true is a candidate of its cycle; at a quiescent exit no active rule's condition holds on the final facts."),
    "C04": _eval_text("actions run in textual order on the facts left by the previous one; an assignment stores exactly the computed (converted) value at exactly the addressed path, all diverging paths unchanged; an integer in range of an integer destination of either family arrives bit for bit (C04_integer_store_exact_*)."),
    "C05": _eval_text("the operators regenerated from reflectmath.go compute the documented semantics for every operand width; short-circuit, negation, parentheses, argument order; grammar levels match the published table except `&` (recorded finding D4)."),
    "C07": _eval_text("snapshot sharing is injective on trees, and a rule inside any knowledge base decides and does what its own text does on the facts."),
    "C08": _eval_text("Execute/FetchMatchingRules on an instance with arbitrary remembered values and Retracted flags equal the call on a fresh instance; Fetch leaves the facts alone."),
    "C13": _eval_text("a computed method call / field read is remembered and answered without re-evaluation until an assignment or Forget whose text occurs in it; over a whole Execute call a counted method that occurs with one text runs at most once plus once per invalidating statement executed (C13_run)."),
    "C14": _eval_text("failing conditions/actions are contained: facts and memory stay sound, errors name the failing rule, completed statements keep their effect, nothing fires afterwards."),
    "C03": _eng_text("at most one firing per cycle, of a candidate with maximal salience; each rule evaluated at most once per cycle."),
    "C06": _eng_text("termination within MaxCycle+1 passes, at most MaxCycle firings, cycle-limit error exactly when one more firing is needed, nil only at quiescence/Complete, consecutive cycle numbers and a faithful evaluation/execution protocol."),
    "C10": _eng_text("a retracted name is neither evaluated nor fired again in the call, all other active rules keep being evaluated, Complete ends the run after the whole action list."),
    "C11": _eng_text("FetchMatchingRules returns exactly the non-removed rules whose condition is true, once each, in non-increasing salience order, and cannot execute an action."),
    "C15": _eng_text("no action list starts once a ctx.Err() check has seen the cancellation, a pre-cancelled context fires nothing, nil is never returned when a check saw the cancellation."),
    # ---- C12 -- begin ----
    "C12": dict(
        text="Machine-checked proof (Coq 8.16.1) over an executable model of the binary knowledge-base stream (byte-level primitives, the 13 meta records, "
             "the catalog frame with its working-memory maps, the sequence of Write calls, the library map): decoding an encoded catalog returns exactly that "
             "catalog for every well-formed catalog and every map iteration order (also after a second store/load), every strict prefix of a stream is a load "
             "error that leaves the library unchanged, a writer failing at any Write call makes the store fail and leaves no loadable stream, and overwrite=false "
             "never touches an existing entry. Tied to the code by constants and field orders extracted from ast/Serializer.go on every run and by decoding "
             "the streams written by the real StoreKnowledgeBaseToWriter inside Coq; the implementation is also checked directly (metadata, snapshots, working "
             "memory, instance behaviour after one and two store/load generations, every truncation offset, every failing Write index, overwrite flag).",
        note="Trust: Coq kernel; hand-written stream model (validated against real streams on every run, not verified against Go); translator; harness. "
             "Instance behaviour is derived from equality of the complete catalog, not from a proof about BuildKnowledgeBase. Removed rules stay removed across store/load (flag derived from the tombstone name, as the engine does). No axioms (closed under the global context).",
        technique="Rocq/Coq proof over an executable codec model + source-extracted constants/field orders + byte-level correspondence (vm_compute) + implementation oracles",
    ),
    # ---- C12 -- end ----
    # ---- C09 -- begin ----
    "C09": dict(
        text="Machine-checked proof (Coq 8.16.1) over a pointer-graph model of KnowledgeBase.Clone (nodes with ids, children in field order, clone table, the five "
             "working-memory maps) and over the library state machine: every well-formed knowledge base without orphan nodes is cloned successfully, and the knowledge base built by any "
             "sequence of accepted and rejected (rolled back) resources is well formed and has no orphan; the instance is a "
             "copy along the clone table (shared nodes stay shared, distinct stay distinct), unfolds to the same rule trees, has the working-memory maps re-targeted and "
             "uses only fresh ids, so blueprint, instance and later instances are pairwise disjoint; operations on one instance change no other instance and no library "
             "knowledge base; steps local to disjoint cells commute and any interleaving of atomic steps gives each instance its sequential result. Tied to the code by a "
             "reflection walk of the object graphs of blueprint and instances (isomorphism, no shared mutable object), by handing those graphs to the model inside Coq, "
             "by behavioural comparison and isolation dumps, and by library histories.",
        note="PARTIAL. Trust: Coq kernel; hand-written clone / library models (validated by correspondence, not verified against Go); the reflection walker; harness. Data-race "
             "freedom under the Go memory model is outside any Gallina model: interleavings are proved only for atomic steps under sequential consistency; goroutines under "
             "`go build -race` are supporting evidence, not an obligation. The builder model (bottom-up interning, checkpoint / restore) is hand-written; the former finding D10a "
             "(orphans left by a rejected resource broke instance creation) is fixed and its witness is a regression scenario that must pass. No axioms (closed under the global context).",
        technique="Rocq/Coq proof over a pointer-graph model of Clone (clone-table invariant by induction over DAGs) + frame / interleaving theorems + reflection-based graph correspondence (vm_compute)",
    ),
    # ---- C09 -- end ----
    # ---- C16 -- begin ----
    "C16": dict(
        text="Machine-checked proof (Coq 8.16.1) over an executable state machine of the knowledge library (per-key entry maps with key, name, Retracted / Deleted flags and the "
             "rule body, live instances as own copies, tombstone renaming, the Grl duplicate test, AddRuleEntry, both RemoveRuleEntry, instance creation, store+load, the flag "
             "reading part of Execute / FetchMatchingRules with the guards regenerated from GruleEngine.go), by induction over operation histories of any length: active names "
             "are unique in every reachable state; a build is rejected exactly when a name occurs twice in the resource or exists already, and every existing entry stays in "
             "place and a rejected build changes nothing; a removed name is out of force on that instance for ever and on every instance created later, name and rule, across any number of store+load round trips, until the name is built again, and then "
             "denotes the new rule; only rules in force are evaluated, fired or fetched, also when a rule is removed during the run; operations touch only what they address. "
             "Tied to the code by random histories run on the real library and replayed by the model inside Coq (vm_compute), plus a shadow-map oracle in Go.",
        note="Trust: Coq kernel; hand-written library model (validated by the history correspondence, not verified against Go); UUIDs modelled by a counter; harness. Hypothesis of the history theorems: rule "
             "names given to the builder do not start with 'Deleted_' (a rule literally named like a tombstone would be read as removed on load - the engine's naming convention). "
             "No statement is refuted any more: the former finding D8 (a removed rule came back after store+load) is fixed in the engine (the flag is read off the tombstone name), "
             "the rule-level theorem is full and its witness is a regression history that must pass. The former findings D10a / D10b (a rejected resource left orphan nodes / added its acceptable rules) are fixed in the "
             "engine; the model's build is all-or-nothing and their witnesses are regression histories that must pass. No axioms (closed under the global context).",
        technique="Rocq/Coq proof: invariants of an executable library state machine by induction over operation histories + history correspondence (vm_compute) + shadow-map oracle",
    ),
    # ---- C16 -- end ----
    # ---- C20 -- begin ----
    "C20": dict(
        text="Machine-checked proof (Coq 8.16.1) over executable models of the four loaders. GRL text: the lexer / parser / builder model is total, never panics, its lexer fuel and nesting fuel "
             "are proved never to run out, the token count is at most the input length and the syntax tree has at most as many nodes as tokens. JSON rule text: the translator model (over the "
             "decoded value) is structurally recursive for every nesting depth, never panics and emits at most 16*size+64 characters. JSON fact text: the value tree is size-preserving. Binary "
             "stream: the allocation account of the repaired reader is at most 3x the length + 8 for EVERY byte string. "
             "Refuted on the model: the text the GRL listener stores in every tree node admits no linear bound. Tied to the code by correspondence on generated inputs (verdict and rule snapshots "
             "for GRL, translated text for JSON rules, acceptance and requested bytes for binary streams). SUPPORTING EVIDENCE, not proof: every load of generated inputs (edge-case battery, random "
             "bytes, structure-aware mutants, doubling series and depth probes up to 100 000 / 1 000 000) runs in a sandboxed child process (ulimit -v, timeout) with an outcome-class, allocation, "
             "CPU-time and scaling-ratio oracle.",
        note="PARTIAL. The theorems cover the loader MODELS only (termination / totality, no Panic, linear token / tree / output / requested-bytes bounds, the refuted stored-text clause); the generated ANTLR parser and "
             "its runtime, encoding/json, the Go runtime, time and resident memory are covered only by the sandboxed differential / fuzz runs. Open known findings replayed on every run: "
             "D23 (GRL builder - and JSON rule loader on top of it - cubic in nesting depth, quadratic in siblings: a 3 KB condition does not load in 20 s), "
             "D24 (264 KB of nested '!' abort the process with a stack overflow inside ANTLR's recursive descent). Trust: Coq kernel; hand-written models validated by correspondence; harness sandbox "
             "and region predicates. ASCII; integer JSON numbers. No axioms (closed under the global context).",
        technique="Rocq/Coq proof over executable loader models (fuel-sufficiency, size bounds, refutation witnesses) + differential correspondence (vm_compute) + sandboxed structure-aware fuzzing with allocation / scaling oracles",
    ),
    # ---- C20 -- end ----
    "C19": dict(
        text="Machine-checked proof (Coq 8.16.1) that the six comparison functions, as regenerated from pkg/reflectmath.go on every run, "
             "are mutually consistent (trichotomy, <=/>=/!= derived, mirrored under swap) and depend on denoted values only, for all "
             "operands of all widths/wrappings in the stated domain; tied to the code by the translator and an exhaustive operand-table sweep.",
        note="Trust: Coq kernel, stdlib float/real axioms listed in the evidence (FloatAxioms, classical reals via Flocq), the Go->Gallina "
             "translator, the model of reflect values (Values.v), the harness. uintptr and values outside int64 are outside the domain.",
        technique="Rocq/Coq proof over a model regenerated from source + differential correspondence (vm_compute)",
    ),
}
