"""Per-property configuration of the check driver.

proof_files : .v files (relative to coq/) whose lemmas are this property's proof obligations
props_files : files holding only the final theorems + Print Assumptions
harness     : harness subcommand that produces the correspondence cases and the direct oracle
"""

COMMON_TRUST = [
    "translator tools/go2coq (Go source -> Gallina) and the shape checks it performs",
    "correspondence harness tools/harness (scenario -> Gallina printer, canonical observation of the implementation)",
    "reading of the property text into the formal statement in coq/props (kept next to the theorem)",
]

PROPS = {
    "C19": dict(
        proof_files=["gen/ValuesGen.v", "gen/CmpGen.v", "proofs/AnchorsValues.v", "proofs/C19Proof.v", "props/C19.v"],
        props_files=["props/C19.v"],
        harness="C19",
        theorems=["C19_ordered", "C19_bool", "C19_value_only"],
        trusted=COMMON_TRUST + ["model of reflect values in coq/model/Values.v (kinds, get_value_elem, time record)"],
        assumptions=[
            "operands inside the int64 range, NaN excluded (as the property states); uintptr is not a numeric width",
            "time.Time modelled as (instant, location id, has-monotonic); After/Before/Equal compare instants",
            "float64(int64)/float64(uint64) modelled by of_uint63 (RNE); validated bit-for-bit by the correspondence sweep",
        ],
        explanation="Theorems C19_ordered/C19_bool/C19_value_only are stated over the six comparison functions of ArithGen.v, "
                    "regenerated from pkg/reflectmath.go on every run and re-proved; the exhaustive operand-table sweep compares "
                    "pkg.Evaluate* with the generated functions (tie) and evaluates the algebraic relations on the implementation (oracle).",
    ),
}

NOT_APPLICABLE = {}

MANIFEST_TEXT = {
    "C19": dict(
        text="Machine-checked proof (Coq 8.16.1) that the six comparison functions, as regenerated from pkg/reflectmath.go on every run, "
             "are mutually consistent (trichotomy, <=/>=/!= derived, mirrored under swap) and depend on denoted values only, for all "
             "operands of all widths/wrappings in the stated domain; tied to the code by the translator and an exhaustive operand-table sweep.",
        note="Trust: Coq kernel, stdlib float/real axioms listed in the evidence (FloatAxioms, classical reals via Flocq), the Go->Gallina "
             "translator, the model of reflect values (Values.v), the harness. uintptr and values outside int64 are outside the domain.",
        technique="Rocq/Coq proof over a model regenerated from source + differential correspondence (vm_compute)",
    ),
}
