// mutate: a small source mutator for the mutation campaign (tools/mutcampaign.py).
//   mutate -list <file.go>          prints one line per mutation point: index, line, operator, description
//   mutate -apply N <file.go>       rewrites the file in place with mutation N applied
// Operators: comparison flips (< <= > >= == !=), && <-> ||, negated if-condition, deleted statement
// (call / assignment / inc-dec), true <-> false, integer literal + 1.
package main

import (
	"flag"
	"fmt"
	"go/ast"
	"go/parser"
	"go/token"
	"os"
	"sort"
	"strings"
)

type edit struct {
	from, to int // byte offsets
	text     string
}
type mutation struct {
	line  int
	op    string
	desc  string
	edits []edit
}

func main() {
	list := flag.Bool("list", false, "list mutation points")
	apply := flag.Int("apply", -1, "apply mutation N")
	flag.Parse()
	file := flag.Arg(0)
	src, err := os.ReadFile(file)
	if err != nil {
		fmt.Fprintln(os.Stderr, err)
		os.Exit(2)
	}
	fset := token.NewFileSet()
	f, err := parser.ParseFile(fset, file, src, parser.ParseComments)
	if err != nil {
		fmt.Fprintln(os.Stderr, err)
		os.Exit(2)
	}
	off := func(p token.Pos) int { return fset.Position(p).Offset }
	var muts []mutation
	add := func(p token.Pos, op, desc string, es ...edit) {
		muts = append(muts, mutation{fset.Position(p).Line, op, desc, es})
	}
	flip := map[token.Token]string{token.LSS: "<=", token.LEQ: "<", token.GTR: ">=", token.GEQ: ">", token.EQL: "!=", token.NEQ: "==", token.LAND: "||", token.LOR: "&&"}
	isLog := func(n ast.Node) bool {
		s := string(src[off(n.Pos()):off(n.End())])
		return strings.Contains(s, "Log") || strings.Contains(s, "log.") || strings.Contains(s, "Tracef") || strings.Contains(s, "Debugf") || strings.Contains(s, "Errorf(") && strings.HasPrefix(s, "Ast") || strings.Contains(s, "Infof") || strings.Contains(s, "Warnf")
	}
	ast.Inspect(f, func(n ast.Node) bool {
		switch t := n.(type) {
		case *ast.BinaryExpr:
			if r, ok := flip[t.Op]; ok {
				o := off(t.OpPos)
				add(t.OpPos, "flip", fmt.Sprintf("%s -> %s", t.Op, r), edit{o, o + len(t.Op.String()), r})
			}
		case *ast.IfStmt:
			if !isLog(t.Cond) {
				add(t.Cond.Pos(), "negate-if", "if !(…)", edit{off(t.Cond.Pos()), off(t.Cond.Pos()), "!("}, edit{off(t.Cond.End()), off(t.Cond.End()), ")"})
			}
		case *ast.ExprStmt:
			if _, ok := t.X.(*ast.CallExpr); ok && !isLog(t) {
				add(t.Pos(), "delete-call", oneLine(string(src[off(t.Pos()):off(t.End())])), edit{off(t.Pos()), off(t.End()), ""})
			}
		case *ast.AssignStmt:
			if t.Tok == token.ASSIGN && !isLog(t) {
				add(t.Pos(), "delete-assign", oneLine(string(src[off(t.Pos()):off(t.End())])), edit{off(t.Pos()), off(t.End()), ""})
			}
		case *ast.IncDecStmt:
			add(t.Pos(), "delete-incdec", oneLine(string(src[off(t.Pos()):off(t.End())])), edit{off(t.Pos()), off(t.End()), ""})
		case *ast.Ident:
			if t.Name == "true" || t.Name == "false" {
				r := "true"
				if t.Name == "true" {
					r = "false"
				}
				add(t.Pos(), "bool", t.Name+" -> "+r, edit{off(t.Pos()), off(t.End()), r})
			}
		case *ast.BasicLit:
			if t.Kind == token.INT && !strings.HasPrefix(t.Value, "0x") {
				add(t.Pos(), "int+1", t.Value+" -> "+t.Value+"+1", edit{off(t.Pos()), off(t.End()), "(" + t.Value + "+1)"})
			}
		case *ast.BranchStmt:
			if t.Tok == token.BREAK && t.Label == nil {
				add(t.Pos(), "break->continue", "break -> continue", edit{off(t.Pos()), off(t.End()), "continue"})
			}
		}
		return true
	})
	sort.SliceStable(muts, func(i, j int) bool { return muts[i].line < muts[j].line })
	if *list {
		for i, m := range muts {
			fmt.Printf("%d\t%d\t%s\t%s\n", i, m.line, m.op, m.desc)
		}
		return
	}
	if *apply < 0 || *apply >= len(muts) {
		fmt.Fprintln(os.Stderr, "no such mutation")
		os.Exit(2)
	}
	m := muts[*apply]
	es := m.edits
	sort.Slice(es, func(i, j int) bool { return es[i].from > es[j].from })
	out := string(src)
	for _, e := range es {
		out = out[:e.from] + e.text + out[e.to:]
	}
	if err := os.WriteFile(file, []byte(out), 0o644); err != nil {
		fmt.Fprintln(os.Stderr, err)
		os.Exit(2)
	}
	fmt.Printf("%d\t%d\t%s\t%s\n", *apply, m.line, m.op, m.desc)
}

func oneLine(s string) string {
	s = strings.Join(strings.Fields(s), " ")
	if len(s) > 90 {
		s = s[:90] + "…"
	}
	return s
}
