module mutate

go 1.21
