#!/bin/sh
# seedtest.sh <patch.diff> <ID> [tier]: apply a seeded change to /repo, run the check, undo.
set -u
PATCH=$(readlink -f "$1"); ID=$2; TIER=${3:-quick}
cd /repo || exit 2
if ! git diff --quiet; then echo "/repo has uncommitted changes"; exit 2; fi
git apply "$PATCH" || { echo "patch does not apply"; exit 2; }
cp /verif/evidence/$ID.json /verif/run/evidence_$ID.keep 2>/dev/null
cd /verif && ./check "$ID" "$TIER" > run/seedtest_$ID.log 2>&1; RC=$?
cp /verif/run/evidence_$ID.keep /verif/evidence/$ID.json 2>/dev/null
cd /repo && git checkout -- . && /verif/tools/bin/go2coq -repo /repo -out /verif/coq/gen >/dev/null
grep -E "^VIOLATION|^OK|^KNOWN|oracle:|prove:|correspondence:" /verif/run/seedtest_$ID.log
echo "exit=$RC"
