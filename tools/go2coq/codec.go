package main

// T-codec: ast/Serializer.go (and the operator constants of ast/Expression.go) -> CodecGen.v
//
//   gen_version, gen_node_tags, gen_value_tags, gen_op_codes   the constants of the stream format
//   gen_meta_write / gen_meta_read                              for each of the 13 meta records the
//       fields in the order WriteMetaTo writes / ReadMetaFrom reads them, with their wire kind
//   gen_catalog_write / gen_catalog_read                        the frame of WriteCatalogToWriter /
//       ReadCatalogFromReader as a token sequence
//   gen_unchecked_errors                                        calls whose error is not tested by the
//       next statement `if err != nil { return … }`
//   gen_swallowed_errors                                        `return nil` under a test of err
//
// The hand-written model (coq/model/Codec.v, Catalog.v) is compared with these by
// coq/proofs/AnchorsCodec.v (reflexivity).

import (
	"fmt"
	"go/ast"
	"go/parser"
	"go/token"
	"go/types"
	"path/filepath"
	"strconv"
	"strings"
)

type codecTr struct {
	fset      *token.FileSet
	errs      []string
	unchecked []string
	swallowed []string
}

func (t *codecTr) problem(n ast.Node, format string, a ...interface{}) {
	pos := ""
	if n != nil {
		p := t.fset.Position(n.Pos())
		pos = fmt.Sprintf("%s:%d: ", filepath.Base(p.Filename), p.Line)
	}
	t.errs = append(t.errs, pos+fmt.Sprintf(format, a...))
}

func coqStr(s string) string { return "\"" + strings.ReplaceAll(s, "\"", "\"\"") + "\"%string" }

type constInfo struct {
	name, typ string
	iota      int
	lit       string // explicit literal value, "" if iota based
}

// constant blocks: every ValueSpec gets the iota of its position; the type and the value
// expression carry over from the previous spec when omitted
func constBlocks(f *ast.File) [][]constInfo {
	var out [][]constInfo
	for _, d := range f.Decls {
		gd, ok := d.(*ast.GenDecl)
		if !ok || gd.Tok != token.CONST {
			continue
		}
		var blk []constInfo
		curType, curExpr := "", ""
		for i, sp := range gd.Specs {
			vs := sp.(*ast.ValueSpec)
			if vs.Type != nil {
				curType = types.ExprString(vs.Type)
			}
			if len(vs.Values) > 0 {
				curExpr = types.ExprString(vs.Values[0])
				if vs.Type == nil {
					curType = ""
				}
			}
			ci := constInfo{name: vs.Names[0].Name, typ: curType, iota: i}
			if curExpr != "iota" {
				ci.lit = curExpr
			}
			blk = append(blk, ci)
		}
		out = append(out, blk)
	}
	return out
}

var metaTypes = []string{"ArgumentListMeta", "ArrayMapSelectorMeta", "AssigmentMeta", "ExpressionMeta", "ConstantMeta",
	"ExpressionAtomMeta", "FunctionCallMeta", "RuleEntryMeta", "ThenExpressionMeta", "ThenExpressionListMeta",
	"ThenScopeMeta", "VariableMeta", "WhenScopeMeta"}

// tag constant of each meta type, as returned by its GetASTType
func (t *codecTr) astTypeOf(f *ast.File, typ string) string {
	fd := findFunc(f, typ, "GetASTType")
	if fd == nil || len(fd.Body.List) != 1 {
		t.problem(nil, "%s.GetASTType not found or not a single return", typ)
		return "?"
	}
	rs, ok := fd.Body.List[0].(*ast.ReturnStmt)
	if !ok || len(rs.Results) != 1 {
		t.problem(fd, "%s.GetASTType: unexpected body", typ)
		return "?"
	}
	return types.ExprString(rs.Results[0])
}

func callOf(s ast.Stmt) (*ast.CallExpr, *ast.AssignStmt) {
	as, ok := s.(*ast.AssignStmt)
	if !ok || len(as.Rhs) != 1 {
		return nil, nil
	}
	ce, ok := as.Rhs[0].(*ast.CallExpr)
	if !ok {
		return nil, nil
	}
	return ce, as
}

func assignsErr(as *ast.AssignStmt) bool {
	for _, l := range as.Lhs {
		if id, ok := l.(*ast.Ident); ok && id.Name == "err" {
			return true
		}
	}
	return false
}

// `if err != nil { return <something that is not nil> }`
func isErrCheck(s ast.Stmt) bool {
	is, ok := s.(*ast.IfStmt)
	if !ok || is.Init != nil || is.Else != nil {
		return false
	}
	if types.ExprString(is.Cond) != "err != nil" || len(is.Body.List) != 1 {
		return false
	}
	rs, ok := is.Body.List[0].(*ast.ReturnStmt)
	if !ok || len(rs.Results) == 0 {
		return false
	}
	last := types.ExprString(rs.Results[len(rs.Results)-1])
	return last == "err"
}

// error discipline of one function: every call assigning err is followed by the check (or
// is the operand of the final `return err`); no `return …nil` under a condition on err
func (t *codecTr) discipline(name string, body *ast.BlockStmt) {
	var walk func(list []ast.Stmt)
	streamy := func(ce *ast.CallExpr) bool {
		fn := types.ExprString(ce.Fun)
		if i := strings.LastIndex(fn, "."); i >= 0 {
			fn = fn[i+1:]
		}
		return strings.HasPrefix(fn, "Write") || strings.HasPrefix(fn, "Read") || fn == "BuildKnowledgeBase" || fn == "readBytesFromReader" || fn == "CopyN"
	}
	walk = func(list []ast.Stmt) {
		for i, s := range list {
			// a stream call whose error result is thrown away
			if es, ok := s.(*ast.ExprStmt); ok {
				if ce, ok := es.X.(*ast.CallExpr); ok && streamy(ce) {
					t.unchecked = append(t.unchecked, fmt.Sprintf("%s: %s (result dropped)", name, types.ExprString(ce.Fun)))
				}
			}
			if ce, as := callOf(s); ce != nil && streamy(ce) && !assignsErr(as) {
				t.unchecked = append(t.unchecked, fmt.Sprintf("%s: %s (error not kept)", name, types.ExprString(ce.Fun)))
			}
			if ce, as := callOf(s); ce != nil && assignsErr(as) {
				ok := i+1 < len(list) && isErrCheck(list[i+1])
				if !ok && i+1 < len(list) {
					// `c, err := f(); TotalWrite += …; …; return err` — the helper functions end this way
					for j := i + 1; j < len(list); j++ {
						if rs, isRet := list[j].(*ast.ReturnStmt); isRet && len(rs.Results) > 0 && types.ExprString(rs.Results[len(rs.Results)-1]) == "err" {
							ok = true
						}
						if ifs, isIf := list[j].(*ast.IfStmt); isIf {
							if isErrCheck(list[j]) {
								ok = true
								break
							}
							// an `if` that only rewrites err (io.EOF -> io.ErrUnexpectedEOF) does not end the search
							returns := false
							ast.Inspect(ifs, func(n ast.Node) bool {
								if _, r := n.(*ast.ReturnStmt); r {
									returns = true
								}
								return true
							})
							if returns {
								break
							}
							continue
						}
						if c2, a2 := callOf(list[j]); c2 != nil && assignsErr(a2) {
							break
						}
					}
				}
				if !ok {
					t.unchecked = append(t.unchecked, fmt.Sprintf("%s: %s", name, types.ExprString(ce.Fun)))
				}
			}
			switch x := s.(type) {
			case *ast.IfStmt:
				cond := types.ExprString(x.Cond)
				if strings.Contains(cond, "err") {
					ast.Inspect(x.Body, func(n ast.Node) bool {
						if rs, ok := n.(*ast.ReturnStmt); ok {
							if len(rs.Results) == 0 || types.ExprString(rs.Results[len(rs.Results)-1]) == "nil" {
								t.swallowed = append(t.swallowed, fmt.Sprintf("%s: if %s { return nil }", name, cond))
							}
						}
						return true
					})
				}
				walk(x.Body.List)
				if eb, ok := x.Else.(*ast.BlockStmt); ok {
					walk(eb.List)
				}
			case *ast.ForStmt:
				walk(x.Body.List)
			case *ast.RangeStmt:
				walk(x.Body.List)
			case *ast.SwitchStmt:
				for _, c := range x.Body.List {
					walk(c.(*ast.CaseClause).Body)
				}
			case *ast.BlockStmt:
				walk(x.List)
			}
		}
	}
	walk(body.List)
}

type field struct{ name, kind string }

func metaField(e ast.Expr) (string, bool) {
	se, ok := e.(*ast.SelectorExpr)
	if !ok {
		return "", false
	}
	if id, ok := se.X.(*ast.Ident); ok && id.Name == "meta" {
		return se.Sel.Name, true
	}
	return "", false
}

// uint64(meta.F) -> ("F", false); uint64(len(meta.F)) -> ("F", true)
func u64Arg(e ast.Expr) (string, bool, bool) {
	ce, ok := e.(*ast.CallExpr)
	if !ok || types.ExprString(ce.Fun) != "uint64" || len(ce.Args) != 1 {
		return "", false, false
	}
	if f, ok := metaField(ce.Args[0]); ok {
		return f, false, true
	}
	if le, ok := ce.Args[0].(*ast.CallExpr); ok && types.ExprString(le.Fun) == "len" && len(le.Args) == 1 {
		if f, ok := metaField(le.Args[0]); ok {
			return f, true, true
		}
	}
	return "", false, false
}

func (t *codecTr) writeFields(f *ast.File, typ string) []field {
	fd := findFunc(f, typ, "WriteMetaTo")
	if fd == nil {
		t.problem(nil, "%s.WriteMetaTo not found", typ)
		return nil
	}
	var out []field
	pendingLen := ""
	for _, s := range fd.Body.List {
		if ce, _ := callOf(s); ce != nil {
			fn := types.ExprString(ce.Fun)
			switch {
			case fn == "meta.NodeMeta.WriteMetaTo":
				out = append(out, field{"<NodeMeta>", ""})
			case fn == "WriteStringToWriter" && len(ce.Args) == 2:
				if n, ok := metaField(ce.Args[1]); ok {
					out = append(out, field{n, "KStr"})
				} else {
					t.problem(ce, "%s.WriteMetaTo: string argument %s", typ, types.ExprString(ce.Args[1]))
				}
			case fn == "WriteBoolToWriter" && len(ce.Args) == 2:
				if n, ok := metaField(ce.Args[1]); ok {
					out = append(out, field{n, "KBool"})
				} else {
					t.problem(ce, "%s.WriteMetaTo: bool argument %s", typ, types.ExprString(ce.Args[1]))
				}
			case fn == "WriteIntToWriter" && len(ce.Args) == 2:
				n, isLen, ok := u64Arg(ce.Args[1])
				if !ok {
					t.problem(ce, "%s.WriteMetaTo: int argument %s", typ, types.ExprString(ce.Args[1]))
				} else if isLen {
					pendingLen = n
				} else {
					out = append(out, field{n, "KInt"})
				}
			case fn == "writer.Write" && len(ce.Args) == 1:
				if n, ok := metaField(ce.Args[0]); ok && n == pendingLen {
					out = append(out, field{n, "KBytes"})
					pendingLen = ""
				} else {
					t.problem(ce, "%s.WriteMetaTo: raw write of %s without its length", typ, types.ExprString(ce.Args[0]))
				}
			default:
				t.problem(ce, "%s.WriteMetaTo: unrecognised call %s", typ, fn)
			}
			continue
		}
		switch x := s.(type) {
		case *ast.IfStmt, *ast.ReturnStmt:
		case *ast.RangeStmt:
			n, ok := metaField(x.X)
			inner := ""
			if len(x.Body.List) > 0 {
				if ce, _ := callOf(x.Body.List[0]); ce != nil && types.ExprString(ce.Fun) == "WriteStringToWriter" && len(ce.Args) == 2 {
					inner = types.ExprString(ce.Args[1])
				}
			}
			if ok && n == pendingLen && x.Value != nil && inner == types.ExprString(x.Value) {
				out = append(out, field{n, "KStrs"})
				pendingLen = ""
			} else {
				t.problem(x, "%s.WriteMetaTo: unrecognised loop", typ)
			}
		default:
			t.problem(s, "%s.WriteMetaTo: unrecognised statement", typ)
		}
	}
	if pendingLen != "" {
		t.problem(fd, "%s.WriteMetaTo: length of %s written without its content", typ, pendingLen)
	}
	return out
}

func (t *codecTr) readFields(f *ast.File, typ string) []field {
	fd := findFunc(f, typ, "ReadMetaFrom")
	if fd == nil {
		t.problem(nil, "%s.ReadMetaFrom not found", typ)
		return nil
	}
	var out []field
	pending := map[string]string{} // variable -> kind of the value it holds
	bytesVar, bytesRead := "", false
	listField := ""
	for _, s := range fd.Body.List {
		if ce, as := callOf(s); ce != nil {
			fn := types.ExprString(ce.Fun)
			lhs0 := types.ExprString(as.Lhs[0])
			switch {
			case fn == "meta.NodeMeta.ReadMetaFrom":
				out = append(out, field{"<NodeMeta>", ""})
			case fn == "ReadStringFromReader":
				pending[lhs0] = "KStr"
			case fn == "ReadIntFromReader":
				pending[lhs0] = "KInt"
			case fn == "ReadBoolFromReader":
				pending[lhs0] = "KBool"
			case fn == "reader.Read" && len(ce.Args) == 1 && types.ExprString(ce.Args[0]) == bytesVar && bytesVar != "":
				bytesRead = true
			case fn == "readBytesFromReader" && len(ce.Args) == 2:
				// byteArr, err := readBytesFromReader(reader, length)
				n := types.ExprString(ce.Args[1])
				if pending[n] != "KInt" {
					t.problem(ce, "%s.ReadMetaFrom: readBytesFromReader with a size that was not read from the stream", typ)
				}
				delete(pending, n)
				bytesVar, bytesRead = lhs0, true
			case fn == "make" && len(ce.Args) == 2:
				// meta.F = make([]string, 0) (grown by append)  |  meta.F = make([]string, n)  |  byteArr := make([]byte, length)
				// (a make whose size comes from the stream is reported by the inventory gen_length_driven_makes)
				el := types.ExprString(ce.Args[0])
				n := types.ExprString(ce.Args[1])
				if n != "0" {
					if pending[n] != "KInt" {
						t.problem(ce, "%s.ReadMetaFrom: make with a size that was not read from the stream", typ)
					}
					delete(pending, n)
				}
				if fld, ok := metaField(as.Lhs[0]); ok && el == "[]string" {
					listField = fld
				} else if el == "[]byte" && n != "0" {
					bytesVar = lhs0
				} else {
					t.problem(ce, "%s.ReadMetaFrom: unrecognised make", typ)
				}
			case len(ce.Args) == 1 && (fn == "int" || fn == "ValueType"):
				// meta.F = int(i)
				v := types.ExprString(ce.Args[0])
				if fld, ok := metaField(as.Lhs[0]); ok && pending[v] == "KInt" {
					out = append(out, field{fld, "KInt"})
					delete(pending, v)
				} else {
					t.problem(ce, "%s.ReadMetaFrom: conversion of %s", typ, v)
				}
			default:
				t.problem(ce, "%s.ReadMetaFrom: unrecognised call %s", typ, fn)
			}
			continue
		}
		switch x := s.(type) {
		case *ast.AssignStmt:
			fld, ok := metaField(x.Lhs[0])
			v := types.ExprString(x.Rhs[0])
			switch {
			case ok && (pending[v] == "KStr" || pending[v] == "KBool"):
				out = append(out, field{fld, pending[v]})
				delete(pending, v)
			case ok && v == bytesVar && bytesRead:
				out = append(out, field{fld, "KBytes"})
				bytesVar, bytesRead = "", false
			default:
				t.problem(x, "%s.ReadMetaFrom: unrecognised assignment %s = %s", typ, types.ExprString(x.Lhs[0]), v)
			}
		case *ast.ForStmt:
			good := false
			if listField != "" && len(x.Body.List) >= 2 {
				// the bound of the loop is a count read from the stream
				if be, ok := x.Cond.(*ast.BinaryExpr); ok && be.Op == token.LSS {
					if cnt := types.ExprString(be.Y); pending[cnt] == "KInt" {
						delete(pending, cnt)
					}
				}
				if ce, as := callOf(x.Body.List[0]); ce != nil && types.ExprString(ce.Fun) == "ReadStringFromReader" {
					v := types.ExprString(as.Lhs[0])
					last, ok := x.Body.List[len(x.Body.List)-1].(*ast.AssignStmt)
					if ok {
						rhs := types.ExprString(last.Rhs[0])
						if ie, ok := last.Lhs[0].(*ast.IndexExpr); ok && rhs == v {
							// meta.F[index] = s
							if fld, ok := metaField(ie.X); ok && fld == listField {
								good = true
							}
						} else if fld, ok := metaField(last.Lhs[0]); ok && fld == listField && rhs == "append(meta."+fld+", "+v+")" {
							// meta.F = append(meta.F, s)
							good = true
						}
					}
				}
			}
			if good {
				out = append(out, field{listField, "KStrs"})
				listField = ""
			} else {
				t.problem(x, "%s.ReadMetaFrom: unrecognised loop", typ)
			}
		case *ast.IfStmt, *ast.ReturnStmt:
		default:
			t.problem(s, "%s.ReadMetaFrom: unrecognised statement", typ)
		}
	}
	if len(pending) > 0 || listField != "" || bytesVar != "" {
		t.problem(fd, "%s.ReadMetaFrom: a value read from the stream is not stored", typ)
	}
	return out
}

// the catalog frame as a token sequence: calls of the stream helpers with their argument /
// the variable or field receiving the result, loops bracketed
func (t *codecTr) frame(fd *ast.FuncDecl, write bool) []string {
	var out []string
	var walk func(list []ast.Stmt)
	walk = func(list []ast.Stmt) {
		for i, s := range list {
			if ce, as := callOf(s); ce != nil {
				fn := types.ExprString(ce.Fun)
				if write && (strings.HasPrefix(fn, "Write") || strings.HasSuffix(fn, ".WriteMetaTo")) {
					arg := ""
					if len(ce.Args) == 2 {
						arg = types.ExprString(ce.Args[1])
					}
					out = append(out, fn+" "+arg)
				}
				if !write && (strings.HasPrefix(fn, "Read") || strings.HasSuffix(fn, ".ReadMetaFrom")) {
					// where does the value go: the next plain assignment using the variable
					v := types.ExprString(as.Lhs[0])
					dest := v
					for j := i + 1; j < len(list) && j <= i+2; j++ {
						if a2, ok := list[j].(*ast.AssignStmt); ok && len(a2.Rhs) == 1 {
							if rhs := types.ExprString(a2.Rhs[0]); rhs == v {
								dest = types.ExprString(a2.Lhs[0])
							} else if strings.HasPrefix(rhs, "append(") && strings.HasSuffix(rhs, ", "+v+")") {
								dest = "append " + types.ExprString(a2.Lhs[0])
							}
						}
					}
					out = append(out, fn+" "+dest)
				}
			}
			if as, ok := s.(*ast.AssignStmt); ok && !write && len(as.Rhs) == 1 {
				if _, isIdent := as.Rhs[0].(*ast.Ident); isIdent && strings.HasPrefix(types.ExprString(as.Lhs[0]), "cat.") && strings.Contains(types.ExprString(as.Lhs[0]), "[") {
					out = append(out, "store "+types.ExprString(as.Lhs[0])+" = "+types.ExprString(as.Rhs[0]))
				}
			}
			switch x := s.(type) {
			case *ast.RangeStmt:
				out = append(out, "range "+types.ExprString(x.X)+" {")
				walk(x.Body.List)
				out = append(out, "}")
			case *ast.ForStmt:
				out = append(out, "for "+types.ExprString(x.Cond)+" {")
				walk(x.Body.List)
				out = append(out, "}")
			case *ast.IfStmt:
				if !isErrCheck(x) {
					out = append(out, "if "+types.ExprString(x.Cond))
				}
			case *ast.SwitchStmt:
				out = append(out, "switch "+types.ExprString(x.Tag))
			}
		}
	}
	walk(fd.Body.List)
	return out
}

func genCodec(repo string) (string, []string) {
	t := &codecTr{fset: token.NewFileSet()}
	path := filepath.Join(repo, "ast", "Serializer.go")
	f, err := parser.ParseFile(t.fset, path, nil, 0)
	if err != nil {
		return "(* UNTRANSLATED: " + err.Error() + " *)\nUNTRANSLATED.\n", []string{err.Error()}
	}
	var b strings.Builder
	b.WriteString("(* GENERATED by tools/go2coq (T-codec) from ast/Serializer.go, ast/Expression.go — do not edit. *)\n")
	b.WriteString("From Grule Require Import Base Syntax CodecPrim.\nOpen Scope Z_scope.\n\n")

	// ---- constants ----
	var nodeTags, valueTags []string
	version := ""
	for _, blk := range constBlocks(f) {
		for _, c := range blk {
			switch {
			case c.typ == "NodeType" && c.lit == "":
				nodeTags = append(nodeTags, fmt.Sprintf("(%s, %d)", coqStr(c.name), c.iota))
			case c.typ == "ValueType" && c.lit == "":
				valueTags = append(valueTags, fmt.Sprintf("(%s, %d)", coqStr(c.name), c.iota))
			case c.name == "Version":
				if s, err := strconv.Unquote(c.lit); err == nil {
					version = s
				} else {
					t.problem(nil, "Version is not a string literal: %s", c.lit)
				}
			case c.typ == "NodeType" || c.typ == "ValueType":
				t.problem(nil, "constant %s of type %s is not iota based", c.name, c.typ)
			}
		}
	}
	fmt.Fprintf(&b, "Definition gen_version : string := %s.\n", coqStr(version))
	fmt.Fprintf(&b, "Definition gen_node_tags : list (string * Z) := [%s].\n", strings.Join(nodeTags, "; "))
	fmt.Fprintf(&b, "Definition gen_value_tags : list (string * Z) := [%s].\n", strings.Join(valueTags, "; "))

	// operator codes
	if fe, err := parser.ParseFile(t.fset, filepath.Join(repo, "ast", "Expression.go"), nil, 0); err == nil {
		var ops []string
		for _, blk := range constBlocks(fe) {
			for _, c := range blk {
				if strings.HasPrefix(c.name, "Op") && c.lit == "" {
					ops = append(ops, fmt.Sprintf("(%s, %d)", coqStr(c.name), c.iota))
				}
			}
		}
		fmt.Fprintf(&b, "Definition gen_op_codes : list (string * Z) := [%s].\n", strings.Join(ops, "; "))
	} else {
		t.problem(nil, "ast/Expression.go: %v", err)
	}

	// ---- meta records ----
	base := map[bool][]field{true: t.writeFields(f, "NodeMeta"), false: t.readFields(f, "NodeMeta")}
	emit := func(write bool, name string) {
		fmt.Fprintf(&b, "\nDefinition %s : list (string * list (string * fkind)) := [\n", name)
		for i, typ := range metaTypes {
			var fs []field
			if write {
				fs = t.writeFields(f, typ)
			} else {
				fs = t.readFields(f, typ)
			}
			var items []string
			for _, fl := range fs {
				if fl.name == "<NodeMeta>" {
					for _, bf := range base[write] {
						items = append(items, fmt.Sprintf("(%s, %s)", coqStr(bf.name), bf.kind))
					}
					continue
				}
				items = append(items, fmt.Sprintf("(%s, %s)", coqStr(fl.name), fl.kind))
			}
			sep := ";"
			if i == len(metaTypes)-1 {
				sep = ""
			}
			fmt.Fprintf(&b, "  (%s, [%s])%s\n", coqStr(t.astTypeOf(f, typ)), strings.Join(items, "; "), sep)
		}
		b.WriteString("].\n")
	}
	emit(true, "gen_meta_write")
	emit(false, "gen_meta_read")

	// which record the reader allocates for which tag (switch in ReadCatalogFromReader)
	var sw []string
	if fd := findFunc(f, "Catalog", "ReadCatalogFromReader"); fd != nil {
		ast.Inspect(fd.Body, func(n ast.Node) bool {
			cc, ok := n.(*ast.CaseClause)
			if !ok || len(cc.List) != 1 || len(cc.Body) != 1 {
				return true
			}
			if as, ok := cc.Body[0].(*ast.AssignStmt); ok && len(as.Rhs) == 1 {
				rhs := strings.TrimSuffix(strings.TrimPrefix(types.ExprString(as.Rhs[0]), "&"), "{}")
				sw = append(sw, fmt.Sprintf("(%s, %s)", coqStr(types.ExprString(cc.List[0])), coqStr(t.astTypeOf(f, rhs))))
			}
			return true
		})
		fmt.Fprintf(&b, "\n(* tag in the stream -> GetASTType of the record ReadCatalogFromReader allocates for it *)\nDefinition gen_read_switch : list (string * string) := [%s].\n", strings.Join(sw, "; "))
		fr := t.frame(fd, false)
		var it []string
		for _, x := range fr {
			it = append(it, coqStr(x))
		}
		fmt.Fprintf(&b, "\nDefinition gen_catalog_read : list string := [\n  %s].\n", strings.Join(it, ";\n  "))
	} else {
		t.problem(nil, "Catalog.ReadCatalogFromReader not found")
	}
	if fd := findFunc(f, "Catalog", "WriteCatalogToWriter"); fd != nil {
		fr := t.frame(fd, true)
		var it []string
		for _, x := range fr {
			it = append(it, coqStr(x))
		}
		fmt.Fprintf(&b, "\nDefinition gen_catalog_write : list string := [\n  %s].\n", strings.Join(it, ";\n  "))
	} else {
		t.problem(nil, "Catalog.WriteCatalogToWriter not found")
	}

	// ---- error discipline of every function that touches the stream ----
	for _, d := range f.Decls {
		fd, ok := d.(*ast.FuncDecl)
		if !ok || fd.Body == nil {
			continue
		}
		n := fd.Name.Name
		streamy := n == "ReadCatalogFromReader" || n == "WriteCatalogToWriter" || n == "WriteMetaTo" || n == "ReadMetaFrom" ||
			(fd.Recv == nil && (strings.HasPrefix(n, "Write") || strings.HasPrefix(n, "Read") || n == "readBytesFromReader"))
		if !streamy {
			continue
		}
		name := n
		if fd.Recv != nil && len(fd.Recv.List) == 1 {
			name = strings.TrimPrefix(types.ExprString(fd.Recv.List[0].Type), "*") + "." + n
		}
		t.discipline(name, fd.Body)
	}
	// LoadKnowledgeBaseFromReader / StoreKnowledgeBaseToWriter
	if fk, err := parser.ParseFile(t.fset, filepath.Join(repo, "ast", "KnowledgeBase.go"), nil, 0); err == nil {
		for _, n := range []string{"LoadKnowledgeBaseFromReader", "StoreKnowledgeBaseToWriter"} {
			if fd := findFunc(fk, "KnowledgeLibrary", n); fd != nil {
				t.discipline("KnowledgeLibrary."+n, fd.Body)
			} else {
				t.problem(nil, "KnowledgeLibrary.%s not found", n)
			}
		}
	} else {
		t.problem(nil, "ast/KnowledgeBase.go: %v", err)
	}
	// ---- allocation driven by the stream: every make whose size is neither a literal nor a len(..) ----
	var driven, guarded, rawReads []string
	for _, d := range f.Decls {
		fd, ok := d.(*ast.FuncDecl)
		if !ok || fd.Body == nil {
			continue
		}
		name := fd.Name.Name
		if fd.Recv != nil && len(fd.Recv.List) == 1 {
			name = strings.TrimPrefix(types.ExprString(fd.Recv.List[0].Type), "*") + "." + name
		}
		var walkBlock func(list []ast.Stmt, guards []string)
		inspectStmt := func(s ast.Stmt, guards []string) {
			ast.Inspect(s, func(n ast.Node) bool {
				if _, isBlock := n.(*ast.BlockStmt); isBlock {
					return false // nested blocks are walked with their own guards
				}
				ce, ok := n.(*ast.CallExpr)
				if !ok {
					return true
				}
				fn := types.ExprString(ce.Fun)
				if fn == "make" && len(ce.Args) >= 2 {
					for _, sz := range ce.Args[1:] {
						if _, lit := sz.(*ast.BasicLit); lit {
							continue
						}
						if c2, ok := sz.(*ast.CallExpr); ok && types.ExprString(c2.Fun) == "len" {
							continue
						}
						size := types.ExprString(sz)
						g := ""
						for _, gd := range guards {
							if strings.HasPrefix(gd, size+" > ") && strings.Contains(gd, "Len()") {
								g = gd
							}
						}
						if g != "" {
							guarded = append(guarded, fmt.Sprintf("%s: %s after if %s { return }", name, types.ExprString(ce), g))
						} else {
							driven = append(driven, fmt.Sprintf("%s: %s", name, types.ExprString(ce)))
						}
					}
				}
				if fn == "io.ReadFull" || fn == "io.CopyN" || fn == "io.ReadAll" || fn == "readBytesFromReader" || strings.HasSuffix(fn, ".Read") {
					rawReads = append(rawReads, fmt.Sprintf("%s: %s", name, types.ExprString(ce)))
				}
				return true
			})
		}
		walkBlock = func(list []ast.Stmt, guards []string) {
			gs := append([]string(nil), guards...)
			for _, s := range list {
				switch x := s.(type) {
				case *ast.IfStmt:
					inspectStmt(&ast.ExprStmt{X: x.Cond}, gs)
					walkBlock(x.Body.List, gs)
					if eb, ok := x.Else.(*ast.BlockStmt); ok {
						walkBlock(eb.List, gs)
					}
					// `if size > bound { return … }` guards what follows in this block
					if len(x.Body.List) > 0 {
						if _, ret := x.Body.List[len(x.Body.List)-1].(*ast.ReturnStmt); ret && x.Else == nil {
							gs = append(gs, types.ExprString(x.Cond))
						}
					}
				case *ast.ForStmt:
					walkBlock(x.Body.List, gs)
				case *ast.RangeStmt:
					walkBlock(x.Body.List, gs)
				case *ast.SwitchStmt:
					for _, c := range x.Body.List {
						walkBlock(c.(*ast.CaseClause).Body, gs)
					}
				case *ast.BlockStmt:
					walkBlock(x.List, gs)
				default:
					inspectStmt(s, gs)
				}
			}
		}
		walkBlock(fd.Body.List, nil)
	}
	// ---- removed rules: the Deleted flag is derived from the rule name on load ----
	deletedExpr := ""
	if fd := findFunc(f, "Catalog", "BuildKnowledgeBase"); fd != nil {
		ast.Inspect(fd.Body, func(n ast.Node) bool {
			cl, ok := n.(*ast.CompositeLit)
			if !ok || types.ExprString(cl.Type) != "RuleEntry" {
				return true
			}
			for _, el := range cl.Elts {
				if kv, ok := el.(*ast.KeyValueExpr); ok && types.ExprString(kv.Key) == "Deleted" {
					deletedExpr = types.ExprString(kv.Value)
				}
			}
			return true
		})
	}
	tombPrefix, tombLen, tombParse := "", "", ""
	if fd := findFunc(f, "", "isTombstoneName"); fd != nil {
		ast.Inspect(fd.Body, func(n ast.Node) bool {
			switch x := n.(type) {
			case *ast.ValueSpec:
				if len(x.Names) == 1 && x.Names[0].Name == "prefix" && len(x.Values) == 1 {
					if v, err := strconv.Unquote(types.ExprString(x.Values[0])); err == nil {
						tombPrefix = v
					}
				}
			case *ast.IfStmt:
				if tombLen == "" {
					tombLen = types.ExprString(x.Cond)
				}
			case *ast.CallExpr:
				if types.ExprString(x.Fun) == "uuid.Parse" {
					tombParse = types.ExprString(x)
				}
			}
			return true
		})
	}
	var removeFormats []string
	if fk, err := parser.ParseFile(t.fset, filepath.Join(repo, "ast", "KnowledgeBase.go"), nil, 0); err == nil {
		for _, d := range fk.Decls {
			fd, ok := d.(*ast.FuncDecl)
			if !ok || fd.Body == nil || fd.Name.Name != "RemoveRuleEntry" {
				continue
			}
			ast.Inspect(fd.Body, func(n ast.Node) bool {
				if ce, ok := n.(*ast.CallExpr); ok && types.ExprString(ce.Fun) == "fmt.Sprintf" && len(ce.Args) == 2 {
					if v, err := strconv.Unquote(types.ExprString(ce.Args[0])); err == nil {
						removeFormats = append(removeFormats, v+" <- "+types.ExprString(ce.Args[1]))
					}
				}
				return true
			})
		}
	}
	// the byte-block helper: its guards, in order
	var helperGuards []string
	if fd := findFunc(f, "", "readBytesFromReader"); fd != nil {
		for _, st := range fd.Body.List {
			if is, ok := st.(*ast.IfStmt); ok {
				helperGuards = append(helperGuards, types.ExprString(is.Cond))
			}
		}
	}
	q := func(xs []string) string {
		var it []string
		for _, x := range xs {
			it = append(it, coqStr(x))
		}
		return strings.Join(it, "; ")
	}
	fmt.Fprintf(&b, "\nDefinition gen_unchecked_errors : list string := [%s].\n", q(t.unchecked))
	fmt.Fprintf(&b, "Definition gen_swallowed_errors : list string := [%s].\n", q(t.swallowed))
	fmt.Fprintf(&b, "\n(* BuildKnowledgeBase: RuleEntry{ ..., Deleted: <this> }; isTombstoneName; the names RemoveRuleEntry makes *)\n")
	fmt.Fprintf(&b, "Definition gen_rule_entry_deleted : string := %s.\n", coqStr(deletedExpr))
	fmt.Fprintf(&b, "Definition gen_tombstone_prefix : string := %s.\n", coqStr(tombPrefix))
	fmt.Fprintf(&b, "Definition gen_tombstone_shape : list string := [%s].\n", q([]string{tombLen, tombParse}))
	fmt.Fprintf(&b, "Definition gen_remove_formats : list string := [%s].\n", q(removeFormats))
	fmt.Fprintf(&b, "\n(* make(T, n) with n neither a literal nor len(..): sizes taken from the stream *)\nDefinition gen_length_driven_makes : list string := [%s].\n", q(driven))
	fmt.Fprintf(&b, "Definition gen_guarded_makes : list string := [%s].\n", q(guarded))
	fmt.Fprintf(&b, "Definition gen_read_helper_guards : list string := [%s].\n", q(helperGuards))
	fmt.Fprintf(&b, "(* every raw read of Serializer.go *)\nDefinition gen_raw_reads : list string := [\n  %s].\n", strings.Join(func() []string {
		var it []string
		for _, x := range rawReads {
			it = append(it, coqStr(x))
		}
		return it
	}(), ";\n  "))
	if len(t.errs) > 0 {
		b.WriteString("\n(* the source no longer has the shape the translator understands *)\nUNTRANSLATED.\n")
	}
	return b.String(), t.errs
}
