package main

func genSites(repo string) (string, []string) {
	return "(* GENERATED — placeholder *)\n", nil
}
func genCodec(repo string) (string, []string) {
	return "(* GENERATED — placeholder *)\n", nil
}
