package main

// genCodec (T-codec) lives in codec.go.
