package main

func genCodec(repo string) (string, []string) {
	return "(* GENERATED — placeholder *)\n", nil
}
