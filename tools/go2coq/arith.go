package main

// T-arith: pkg/reflectmath.go -> ArithGen.v
//
// Every Evaluate* function is a tree of `switch X.Kind()` / `if` statements
// whose leaves are `return reflect.ValueOf(<expr>), nil` or an error return.
// The translator types the leaf expression and emits the Gallina leaf written
// with the helpers of Values.v.  Anything it does not understand is a loud
// failure (the check then treats the proof obligation as broken).

import (
	"fmt"
	"go/ast"
	"go/parser"
	"go/token"
	"sort"
	"strings"
)

type gtype string

const (
	tI64   gtype = "int64"
	tU64   gtype = "uint64"
	tF64   gtype = "float64"
	tStr   gtype = "string"
	tBool  gtype = "bool"
	tTime  gtype = "time"
	tValue gtype = "value"
)

type arithTr struct {
	fset *token.FileSet
	env  map[string]gtype
	errs []string
}

func (t *arithTr) fail(n ast.Node, format string, a ...interface{}) string {
	pos := t.fset.Position(n.Pos())
	msg := fmt.Sprintf("%s:%d: ", pos.Filename, pos.Line) + fmt.Sprintf(format, a...)
	t.errs = append(t.errs, msg)
	return "(UNTRANSLATED)"
}

var intKinds = []string{"KInt", "KInt8", "KInt16", "KInt32", "KInt64"}
var uintKinds = []string{"KUint", "KUint8", "KUint16", "KUint32", "KUint64", "KUintptr"}
var floatKinds = []string{"KFloat32", "KFloat64"}

func kindName(e ast.Expr) (string, bool) {
	se, ok := e.(*ast.SelectorExpr)
	if !ok {
		return "", false
	}
	if id, ok := se.X.(*ast.Ident); !ok || id.Name != "reflect" {
		return "", false
	}
	switch se.Sel.Name {
	case "Ptr", "Pointer":
		return "KPointer", true
	case "Invalid", "Bool", "Int", "Int8", "Int16", "Int32", "Int64", "Uint", "Uint8", "Uint16", "Uint32", "Uint64", "Uintptr",
		"Float32", "Float64", "String", "Struct", "Interface", "Slice", "Map":
		return "K" + se.Sel.Name, true
	case "Array", "Chan", "Func", "Complex64", "Complex128", "UnsafePointer":
		return "KOther", true
	}
	return "", false
}

// X.Kind()  ->  X
func kindCallTarget(e ast.Expr) (string, bool) {
	call, ok := e.(*ast.CallExpr)
	if !ok || len(call.Args) != 0 {
		return "", false
	}
	se, ok := call.Fun.(*ast.SelectorExpr)
	if !ok || se.Sel.Name != "Kind" {
		return "", false
	}
	id, ok := se.X.(*ast.Ident)
	if !ok {
		return "", false
	}
	return id.Name, true
}

// accessor methods used on variable v inside node n
func accessorsOn(n ast.Node, v string) map[string]bool {
	res := map[string]bool{}
	ast.Inspect(n, func(x ast.Node) bool {
		call, ok := x.(*ast.CallExpr)
		if !ok {
			return true
		}
		se, ok := call.Fun.(*ast.SelectorExpr)
		if !ok {
			return true
		}
		id, ok := se.X.(*ast.Ident)
		if !ok || id.Name != v {
			return true
		}
		switch se.Sel.Name {
		case "Int", "Uint", "Float", "String", "Bool":
			res[se.Sel.Name] = true
		}
		return true
	})
	return res
}

func compatible(kind string, acc map[string]bool) bool {
	in := func(l []string) bool {
		for _, k := range l {
			if k == kind {
				return true
			}
		}
		return false
	}
	for a := range acc {
		switch a {
		case "Int":
			if !in(intKinds) {
				return false
			}
		case "Uint":
			if !in(uintKinds) {
				return false
			}
		case "Float":
			if !in(floatKinds) {
				return false
			}
		case "Bool":
			if kind != "KBool" {
				return false
			}
		case "String":
			// Value.String() never panics, but it does not return the value for non-strings
			if kind != "KString" {
				return false
			}
		}
	}
	return true
}

func (t *arithTr) stmts(list []ast.Stmt) string {
	if len(list) == 0 {
		return "(UNTRANSLATED_EMPTY)"
	}
	s := list[0]
	rest := list[1:]
	switch st := s.(type) {
	case *ast.AssignStmt:
		if len(st.Lhs) == len(st.Rhs) {
			var b strings.Builder
			for i := range st.Lhs {
				id, ok := st.Lhs[i].(*ast.Ident)
				if !ok {
					return t.fail(st, "assignment to non-identifier")
				}
				code, ty, guards := t.expr(st.Rhs[i])
				if len(guards) > 0 {
					return t.fail(st, "panicking expression in assignment")
				}
				t.env[id.Name] = ty
				b.WriteString(fmt.Sprintf("let %s := %s in\n", id.Name, code))
			}
			b.WriteString(t.stmts(rest))
			return b.String()
		}
		return t.fail(st, "unsupported assignment shape")
	case *ast.ReturnStmt:
		return t.ret(st)
	case *ast.SwitchStmt:
		return t.sw(st, rest)
	case *ast.IfStmt:
		if st.Init != nil {
			return t.fail(st, "if with init")
		}
		thenS := t.stmts(st.Body.List)
		var elseS string
		if st.Else != nil {
			switch e := st.Else.(type) {
			case *ast.BlockStmt:
				elseS = t.stmts(e.List)
			case *ast.IfStmt:
				elseS = t.stmts(append([]ast.Stmt{e}, rest...))
			}
		} else {
			elseS = t.stmts(rest)
		}
		return t.cond(st.Cond, thenS, elseS)
	}
	return t.fail(s, "unsupported statement %T", s)
}

func (t *arithTr) sw(st *ast.SwitchStmt, rest []ast.Stmt) string {
	if st.Init != nil || st.Tag == nil {
		return t.fail(st, "unsupported switch shape")
	}
	v, ok := kindCallTarget(st.Tag)
	if !ok {
		return t.fail(st, "switch tag is not X.Kind()")
	}
	var b strings.Builder
	b.WriteString(fmt.Sprintf("match kind_of %s with\n", v))
	var def string
	hasDef := false
	for _, c := range st.Body.List {
		cc := c.(*ast.CaseClause)
		saved := map[string]gtype{}
		for k, v := range t.env {
			saved[k] = v
		}
		if cc.List == nil {
			def = t.stmts(cc.Body)
			hasDef = true
			t.env = saved
			continue
		}
		body := t.stmts(cc.Body)
		t.env = saved
		acc := map[string]bool{}
		for _, s := range cc.Body {
			for a := range accessorsOn(s, v) {
				acc[a] = true
			}
		}
		var good, bad []string
		for _, ke := range cc.List {
			k, ok := kindName(ke)
			if !ok {
				return t.fail(ke, "case label is not a reflect kind")
			}
			if compatible(k, acc) {
				good = append(good, k)
			} else {
				bad = append(bad, k)
			}
		}
		if len(good) > 0 {
			b.WriteString("| " + strings.Join(good, " | ") + " =>\n" + body + "\n")
		}
		if len(bad) > 0 {
			// reflect panics when the accessor does not fit the kind
			b.WriteString("| " + strings.Join(bad, " | ") + " => Panic\n")
		}
	}
	if !hasDef {
		def = t.stmts(rest)
	}
	b.WriteString("| _ =>\n" + def + "\nend")
	return b.String()
}

// effectful boolean condition with short-circuit
func (t *arithTr) cond(c ast.Expr, thenS, elseS string) string {
	switch e := c.(type) {
	case *ast.ParenExpr:
		return t.cond(e.X, thenS, elseS)
	case *ast.BinaryExpr:
		if e.Op == token.LAND {
			return t.cond(e.X, t.cond(e.Y, thenS, elseS), elseS)
		}
		if e.Op == token.LOR {
			return t.cond(e.X, thenS, t.cond(e.Y, thenS, elseS))
		}
		if e.Op == token.EQL || e.Op == token.NEQ {
			// X.Type().String() == "time.Time"
			if v, ok := typeStringTarget(e.X); ok {
				if lit, ok := e.Y.(*ast.BasicLit); ok && lit.Value == `"time.Time"` {
					a, b := thenS, elseS
					if e.Op == token.NEQ {
						a, b = elseS, thenS
					}
					return fmt.Sprintf("match type_is_time %s with\n| Ok true =>\n%s\n| Ok false =>\n%s\n| Err => Err\n| Panic => Panic\nend", v, a, b)
				}
				return t.fail(e, "type name test against something else than time.Time")
			}
			// X.Kind() == reflect.K
			if v, ok := kindCallTarget(e.X); ok {
				if k, ok := kindName(e.Y); ok {
					a, b := thenS, elseS
					if e.Op == token.NEQ {
						a, b = elseS, thenS
					}
					return fmt.Sprintf("match kind_of %s with\n| %s =>\n%s\n| _ =>\n%s\nend", v, k, a, b)
				}
			}
		}
	}
	code, ty, guards := t.expr(c)
	if ty != tBool || len(guards) > 0 {
		return t.fail(c, "condition is not a pure boolean")
	}
	return fmt.Sprintf("if %s then\n%s\nelse\n%s", code, thenS, elseS)
}

func typeStringTarget(e ast.Expr) (string, bool) {
	// X.Type().String()
	call, ok := e.(*ast.CallExpr)
	if !ok {
		return "", false
	}
	se, ok := call.Fun.(*ast.SelectorExpr)
	if !ok || se.Sel.Name != "String" {
		return "", false
	}
	call2, ok := se.X.(*ast.CallExpr)
	if !ok {
		return "", false
	}
	se2, ok := call2.Fun.(*ast.SelectorExpr)
	if !ok || se2.Sel.Name != "Type" {
		return "", false
	}
	id, ok := se2.X.(*ast.Ident)
	if !ok {
		return "", false
	}
	return id.Name, true
}

func isNilIdent(e ast.Expr) bool {
	id, ok := e.(*ast.Ident)
	return ok && id.Name == "nil"
}

func (t *arithTr) ret(st *ast.ReturnStmt) string {
	if len(st.Results) != 2 {
		return t.fail(st, "return with %d results", len(st.Results))
	}
	if !isNilIdent(st.Results[1]) {
		// error return: the value is irrelevant to callers
		return "Err"
	}
	// reflect.ValueOf(E), nil
	call, ok := st.Results[0].(*ast.CallExpr)
	if !ok {
		return t.fail(st, "successful return is not reflect.ValueOf(..)")
	}
	se, ok := call.Fun.(*ast.SelectorExpr)
	if !ok || se.Sel.Name != "ValueOf" || len(call.Args) != 1 {
		return t.fail(st, "successful return is not reflect.ValueOf(..)")
	}
	if isNilIdent(call.Args[0]) {
		return "Ok VNil"
	}
	code, ty, guards := t.expr(call.Args[0])
	var wrap string
	switch ty {
	case tI64:
		wrap = "of_i64"
	case tU64:
		wrap = "of_u64"
	case tF64:
		wrap = "of_f64"
	case tStr:
		wrap = "of_str"
	case tBool:
		wrap = "of_bool"
	default:
		return t.fail(st, "cannot wrap a value of type %s", ty)
	}
	out := fmt.Sprintf("Ok (%s (%s))", wrap, code)
	for i := len(guards) - 1; i >= 0; i-- {
		out = fmt.Sprintf("if %s then Panic else %s", guards[i], out)
	}
	return out
}

// returns Gallina code, Go type, and the list of conditions under which the Go expression panics
func (t *arithTr) expr(e ast.Expr) (string, gtype, []string) {
	switch x := e.(type) {
	case *ast.ParenExpr:
		return t.expr(x.X)
	case *ast.Ident:
		if x.Name == "true" || x.Name == "false" {
			return x.Name, tBool, nil
		}
		ty, ok := t.env[x.Name]
		if !ok {
			return t.fail(x, "unknown identifier %s", x.Name), tValue, nil
		}
		return x.Name, ty, nil
	case *ast.UnaryExpr:
		c, ty, g := t.expr(x.X)
		if x.Op == token.NOT && ty == tBool {
			return fmt.Sprintf("negb (%s)", c), tBool, g
		}
		return t.fail(x, "unsupported unary operator %s on %s", x.Op, ty), ty, g
	case *ast.TypeAssertExpr:
		// X.Interface().(time.Time)
		if call, ok := x.X.(*ast.CallExpr); ok {
			if se, ok := call.Fun.(*ast.SelectorExpr); ok && se.Sel.Name == "Interface" {
				if id, ok := se.X.(*ast.Ident); ok {
					if ts, ok := x.Type.(*ast.SelectorExpr); ok && ts.Sel.Name == "Time" {
						return fmt.Sprintf("as_time %s", id.Name), tTime, nil
					}
				}
			}
		}
		return t.fail(x, "unsupported type assertion"), tValue, nil
	case *ast.CallExpr:
		return t.call(x)
	case *ast.BinaryExpr:
		return t.binary(x)
	}
	return t.fail(e, "unsupported expression %T", e), tValue, nil
}

func (t *arithTr) call(x *ast.CallExpr) (string, gtype, []string) {
	// conversions int64(..) float64(..) uint64(..)
	if id, ok := x.Fun.(*ast.Ident); ok && len(x.Args) == 1 {
		c, ty, g := t.expr(x.Args[0])
		switch id.Name {
		case "int64":
			switch ty {
			case tI64:
				return c, tI64, g
			case tU64:
				return fmt.Sprintf("i64_of_u64 (%s)", c), tI64, g
			}
		case "uint64":
			switch ty {
			case tU64:
				return c, tU64, g
			case tI64:
				return fmt.Sprintf("u64_of_i64 (%s)", c), tU64, g
			}
		case "float64":
			switch ty {
			case tF64:
				return c, tF64, g
			case tI64:
				return fmt.Sprintf("f64_of_i64 (%s)", c), tF64, g
			case tU64:
				return fmt.Sprintf("f64_of_u64 (%s)", c), tF64, g
			}
		}
		return t.fail(x, "unsupported conversion %s(%s)", id.Name, ty), tValue, g
	}
	se, ok := x.Fun.(*ast.SelectorExpr)
	if !ok {
		return t.fail(x, "unsupported call"), tValue, nil
	}
	// GetValueElem is a plain function in the same package
	if id, ok := se.X.(*ast.Ident); ok {
		if id.Name == "fmt" && se.Sel.Name == "Sprintf" {
			return t.sprintf(x)
		}
		if ty, bound := t.env[id.Name]; bound && ty == tValue && len(x.Args) == 0 {
			switch se.Sel.Name {
			case "Int":
				return "as_int " + id.Name, tI64, nil
			case "Uint":
				return "as_uint " + id.Name, tU64, nil
			case "Float":
				return "as_float " + id.Name, tF64, nil
			case "String":
				return "as_string " + id.Name, tStr, nil
			case "Bool":
				return "as_bool " + id.Name, tBool, nil
			}
		}
	}
	// methods on time values
	if len(x.Args) == 1 {
		rc, rty, rg := t.expr(se.X)
		if rty == tTime && se.Sel.Name == "Format" {
			return fmt.Sprintf("time_rfc3339 (%s)", rc), tStr, rg
		}
		if rty == tTime {
			ac, aty, ag := t.expr(x.Args[0])
			if aty == tTime {
				g := append(rg, ag...)
				switch se.Sel.Name {
				case "After":
					return fmt.Sprintf("time_after (%s) (%s)", rc, ac), tBool, g
				case "Before":
					return fmt.Sprintf("time_before (%s) (%s)", rc, ac), tBool, g
				case "Equal":
					return fmt.Sprintf("time_equal (%s) (%s)", rc, ac), tBool, g
				}
			}
			if se.Sel.Name == "Format" {
				return fmt.Sprintf("time_rfc3339 (%s)", rc), tStr, rg
			}
		}
	}
	return t.fail(x, "unsupported call %s", se.Sel.Name), tValue, nil
}

func (t *arithTr) sprintf(x *ast.CallExpr) (string, gtype, []string) {
	lit, ok := x.Args[0].(*ast.BasicLit)
	if !ok || lit.Kind != token.STRING {
		return t.fail(x, "Sprintf with a non-literal format"), tStr, nil
	}
	f := lit.Value[1 : len(lit.Value)-1]
	var parts []string
	var guards []string
	argi := 1
	for i := 0; i < len(f); i++ {
		if f[i] == '%' && i+1 < len(f) {
			verb := f[i+1]
			i++
			if argi >= len(x.Args) {
				return t.fail(x, "Sprintf: too few arguments"), tStr, nil
			}
			c, ty, g := t.expr(x.Args[argi])
			argi++
			guards = append(guards, g...)
			switch {
			case verb == 's' && ty == tStr:
				parts = append(parts, "("+c+")")
			case verb == 'd' && (ty == tI64 || ty == tU64):
				parts = append(parts, "fmt_d ("+c+")")
			case verb == 'f' && ty == tF64:
				parts = append(parts, "fmt_f ("+c+")")
			case verb == 'v' && ty == tBool:
				parts = append(parts, "fmt_v_bool ("+c+")")
			default:
				return t.fail(x, "Sprintf: verb %%%c with %s", verb, ty), tStr, nil
			}
		} else {
			j := i
			for j < len(f) && f[j] != '%' {
				j++
			}
			parts = append(parts, fmt.Sprintf("%q%%string", f[i:j]))
			i = j - 1
		}
	}
	return "str_concat [" + strings.Join(parts, "; ") + "]", tStr, guards
}

func (t *arithTr) binary(x *ast.BinaryExpr) (string, gtype, []string) {
	lc, lt, lg := t.expr(x.X)
	rc, rt, rg := t.expr(x.Y)
	g := append(lg, rg...)
	if lt != rt {
		return t.fail(x, "operands of different Go types %s %s", lt, rt), lt, g
	}
	p := func(f string) string { return fmt.Sprintf("%s (%s) (%s)", f, lc, rc) }
	cmpZ := map[token.Token]string{token.GTR: "Z.gtb", token.LSS: "Z.ltb", token.GEQ: "Z.geb", token.LEQ: "Z.leb", token.EQL: "Z.eqb"}
	switch lt {
	case tI64, tU64:
		pre := "i64"
		if lt == tU64 {
			pre = "u64"
		}
		switch x.Op {
		case token.ADD:
			return p(pre + "_add"), lt, g
		case token.SUB:
			return p(pre + "_sub"), lt, g
		case token.MUL:
			return p(pre + "_mul"), lt, g
		case token.REM:
			return p(pre + "_rem"), lt, append(g, fmt.Sprintf("Z.eqb (%s) 0", rc))
		case token.AND:
			return p(pre + "_and"), lt, g
		case token.OR:
			return p(pre + "_or"), lt, g
		case token.NEQ:
			return "negb (" + p("Z.eqb") + ")", tBool, g
		}
		if f, ok := cmpZ[x.Op]; ok {
			return p(f), tBool, g
		}
	case tF64:
		m := map[token.Token]string{token.ADD: "PrimFloat.add", token.SUB: "PrimFloat.sub", token.MUL: "PrimFloat.mul", token.QUO: "PrimFloat.div"}
		if f, ok := m[x.Op]; ok {
			return p(f), tF64, g
		}
		c := map[token.Token]string{token.GTR: "f_gt", token.LSS: "f_lt", token.GEQ: "f_ge", token.LEQ: "f_le", token.EQL: "f_eq", token.NEQ: "f_ne"}
		if f, ok := c[x.Op]; ok {
			return p(f), tBool, g
		}
	case tStr:
		c := map[token.Token]string{token.GTR: "s_gt", token.LSS: "s_lt", token.GEQ: "s_ge", token.LEQ: "s_le", token.EQL: "s_eq", token.NEQ: "s_ne"}
		if f, ok := c[x.Op]; ok {
			return p(f), tBool, g
		}
		if x.Op == token.ADD {
			return fmt.Sprintf("((%s) ++ (%s))%%string", lc, rc), tStr, g
		}
	case tBool:
		switch x.Op {
		case token.LAND:
			return p("andb"), tBool, g
		case token.LOR:
			return p("orb"), tBool, g
		case token.EQL:
			return p("Bool.eqb"), tBool, g
		case token.NEQ:
			return "negb (" + p("Bool.eqb") + ")", tBool, g
		}
	case tTime:
		switch x.Op {
		case token.EQL:
			return p("time_struct_eqb"), tBool, g
		case token.NEQ:
			return "negb (" + p("time_struct_eqb") + ")", tBool, g
		}
	}
	return t.fail(x, "unsupported operator %s on %s", x.Op, lt), lt, g
}

var cmpFuncs = map[string]bool{"EvaluateGreaterThan": true, "EvaluateLesserThan": true, "EvaluateGreaterThanEqual": true,
	"EvaluateLesserThanEqual": true, "EvaluateEqual": true, "EvaluateNotEqual": true}

func genCmp(repo string) (string, []string)   { return genArithSel(repo, true) }
func genArith(repo string) (string, []string) { return genArithSel(repo, false) }

func genArithSel(repo string, cmp bool) (string, []string) {
	fset := token.NewFileSet()
	f, err := parser.ParseFile(fset, repo+"/pkg/reflectmath.go", nil, 0)
	if err != nil {
		return "", []string{err.Error()}
	}
	var out strings.Builder
	out.WriteString("(* GENERATED by tools/go2coq from pkg/reflectmath.go — do not edit. *)\n")
	out.WriteString("From Coq Require Import Floats.\nFrom Grule Require Import Base Values.\nOpen Scope Z_scope.\n\n")
	var errs []string
	var names []string
	for _, d := range f.Decls {
		fd, ok := d.(*ast.FuncDecl)
		if !ok || fd.Recv != nil || !strings.HasPrefix(fd.Name.Name, "Evaluate") || cmpFuncs[fd.Name.Name] != cmp {
			continue
		}
		t := &arithTr{fset: fset, env: map[string]gtype{}}
		var params []string
		for _, fl := range fd.Type.Params.List {
			for _, n := range fl.Names {
				params = append(params, n.Name)
				t.env[n.Name] = tValue
			}
		}
		// the first statement is `left, right = GetValueElem(left), GetValueElem(right)`
		body := fd.Body.List
		var pre strings.Builder
		if as, ok := body[0].(*ast.AssignStmt); ok && as.Tok == token.ASSIGN {
			for i := range as.Lhs {
				id, ok1 := as.Lhs[i].(*ast.Ident)
				call, ok2 := as.Rhs[i].(*ast.CallExpr)
				if !ok1 || !ok2 {
					t.fail(as, "unexpected first statement")
					continue
				}
				fn, ok3 := call.Fun.(*ast.Ident)
				arg, ok4 := call.Args[0].(*ast.Ident)
				if !ok3 || !ok4 || fn.Name != "GetValueElem" || arg.Name != id.Name {
					t.fail(as, "unexpected first statement")
					continue
				}
				pre.WriteString(fmt.Sprintf("let %s := get_value_elem %s in\n", id.Name, id.Name))
			}
			body = body[1:]
		}
		code := t.stmts(body)
		out.WriteString(fmt.Sprintf("Definition %s (%s : val) : res val :=\n%s%s.\n\n", fd.Name.Name, strings.Join(params, " "), pre.String(), code))
		errs = append(errs, t.errs...)
		names = append(names, fd.Name.Name)
	}
	sort.Strings(names)
	if cmp {
		out.WriteString("Definition cmp_functions : list string := [" + quoteList(names) + "].\n")
	} else {
		out.WriteString("Definition arith_functions : list string := [" + quoteList(names) + "].\n")
	}
	return out.String(), errs
}

func quoteList(l []string) string {
	var q []string
	for _, s := range l {
		q = append(q, fmt.Sprintf("%q%%string", s))
	}
	return strings.Join(q, "; ")
}
