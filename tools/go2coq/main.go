// go2coq regenerates the Gallina files under coq/gen from /repo's current
// working tree (DESIGN §4.1).  Exit status 0: all files written (only when
// their content changed).  Exit status 3: some source no longer has the shape
// a translator understands; the messages are printed and written to
// <out>/TRANSLATE_ERRORS.txt, and the affected file contains UNTRANSLATED
// markers that make its compilation fail.
package main

import (
	"flag"
	"fmt"
	"os"
	"path/filepath"
	"strings"
)

func writeIfChanged(path, content string) bool {
	old, err := os.ReadFile(path)
	if err == nil && string(old) == content {
		return false
	}
	if err := os.WriteFile(path, []byte(content), 0o644); err != nil {
		fmt.Fprintln(os.Stderr, err)
		os.Exit(2)
	}
	return true
}

type generator struct {
	file string
	fn   func(repo string) (string, []string)
}

func main() {
	repo := flag.String("repo", "/repo", "repository root")
	out := flag.String("out", "coq/gen", "output directory")
	flag.Parse()
	os.MkdirAll(*out, 0o755)
	gens := []generator{
		{"CmpGen.v", genCmp},
		{"ArithGen.v", genArith},
		{"ValuesGen.v", genValuesTab},
		{"EngineGen.v", genEngineTab},
		{"OpsGen.v", genOpsTab},
		{"SitesGen.v", genSites},
		{"CodecGen.v", genCodec},
	}
	var allErrs []string
	for _, g := range gens {
		content, errs := g.fn(*repo)
		for _, e := range errs {
			allErrs = append(allErrs, g.file+": "+e)
		}
		changed := writeIfChanged(filepath.Join(*out, g.file), content)
		fmt.Printf("go2coq: %s %s (%d problems)\n", g.file, map[bool]string{true: "written", false: "unchanged"}[changed], len(errs))
	}
	errPath := filepath.Join(*out, "TRANSLATE_ERRORS.txt")
	if len(allErrs) > 0 {
		os.WriteFile(errPath, []byte(strings.Join(allErrs, "\n")+"\n"), 0o644)
		for _, e := range allErrs {
			fmt.Println("go2coq: PROBLEM " + e)
		}
		os.Exit(3)
	}
	os.Remove(errPath)
}
