#!/bin/sh
# seedsweep.sh: apply every seeded change to /repo in turn, run the check of its property, undo it, and record what the
# check reported in seeded/<id>/detected.json (layers: oracle = direct oracle on the implementation with a replay,
# correspondence = model/implementation mismatches, proof = broken obligation / anchor).
cd /verif
# optional arguments: the seed directories to run (default: all)
for d in ${*:-seeded/C*-m*}; do
  id=$(basename $d); prop=${id%-*}
  patch=$d/patch.diff
  [ -f $d/patch_recreated.diff ] && patch=$d/patch_recreated.diff
  if ! git -C /repo apply --check $(readlink -f $patch) 2>/dev/null; then
    echo "$id: patch does not apply on the current tree"; python3 - "$d" <<'PY'
import json,sys
json.dump({"applies": False, "note": "the patch was made before later fix commits touched the same lines; see patch_recreated.diff if present"}, open(sys.argv[1]+"/detected.json","w"), indent=1)
PY
    continue
  fi
  tools/seedtest.sh $patch $prop > run/seedsweep_$id.log 2>&1
  python3 - "$d" "$prop" run/seedsweep_$id.log <<'PY'
import json,sys,re
d,prop,log=sys.argv[1:4]
t=open(log).read()
m=re.search(r"prove: ok=(\w+)",t); c=re.search(r"correspondence: ok=(\w+) cases=(\d+) shards=\d+ mismatches=(\d+)",t); o=re.search(r"oracle: (\d+) failing scenario\(s\); first: (.*)",t)
v=re.search(r"^VIOLATION.*$",t,re.M)
out={"applies": True, "check": "./check %s quick" % prop, "violation_line": v.group(0) if v else None,
     "layers": {"proof_broken": bool(m and m.group(1)=="False"), "correspondence_mismatches": int(c.group(3)) if c else None, "oracle_failures": int(o.group(1)) if o else 0},
     "first_oracle_message": (o.group(2)[:300] if o else None), "detected": bool(v)}
json.dump(out, open(d+"/detected.json","w"), indent=1)
print(d, "DETECTED" if v else "MISSED", out["layers"])
PY
done
